#!/bin/sh
# Build the checker from files on disk only (offline).
set -e
cd "$(dirname "$0")"
export GOFLAGS=-mod=mod GOPROXY=off GOSUMDB=off GOTOOLCHAIN=local CGO_ENABLED=0
unset GOWORK
mkdir -p bin evidence
if [ -d checker ]; then
  (cd checker && go build -o ../bin/lowcheck .)
fi
