package main

import (
	"fmt"
	"os"
	"time"
)

var t0 = time.Now()

func dbgTime(what string) {
	if os.Getenv("LOWCHECK_TIMING") != "" {
		fmt.Fprintf(os.Stderr, "[%6.2fs] %s\n", time.Since(t0).Seconds(), what)
	}
}
