package main

import (
	"fmt"
	"go/token"
	"strings"

	"golang.org/x/tools/go/ssa"
)

// popWidth: call is OnesCountW(uintW(x)) or OnesCount64(x & (2^W-1)); returns W and x.
func popWidth(call *ssa.Call) (int64, ssa.Value, bool) {
	name := calleeName(call.Common())
	if !strings.HasPrefix(name, "math/bits.OnesCount") {
		return 0, nil, false
	}
	arg := call.Common().Args[0]
	switch name {
	case "math/bits.OnesCount32", "math/bits.OnesCount16", "math/bits.OnesCount8":
		var wd int64
		fmt.Sscan(strings.TrimPrefix(name, "math/bits.OnesCount"), &wd)
		if cv, ok := arg.(*ssa.Convert); ok {
			return wd, cv.X, true
		}
		return wd, arg, true
	case "math/bits.OnesCount64":
		if x, j, ok := asLowMask(arg); ok {
			return int64(j), x, true
		}
	}
	return 0, nil, false
}

func runC02(c *Ctx, w *World, r *Report) {
	names := []string{"bitmap.IndexSelect32", "bitmap.Select32", "bitmap.IndexSelect32R64", "bitmap.Select32R64", "bitmap.IndexRank64"}
	fns, ok := requireFuncs(w, r, names...)
	ReportMaskWord(w, r, names...)
	ReportTableWidth(w, r)
	ReportScale(w, r, names[:4]...)
	ReportPair(w, r, names[:4]...)
	refs := ReportBitRefs(w, r, names[:4]...)
	reportFresh(w, r, "bitmap.IndexSelect32", "bitmap.IndexSelect32R64")
	if !ok {
		return
	}
	r.Rule("R-BUILDER", "the select-index builders scan bit i = 0,1,.. while i < 64*len(words) exactly; a counter starts at -1 and is incremented exactly under bit != 0; the position appended is that same i and it is appended exactly when (incremented counter) & 31 == 0, i.e. for the 0th, 32nd, 64th ... 1-bit")
	r.Rule("R-STRIDE32", "writer/reader agreement: the builders record every 2^5-th one (counter & 31) and the readers index the select index with i>>5 and take i&31 as the in-block rank: the same 5 everywhere")
	r.Rule("R-SAMEARG", "IndexSelect32R64 returns IndexRank64(words, true) of the same words as its second result (Select32R64 reads rankIndex[word+1], which needs the trailing total)")
	r.Rule("R-WPC1", "the (i+1)-th one's position base + TrailingZeros64(w) needs base = 0 (mod 64) and base>>6 equal to the index of the word w was loaded from")
	r.Rule("R-WPC2", "the zero count is taken only under w != 0")
	r.Rule("R-NEXTMASK", "the word searched for the next 1 inside the selected word keeps only bits above the selected position: w &^ MaskUpto[a&63] or w & RMaskUpto[a&63] with a the position returned first")
	r.Rule("R-NOTFOUND", "when no further 1 exists the second result is 64*len(words); every other second result is a word-scan position")
	r.Rule("R-HALVING", "each step of the in-word search that tests popcount of the low W bits (W = 32, 16, 8) skips exactly W bits on its taken edge: offset |= W (or += W) and word >>= W with the same W")
	r.Rule("R-RANKSKIP", "Select32R64 advances the word while rankIndex[word+1] <= i and then searches for the (i - rankIndex[word])-th one of that word")

	// the rank index Select32R64 walks is built by IndexRank64 (R-SAMEARG): its builder rules are part of this property
	reportRankBuilders(w, r, fns, "bitmap.IndexRank64")

	// ---- R-BUILDER
	builderMask := map[string]int{}
	for _, n := range []string{"bitmap.IndexSelect32", "bitmap.IndexSelect32R64"} {
		fn := fns[n]
		fa := w.FA(fn)
		bad := ""
		var rd *BitRef
		for i := range refs[n] {
			if refs[n][i].Role == "words" && refs[n][i].Use != nil {
				rd = &refs[n][i]
			}
		}
		// IndexSelect32R64 may hand the select index to IndexSelect32 (whose builder rule stands for it) instead of
		// repeating the scan: every first result is IndexSelect32(words) of the same words
		if n == "bitmap.IndexSelect32R64" && rd == nil {
			deleg := len(returnsOf(fn)) > 0
			for _, ret := range returnsOf(fn) {
				for _, src := range resolvePhi(ret.Results[0]) {
					call, ok := src.(*ssa.Call)
					if !ok || call.Common().StaticCallee() != fns["bitmap.IndexSelect32"] || len(call.Common().Args) != 1 || call.Common().Args[0] != ssa.Value(fn.Params[0]) {
						deleg = false
					}
				}
			}
			if deleg {
				if j, ok := builderMask["bitmap.IndexSelect32"]; ok {
					builderMask[n] = j
				}
				r.OK("R-BUILDER", n, w.Pos(fn.Pos()), "first result is IndexSelect32(words) of the same words")
				continue
			}
		}
		if rd == nil {
			r.Bad("R-BUILDER", n, w.Pos(fn.Pos()), "no bit test on words")
			continue
		}
		iv, ok := fa.InductionOf(rd.Pos, rd.Ins.Block())
		if !ok || !iv.FirstConst || iv.First != 0 || iv.Step != 1 {
			bad = "tested position does not run 0,1,2,..."
		} else {
			lim := linConst(0).addScaled(linAtom("call:builtin len(p0)"), 64)
			bd := fa.BoundsAt(rd.Ins.Block(), rd.PosLin.Sub(lim))
			if !(bd.HasHi && bd.Hi == -1) {
				bad = "tested position is not bounded by i < 64*len(words) exactly: " + bd.String()
			}
		}
		bitSet := func(conds []Cond) bool {
			if bitKnownSet(conds, rd) {
				return true
			}
			return false
		}
		napp := 0
		eachInstr(fn, func(ins ssa.Instruction) {
			call, ok := ins.(*ssa.Call)
			if !ok {
				return
			}
			vals := appendedValues(call)
			if len(vals) != 1 {
				return
			}
			napp++
			if !fa.Lin(vals[0]).Eq(rd.PosLin) {
				bad = "the position recorded is " + fa.Lin(vals[0]).String() + ", not the tested bit position " + rd.PosLin.String()
			}
			conds := fa.Conds(call.Block())
			if !bitSet(conds) {
				bad = "a position is recorded without its bit being set"
			}
			// (counter') & m == 0
			okCnt := false
			for _, cd := range conds {
				bo, ok := cd.V.(*ssa.BinOp)
				if !ok || !(bo.Op == token.EQL && cd.Pol || bo.Op == token.NEQ && !cd.Pol) {
					continue
				}
				if k, ok := constInt64(stripConv(bo.Y)); !ok || k != 0 {
					continue
				}
				x, j, ok := asLowMask(bo.X)
				if !ok {
					continue
				}
				builderMask[n] = j
				// x = counter + 1 with counter a loop phi starting at -1, incremented exactly under bit set
				L := fa.Lin(x)
				for atom, coef := range L.T {
					ph, ok := fa.AtomValue(atom).(*ssa.Phi)
					if !ok || coef != 1 || len(L.T) != 1 {
						continue
					}
					// value tested must be the incremented counter: first recorded one is the 0th
					initOK, incOK := false, false
					for k2, e := range ph.Edges {
						pred := ph.Block().Preds[k2]
						if !ph.Block().Dominates(pred) {
							if kk, ok := constInt64(stripConv(e)); ok && kk+L.K == 0 {
								initOK = true
							}
							continue
						}
						for _, lf := range fa.leavesOf(e, pred, 0) {
							d := fa.Lin(lf.V).Sub(fa.Lin(ph))
							if d.IsConst() && d.K == 1 {
								if bitSet(lf.Conds) {
									incOK = true
								} else {
									bad = "the ones counter is incremented on an edge where the bit is not set"
								}
							} else if d.IsConst() && d.K == 0 {
								if bitSet(lf.Conds) {
									bad = "the ones counter is not incremented for a set bit"
								}
							} else {
								bad = "unexpected counter update " + fa.Lin(lf.V).String()
							}
						}
					}
					if initOK && incOK {
						okCnt = true
					} else if bad == "" {
						bad = fmt.Sprintf("the value tested is %s: the counter must make the first 1-bit number 0 (start -1, test after increment)", L)
					}
				}
			}
			if !okCnt && bad == "" {
				bad = "no (ones counter & 2^k-1) == 0 test guards the append"
			}
		})
		if napp < 1 && bad == "" {
			bad = "nothing is appended"
		}
		r.Check(bad == "", "R-BUILDER", n, w.Pos(fn.Pos()), bad, "append(i) under bit(i) set and (count of ones so far) % 32 == 0, i in [0, 64*len(words))")
	}
	// ---- R-STRIDE32
	for _, rn := range []string{"bitmap.Select32", "bitmap.Select32R64"} {
		fn := fns[rn]
		bad := ""
		shifts := readerShifts(fn, "selectIndex")
		if len(shifts) == 0 {
			bad = "selectIndex is never consulted"
		}
		for _, bn := range []string{"bitmap.IndexSelect32", "bitmap.IndexSelect32R64"} {
			j, ok := builderMask[bn]
			if !ok {
				continue
			}
			for _, s := range shifts {
				if s != j {
					bad = fmt.Sprintf("%s records every 2^%d-th one but %s indexes selectIndex with i>>%d", bn, j, rn, s)
				}
			}
		}
		// the index into selectIndex is the rank parameter i
		for _, s := range elemSites(fn, "selectIndex") {
			if x, _, ok := asShiftRight(s.Index); ok && stripConv(x) != ssa.Value(fn.Params[len(fn.Params)-1]) {
				bad = "selectIndex is not indexed by the requested rank i"
			}
		}
		r.Check(bad == "", "R-STRIDE32", rn, w.Pos(fn.Pos()), bad, fmt.Sprintf("selectIndex[i>>%v]; builders use & %d", shifts, (1<<uint(builderMask["bitmap.IndexSelect32"]))-1))
	}
	// ---- R-SAMEARG
	{
		n := "bitmap.IndexSelect32R64"
		fn := fns[n]
		bad := ""
		for _, ret := range returnsOf(fn) {
			call, ok := ret.Results[1].(*ssa.Call)
			if !ok || call.Common().StaticCallee() != fns["bitmap.IndexRank64"] {
				bad = "second result is not IndexRank64(...)"
				continue
			}
			if call.Common().Args[0] != ssa.Value(fn.Params[0]) {
				bad = "the rank index is built from other words"
			}
			opts := sprintfArgs(call)
			okT := false
			for _, o := range opts {
				if cst, ok := o.(*ssa.Const); ok && cst.Value != nil && cst.Value.String() == "true" {
					okT = true
				}
			}
			if !okT {
				bad = "IndexRank64 is not asked for the trailing total entry (true)"
			}
		}
		r.Check(bad == "", "R-SAMEARG", n, w.Pos(fn.Pos()), bad, "return sidx, IndexRank64(words, true)")
	}
	// ---- E5 on the next-one result, R-NOTFOUND, R-NEXTMASK, R-HALVING
	for _, rn := range []string{"bitmap.Select32", "bitmap.Select32R64"} {
		fn := fns[rn]
		fa := w.FA(fn)
		k := checkWordPositions(w, r, fn, rn, 1, "words")
		if k < 2 {
			r.Bad("R-WPC1", rn+"|sites", w.Pos(fn.Pos()), fmt.Sprintf("expected 2 next-one position sites (same word, following words), found %d", k))
		}
		bad := ""
		lim := linConst(0).addScaled(linAtom("call:builtin len(p0)"), 64)
		nnf := 0
		var firstVN string
		for _, ret := range returnsOf(fn) {
			firstVN = fa.VN(stripConv(ret.Results[0]))
			for _, src := range resolvePhi(ret.Results[1]) {
				L := fa.Lin(src)
				hasTZ := false
				for atom := range L.T {
					if call, ok := fa.AtomValue(atom).(*ssa.Call); ok && strings.HasPrefix(calleeName(call.Common()), "math/bits.TrailingZeros") {
						hasTZ = true
					}
				}
				if hasTZ {
					continue
				}
				nnf++
				if !L.Eq(lim) {
					bad = "second result without a next 1 is " + L.String() + ", expected 64*len(words)"
				}
			}
		}
		if nnf == 0 && bad == "" {
			bad = "no not-found result 64*len(words)"
		}
		r.Check(bad == "", "R-NOTFOUND", rn, w.Pos(fn.Pos()), bad, "second result in {word-scan position, 64*len(words)}")

		// R-NEXTSCAN: the scan of the following words starts right after the selected word
		{
			badS := ""
			nscan := 0
			var res0 ssa.Value
			for _, ret := range returnsOf(fn) {
				res0 = ret.Results[0]
			}
			eachInstr(fn, func(ins ssa.Instruction) {
				call, ok := ins.(*ssa.Call)
				if !ok || !strings.HasPrefix(calleeName(call.Common()), "math/bits.TrailingZeros") {
					return
				}
				b := stripMasks(call.Common().Args[0], "words")
				_, idx, ok := asElemLoad(b)
				if !ok {
					return
				}
				iv, ok := fa.InductionOf(idx, call.Block())
				if !ok {
					return
				}
				// only a scan whose zero count sits inside the loop body: on the taken edge of the loop-header test
				inLoop := false
				for _, cd := range fa.Conds(call.Block()) {
					if cd.If.Block() == iv.Phi.Block() && len(cd.If.Block().Succs) == 2 {
						taken := cd.If.Block().Succs[0]
						if !cd.Pol {
							taken = cd.If.Block().Succs[1]
						}
						// the taken successor leads back to the header (loop body)
						if fa.Reaches(taken, iv.Phi.Block()) {
							inLoop = true
						}
					}
				}
				if !inLoop {
					return
				}
				nscan++
				if iv.Step != 1 {
					badS = "the next-1 scan does not advance word by word"
				}
				first := iv.FirstLin.Add(linConst(-1))
				okStart := false
				if v := fa.AtomValueOfLin(first); v != nil {
					if x, c, ok := asShiftRight(v); ok && c == 6 && res0 != nil && fa.VN(stripConv(x)) == fa.VN(stripConv(res0)) {
						okStart = true
					}
					if res0 != nil {
						for atom := range first.T {
							if fa.Lin(res0).T[atom] == 64 {
								okStart = true
							}
						}
					}
				}
				if !okStart {
					badS = "the scan for the next 1 starts at word " + iv.FirstLin.String() + ", expected (word of the selected bit) + 1"
				}
				lim := linAtom("call:builtin len(p0)")
				if !iv.HasN || !iv.N.Eq(lim) {
					badS = "the scan for the next 1 does not run to the last word"
				}
			})
			if nscan == 0 {
				badS = "no word-by-word scan for the next 1 found"
			}
			r.Rule("R-NEXTSCAN", "the scan for the (i+1)-th one over the following words starts at the word right after the selected bit's word, advances by one word and runs to len(words)")
			r.Check(badS == "", "R-NEXTSCAN", rn, w.Pos(fn.Pos()), badS, "words (a>>6)+1 .. len(words)-1")
		}

		// R-NEXTMASK
		badM := ""
		found := false
		eachInstr(fn, func(ins ssa.Instruction) {
			bo, ok := ins.(*ssa.BinOp)
			if !ok || (bo.Op != token.AND && bo.Op != token.AND_NOT) {
				return
			}
			for _, side := range [2][2]ssa.Value{{bo.X, bo.Y}, {bo.Y, bo.X}} {
				m := side[1]
				inv := bo.Op == token.AND_NOT && m == bo.Y
				ms, ok := fa.MaskOf(m)
				if !ok || (ms.Kind != "low" && ms.Kind != "high") {
					continue
				}
				if inv {
					ms.Kind = complementKind(ms.Kind)
				}
				// which position does the mask speak about: N = (a&63)+1 ("above a") or N = a&63 ("from a on")
				atA := func(L Lin) bool {
					v := fa.AtomValueOfLin(L)
					if v == nil {
						return false
					}
					x, j, ok := asLowMask(v)
					return ok && j == 6 && fa.VN(stripConv(x)) == firstVN
				}
				above, from := atA(ms.N.Add(linConst(-1))), atA(ms.N)
				if !above && !from {
					continue // the mask applied at the select-index base (Mask[base&63]) is another site
				}
				found = true
				if !(above && ms.Kind == "high") {
					badM = fmt.Sprintf("the selected word is masked with the %s side of bit %s (%s) at the selected position: the next-1 search must keep exactly the bits above it (&^ MaskUpto / & RMaskUpto)", ms.Kind, ms.N.String(), ms.Via)
				}
			}
		})
		if !found && badM == "" {
			badM = "no mask at the selected position a&63 found before the next-1 search"
		}
		r.Check(badM == "", "R-NEXTMASK", rn, w.Pos(fn.Pos()), badM, "w keeps bits above a: MaskUpto/RMaskUpto[a&63]")

		// R-HALVING
		badH := ""
		nstep := 0
		eachInstr(fn, func(ins ssa.Instruction) {
			call, ok := ins.(*ssa.Call)
			if !ok {
				return
			}
			W, src, ok := popWidth(call)
			if !ok || W >= 64 || W < 16 {
				return // the 8-bit step ends in the table lookup
			}
			// the If using it
			if call.Referrers() == nil {
				return
			}
			for _, ref := range *call.Referrers() {
				cmp, ok := ref.(*ssa.BinOp)
				if !ok {
					continue
				}
				var ifi *ssa.If
				for _, r2 := range *cmp.Referrers() {
					if x, ok := r2.(*ssa.If); ok {
						ifi = x
					}
				}
				if ifi == nil {
					continue
				}
				// taken edge: ones <= findIth
				takenIdx := -1
				switch {
				case cmp.Op == token.LEQ && cmp.X == ssa.Value(call), cmp.Op == token.GEQ && cmp.Y == ssa.Value(call):
					takenIdx = 0
				case cmp.Op == token.GTR && cmp.X == ssa.Value(call), cmp.Op == token.LSS && cmp.Y == ssa.Value(call):
					takenIdx = 1
				default:
					continue
				}
				nstep++
				tb := ifi.Block().Succs[takenIdx]
				okShift, okOff := false, false
				for _, i2 := range tb.Instrs {
					b2, ok := i2.(*ssa.BinOp)
					if !ok {
						continue
					}
					kc, isC := constInt64(stripConv(b2.Y))
					if !isC {
						continue
					}
					switch b2.Op {
					case token.SHR:
						if fa.VN(stripConv(b2.X)) == fa.VN(stripConv(src)) {
							if kc == W {
								okShift = true
							} else {
								badH = fmt.Sprintf("the step testing the low %d bits shifts the word by %d at %s", W, kc, w.InstrPos(i2))
							}
						}
					case token.XOR:
						// offset ^= W is offset |= W when bit W cannot be set yet (each step sets its own bit, once)
						if pb, known := possibleBits(b2.X, 0); isPositionType(b2.Type()) && known && pb&uint64(kc) == 0 && kc == W {
							okOff = true
						}
					case token.OR, token.ADD:
						if isPositionType(b2.Type()) && (kc == 32 || kc == 16 || kc == 8 || kc == 15 || kc == 31 || kc == 33 || kc == 17) {
							if kc == W {
								okOff = true
							} else {
								badH = fmt.Sprintf("the step testing the low %d bits advances the offset by %d at %s", W, kc, w.InstrPos(i2))
							}
						}
					}
				}
				// offset = W where the offset is still 0 (the first step): the merge takes W from the taken edge and the
				// untouched 0 from the other
				if !okOff && len(tb.Succs) == 1 {
					for _, ji := range tb.Succs[0].Instrs {
						ph, isPhi := ji.(*ssa.Phi)
						if !isPhi {
							break
						}
						if !isPositionType(ph.Type()) {
							continue
						}
						gotW, restZero := false, true
						for k, e := range ph.Edges {
							if tb.Succs[0].Preds[k] == tb {
								if c, isC := constInt64(stripConv(e)); isC && c == W {
									gotW = true
								}
								continue
							}
							if pb, known := possibleBits(e, 0); !known || pb != 0 {
								restZero = false
							}
						}
						if gotW && restZero {
							okOff = true
						}
					}
				}
				if !(okShift && okOff) && badH == "" {
					badH = fmt.Sprintf("the step testing the low %d bits does not both shift the word and advance the offset by %d on its taken edge", W, W)
				}
			}
		})
		if nstep < 2 && badH == "" {
			badH = fmt.Sprintf("expected the 32- and 16-bit halving steps, found %d", nstep)
		}
		r.Check(badH == "", "R-HALVING", rn, w.Pos(fn.Pos()), badH, fmt.Sprintf("%d halving steps, each with equal popcount width, shift and offset", nstep))
	}
	// ---- R-SELRESULT
	r.Rule("R-SELRESULT", "every value Select32 / Select32R64 return as the position of the i-th one is 64*K + in-word offset, the offset being exactly one byte lookup in the package's select table plus the widths skipped by the halving steps: a position produced any other way (e.g. a shortcut that adds the remaining rank to the check point) is not tied to the word whose popcount prefix contains i")
	for _, rn := range []string{"bitmap.Select32", "bitmap.Select32R64"} {
		fn := fns[rn]
		fa := w.FA(fn)
		bad := ""
		nsrc := 0
		for _, ret := range returnsOf(fn) {
			if len(ret.Results) != 2 {
				continue
			}
			for _, L := range fa.LinAlts(ret.Results[0], 16) {
				nsrc++
				nLook, has64 := 0, false
				for atom, cf := range L.T {
					if tab, _, ok := asElemLoad(fa.AtomValue(atom)); ok && isGlobal(tab, "bitmap", "select8Lookup") {
						if cf == 1 {
							nLook++
						} else {
							nLook = -100
						}
						continue
					}
					if cf == 64 {
						has64 = true
					}
				}
				if nLook != 1 || !has64 {
					bad = fmt.Sprintf("a returned position of the i-th one is %s at %s: not 64*word + select-table offset", L, w.InstrPos(ret))
				}
			}
		}
		if nsrc == 0 && bad == "" {
			bad = "no returned position found"
		}
		r.Check(bad == "", "R-SELRESULT", rn, w.Pos(fn.Pos()), bad, fmt.Sprintf("%d result sources, each 64*word + select8Lookup[..] + skipped widths", nsrc))
	}
	// ---- R-RANKSKIP
	{
		n := "bitmap.Select32R64"
		fn := fns[n]
		fa := w.FA(fn)
		bad := ""
		iP := fa.Lin(fn.Params[3])
		// loop condition
		okLoop, okFind := false, false
		var wordPhi string
		for pass := 0; pass < 2; pass++ {
			eachInstr(fn, func(ins ssa.Instruction) {
				bo, ok := ins.(*ssa.BinOp)
				if !ok {
					return
				}
				if op, isCmp := tokOp(bo.Op); isCmp && pass == 0 {
					for _, side := range [2][2]ssa.Value{{bo.X, bo.Y}, {bo.Y, bo.X}} {
						cont, idx, ok := asElemLoad(side[0])
						if !ok || containerRole(cont) != "rankIndex" || !fa.Lin(side[1]).Eq(iP) {
							continue
						}
						if side[0] == bo.Y {
							op = flipOp(op)
						}
						L := fa.Lin(idx)
						if L.K == 1 && len(L.T) == 1 && op == opLE {
							for atom := range L.T {
								if _, ok := fa.AtomValue(atom).(*ssa.Phi); ok {
									okLoop = true
									wordPhi = atom
								}
							}
						} else {
							bad = fmt.Sprintf("the word skip tests rankIndex[%s] %s i, expected rankIndex[word+1] <= i", L, op)
						}
					}
				}
				if pass == 1 && bo.Op == token.SUB && fa.Lin(bo.X).Eq(iP) {
					if cont, idx, ok := asElemLoad(bo.Y); ok && containerRole(cont) == "rankIndex" {
						L := fa.Lin(idx)
						if wordPhi != "" && L.Eq(linAtom(wordPhi)) {
							okFind = true
						} else {
							bad = "in-word rank is i - rankIndex[" + L.String() + "], expected the selected word"
						}
					}
				}
			})
		}
		if !(okLoop && okFind) && bad == "" {
			bad = fmt.Sprintf("expected `rankIndex[word+1] <= i` skip loop (%v) and findIth = i - rankIndex[word] (%v)", okLoop, okFind)
		}
		r.Check(bad == "", "R-RANKSKIP", n, w.Pos(fn.Pos()), bad, "for rankIndex[word+1] <= i: word++; findIth = i - rankIndex[word]")
	}
}

func init() {
	register(&Prop{
		ID: "C02", Level: "other",
		Explain: "Structural necessary conditions of exact select (DESIGN.md 5/C02): unit consistency (E4), same-position bit tests, the builders' scan range / ones counter / recorded position / every-32nd test, builder-reader stride agreement (5 bits), the rank index returned alongside, word/position coherence of the next-1 result (E5), the not-found value, the mask keeping bits above the selected one, equal width/shift/offset in each halving step, Select32R64's rank-guided word skip.",
		NotDec:  []string{"the final 8-bit table lookup (select8Lookup is built by an init loop) and the arithmetic of the in-word search as a whole", "that skipping whole words by popcount lands on the right word in Select32"},
		Trusted: []string{"go/ssa construction", "math/bits popcount / TrailingZeros64"},
		Quick:   []Config{cfgDefault, cfg386}, Thorough: []Config{cfgDefault, cfg386},
		Run: runC02,
	})
}

// possibleBits: an over-approximation of the bits that can be set in v, for values built from constants by merges,
// |, ^, & and + of operands with disjoint bits. known is false when v is anything else.
func possibleBits(v ssa.Value, depth int) (uint64, bool) {
	v = stripConv(v)
	if depth > 6 {
		return 0, false
	}
	if k, ok := constUint64(v); ok {
		return k, true
	}
	switch x := v.(type) {
	case *ssa.Phi:
		if isLoopHeaderPhi(x) {
			return 0, false
		}
		var all uint64
		for _, e := range x.Edges {
			b, ok := possibleBits(e, depth+1)
			if !ok {
				return 0, false
			}
			all |= b
		}
		return all, true
	case *ssa.BinOp:
		a, ok1 := possibleBits(x.X, depth+1)
		b, ok2 := possibleBits(x.Y, depth+1)
		switch x.Op {
		case token.OR, token.XOR:
			if ok1 && ok2 {
				return a | b, true
			}
		case token.ADD:
			if ok1 && ok2 && a&b == 0 {
				return a | b, true
			}
		case token.AND:
			if ok1 && ok2 {
				return a & b, true
			}
			if ok1 {
				return a, true
			}
			if ok2 {
				return b, true
			}
		}
	}
	return 0, false
}
