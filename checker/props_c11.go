package main

import (
	"fmt"
	"go/constant"
	"go/token"
	"sort"

	"golang.org/x/tools/go/ssa"
)

// gatherTerm: uint64(s[idx]) << c  (c may be 0: no shift)
type gatherTerm struct {
	Idx      ssa.Value
	ShiftVal ssa.Value // the shift amount when it is not a constant (a loop counter)
	Shift    int64
	Ins      ssa.Instruction
	Cont     ssa.Value
}

// gatherTerms finds byte loads of container role `role` widened to uint64 and shifted left by a constant.
func gatherTerms(fn *ssa.Function, role string) []gatherTerm {
	var out []gatherTerm
	eachInstr(fn, func(ins ssa.Instruction) {
		cv, ok := ins.(*ssa.Convert)
		if !ok || cv.Type().String() != "uint64" {
			return
		}
		cont, idx, ok := asElemLoad(cv.X)
		if !ok || containerRole(cont) != role {
			return
		}
		gt := gatherTerm{Idx: idx, Ins: ins, Cont: cont}
		if cv.Referrers() != nil {
			for _, ref := range *cv.Referrers() {
				if bo, ok := ref.(*ssa.BinOp); ok && bo.Op == token.SHL && bo.X == ssa.Value(cv) {
					if k, ok := constInt64(bo.Y); ok {
						gt.Shift = k
					} else {
						gt.ShiftVal = stripConv(bo.Y)
					}
				}
			}
		}
		out = append(out, gt)
	})
	return out
}

func runC11(c *Ctx, w *World, r *Report) {
	names := []string{"bitmap.FromStr32", "bmtree.PathOf", "bmtree.PathsOf", "bmtree.NewPath"}
	fns, ok := requireFuncs(w, r, names...)
	ReportScale(w, r, names...)
	ReportPair(w, r, names...)
	ReportRound(w, r, names...)
	ReportTableWidth(w, r)
	reportFresh(w, r, "bmtree.PathsOf")
	if !ok {
		return
	}
	r.Rule("R-GATHER", "FromStr32 gathers the bytes s[(frombit>>3)+j], j = 0..4, big-endian at shifts 32-8j; the window is shifted right by 40 - (tobit - (frombit &^ 7)) (40 = top shift + 8) and masked with bitmap.Mask[tobit-frombit]")
	r.Rule("R-CLAMP", "the bit count returned is 8*len(s)-frombit on the edge where it is <= tobit-frombit and tobit-frombit on the other edge (min), or 0")
	r.Rule("R-SAMEARG", "PathOf calls FromStr32(s, frombit, frombit+height) and NewPath(bits = its 2nd result, length = its 1st result, height); PathsOf maps PathOf(keys[i], frombit, height) over every key and appends unless dedup is set and the path equals its predecessor (predecessor updated every iteration)")

	// R-TOTAL: the property defines these functions for EVERY key and EVERY start bit (a start beyond the end gives
	// the empty path): a contract or an explicit panic in them makes some input undefined, in the debug build at least
	r.Rule("R-TOTAL", "FromStr32, PathOf and PathsOf are total (the property gives their value for every key and every start bit, beyond the end included): they contain no must.Be contract and no explicit panic, neither directly nor in a closure they create")
	for _, tn := range []string{"bitmap.FromStr32", "bmtree.PathOf", "bmtree.PathsOf"} {
		tf := fns[tn]
		badT := ""
		var scan func(f *ssa.Function, depth int)
		scan = func(f *ssa.Function, depth int) {
			if f == nil || f.Blocks == nil || depth > 3 {
				return
			}
			eachInstr(f, func(ins ssa.Instruction) {
				switch x := ins.(type) {
				case *ssa.Call:
					if name, ok := isMustCall(x); ok {
						badT = fmt.Sprintf("contract must.Be.%s at %s: inputs it rejects are inputs the property defines", name, w.InstrPos(ins))
					}
					if b, ok := x.Common().Value.(*ssa.Builtin); ok && b.Name() == "panic" {
						badT = fmt.Sprintf("explicit panic at %s", w.InstrPos(ins))
					}
				case *ssa.Panic:
					badT = fmt.Sprintf("explicit panic at %s", w.InstrPos(ins))
				case *ssa.MakeClosure:
					if cf, ok := x.Fn.(*ssa.Function); ok {
						scan(cf, depth+1)
					}
				}
			})
		}
		scan(tf, 0)
		r.Check(badT == "", "R-TOTAL", tn, w.Pos(tf.Pos()), badT, "no contract, no panic")
	}
	{ // R-GATHER
		n := "bitmap.FromStr32"
		fn := fns[n]
		fa := w.FA(fn)
		bad := ""
		terms := gatherTerms(fn, "s")
		startByte := func(v ssa.Value) bool {
			x, cc, ok := asShiftRight(v)
			return ok && cc == 3 && stripConv(x) == ssa.Value(fn.Params[1])
		}
		js := map[int64]int64{}
		top := int64(-1)
		loopPhis := map[ssa.Value]bool{}
		for _, t := range terms {
			// loop form: for shift := T; shift >= 0 && i < l; shift -= 8 { b |= uint64(s[i]) << shift; i++ } with
			// i starting at frombit>>3: the same terms, byte k at shift T-8k for every k with T-8k >= 0
			if t.ShiftVal != nil {
				ivI, ok1 := fa.InductionOf(t.Idx, t.Ins.Block())
				ivS, ok2 := fa.InductionOf(t.ShiftVal, t.Ins.Block())
				if !ok1 || !ok2 || ivI.Phi.Block() != ivS.Phi.Block() {
					bad = "a byte is gathered at a shift that is neither a constant nor a counter of the gathering loop"
					continue
				}
				okFirst := len(ivI.FirstLin.T) == 1 && ivI.FirstLin.K == 0
				for atom, coef := range ivI.FirstLin.T {
					if coef != 1 || !startByte(fa.AtomValue(atom)) {
						okFirst = false
					}
				}
				bs := fa.BoundsAt(t.Ins.Block(), fa.Lin(t.ShiftVal))
				switch {
				case !okFirst || ivI.Step != 1:
					bad = "the gathering loop does not visit the bytes (frombit>>3), (frombit>>3)+1, ..."
				case !ivS.FirstConst || ivS.Step != -8 || ivS.First < 0 || ivS.First%8 != 0:
					bad = fmt.Sprintf("the gathering loop's shift starts at %s and steps by %d: big-endian bytes need a multiple of 8 stepping by -8", ivS.FirstLin, ivS.Step)
				case !(bs.HasLo && bs.Lo <= 0 && bs.Lo > -8):
					bad = "the gathering loop does not run down to shift 0 exactly: " + bs.String()
				default:
					for k := int64(0); ivS.First-8*k >= 0; k++ {
						js[k] = ivS.First - 8*k
					}
					if ivS.First > top {
						top = ivS.First
					}
					loopPhis[ivI.Phi], loopPhis[ivS.Phi] = true, true
				}
				continue
			}
			// idx = (frombit>>3) + j : resolve through the i++ chain (phi-free: i, i+1, ...)
			L := fa.Lin(t.Idx)
			j := L.K
			okBase := len(L.T) == 1
			for atom, coef := range L.T {
				if coef != 1 || !startByte(fa.AtomValue(atom)) {
					okBase = false
				}
			}
			if !okBase {
				bad = "gathered byte index " + L.String() + " is not (frombit>>3)+j"
				continue
			}
			if old, dup := js[j]; dup && old != t.Shift {
				bad = fmt.Sprintf("byte %d is gathered at two different shifts", j)
			}
			js[j] = t.Shift
			if t.Shift > top {
				top = t.Shift
			}
		}
		// guards: byte j is gathered whenever it exists: beyond what guards byte 0, only bounds on the byte index may guard it
		{
			var first *gatherTerm
			for i := range terms {
				if L := fa.Lin(terms[i].Idx); L.K == 0 && terms[i].ShiftVal == nil {
					first = &terms[i]
				}
			}
			// loop form: the term sits in the loop body; beyond what guards the loop itself only bounds on the two counters
			for _, t := range terms {
				if t.ShiftVal == nil {
					continue
				}
				base := map[*ssa.If]bool{}
				if iv, ok := fa.InductionOf(t.ShiftVal, t.Ins.Block()); ok {
					for _, cd := range fa.Conds(iv.Phi.Block()) {
						base[cd.If] = true
					}
				}
				for _, cd := range fa.Conds(t.Ins.Block()) {
					if base[cd.If] {
						continue
					}
					okCond := false
					if D, _, ok := fa.CondRel(cd); ok {
						for atom := range D.T {
							if loopPhis[fa.AtomValue(atom)] {
								okCond = true
							}
						}
					}
					if !okCond && bad == "" {
						bad = fmt.Sprintf("the byte gathered at %s additionally depends on the branch at %s, which is not a bound on the loop's counters: a byte inside the window can be left out", w.InstrPos(t.Ins), w.InstrPos(cd.If))
					}
				}
			}
			if first != nil {
				base := map[*ssa.If]bool{}
				for _, cd := range fa.Conds(first.Ins.Block()) {
					base[cd.If] = true
				}
				for _, t := range terms {
					for _, cd := range fa.Conds(t.Ins.Block()) {
						if base[cd.If] {
							continue
						}
						okCond := false
						if D, _, ok := fa.CondRel(cd); ok {
							for atom := range D.T {
								if startByte(fa.AtomValue(atom)) {
									okCond = true
								}
							}
						}
						if !okCond && bad == "" {
							bad = fmt.Sprintf("the byte gathered at %s additionally depends on the branch at %s, which is not a bound on the byte index: a byte inside the window can be left out", w.InstrPos(t.Ins), w.InstrPos(cd.If))
						}
					}
				}
			}
		}
		// in range: every gathered byte s[k] is read under a guard k < L for a bound L that never exceeds len(s)
		// (len(s) itself, or a clamp of it). `k <= L` reads one byte past the end for a string that ends in the window
		{
			lenS := linAtom("call:builtin len(p0)")
			var lenBounded func(v ssa.Value, depth int) bool
			lenBounded = func(v ssa.Value, depth int) bool {
				v = stripConv(v)
				if fa.Lin(v).Eq(lenS) {
					return true
				}
				p, ok := v.(*ssa.Phi)
				if !ok || depth > 3 || isLoopHeaderPhi(p) {
					return false
				}
				for i, e := range p.Edges {
					if lenBounded(e, depth+1) {
						continue
					}
					pred := p.Block().Preds[i]
					d := fa.Lin(e).Sub(lenS)
					bd := fa.BoundsAt(pred, d)
					fa.boundsIncludingSelf(pred, p.Block(), d, &bd)
					if !(bd.HasHi && bd.Hi <= 0) {
						return false
					}
				}
				return true
			}
			var cands []ssa.Value
			eachInstr(fn, func(ins ssa.Instruction) {
				if v, ok := ins.(ssa.Value); ok && isIntType(v.Type()) && lenBounded(v, 0) {
					cands = append(cands, v)
				}
			})
			for _, t := range terms {
				okR := false
				for _, x := range cands {
					if bd := fa.BoundsAt(t.Ins.Block(), fa.Lin(t.Idx).Sub(fa.Lin(x))); bd.HasHi && bd.Hi <= -1 {
						okR = true
					}
				}
				if !okR && bad == "" {
					bad = fmt.Sprintf("the byte gathered at %s is not read under a guard index < L with L at most len(s): for a string that ends inside the window the read goes one past its end and panics", w.InstrPos(t.Ins))
				}
			}
		}
		var jl []int64
		for j := range js {
			jl = append(jl, j)
		}
		sort.Slice(jl, func(a, b int) bool { return jl[a] < jl[b] })
		if len(jl) == 0 {
			bad = "no byte gather found"
		}
		for i, j := range jl {
			if int64(i) != j {
				bad = fmt.Sprintf("gathered bytes are %v, expected consecutive bytes 0..%d", jl, len(jl)-1)
				break
			}
			if js[j] != top-8*j {
				bad = fmt.Sprintf("byte %d is shifted by %d, big-endian order needs %d", j, js[j], top-8*j)
			}
		}
		if bad == "" && (top < 32 || len(jl) < int((32+7+7)/8)) {
			bad = fmt.Sprintf("a 32-bit window starting at any bit offset spans up to 5 bytes; gathered %d bytes with top shift %d", len(jl), top)
		}
		if bad == "" && top-8*int64(len(jl)-1) != 0 {
			bad = "the last gathered byte is not at shift 0"
		}
		// final: (b >> (C - spanSize)) & Mask[size]
		nret := 0
		for _, ret := range returnsOf(fn) {
			if k, ok := constInt64(stripConv(ret.Results[1])); ok && k == 0 {
				continue
			}
			nret++
			a, b, ok := asBin(ret.Results[1], token.AND)
			if !ok {
				bad = "bits result is not (window >> k) & Mask[size]"
				continue
			}
			var sh, m ssa.Value
			if _, _, ok := asBin(a, token.SHR); ok {
				sh, m = a, b
			} else {
				sh, m = b, a
			}
			if ms, ok := fa.MaskOf(m); !ok || ms.Kind != "low" || !ms.N.Eq(fa.Lin(fn.Params[2]).Sub(fa.Lin(fn.Params[1]))) {
				bad = "bits are not masked with the low tobit-frombit bits (bitmap.Mask[tobit-frombit])"
			}
			_, amt, ok := asBin(sh, token.SHR)
			if !ok {
				bad = "window is not shifted right"
				continue
			}
			L := fa.Lin(amt)
			// expect (top+8) - tobit + alignDown(frombit,3)
			// (frombit &^ 7 is 8*(frombit>>3) in the linear normal form; 40 - size - frombit&7 is the same amount)
			wantA := linConst(top + 8).Sub(fa.Lin(fn.Params[2])).Add(linConst(0).addScaled(linAtom("(>> p1 c:3)"), 8))
			okA := L.Eq(wantA)
			if !okA {
				// frombit&7 = frombit - 8*(frombit>>3): accept  (top+8) - tobit + frombit - (frombit & 7)
				alt := linConst(top + 8).Sub(fa.Lin(fn.Params[2])).Add(fa.Lin(fn.Params[1]))
				d := alt.Sub(L)
				if len(d.T) == 1 && d.K == 0 {
					for atom, coef := range d.T {
						if x, j, ok := asLowMask(fa.AtomValue(atom)); ok && j == 3 && coef == 1 && stripConv(x) == ssa.Value(fn.Params[1]) {
							okA = true
						}
					}
				}
			}
			if !okA && bad == "" {
				bad = fmt.Sprintf("window is shifted right by %s, expected %d - tobit + (frombit &^ 7)", L, top+8)
			}
		}
		if nret == 0 && bad == "" {
			bad = "no non-zero bits result"
		}
		r.Check(bad == "", "R-GATHER", n, w.Pos(fn.Pos()), bad, fmt.Sprintf("%d bytes gathered big-endian from shift %d; window >> (%d - span) & Mask[size]", len(jl), top, top+8))

		// R-CLAMP
		badC := ""
		A := linConst(0).addScaled(linAtom("call:builtin len(p0)"), 8).Sub(fa.Lin(fn.Params[1]))
		B := fa.Lin(fn.Params[2]).Sub(fa.Lin(fn.Params[1]))
		nA, nB := 0, 0
		for _, ret := range returnsOf(fn) {
			for _, leaf := range fa.leavesOf(ret.Results[0], ret.Block(), 0) {
				if k, ok := constInt64(stripConv(leaf.V)); ok {
					if k != 0 {
						badC = fmt.Sprintf("constant count %d", k)
					}
					continue
				}
				L := fa.Lin(leaf.V)
				switch {
				case L.Eq(A):
					nA++
					bd := fa.boundsFrom(leaf.Conds, A.Sub(B))
					if !(bd.HasHi && bd.Hi <= 0) {
						badC = "8*len(s)-frombit is returned on an edge where it may exceed the requested width: " + bd.String()
					}
				case L.Eq(B):
					nB++
					bd := fa.boundsFrom(leaf.Conds, A.Sub(B))
					if !(bd.HasLo && bd.Lo >= 0) {
						badC = "the requested width is returned on an edge where fewer bits may be available: " + bd.String()
					}
				default:
					badC = "count candidate " + L.String() + " is neither 8*len(s)-frombit nor tobit-frombit"
				}
			}
		}
		if (nA == 0 || nB == 0) && badC == "" {
			badC = "count must be min(8*len(s)-frombit, tobit-frombit)"
		}
		// the count returned is never negative
		for _, ret := range returnsOf(fn) {
			if _, isC := constInt64(stripConv(ret.Results[0])); isC {
				continue
			}
			bd := fa.BoundsAt(ret.Block(), fa.Lin(ret.Results[0]))
			if bd.HasLo && bd.Lo >= 0 {
				continue
			}
			// or established for each alternative on its own edge (guard clauses before the minimum is taken)
			okAll, nl := true, 0
			for _, leaf := range fa.leavesOf(ret.Results[0], ret.Block(), 0) {
				nl++
				if k, ok := constInt64(stripConv(leaf.V)); ok && k >= 0 {
					continue
				}
				if b := fa.boundsFrom(leaf.Conds, fa.Lin(leaf.V)); !(b.HasLo && b.Lo >= 0) {
					okAll = false
				}
			}
			if !(okAll && nl > 0) && badC == "" {
				badC = "the returned bit count is not established to be >= 0 (known: " + bd.String() + "): a start bit past the end of the string would yield a negative length"
			}
		}
		r.Check(badC == "", "R-CLAMP", n, w.Pos(fn.Pos()), badC, "count in {8*len(s)-frombit | <= width, width | otherwise, 0}, never negative")

		// R-BYTEBOUND: every byte that intersects [frombit, tobit) is read when the string has it
		r.Rule("R-BYTEBOUND", "the gather reads byte s[k] whenever k < min(len(s), B) where B, if any bound other than len(s) is used, is at least ceil(tobit/8) = (tobit+7)>>3: a smaller bound drops the last byte of an unaligned span")
		badB := ""
		nb := 0
		for _, t := range terms {
			il := fa.Lin(t.Idx)
			for _, cd := range fa.Conds(t.Ins.Block()) {
				D, op, ok := fa.CondRel(cd)
				if !ok || (op != opLT && op != opLE) {
					continue
				}
				E := il.Sub(D) // bound
				if op == opLE {
					E.K++
				}
				if len(E.T) != 1 || E.K != 0 {
					continue
				}
				for atom, coef := range E.T {
					if coef != 1 {
						continue
					}
					bv := fa.AtomValue(atom)
					if _, isPhi := bv.(*ssa.Phi); !isPhi {
						continue
					}
					nb++
					for _, src := range resolvePhi(bv) {
						L := fa.Lin(src)
						if L.Eq(linAtom("call:builtin len(p0)")) {
							continue
						}
						okB := false
						if len(L.T) == 1 {
							for a2, c2 := range L.T {
								x, cc, ok := asShiftRight(fa.AtomValue(a2))
								if ok && cc == 3 && c2 == 1 {
									xl := fa.Lin(x).Sub(fa.Lin(fn.Params[2]))
									if xl.IsConst() && 8*L.K+xl.K >= 7 {
										okB = true
									}
								}
							}
						}
						if !okB {
							badB = "byte bound candidate " + L.String() + " is neither len(s) nor provably >= (tobit+7)>>3"
						}
					}
				}
			}
		}
		if nb == 0 && badB == "" {
			// no explicit bound other than the string length: nothing can be dropped
		}
		r.Check(badB == "", "R-BYTEBOUND", n, w.Pos(fn.Pos()), badB, fmt.Sprintf("%d guarded byte reads; bound candidates are len(s) or >= ceil(tobit/8)", nb))
	}
	{ // PathOf
		n := "bmtree.PathOf"
		fn := fns[n]
		fa := w.FA(fn)
		bad := ""
		var fs *ssa.Call
		eachInstr(fn, func(ins ssa.Instruction) {
			if call, ok := ins.(*ssa.Call); ok && call.Common().StaticCallee() == fns["bitmap.FromStr32"] {
				fs = call
			}
		})
		if fs == nil {
			bad = "PathOf does not call FromStr32"
		} else {
			a := fs.Common().Args
			if a[0] != ssa.Value(fn.Params[0]) || !fa.Lin(a[1]).Eq(fa.Lin(fn.Params[1])) || !fa.Lin(a[2]).Eq(fa.Lin(fn.Params[1]).Add(fa.Lin(fn.Params[2]))) {
				bad = "FromStr32 is not called with (s, frombit, frombit+height)"
			}
			for _, ret := range returnsOf(fn) {
				call, ok := ret.Results[0].(*ssa.Call)
				if !ok || call.Common().StaticCallee() != fns["bmtree.NewPath"] {
					// or the layout NewPath builds, written out on the two results of FromStr32
					isBits := func(x ssa.Value) bool {
						e, ok := x.(*ssa.Extract)
						return ok && e.Tuple == ssa.Value(fs) && e.Index == 1
					}
					var lenL Lin
					haveLen := false
					eachInstr(fn, func(ins ssa.Instruction) {
						if e, ok := ins.(*ssa.Extract); ok && e.Tuple == ssa.Value(fs) && e.Index == 0 {
							lenL, haveLen = fa.Lin(e), true
						}
					})
					if !haveLen {
						bad = "result is not NewPath(...)"
					} else if why := pathLayoutProblem(fa, ret.Results[0], isBits, lenL, fa.Lin(fn.Params[2])); why != "" {
						bad = "result is neither NewPath(bits, length, height) nor its layout: " + why
					}
					continue
				}
				na := call.Common().Args
				e0, ok0 := na[0].(*ssa.Extract)
				e1, ok1 := na[1].(*ssa.Extract)
				if !ok0 || !ok1 || e0.Tuple != ssa.Value(fs) || e1.Tuple != ssa.Value(fs) || e0.Index != 1 || e1.Index != 0 {
					bad = "NewPath is not given (bits = FromStr32#1, length = FromStr32#0)"
				}
				if !fa.Lin(na[2]).Eq(fa.Lin(fn.Params[2])) {
					bad = "NewPath is not given the height argument"
				}
			}
		}
		r.Check(bad == "", "R-SAMEARG", n, w.Pos(fn.Pos()), bad, "NewPath(FromStr32(s,frombit,frombit+height)#1, #0, height)")
	}
	{ // PathsOf
		n := "bmtree.PathsOf"
		fn := fns[n]
		fa := w.FA(fn)
		bad := ""
		var pc, pre *ssa.Call
		var pcs []*ssa.Call
		eachInstr(fn, func(ins ssa.Instruction) {
			if call, ok := ins.(*ssa.Call); ok && call.Common().StaticCallee() == fns["bmtree.PathOf"] {
				pc = call
				pcs = append(pcs, call)
			}
		})
		// peeled form: the first key is handled before the loop (its path is always kept and is the first predecessor),
		// the loop runs over keys[1:]
		if len(pcs) == 2 {
			in0, in1 := innermostLoop(pcs[0].Block()) != nil, innermostLoop(pcs[1].Block()) != nil
			if in0 != in1 {
				if in0 {
					pc, pre = pcs[0], pcs[1]
				} else {
					pc, pre = pcs[1], pcs[0]
				}
			}
		}
		if pc == nil {
			bad = "PathsOf does not call PathOf"
		} else {
			a := pc.Common().Args
			role, ok, why := "", false, ""
			if pre != nil {
				var low int64
				role, low, ok, why = fullRangeElemFrom(fa, a[0])
				if ok && low != 1 {
					ok, why = false, fmt.Sprintf("the first key is handled before the loop but the loop starts at key %d", low)
				}
				pa := pre.Common().Args
				c0, i0, isEl := asElemLoad(pa[0])
				if k, isK := constInt64(i0); !isEl || !isK || k != 0 || c0 != ssa.Value(fn.Params[0]) {
					bad = "the path computed before the loop is not that of keys[0]"
				}
				if pa[1] != ssa.Value(fn.Params[1]) || pa[2] != ssa.Value(fn.Params[2]) {
					bad = "PathOf is not given (frombit, height)"
				}
				if bd := fa.BoundsAt(pre.Block(), linAtom("call:builtin len(p0)")); !(bd.HasLo && bd.Lo >= 1) {
					bad = "keys[0] is read before the loop without the key list being known non-empty"
				}
			} else {
				role, ok, why = fullRangeElem(fa, a[0])
			}
			if !ok || role != "keys" {
				bad = "PathOf is not applied to every key: " + why
			}
			if a[1] != ssa.Value(fn.Params[1]) || a[2] != ssa.Value(fn.Params[2]) {
				bad = "PathOf is not given (frombit, height)"
			}
			// append of the path, guarded by !dedup || p != prev
			napp := 0
			cursorSt := cursorStores(fa, fn)
			eachInstr(fn, func(ins ssa.Instruction) {
				var vals []ssa.Value
				call := ins
				if c, ok := ins.(*ssa.Call); ok {
					vals = appendedValues(c)
				} else if st, ok := ins.(*ssa.Store); ok && cursorSt[st] != nil {
					// rst[n] = p; n++ into a list pre-sized for every key, returned as rst[:n]: an append in other words
					vals = []ssa.Value{st.Val}
				}
				if len(vals) == 0 {
					return
				}
				napp++
				if pre != nil && len(vals) == 1 && vals[0] == ssa.Value(pre) {
					// the first path: appended whenever it was computed
					if innermostLoop(call.Block()) != nil || !pre.Block().Dominates(call.Block()) || len(fa.Conds(call.Block())) != len(fa.Conds(pre.Block())) {
						bad = "the path of the first key is not appended unconditionally"
					}
					return
				}
				if len(vals) != 1 || vals[0] != ssa.Value(pc) {
					bad = "the value appended is not the path of the current key"
				}
				// every path into the append block: either dedup false, or p != prev true
				for _, cs := range fa.CondsDNF(call.Block(), 0) {
					okPath := false
					for _, cd := range cs {
						if cd.V == ssa.Value(fn.Params[3]) && !cd.Pol {
							okPath = true
						}
						// first iteration said with a flag: a loop-carried boolean that enters the loop true and is false on
						// every way round
						if fp, isPhi := cd.V.(*ssa.Phi); isPhi && cd.Pol && isLoopHeaderPhi(fp) {
							okFlag := true
							for k, e := range fp.Edges {
								c, isC := e.(*ssa.Const)
								if !isC || c.Value == nil || c.Value.Kind() != constant.Bool {
									okFlag = false
									break
								}
								back := fp.Block().Dominates(fp.Block().Preds[k])
								if constant.BoolVal(c.Value) == back {
									okFlag = false
								}
							}
							if okFlag {
								okPath = true
							}
						}
						// first iteration: the loop counter equals its first value (no predecessor exists)
						if bo, ok := cd.V.(*ssa.BinOp); ok && (bo.Op == token.EQL && cd.Pol || bo.Op == token.NEQ && !cd.Pol) {
							if k, ok := constInt64(stripConv(bo.Y)); ok {
								if iv, ok := fa.InductionOf(bo.X, call.Block()); ok && iv.FirstConst && iv.First == k {
									okPath = true
								}
							}
						}
						if bo, ok := cd.V.(*ssa.BinOp); ok && (bo.Op == token.NEQ && cd.Pol || bo.Op == token.EQL && !cd.Pol) {
							var other ssa.Value
							if bo.X == ssa.Value(pc) {
								other = bo.Y
							} else if bo.Y == ssa.Value(pc) {
								other = bo.X
							}
							if ph, ok := other.(*ssa.Phi); ok {
								// predecessor: loop phi whose back edge is the current path
								okPrev := true
								nb := 0
								for _, e := range ph.Edges {
									if e == ssa.Value(pc) {
										nb++
									} else if pre != nil && e == ssa.Value(pre) {
										// the predecessor of keys[1] is keys[0]
									} else if _, isC := e.(*ssa.Const); !isC {
										okPrev = false // kept unchanged on some iteration
									}
								}
								if nb == 0 {
									okPrev = false
								}
								if okPrev {
									okPath = true
								} else {
									bad = "the value compared with is not the path of the immediately preceding key on every iteration"
								}
							}
						}
					}
					if !okPath && bad == "" {
						bad = "a path is appended on an edge that is neither !dedup nor p != prev"
					}
				}
			})
			wantApp := 1
			if pre != nil {
				wantApp = 2
			}
			if napp != wantApp && bad == "" {
				bad = fmt.Sprintf("expected %d append site(s), found %d", wantApp, napp)
			}
			// R-SENTINEL: the first key has no predecessor, so the initial "previous path" must not be able
			// to equal a real path (or the first iteration must bypass the comparison)
			r.Rule("R-SENTINEL", "PathsOf with dedup never drops the first path: the initial value of the predecessor variable is not a well-formed path word (a path word is bits<<32|mask with mask a contiguous run of ones and bits inside the mask, or 0 for the root), unless the first iteration bypasses the comparison")
			eachInstr(fn, func(ins ssa.Instruction) {
				ph, ok := ins.(*ssa.Phi)
				if !ok {
					return
				}
				isPrev := false
				var initC *ssa.Const
				for _, e := range ph.Edges {
					if e == ssa.Value(pc) {
						isPrev = true
					}
					if cst, ok := e.(*ssa.Const); ok {
						initC = cst
					}
				}
				if !isPrev || initC == nil {
					return
				}
				cv, ok := constUint64(initC)
				if !ok {
					return
				}
				mask, bits := uint32(cv), uint32(cv>>32)
				wellFormed := false
				if mask == 0 {
					wellFormed = bits == 0
				} else {
					low := mask & -mask
					contiguous := (mask/low+1)&(mask/low) == 0
					wellFormed = contiguous && bits&^mask == 0
				}
				badS := ""
				if wellFormed {
					// is there a first-iteration bypass? a way into the append that neither needs !dedup nor compares with prev
					bypass := false
					eachInstr(fn, func(i2 ssa.Instruction) {
						call := i2
						if c, ok := i2.(*ssa.Call); ok {
							if len(appendedValues(c)) != 1 {
								return
							}
						} else if st, ok := i2.(*ssa.Store); !ok || cursorStores(fa, fn)[st] == nil {
							return
						}
						for _, cs := range fa.CondsDNF(call.Block(), 0) {
							usesPrev, usesDedup := false, false
							for _, cd := range cs {
								if cd.V == ssa.Value(fn.Params[3]) && !cd.Pol {
									usesDedup = true // the !dedup way in is not a first-iteration bypass
								}
								if bo, ok := cd.V.(*ssa.BinOp); ok && (bo.X == ssa.Value(ph) || bo.Y == ssa.Value(ph)) {
									usesPrev = true
								}
							}
							if !usesPrev && !usesDedup {
								bypass = true
							}
						}
					})
					if !bypass {
						badS = fmt.Sprintf("the predecessor variable starts at %#x, which IS a well-formed path word (bits %#x, mask %#x: the all-ones path of height 32): with dedup the first key is dropped when its path equals it, e.g. PathsOf([\"\\xff\\xff\\xff\\xff\"], 0, 32, true) returns no path", cv, bits, mask)
					}
				}
				r.Check(badS == "", "R-SENTINEL", "bmtree.PathsOf|prev-init", w.InstrPos(ph), badS, fmt.Sprintf("initial predecessor %#x cannot equal a path, or the first iteration bypasses the comparison", cv))
			})
			// skipping only when dedup && p == prev: the non-append edge
		}
		// every exit hands back the list the loop built: a shortcut that answers on its own (e.g. for height 0) is
		// outside all of the above, the dedup clause included
		if bad == "" {
			for _, ret := range returnsOf(fn) {
				for _, src := range resolvePhi(ret.Results[0]) {
					okSrc := false
					switch x := src.(type) {
					case *ssa.Slice:
						// rst[:n] with n the cursor of the stores
						for st, cur := range cursorStores(fa, fn) {
							if ia, ok := st.Addr.(*ssa.IndexAddr); ok && ia.X == x.X && x.Low == nil && x.High != nil && stripConv(x.High) == ssa.Value(cur) {
								okSrc = true
							}
						}
					case *ssa.Call:
						okSrc = len(appendedValues(x)) > 0
					case *ssa.MakeSlice:
						// the list the appends start from
						if x.Referrers() != nil {
							for _, ref := range *x.Referrers() {
								switch y := ref.(type) {
								case *ssa.Call:
									if len(appendedValues(y)) > 0 && y.Common().Args[0] == ssa.Value(x) {
										okSrc = true
									}
								case *ssa.Phi:
									if y.Referrers() != nil {
										for _, r2 := range *y.Referrers() {
											if c2, ok := r2.(*ssa.Call); ok && len(appendedValues(c2)) > 0 && c2.Common().Args[0] == ssa.Value(y) {
												okSrc = true
											}
										}
									}
								}
							}
						}
					}
					if !okSrc {
						bad = "the return at " + w.InstrPos(ret) + " hands back " + fmtVal(w, src) + ", not the list the loop over the keys appends to: that exit skips the per-key conversion and the dedup rule"
					}
				}
			}
		}
		r.Check(bad == "", "R-SAMEARG", n, w.Pos(fn.Pos()), bad, "for every key: p = PathOf(key, frombit, height); append unless dedup && p == prev; prev = p")
	}
}

func init() {
	register(&Prop{
		ID: "C11", Level: "other",
		Explain: "Structural necessary conditions of FromStr32/PathOf/PathsOf (DESIGN.md 5/C11): bit/byte unit consistency and rounding (E4), the big-endian gather constants and window constant (E6), the mask width, the min-clamp edges of the returned count (E7), and the argument wiring of PathOf/PathsOf incl. the dedup edge.",
		NotDec:  []string{"the nested byte-availability guards (i < l) and the interplay of the final shift with partial windows (arithmetic)", "Mask table contents"},
		Trusted: []string{"go/ssa construction"},
		Quick:   []Config{cfgDefault, cfg386}, Thorough: []Config{cfgDefault, cfg386},
		Run: runC11,
	})
}

// cursorStores: stores xs[n] = v into a locally made slice where n is a cursor - a loop-carried counter that starts at
// 0 and is advanced by exactly 1 in the block of the store (and nowhere else): the k-th store fills element k, which
// is what append does to a list that is long enough. Maps each such store to its cursor.
func cursorStores(fa *FA, fn *ssa.Function) map[*ssa.Store]*ssa.Phi {
	out := map[*ssa.Store]*ssa.Phi{}
	eachInstr(fn, func(ins ssa.Instruction) {
		st, ok := ins.(*ssa.Store)
		if !ok {
			return
		}
		ia, ok := st.Addr.(*ssa.IndexAddr)
		if !ok {
			return
		}
		if _, isMk := ia.X.(*ssa.MakeSlice); !isMk {
			return
		}
		cur, ok := stripConv(ia.Index).(*ssa.Phi)
		if !ok || !isLoopHeaderPhi(cur) {
			return
		}
		hb := cur.Block()
		for i, e := range cur.Edges {
			pred := hb.Preds[i]
			if !hb.Dominates(pred) {
				if k, isK := constInt64(stripConv(e)); !isK || k != 0 {
					return
				}
				continue
			}
			for _, lf := range fa.leavesOf1(e, pred, 1) {
				v := stripConv(lf.V)
				if v == ssa.Value(cur) {
					continue
				}
				x, k, okA := asBinConst(v, token.ADD)
				bo, isBo := v.(*ssa.BinOp)
				if !okA || x != ssa.Value(cur) || k != 1 || !isBo || bo.Block() != st.Block() {
					return
				}
			}
		}
		// the store's block must advance the cursor
		adv := false
		for _, i2 := range st.Block().Instrs {
			if bo, ok := i2.(*ssa.BinOp); ok {
				if x, k, okA := asBinConst(bo, token.ADD); okA && x == ssa.Value(cur) && k == 1 {
					adv = true
				}
			}
		}
		if adv {
			out[st] = cur
		}
	})
	return out
}
