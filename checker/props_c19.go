package main

import (
	"fmt"
	"go/token"
	"go/types"
	"sort"
	"strings"

	"golang.org/x/tools/go/ssa"
)

var purePkgs = []string{"bitmap", "bmtree", "bitstr", "bitword", "sigbits"}

// declared mutators: may write through their receiver only.
var declaredMutators = map[string]string{
	"bitmap.(*Builder).Extend":     "Builder is the library's explicit mutable accumulator (property C12)",
	"bitmap.(*Builder).Set":        "Builder is the library's explicit mutable accumulator (property C12)",
	"bitmap.(*TailBitmap).Set":     "TailBitmap is a mutable structure by contract (property C15)",
	"bitmap.(*TailBitmap).Compact": "TailBitmap is a mutable structure by contract (property C15)",
}

// apiFuncs: exported functions and all methods of named types of the packages.
func apiFuncs(w *World, shorts []string) []*ssa.Function {
	var out []*ssa.Function
	for _, s := range shorts {
		p := w.Pkg(s)
		if p == nil {
			continue
		}
		var names []string
		for n := range p.Members {
			names = append(names, n)
		}
		sort.Strings(names)
		for _, n := range names {
			switch m := p.Members[n].(type) {
			case *ssa.Function:
				if m.Object() != nil && m.Object().Exported() && m.Blocks != nil {
					out = append(out, m)
				}
			case *ssa.Type:
				for _, t := range []types.Type{m.Type(), types.NewPointer(m.Type())} {
					ms := w.Prog.MethodSets.MethodSet(t)
					for i := 0; i < ms.Len(); i++ {
						f := w.Prog.MethodValue(ms.At(i))
						if f == nil || f.Blocks == nil || f.Synthetic != "" {
							continue
						}
						if !ms.At(i).Obj().Exported() {
							continue // an unexported method is not API: it is judged through the exported functions that reach it
						}
						dup := false
						for _, o := range out {
							if o == f {
								dup = true
							}
						}
						if !dup {
							out = append(out, f)
						}
					}
				}
			}
		}
	}
	return out
}

// declaredResultAlias: API functions whose result is documented to share memory with an argument.
var declaredResultAlias = map[string]string{}

func runC19(c *Ctx, w *World, r *Report) {
	r.Rule("R-RESULT-FRESH", "an API function's result shares no memory with its arguments or with package-level variables (a caller writing into such a result would modify a shared input or table; a string result aliasing a caller's buffer changes when the buffer is reused); declared exceptions are listed with a reason")
	r.Rule("R-PURE-ARG", "an API function's may-write set (over-approximated, inter-procedural, through aliases, closures, unsafe casts, append/copy and summarised callees) contains no memory reachable from its arguments; declared mutators may write through their receiver only")
	r.Rule("R-PURE-GLOBAL", "no function reachable from the API writes a package-level variable (writers must be reachable from package initialisers only)")
	r.Rule("R-PURE-READ", "a function reachable from the API reads a package-level variable only if every store to it is in code reachable only from package initialisation")
	r.Rule("R-PURE-EXT", "no goroutine/channel/select/map-order construct, no call into time/rand/os/sync/runtime, no unresolvable dynamic call, no unlisted external callee receiving argument- or global-reachable memory")
	r.Rule("R-INIT-ONLY", "each package-level variable of the five packages is stored to only by package initialisation code")
	r.Rule("R-ANCHOR", "the functions named by the property exist in the analysed tree")

	for _, s := range purePkgs {
		if w.Pkg(s) == nil {
			r.Unknown("R-ANCHOR", "pkg "+s, "-", "package "+s+" not found in the analysed tree")
		}
	}
	// anchors named by the property
	for _, a := range [][2]string{{"bitmap", "Rank64"}, {"bitmap", "Rank128"}, {"bitmap", "Select32"}, {"bitmap", "Select32R64"}, {"bitmap", "NextOne"}, {"bitmap", "PrevOne"},
		{"bitmap", "Slice"}, {"bitmap", "ToArray"}, {"bitmap", "Getw"}, {"bitmap", "FromStr32"}, {"bmtree", "PathToIndex"}, {"bmtree", "PathToIndexLoose"},
		{"bmtree", "IndexToPath"}, {"bmtree", "AllPaths"}, {"bmtree", "Decode"}, {"bitstr", "Cmp"}, {"bitstr", "CmpUpto"}, {"bitstr", "StrCmpUpto"},
		{"bitword", "(*bitWord).FromStr"}, {"bitword", "(*bitWord).ToStr"}, {"bitword", "(*bitWord).Get"}, {"bitword", "(*bitWord).FirstDiff"},
		{"sigbits", "FirstDiffBits"}, {"sigbits", "ShardByPrefix"}, {"sigbits", "(*SigBits).CountPrefixes"}} {
		if w.Func(a[0], a[1]) == nil {
			r.Unknown("R-ANCHOR", a[0]+"."+a[1], "-", "function named by the property is missing")
		} else {
			r.OK("R-ANCHOR", a[0]+"."+a[1], w.Pos(w.Func(a[0], a[1]).Pos()))
		}
	}

	dbgTime("effects start")
	e := RunEffects(w)
	dbgTime("effects done")
	api := apiFuncs(w, purePkgs)
	reach := e.reachableFrom(api)
	dbgTime("reach done")
	// init-only computation
	var inits []*ssa.Function
	for _, p := range w.Prog.AllPackages() {
		if f := p.Func("init"); f != nil && w.InModule(f) {
			inits = append(inits, f)
		}
	}
	r.Units["api_functions"] = len(api)
	r.Units["effect_fixpoint_rounds"] = e.Rounds
	nreach := 0
	var scopeFns []*ssa.Function
	for f := range reach {
		if f.Blocks != nil && w.InModule(f) {
			nreach++
			scopeFns = append(scopeFns, f)
		}
	}
	sort.Slice(scopeFns, func(i, j int) bool { return w.FuncName(scopeFns[i]) < w.FuncName(scopeFns[j]) })
	r.Units["functions_in_scope"] = nreach
	// R-NOCAP: capacity is not part of a value
	r.Rule("R-NOCAP", "no function reachable from the API lets its result depend on the capacity of memory it was handed: cap(x) of a value derived from a parameter or receiver is used, if at all, only as the capacity of an allocation. Two slices with equal contents answer alike; spare capacity (a bitmap grown by append, a prefix of a larger buffer) is invisible")
	ncap := 0
	for _, f := range scopeFns {
		eachInstr(f, func(ins ssa.Instruction) {
			call, ok := ins.(*ssa.Call)
			if !ok {
				return
			}
			b, ok := call.Common().Value.(*ssa.Builtin)
			if !ok || b.Name() != "cap" || len(call.Common().Args) != 1 || !derivesFromParam(call.Common().Args[0], 0) {
				return
			}
			ncap++
			bad := ""
			if refs := call.Referrers(); refs != nil {
				for _, u := range *refs {
					if mk, isMk := stripConvUser(u).(*ssa.MakeSlice); isMk && stripConv(mk.Cap) == ssa.Value(call) && stripConv(mk.Len) != ssa.Value(call) {
						continue
					}
					if _, isDbg := u.(*ssa.DebugRef); isDbg {
						continue
					}
					bad = "cap() of an argument is used at " + w.InstrPos(u) + ": the answer depends on spare capacity, which is no part of the argument's value"
				}
			}
			r.Check(bad == "", "R-NOCAP", w.FuncName(f)+"|"+w.InstrPos(call), w.InstrPos(call), bad, "capacity used only to size an allocation")
		})
	}
	r.OK("R-NOCAP", "scope", "-", fmt.Sprintf("%d functions scanned, %d uses of cap() on argument-derived memory", len(scopeFns), ncap))
	r.Units["functions_summarised"] = len(e.Sum)

	// direct writers of each global
	writers := map[*ssa.Global][]*ssa.Function{}
	for fn, s := range e.Sum {
		for _, ws := range s.wsites {
			if ws.r.kind == rkGlobal && !strings.HasPrefix(ws.what, "call ") && !strings.HasPrefix(ws.what, "closure ") {
				writers[ws.r.g] = append(writers[ws.r.g], fn)
			}
		}
	}
	initOnly := func(g *ssa.Global) (bool, string) {
		for _, fn := range writers[g] {
			if reach[fn] {
				return false, w.FuncName(fn)
			}
		}
		return true, ""
	}

	isAPI := map[*ssa.Function]bool{}
	for _, f := range api {
		isAPI[f] = true
	}
	for _, fn := range scopeFns {
		s := e.Sum[fn]
		name := w.FuncName(fn)
		pos := w.Pos(fn.Pos())
		_, mut := declaredMutators[name]
		// R-PURE-ARG at API level
		if isAPI[fn] {
			var bad []string
			for _, ws := range s.wsites {
				switch ws.r.kind {
				case rkParam:
					if mut && ws.r.idx == 0 {
						continue
					}
					pn := fmt.Sprint(ws.r.idx)
					if ws.r.idx < len(fn.Params) {
						pn = fn.Params[ws.r.idx].Name()
					}
					bad = append(bad, fmt.Sprintf("may write memory reachable from parameter %q at %s (%s)", pn, ws.pos, ws.what))
				case rkUnknown:
					bad = append(bad, fmt.Sprintf("may write memory of unknown origin at %s (%s)", ws.pos, ws.what))
				case rkFree:
					bad = append(bad, fmt.Sprintf("writes through a captured variable at %s", ws.pos))
				}
			}
			facts := []string{"may-write roots: " + strings.Join(s.writes.strs(), ",") + " (fresh omitted)", "result roots: " + strings.Join(s.ret.strs(), ",")}
			if mut {
				facts = append(facts, "declared mutator: "+declaredMutators[name])
			}
			if len(bad) > 0 {
				r.Bad("R-PURE-ARG", name, pos, strings.Join(bad, "; "), facts...)
			} else {
				r.OK("R-PURE-ARG", name, pos, facts...)
			}
		}
		// R-RESULT-FRESH at API level
		if isAPI[fn] {
			var abad []string
			for rt := range s.ret {
				switch rt.kind {
				case rkParam:
					if mut && rt.idx == 0 {
						continue
					}
					pn := fmt.Sprint(rt.idx)
					if rt.idx < len(fn.Params) {
						pn = fn.Params[rt.idx].Name()
					}
					if why, ok := declaredResultAlias[name]; ok {
						_ = why
						continue
					}
					abad = append(abad, fmt.Sprintf("result may alias memory reachable from parameter %q", pn))
				case rkGlobal:
					abad = append(abad, "result may alias package-level variable "+rt.String())
				case rkUnknown:
					abad = append(abad, "result may alias memory of unknown origin")
				}
			}
			sort.Strings(abad)
			if len(abad) > 0 {
				r.Bad("R-RESULT-FRESH", name, pos, strings.Join(abad, "; "))
			} else {
				r.OK("R-RESULT-FRESH", name, pos)
			}
		}
		// R-PURE-GLOBAL
		var gbad []string
		for _, ws := range s.wsites {
			if ws.r.kind == rkGlobal && !strings.HasPrefix(ws.what, "call ") && !strings.HasPrefix(ws.what, "closure ") {
				gbad = append(gbad, fmt.Sprintf("writes package-level variable %s at %s (%s)", ws.r, ws.pos, ws.what))
			}
		}
		if len(gbad) > 0 {
			r.Bad("R-PURE-GLOBAL", name, pos, strings.Join(gbad, "; "))
		} else {
			r.OK("R-PURE-GLOBAL", name, pos)
		}
		// R-PURE-READ (direct reads only: find them in this function)
		var rbad, rfacts []string
		seenG := map[*ssa.Global]bool{}
		eachInstr(fn, func(ins ssa.Instruction) {
			if u, ok := ins.(*ssa.UnOp); ok && u.Op.String() == "*" {
				if g, ok := addrBase(u.X).(*ssa.Global); ok && !seenG[g] {
					seenG[g] = true
					if ok, by := initOnly(g); !ok {
						rbad = append(rbad, fmt.Sprintf("reads %s.%s at %s, which is written after initialisation by %s", g.Pkg.Pkg.Name(), g.Name(), w.InstrPos(ins), by))
					} else {
						rfacts = append(rfacts, fmt.Sprintf("reads %s.%s (init-only)", g.Pkg.Pkg.Name(), g.Name()))
					}
				}
			}
		})
		sort.Strings(rfacts)
		if len(rbad) > 0 {
			r.Bad("R-PURE-READ", name, pos, strings.Join(rbad, "; "))
		} else {
			r.OK("R-PURE-READ", name, pos, rfacts...)
		}
		// R-PURE-EXT direct notes
		var ebad []string
		for _, n := range s.notes {
			if strings.HasPrefix(n.role, "via ") {
				continue
			}
			ebad = append(ebad, fmt.Sprintf("%s at %s", n.msg, n.pos))
		}
		if len(ebad) > 0 {
			r.Bad("R-PURE-EXT", name, pos, strings.Join(ebad, "; "))
		} else {
			ncalls := 0
			eachInstr(fn, func(ins ssa.Instruction) {
				if _, ok := ins.(ssa.CallInstruction); ok {
					ncalls++
				}
			})
			var f []string
			if ncalls > 0 {
				f = []string{fmt.Sprintf("%d call sites, all resolved to summarised or table-listed callees", ncalls)}
			}
			r.OK("R-PURE-EXT", name, pos, f...)
		}
	}
	// R-INIT-ONLY per global of the five packages
	for _, sp := range purePkgs {
		p := w.Pkg(sp)
		if p == nil {
			continue
		}
		var names []string
		for n, m := range p.Members {
			if _, ok := m.(*ssa.Global); ok && !strings.HasPrefix(n, "init$") {
				names = append(names, n)
			}
		}
		sort.Strings(names)
		for _, n := range names {
			g := p.Members[n].(*ssa.Global)
			ok, by := initOnly(g)
			var ws []string
			for _, f := range writers[g] {
				ws = append(ws, w.FuncName(f))
			}
			sort.Strings(ws)
			if ok {
				r.OK("R-INIT-ONLY", sp+"."+n, w.Pos(g.Pos()), "writers: "+strings.Join(ws, ","))
			} else {
				r.Bad("R-INIT-ONLY", sp+"."+n, w.Pos(g.Pos()), "package-level variable is written after initialisation by "+by)
			}
		}
	}
	_ = inits
}

func init() {
	register(&Prop{
		ID: "C19", Level: "proof",
		Explain: "E1 effect analysis (DESIGN.md 3/E1): for every function reachable from the exported API of bitmap, bmtree, bitstr, bitword, sigbits an over-approximated may-write set is computed from the SSA form to an inter-procedural fixpoint; a function that writes no memory visible to another goroutine and reads only its arguments and init-only globals has no conflicting access under the Go memory model, hence every interleaving equals sequential execution and results depend on arguments only.",
		Trusted: []string{"go/packages + go/types + go/ssa construction (x/tools v0.29.0)", "VTA call graph soundness in the absence of reflection-based calls (none in scope)",
			"external-callee effect table in effects.go (math/bits, strings, bytes.Compare, fmt.Sprintf, reflect read accessors, sort.* writes arg 0, ...)",
			"github.com/openacid/must: Be.* either panics or returns and touches only its own state"},
		Assume:   []string{"clients do not write the exported tables (Mask, Bit, BitWord, ...) themselves: the property constrains the library's own functions", "fmt.Sprintf does not mutate its operands (no String methods with side effects in scope)"},
		Quick:    []Config{cfgDefault, cfg386},
		Thorough: allThorough,
		Run:      runC19,
	})
}

// derivesFromParam: v is (a view of) memory handed in through a parameter or receiver: the parameter itself, a field of
// it, a re-slice or conversion of such, or a merge one of whose alternatives is.
func derivesFromParam(v ssa.Value, depth int) bool {
	if depth > 8 {
		return false
	}
	switch x := v.(type) {
	case *ssa.Parameter:
		return true
	case *ssa.FreeVar:
		return true
	case *ssa.Slice:
		return derivesFromParam(x.X, depth+1)
	case *ssa.ChangeType:
		return derivesFromParam(x.X, depth+1)
	case *ssa.Convert:
		return derivesFromParam(x.X, depth+1)
	case *ssa.UnOp:
		if x.Op == token.MUL {
			return derivesFromParam(x.X, depth+1)
		}
	case *ssa.FieldAddr:
		return derivesFromParam(x.X, depth+1)
	case *ssa.Field:
		return derivesFromParam(x.X, depth+1)
	case *ssa.Alloc:
		// a spilled parameter
		if refs := x.Referrers(); refs != nil {
			for _, u := range *refs {
				if st, ok := u.(*ssa.Store); ok && st.Addr == ssa.Value(x) && derivesFromParam(st.Val, depth+1) {
					return true
				}
			}
		}
	case *ssa.Phi:
		for _, e := range x.Edges {
			if e != v && derivesFromParam(e, depth+1) {
				return true
			}
		}
	}
	return false
}
