package main

// Recogniser for the library's single-bit access idiom on []uint64 bitmaps:
//   read :  C[x>>6] & (1<<(x&63))   |  C[x>>6] & Bit[x&63]  |  (C[x>>6] >> (x&63)) & 1
//   write:  C[x>>6] |= 1<<(x&63)    |  C[x>>6] |= Bit[x&63] |  C[x>>6] |= v<<(x&63)

import (
	"fmt"
	"go/token"
	"go/types"

	"golang.org/x/tools/go/ssa"
)

type BitRef struct {
	Ins      ssa.Instruction // the IndexAddr/Index
	Cont     ssa.Value
	Role     string    // container root name
	Pos      ssa.Value // x
	PosLin   Lin
	SplitOff ssa.Value // word-wise form: Pos is the aligned position of the word, SplitOff the bit offset in [0, 63]; PosLin is their sum
	Write    bool
	Use      ssa.Value // the single-bit value (read) / nil
	Problem  string    // non-empty: the word and the bit are selected by different positions
	OffWidth int
}

func isWordSlice(t types.Type) bool {
	if p, ok := t.Underlying().(*types.Pointer); ok {
		t = p.Elem()
	}
	var e types.Type
	switch tt := t.Underlying().(type) {
	case *types.Slice:
		e = tt.Elem()
	case *types.Array:
		e = tt.Elem()
	default:
		return false
	}
	b, ok := e.Underlying().(*types.Basic)
	return ok && b.Kind() == types.Uint64
}

// offsetOf matches an in-word bit selector applied to word value wv and returns the offset expression.
// forms: SHL(1, off), load bitmap.Bit[off]   (selector values)
func selectorOffset(sel ssa.Value) (ssa.Value, bool) {
	sel = stripConv(sel)
	if b, ok := sel.(*ssa.BinOp); ok && b.Op == token.SHL {
		return b.Y, true
	}
	// uint64(1 << off) with the shift done in a narrower / platform-sized type: still a selector (checked by selectorWidthProblem)
	if cv, ok := sel.(*ssa.Convert); ok {
		if b, ok := cv.X.(*ssa.BinOp); ok && b.Op == token.SHL {
			return b.Y, true
		}
	}
	if tab, idx, ok := asElemLoad(sel); ok && isGlobal(tab, "bitmap", "Bit") {
		return idx, true
	}
	return nil, false
}

// selectorWidthProblem: a single-bit selector 1<<off with a 6-bit offset must be computed in a fixed 64-bit type.
func selectorWidthProblem(sel ssa.Value) string {
	var sh *ssa.BinOp
	switch x := sel.(type) {
	case *ssa.BinOp:
		if x.Op == token.SHL {
			sh = x
		}
	case *ssa.Convert:
		if b, ok := x.X.(*ssa.BinOp); ok && b.Op == token.SHL {
			sh = b
		}
	}
	if sh == nil {
		return ""
	}
	bt, ok := sh.Type().Underlying().(*types.Basic)
	if !ok {
		return ""
	}
	switch bt.Kind() {
	case types.Uint64, types.Int64:
		return ""
	case types.Int, types.Uint, types.Uintptr:
		return "the bit selector 1<<off is computed in the platform-sized type " + bt.Name() + ": with 32-bit int (GOARCH=386, arm) offsets 32..63 select nothing"
	default:
		return "the bit selector 1<<off is computed in the " + bt.Name() + " type, narrower than the 64-bit word it selects from"
	}
}

// selectorBaseProblem: a single-bit selector written as a shift is 1<<off (or v<<off for a variable bit value): a
// constant base other than 1 selects another bit, or several.
func selectorBaseProblem(sel ssa.Value) string {
	sel = stripConv(sel)
	if cv, ok := sel.(*ssa.Convert); ok {
		sel = cv.X
	}
	if b, ok := sel.(*ssa.BinOp); ok && b.Op == token.SHL {
		if k, isK := constUint64(stripConv(b.X)); isK && k != 1 {
			return fmt.Sprintf("the bit selector is %d<<off, not 1<<off", k)
		}
	}
	return ""
}

func bitRefs(w *World, fn *ssa.Function) []BitRef {
	fa := w.FA(fn)
	var out []BitRef
	eachInstr(fn, func(ins ssa.Instruction) {
		var cont, idx ssa.Value
		var addr *ssa.IndexAddr
		switch x := ins.(type) {
		case *ssa.Call:
			// the package's own single-bit readers (their forms are C12's obligations): Get1(C, x) / Get(C, x)
			if f := x.Common().StaticCallee(); f != nil && fnPkg(f) != nil && fnPkg(f).Name() == "bitmap" && len(x.Common().Args) == 2 &&
				(f.Name() == "Get" || f.Name() == "Get1") && f.Signature.Recv() == nil && isWordSlice(x.Common().Args[0].Type()) {
				c, px := x.Common().Args[0], x.Common().Args[1]
				br := BitRef{Ins: ins, Cont: c, Role: containerRole(c), Pos: px, PosLin: fa.Lin(px), Use: x, OffWidth: 6}
				if off, ok := sliceOffset(fa, c); ok {
					br.PosLin = br.PosLin.Add(linConst(0).addScaled(off, 64))
				} else {
					br.Problem = "the word container is a merged re-sliced view whose offset cannot be determined"
				}
				out = append(out, br)
			}
			return
		case *ssa.IndexAddr:
			cont, idx, addr = x.X, x.Index, x
		case *ssa.Index:
			cont, idx = x.X, x.Index
		default:
			return
		}
		if !isWordSlice(cont.Type()) {
			return
		}
		if g, ok := cont.(*ssa.Global); ok && maskTables[g.Name()] {
			return
		}
		px, c, ok := asShiftRight(idx)
		if !ok || c != 6 {
			return
		}
		br := BitRef{Ins: ins, Cont: cont, Role: containerRole(cont), Pos: px, PosLin: fa.Lin(px)}
		// a word of a re-sliced view c = x[lo:hi]: bit p of c is bit p + 64*lo of x
		if off, ok := sliceOffset(fa, cont); ok {
			br.PosLin = br.PosLin.Add(linConst(0).addScaled(off, 64))
		} else {
			br.Problem = "the word container is a merged re-sliced view whose offset cannot be determined"
		}
		posVN := fa.VN(stripConv(px))
		var useBlk *ssa.BasicBlock
		checkOff := func(off ssa.Value) {
			ox, j, ok := asLowMask(off)
			if !ok {
				// word-wise form: the word of an aligned position is loaded once and its bits are addressed by an offset
				// known to lie in [0, 63] (for base := 0; ..; base += 64 { w := C[base>>6]; for j := 0; j < 64; j++ { w & (1<<j) } }):
				// the bit referenced is base + j
				if useBlk != nil && br.SplitOff == nil {
					if cg, okc := fa.CongLin(br.PosLin, 64); okc && cg == 0 {
						bd := fa.BoundsAt(useBlk, fa.Lin(off))
						if !bd.HasLo {
							// a counter that starts at a non-negative constant and counts up
							if ivo, okI := fa.InductionOf(off, useBlk); okI && ivo.FirstConst && ivo.First >= 0 && ivo.Step > 0 {
								bd.lower(ivo.First, "counts up from its first value")
							}
						}
						if bd.HasLo && bd.HasHi && bd.Lo >= 0 && bd.Hi <= 63 {
							br.SplitOff = off
							br.PosLin = br.PosLin.Add(fa.Lin(off))
							br.OffWidth = 6
						}
					}
				}
				// the whole position used as the shift count (`1 << uint(j)` for the word j>>6): Go shifts by 64 or more
				// give 0, so every bit at an offset of 64 or beyond is lost
				if br.SplitOff == nil && fa.Lin(off).Eq(br.PosLin) {
					okB := false
					if useBlk != nil {
						if bd := fa.BoundsAt(useBlk, fa.Lin(off)); bd.HasHi && bd.Hi <= 63 {
							okB = true
						}
					}
					if !okB {
						br.Problem = "the bit selector is shifted by the whole position, not by its offset inside the word (position & 63): a shift by 64 or more yields 0 and the bit is lost"
					}
				}
				// an offset masked with something that is not 2^j-1 (x & 62) drops positions
				if _, k, isAnd := asBinConst(off, token.AND); isAnd && k > 0 {
					if _, pow := log2(uint64(k) + 1); !pow {
						br.Problem = fmt.Sprintf("the bit offset is masked with %d, which is not of the form 2^j-1: some offsets are mapped onto others", k)
					}
				}
				// x - 64*(x>>6) etc. not recognised: say nothing
				return
			}
			br.OffWidth = j
			if j != 6 {
				br.Problem = fmt.Sprintf("word selected by x>>6 but bit offset masked with %d bits", j)
				return
			}
			if fa.VN(stripConv(ox)) != posVN {
				// equal modulo 64 is enough for the offset
				if cg, ok := fa.CongLin(fa.Lin(ox).Sub(br.PosLin), 64); ok && cg == 0 {
					return
				}
				br.Problem = fmt.Sprintf("word selected by position %s but bit offset taken from position %s", br.PosLin, fa.Lin(ox))
			}
		}
		// uses of the loaded word
		var loads []ssa.Value
		if addr != nil {
			for _, ref := range *addr.Referrers() {
				switch u := ref.(type) {
				case *ssa.UnOp:
					if u.Op == token.MUL {
						loads = append(loads, u)
					}
				case *ssa.Store:
					if u.Addr == ssa.Value(addr) {
						br.Write = true
						// value: OR(load, sel) where sel = SHL(v, off) | Bit[off]
						if a, b, ok := asBin(u.Val, token.OR); ok {
							for _, s := range []ssa.Value{a, b} {
								if off, ok := selectorOffset(s); ok {
									checkOff(off)
									if p := selectorWidthProblem(s); p != "" && br.Problem == "" {
										br.Problem = p
									}
									if p := selectorBaseProblem(s); p != "" && br.Problem == "" {
										br.Problem = p
									}
								}
							}
						} else {
							// a bit is SET by OR-ing it in: ^= clears a bit that is already 1 and += carries into its neighbour
							// (a position listed twice, a repeated Set)
							for _, op := range []token.Token{token.XOR, token.ADD} {
								if a, b, ok := asBin(u.Val, op); ok {
									for k, s := range []ssa.Value{a, b} {
										other := []ssa.Value{b, a}[k]
										if _, isSel := selectorOffset(s); !isSel {
											continue
										}
										if ld, isLd := stripConv(other).(*ssa.UnOp); isLd && ld.Op == token.MUL {
											if ia2, isIA := ld.X.(*ssa.IndexAddr); isIA && fa.VN(ia2.X) == fa.VN(addr.X) && fa.Lin(ia2.Index).Eq(fa.Lin(addr.Index)) {
												br.Problem = fmt.Sprintf("the bit is combined into its word with %s instead of |: setting a bit that is already 1 (a position given twice, a repeated Set) clears it or carries into the next bit", op)
											}
										}
									}
								}
							}
						}
					}
				}
			}
		} else {
			loads = append(loads, ins.(ssa.Value))
		}
		for _, ld := range loads {
			if ld.Referrers() == nil {
				continue
			}
			for _, ref := range *ld.Referrers() {
				b, ok := ref.(*ssa.BinOp)
				if !ok {
					continue
				}
				useBlk = b.Block()
				switch b.Op {
				case token.AND:
					other := b.Y
					if b.Y == ld {
						other = b.X
					}
					if off, ok := selectorOffset(other); ok {
						checkOff(off)
						br.Use = b
						if p := selectorWidthProblem(other); p != "" && br.Problem == "" {
							br.Problem = p
						}
						if p := selectorBaseProblem(other); p != "" && br.Problem == "" {
							br.Problem = p
						}
					}
				case token.SHR:
					if b.X == ld {
						checkOff(b.Y)
						br.Use = b
					}
				case token.OR:
					// part of a write: handled at the store
				}
			}
		}
		out = append(out, br)
	})
	// merge read+write refs of `C[k] |= ...` (two IndexAddr for one statement): keep both, Write flag set on the storing one
	return out
}

// bitKnownSet reports whether the branch conditions conds imply that the single bit read by br is 1.
// AND form (use = w & sel, sel a single-bit selector): use != 0, use > 0 (unsigned), use == sel.
// SHR form (use = w >> off): s = use & 1 (or a conversion of it): s != 0, s == 1, s > 0.
func bitKnownSet(conds []Cond, br *BitRef) bool {
	if br == nil || br.Use == nil {
		return false
	}
	ub, _ := br.Use.(*ssa.BinOp)
	single := map[ssa.Value]bool{}
	var sel ssa.Value
	isGet1 := false
	if call, ok := br.Use.(*ssa.Call); ok {
		// Get (word & Bit[x]: zero or the single bit) or Get1 (0 or 1)
		single[br.Use] = true
		if f := call.Common().StaticCallee(); f != nil && f.Name() == "Get1" {
			isGet1 = true
		}
	}
	if ub != nil && ub.Op == token.AND {
		single[br.Use] = true
		sel = ub.Y
		if _, ok := selectorOffset(ub.Y); !ok {
			sel = ub.X
		}
	} else if ub != nil && ub.Op == token.SHR && br.Use.Referrers() != nil {
		for _, ref := range *br.Use.Referrers() {
			if b, ok := ref.(*ssa.BinOp); ok && b.Op == token.AND {
				for _, o := range []ssa.Value{b.X, b.Y} {
					if k, ok := constUint64(o); ok && k == 1 {
						single[b] = true
					}
				}
			}
		}
	}
	for _, cd := range conds {
		bo, ok := cd.V.(*ssa.BinOp)
		if !ok {
			continue
		}
		x, y, op := stripConv(bo.X), stripConv(bo.Y), bo.Op
		if single[y] && !single[x] {
			x, y = y, x
			switch op {
			case token.LSS:
				op = token.GTR
			case token.GTR:
				op = token.LSS
			case token.LEQ:
				op = token.GEQ
			case token.GEQ:
				op = token.LEQ
			}
		}
		if !single[x] {
			continue
		}
		k, isK := constUint64(y)
		switch {
		case isK && k == 0 && (op == token.NEQ && cd.Pol || op == token.EQL && !cd.Pol):
			return true
		case isK && k == 0 && isUnsigned(x.Type()) && (op == token.GTR && cd.Pol || op == token.LEQ && !cd.Pol):
			return true
		case isK && k == 1 && sel == nil && (ub != nil || isGet1) && (op == token.EQL && cd.Pol || op == token.NEQ && !cd.Pol || op == token.GEQ && cd.Pol || op == token.LSS && !cd.Pol):
			return true // s = (w>>off)&1 is 0 or 1
		case sel != nil && !isK && y == stripConv(sel) && (op == token.EQL && cd.Pol || op == token.NEQ && !cd.Pol):
			return true
		}
	}
	return false
}

// ReportBitRefs files R-BITREF obligations: the word and the bit of every single-bit access are selected by the same position.
func ReportBitRefs(w *World, r *Report, fnNames ...string) map[string][]BitRef {
	r.Rule("R-BITREF", "in every single-bit access C[x>>6] op (1<<(y&63)) / Bit[y&63] / >>(y&63) the word index and the in-word offset derive from the same position (x = y) with a 6-bit offset: otherwise a different bit than intended is read or written")
	out := map[string][]BitRef{}
	for _, n := range fnNames {
		fn := findFunc(w, n)
		if fn == nil {
			r.Unknown("R-BITREF", n, "-", "function named by the property is missing")
			continue
		}
		refs := bitRefs(w, fn)
		for _, af := range fn.AnonFuncs {
			refs = append(refs, bitRefs(w, af)...)
		}
		out[n] = refs
		bad := ""
		nchecked := 0
		for _, br := range refs {
			if br.OffWidth > 0 {
				nchecked++
			}
			if br.Problem != "" {
				bad = fmt.Sprintf("%s at %s", br.Problem, w.InstrPos(br.Ins))
			}
		}
		var facts []string
		if nchecked > 0 {
			facts = []string{fmt.Sprintf("%d single-bit accesses: word index and bit offset come from one position each", nchecked)}
		}
		if bad != "" {
			r.Bad("R-BITREF", n, w.Pos(fn.Pos()), bad)
		} else {
			r.OK("R-BITREF", n, w.Pos(fn.Pos()), facts...)
		}
	}
	return out
}
