package main

import "sort"

// X00 is a development aid (not a property): dumps every E4 conflict in the module.
func init() {
	register(&Prop{ID: "X00", Level: "other", Explain: "dev: all scale conflicts", Run: func(c *Ctx, w *World, r *Report) {
		s := RunScale(w)
		var names []string
		for _, f := range s.Funcs {
			if f.Parent() == nil {
				names = append(names, w.FuncName(f))
			}
		}
		sort.Strings(names)
		ReportScale(w, r, names...)
	}})
}
