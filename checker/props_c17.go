package main

import (
	"fmt"
	"go/token"

	"golang.org/x/tools/go/ssa"
)

// cellLoadName: v is a load of a captured variable cell (freevar) of the given name.
// c17Cells: the local variables of ShardByPrefix the rules speak about, found by what they ARE (never by their
// spelling): keys = the cell the first parameter is spilled into; firstDiffs = the cell that receives
// FirstDiffBits(..); dfs = the cell that receives the closure; prefixes / keyCnts = the cells loaded into the first /
// second result. A name that cannot be resolved this way falls back to the variable's own name.
var c17Cells = map[string]*ssa.Alloc{}

func resolveC17Cells(fn *ssa.Function, firstDiffBits *ssa.Function) {
	c17Cells = map[string]*ssa.Alloc{}
	eachInstr(fn, func(ins ssa.Instruction) {
		switch x := ins.(type) {
		case *ssa.Store:
			al, ok := x.Addr.(*ssa.Alloc)
			if !ok {
				return
			}
			switch v := x.Val.(type) {
			case *ssa.Parameter:
				if len(fn.Params) > 0 && v == fn.Params[0] {
					c17Cells["keys"] = al
				}
				if len(fn.Params) > 1 && v == fn.Params[1] {
					c17Cells["maxSize"] = al
				}
			case *ssa.Call:
				if v.Common().StaticCallee() == firstDiffBits && firstDiffBits != nil {
					c17Cells["firstDiffs"] = al
				}
			case *ssa.MakeClosure:
				c17Cells["dfs"] = al
			}
		case *ssa.Return:
			for i, nm := range []string{"prefixes", "keyCnts"} {
				if i < len(x.Results) {
					if u, ok := stripConv(x.Results[i]).(*ssa.UnOp); ok && u.Op == token.MUL {
						if al, ok := u.X.(*ssa.Alloc); ok {
							if _, have := c17Cells[nm]; !have {
								c17Cells[nm] = al
							}
						}
					}
				}
			}
		}
	})
}

// c17CellName: the canonical name of a captured variable (its own name when it is not one of the known cells).
func c17CellName(fv *ssa.FreeVar) string {
	if b, ok := freeVarBinding(fv).(*ssa.Alloc); ok {
		for nm, al := range c17Cells {
			if al == b {
				return nm
			}
		}
		// maxSize and other captured parameters
		return cellRole(b)
	}
	return fv.Name()
}

func isCellLoad(v ssa.Value, name string) bool {
	u, ok := stripConv(v).(*ssa.UnOp)
	if !ok || u.Op != token.MUL {
		return false
	}
	want := c17Cells[name]
	switch x := u.X.(type) {
	case *ssa.FreeVar:
		if want != nil {
			b, _ := freeVarBinding(x).(*ssa.Alloc)
			return b == want
		}
		return x.Name() == name
	case *ssa.Alloc:
		if want != nil {
			return x == want
		}
		return x.Comment == name
	}
	return false
}

func runC17(c *Ctx, w *World, r *Report) {
	names := []string{"sigbits.ShardByPrefix", "sigbits.FirstDiffBits", "sigbits.sFirstDiffBit", "sigbits.get64Bits"}
	fns, ok := requireFuncs(w, r, names...)
	ReportScale(w, r, names...)
	if !ok {
		return
	}
	reportFirstDiff(w, r, fns)
	r.Rule("R-SHARDSIZE", "a shard boundary is emitted only on the edge (e - s) - maxSize <= 0 and the boundary appended is that same e, together with exactly one prefix length; boundaries start with 0 and the recursion starts as dfs(0, len(keys))")
	r.Rule("R-LCP", "the prefix length of a shard is the running minimum of len(keys[s]) and firstDiffs[i]>>3 (bits to bytes) over i = s .. e-2: the longest common prefix in bytes")
	r.Rule("R-SPLIT", "an oversized range is split only at positions i+1 whose common-prefix byte length firstDiffs[i]>>3 is <= the minimum seen so far over i = s .. e-2 (both the strictly-smaller and the equal case are collected), plus the final boundary e; the recursion visits dfs(s, end) for every collected end in order with s advancing to end")
	r.Rule("R-BYTES", "every use of firstDiffs in ShardByPrefix converts bits to bytes with >>3 before comparing with a key length")

	fn := fns["sigbits.ShardByPrefix"]
	if len(fn.AnonFuncs) != 1 {
		r.Unknown("R-SHARDSIZE", "sigbits.ShardByPrefix|closure", w.Pos(fn.Pos()), fmt.Sprintf("expected one recursive closure, found %d", len(fn.AnonFuncs)))
		return
	}
	dfs := fn.AnonFuncs[0]
	resolveC17Cells(fn, fns["sigbits.FirstDiffBits"])
	fa := w.FA(dfs)
	sP, eP := ssa.Value(dfs.Params[0]), ssa.Value(dfs.Params[1])
	sL, eL := fa.Lin(sP), fa.Lin(eP)

	// the whole list may be converted to bytes once, in place, before the recursion starts
	// (for i := range firstDiffs { firstDiffs[i] >>= 3 }): its elements are then byte counts as read.
	preConv := c17PreConverted(w, fn)

	// helper: candidate = firstDiffs[iv]>>3
	candIV := func(v ssa.Value) (*LoopIV, string) {
		x, cc, ok := asShiftRight(v)
		if preConv {
			if _, _, isLoad := asElemLoad(v); isLoad {
				x, cc, ok = v, 3, true
			} else {
				ok = false
			}
		}
		if !ok || cc != 3 {
			return nil, "a firstDiffs value is used without the bits-to-bytes conversion >>3"
		}
		cont, idx, ok := asElemLoad(x)
		if !ok || !isCellLoad(cont, "firstDiffs") {
			return nil, "candidate is not firstDiffs[i]>>3"
		}
		var blk *ssa.BasicBlock
		if ins, ok := stripConv(x).(ssa.Instruction); ok {
			blk = ins.Block()
		}
		iv, ok := fa.InductionOf(idx, blk)
		if !ok {
			return nil, "firstDiffs index is not a loop counter"
		}
		if !iv.FirstLin.Eq(sL) || iv.Step != 1 {
			return iv, fmt.Sprintf("firstDiffs is scanned from %s step %d, expected from s step 1", iv.FirstLin, iv.Step)
		}
		if !iv.HasN || !iv.N.Eq(eL.Add(linConst(-1))) {
			return iv, "firstDiffs is scanned up to " + iv.N.String() + ", expected i < e-1 (a range of n keys has n-1 adjacent differences)"
		}
		if why := fa.earlyExit(iv); why != "" {
			return iv, "the scan over firstDiffs[s..e-2] is cut short: " + why
		}
		return iv, ""
	}
	isLenKeyS := func(v ssa.Value) bool {
		cl, ok := asCall(v, "builtin len")
		if !ok {
			return false
		}
		cont, idx, ok := asElemLoad(cl.Common().Args[0])
		return ok && isCellLoad(cont, "keys") && stripConv(idx) == sP
	}

	// ---- R-BYTES: every load of a firstDiffs element is consumed by >>3
	{
		bad := ""
		nuse := 0
		eachInstr(dfs, func(ins ssa.Instruction) {
			ld, ok := ins.(*ssa.UnOp)
			if !ok || ld.Op != token.MUL {
				return
			}
			ia, ok := ld.X.(*ssa.IndexAddr)
			if !ok || !isCellLoad(ia.X, "firstDiffs") {
				return
			}
			nuse++
			for _, ref := range *ld.Referrers() {
				rv, isVal := ref.(ssa.Value)
				if preConv {
					if isVal {
						if _, _, ok := asShiftRight(rv); ok {
							bad = "firstDiffs was converted to bytes in place, yet its element is shifted again at " + w.InstrPos(ref)
						}
					}
					continue
				}
				if !isVal {
					bad = "firstDiffs element used at " + w.InstrPos(ref) + " without >>3"
				} else if _, cc, ok := asShiftRight(rv); !ok || cc != 3 {
					bad = "firstDiffs element used at " + w.InstrPos(ref) + " without >>3"
				}
			}
		})
		if nuse == 0 {
			bad = "firstDiffs is never consulted"
		}
		r.Check(bad == "", "R-BYTES", "sigbits.ShardByPrefix", w.Pos(dfs.Pos()), bad, fmt.Sprintf("%d firstDiffs element loads, each followed by >>3", nuse))
	}
	// ---- R-SHARDSIZE / R-LCP
	{
		bad, badL := "", ""
		nb, np := 0, 0
		var boundaryBlk *ssa.BasicBlock
		eachInstr(dfs, func(ins ssa.Instruction) {
			st, ok := ins.(*ssa.Store)
			if !ok {
				return
			}
			fv, ok := st.Addr.(*ssa.FreeVar)
			if !ok {
				return
			}
			call, ok := st.Val.(*ssa.Call)
			if !ok {
				return
			}
			vals := appendedValues(call)
			if len(vals) > 1 {
				if nm := c17CellName(fv); nm == "keyCnts" || nm == "prefixes" {
					bad = fmt.Sprintf("%d values are appended to %s at once at %s: every shard is emitted with its own boundary e and its own running minimum", len(vals), nm, w.InstrPos(st))
				}
			}
			if len(vals) != 1 {
				return
			}
			switch c17CellName(fv) {
			case "keyCnts":
				nb++
				boundaryBlk = st.Block()
				if stripConv(vals[0]) != eP {
					bad = "boundary appended is " + fa.Lin(vals[0]).String() + ", not the end e of the range"
				}
				bd := fa.BoundsAt(st.Block(), eL.Sub(sL).Sub(fa.Lin(loadOfCell(dfs, "maxSize"))))
				if !(bd.HasHi && bd.Hi <= 0) {
					bad = "a shard is emitted on an edge where (e-s) - maxSize is in " + bd.String() + ": it may hold more than maxSize keys"
				}
			case "prefixes":
				np++
				p, ok := stripConv(vals[0]).(*ssa.Phi)
				if !ok {
					badL = "prefix length is not a running minimum"
					return
				}
				cands, inits, e := runningMin(fa, p)
				if e != "" {
					badL = e
				}
				for _, cv := range cands {
					if _, e2 := candIV(cv); e2 != "" {
						badL = e2
					}
				}
				for _, iv := range inits {
					if !isLenKeyS(iv) {
						badL = "the minimum does not start at len(keys[s]) (a single-key shard's prefix is the key itself)"
					}
				}
				if boundaryBlk != nil && st.Block() != boundaryBlk {
					bad = "prefix and boundary are not emitted together"
				}
			}
		})
		if (nb != 1 || np != 1) && bad == "" {
			bad = fmt.Sprintf("expected one boundary append and one prefix append in the closure, found %d and %d", nb, np)
		}
		r.Check(bad == "", "R-SHARDSIZE", "sigbits.ShardByPrefix|emit", w.Pos(dfs.Pos()), bad, "append(prefixes, min); append(keyCnts, e) on the edge e-s <= maxSize")
		// progress: a range is split further only if it holds MORE than maxSize keys, hence (maxSize >= 1) at least two:
		// a single-key range that is not emitted has no split point and recurses on itself for ever (maxSize = 1)
		badG := ""
		nrec := 0
		eachInstr(dfs, func(ins ssa.Instruction) {
			call, ok := ins.(*ssa.Call)
			if !ok {
				return
			}
			// the recursive call goes through the captured variable holding the closure
			isRec := false
			if u, ok := call.Common().Value.(*ssa.UnOp); ok && u.Op == token.MUL {
				if fv, ok := u.X.(*ssa.FreeVar); ok && c17CellName(fv) == "dfs" {
					isRec = true
				}
			}
			if call.Common().StaticCallee() == dfs {
				isRec = true
			}
			if !isRec {
				return
			}
			nrec++
			bd := fa.BoundsAt(call.Block(), eL.Sub(sL).Sub(fa.Lin(loadOfCell(dfs, "maxSize"))))
			if !(bd.HasLo && bd.Lo >= 1) {
				badG = fmt.Sprintf("the range is split further at %s on an edge where (e-s) - maxSize is only known to be in %s: with maxSize = 1 a single-key range is never emitted and the recursion does not terminate", w.InstrPos(ins), bd)
			}
		})
		r.Check(badG == "" && nrec > 0, "R-SHARDSIZE", "sigbits.ShardByPrefix|progress", w.Pos(dfs.Pos()), badG, fmt.Sprintf("%d recursive calls, each on the edge (e-s) - maxSize >= 1", nrec))
		r.Check(badL == "", "R-LCP", "sigbits.ShardByPrefix", w.Pos(dfs.Pos()), badL, "min starts at len(keys[s]); candidates firstDiffs[i]>>3, i in [s, e-1)")

		// parent: initial boundary 0 and dfs(0, n)
		pfa := w.FA(fn)
		badP := ""
		n0 := 0
		eachInstr(fn, func(ins ssa.Instruction) {
			call, ok := ins.(*ssa.Call)
			if !ok {
				return
			}
			if vals := appendedValues(call); len(vals) == 1 {
				if k, ok := constInt64(stripConv(vals[0])); ok && k == 0 {
					n0++
				}
			}
			if isCellLoad(call.Common().Value, "dfs") {
				a := call.Common().Args
				if k, ok := constInt64(stripConv(a[0])); !ok || k != 0 {
					badP = "the recursion does not start at key 0"
				}
				L := pfa.Lin(a[1])
				okN := L.K == 1 && len(L.T) == 1
				for atom, coef := range L.T {
					cl, ok := asCall(pfa.AtomValue(atom), "builtin len")
					if !ok || coef != 1 {
						okN = false
						continue
					}
					// len(firstDiffs) where firstDiffs = FirstDiffBits(keys)
					_ = cl
				}
				if !okN && !L.Eq(linAtom("call:builtin len(p0)")) {
					badP = "the recursion does not cover all keys: end is " + L.String() + ", expected len(firstDiffs)+1 = len(keys)"
				}
			}
		})
		if n0 != 1 && badP == "" {
			badP = "boundaries do not start with a single 0"
		}
		// firstDiffs = FirstDiffBits(keys)
		okFD := false
		eachInstr(fn, func(ins ssa.Instruction) {
			if call, ok := ins.(*ssa.Call); ok && call.Common().StaticCallee() == fns["sigbits.FirstDiffBits"] && (call.Common().Args[0] == ssa.Value(fn.Params[0]) || isCellLoad(call.Common().Args[0], "keys")) {
				okFD = true
			}
		})
		if !okFD && badP == "" {
			badP = "firstDiffs is not FirstDiffBits(keys)"
		}
		r.Check(badP == "", "R-SHARDSIZE", "sigbits.ShardByPrefix|start", w.Pos(fn.Pos()), badP, "keyCnts = [0]; dfs(0, len(firstDiffs)+1)")
		// what is returned is what the recursion collected, on every exit (a shortcut that builds its own answer is outside every rule above)
		badRet := ""
		nret := 0
		for _, ret := range returnsOf(fn) {
			nret++
			if len(ret.Results) != 2 || !isCellLoad(ret.Results[0], "prefixes") || !isCellLoad(ret.Results[1], "keyCnts") {
				badRet = fmt.Sprintf("the return at %s does not return the prefix lengths and boundaries the recursion collected", w.InstrPos(ret))
			}
		}
		r.Check(badRet == "" && nret > 0, "R-SHARDSIZE", "sigbits.ShardByPrefix|result", w.Pos(fn.Pos()), badRet, fmt.Sprintf("%d exits, each returning (prefixes, keyCnts)", nret))
	}
	// ---- R-SPLIT
	{
		bad := ""
		// recursive calls
		// the call inside the boundary loop, and (alternative closing form) one trailing call dfs(s, e) after the loop
		// instead of appending e to the list
		var rec, trail *ssa.Call
		eachInstr(dfs, func(ins ssa.Instruction) {
			if call, ok := ins.(*ssa.Call); ok && isCellLoad(call.Common().Value, "dfs") {
				if len(call.Common().Args) == 2 && stripConv(call.Common().Args[1]) == eP && trail == nil {
					trail = call
					return
				}
				if rec != nil {
					bad = "more than one recursive call site"
				}
				rec = call
			}
		})
		if trail != nil && rec != nil && bad == "" {
			// it continues where the loop stopped (same running start) and is reached whenever the loop is left
			if stripConv(trail.Common().Args[0]) != stripConv(rec.Common().Args[0]) {
				bad = "the closing call dfs(.., e) does not start at the last collected boundary"
			} else if inSomeLoop(trail.Block()) != nil {
				bad = "the closing call dfs(.., e) is inside a loop"
			} else {
				hdr := inSomeLoop(rec.Block())
				extra := 0
				if hdr != nil {
					base := map[ssa.Value]bool{}
					for _, c := range fa.Conds(hdr) {
						base[c.V] = true
					}
					for _, c := range fa.Conds(trail.Block()) {
						if !base[c.V] && (c.If == nil || c.If.Block() != hdr) {
							extra++
						}
					}
				}
				if hdr == nil || extra > 0 {
					bad = "the closing call dfs(.., e) is not reached on every way out of the boundary loop"
				}
			}
		}
		if rec == nil {
			bad = "no recursive call"
		} else {
			a := rec.Common().Args
			cont, idx, ok := asElemLoad(a[1])
			if !ok {
				bad = "recursion end is not an element of the collected boundaries"
			} else {
				iv, ok := fa.InductionOf(idx, rec.Block())
				okN := false
				if ok && iv.HasN && len(iv.N.T) == 1 && iv.N.K == 0 {
					for atom := range iv.N.T {
						if cl, ok := asCall(fa.AtomValue(atom), "builtin len"); ok && cl.Common().Args[0] == cont {
							okN = true
						}
					}
				}
				if !ok || !iv.FirstConst || iv.First != 0 || iv.Step != 1 || !okN {
					bad = "the recursion does not visit every collected boundary in order"
				}
				// start: phi [s, end]
				ph, ok := stripConv(a[0]).(*ssa.Phi)
				if !ok {
					bad = "recursion start does not advance"
				} else {
					for _, e := range ph.Edges {
						if stripConv(e) != sP && stripConv(e) != stripConv(a[1]) {
							bad = "recursion start is neither s nor the previous boundary"
						}
					}
				}
				// the list iterated ends with e
				lastApp, ok := cont.(*ssa.Call)
				if trail != nil {
					// closed by the trailing call; the list itself must then not end with e as well
					if ok {
						if vals := appendedValues(lastApp); len(vals) == 1 && stripConv(vals[0]) == eP {
							bad = "the final boundary e is both appended to the list and visited by a closing call: the last range is visited twice"
						}
					}
				} else if !ok {
					bad = "the boundary list iterated is not closed with the final boundary e"
				} else {
					vals := appendedValues(lastApp)
					if len(vals) != 1 || stripConv(vals[0]) != eP {
						bad = "the boundary list iterated is not closed with the final boundary e"
					}
					if len(fa.Conds(lastApp.Block())) > 0 {
						// must be after the scan loop unconditionally (dominated only by loop exit)
					}
				}
			}
		}
		// in-loop appends: value i+1, on strictly-smaller (reset) or equal (extend) edges
		nReset, nExt := 0, 0
		var longest *ssa.Phi
		eachInstr(dfs, func(ins ssa.Instruction) {
			call, ok := ins.(*ssa.Call)
			if !ok {
				return
			}
			vals := appendedValues(call)
			if len(vals) != 1 {
				return
			}
			if _, isStore := storeTargetOf(call); isStore {
				return // prefixes / keyCnts
			}
			if stripConv(vals[0]) == eP {
				return
			}
			// i+1
			L := fa.Lin(vals[0])
			var ivPhi *ssa.Phi
			for atom, coef := range L.T {
				if p, ok := fa.AtomValue(atom).(*ssa.Phi); ok && coef == 1 {
					ivPhi = p
				}
			}
			if ivPhi == nil || len(L.T) != 1 {
				bad = "split position appended is " + L.String() + ", expected (index of the difference examined)+1"
				return
			}
			// classify by conditions: cand < longest / cand == longest
			base := call.Common().Args[0]
			isReset := false
			if sl, ok := base.(*ssa.Slice); ok {
				if h, ok := constInt64(sl.High); ok && h == 0 {
					isReset = true
				}
			}
			okEdge := false
			for _, cd := range fa.Conds(call.Block()) {
				bo, ok := cd.V.(*ssa.BinOp)
				if !ok {
					continue
				}
				D, op, ok := fa.CondRel(cd)
				if !ok {
					continue
				}
				// find cand and longest
				var cand ssa.Value
				var lp *ssa.Phi
				for _, side := range []ssa.Value{bo.X, bo.Y} {
					if p, ok := stripConv(side).(*ssa.Phi); ok {
						lp = p
					} else {
						cand = side
					}
				}
				if cand == nil || lp == nil {
					continue
				}
				var candIdx ssa.Value
				if cx, _, ok := asShiftRight(cand); ok {
					cont, ci, ok := asElemLoad(cx)
					if !ok || !isCellLoad(cont, "firstDiffs") {
						continue
					}
					candIdx = ci
				} else if cont, ci, ok := asElemLoad(cand); !ok || !isCellLoad(cont, "firstDiffs") {
					continue // not a comparison of a difference with the running minimum
				} else {
					candIdx = ci
				}
				// firstDiffs[k] describes the pair keys[k], keys[k+1]: the split goes between them, at k+1
				if !L.Eq(fa.Lin(candIdx).Add(linConst(1))) {
					bad = "split position appended is " + L.String() + " for the difference at index " + fa.Lin(candIdx).String() + ", expected that index + 1"
				}
				iv, e := candIV(cand)
				if e != "" {
					bad = e
					continue
				}
				if iv.Phi != ivPhi {
					bad = "split position does not belong to the difference that was examined"
				}
				d := fa.Lin(cand).Sub(fa.Lin(lp)) // cand - longest
				var bd Bounds
				if D.Eq(d) {
					applyRel(&bd, 0, op, "")
				} else if D.Eq(d.Neg()) {
					applyRel(&bd, 0, flipOp(op), "")
				} else {
					continue
				}
				longest = lp
				_ = isReset
				// necessary: a split position is a prefix-minimum of the differences (cand <= longest)
				if bd.HasHi && bd.Hi <= 0 {
					okEdge = true
					if !bd.HasLo || bd.Lo <= -1 {
						nReset++ // covers cand < longest
					}
					if bd.Hi == 0 {
						nExt++ // covers cand == longest
					}
				}
			}
			if !okEdge && bad == "" {
				bad = "a split position is collected on an edge where its common-prefix length may exceed the minimum seen so far: the following shard can then sort before its predecessor"
			}
		})
		if (nReset == 0 || nExt == 0) && bad == "" {
			bad = fmt.Sprintf("split positions must be collected both for a strictly smaller and for an equal common-prefix length (else a key that is a prefix of its successor never splits and the recursion does not progress); sites covering <: %d, ==: %d", nReset, nExt)
		}
		if longest != nil && bad == "" {
			cands, inits, e := runningMin(fa, longest)
			if e != "" {
				bad = e
			}
			for _, cv := range cands {
				if _, e2 := candIV(cv); e2 != "" {
					bad = e2
				}
			}
			for _, iv := range inits {
				if !isLenKeyS(iv) {
					bad = "the minimal prefix length does not start at len(keys[s])"
				}
			}
		}
		r.Check(bad == "", "R-SPLIT", "sigbits.ShardByPrefix", w.Pos(dfs.Pos()), bad, "split at i+1 for minimal firstDiffs[i]>>3 over [s,e-1), reset on <, extend on ==, close with e; dfs(s,end), s=end")
	}
}

// c17PreConverted: ShardByPrefix converts every element of the firstDiffs list from bits to bytes in place, once,
// in its own body (a loop over the whole list storing firstDiffs[i]>>3 back into firstDiffs[i]).
func c17PreConverted(w *World, fn *ssa.Function) bool {
	al := c17Cells["firstDiffs"]
	if al == nil {
		return false
	}
	rs := inPlaceRescale(fn)[al]
	if rs == nil || !rs.cell || rs.c != 3 || len(rs.stores) != 1 {
		return false
	}
	fa := w.FA(fn)
	for st := range rs.stores {
		ia := st.Addr.(*ssa.IndexAddr)
		iv, ok := fa.InductionOf(ia.Index, st.Block())
		if !ok || !iv.FirstConst || iv.First != 0 || iv.Step != 1 || !iv.HasN || !iv.N.Eq(fa.lenOf(ia.X, 0)) {
			return false
		}
		if fa.earlyExit(iv) != "" {
			return false
		}
	}
	return true
}

func loadOfCell(fn *ssa.Function, name string) ssa.Value {
	var out ssa.Value
	eachInstr(fn, func(ins ssa.Instruction) {
		if v, ok := ins.(ssa.Value); ok && out == nil && isCellLoad(v, name) {
			out = v
		}
	})
	return out
}

// storeTargetOf: the append result is stored into a captured variable.
func storeTargetOf(call *ssa.Call) (string, bool) {
	if call.Referrers() == nil {
		return "", false
	}
	for _, ref := range *call.Referrers() {
		if st, ok := ref.(*ssa.Store); ok {
			if fv, ok := st.Addr.(*ssa.FreeVar); ok {
				// the canonical name of the captured cell, when it is one the rules know
				if b, ok := freeVarBinding(fv).(*ssa.Alloc); ok {
					for nm, al := range c17Cells {
						if al == b {
							return nm, true
						}
					}
				}
				return fv.Name(), true
			}
		}
	}
	return "", false
}

func init() {
	register(&Prop{
		ID: "C17", Level: "other",
		Explain: "Structural necessary conditions of ShardByPrefix (DESIGN.md 5/C17): the size guard on the only emitting edge and the boundary emitted there (at most maxSize keys per shard), boundaries start at 0 and the recursion covers all keys, the prefix length is the running minimum of len(keys[s]) and firstDiffs[i]>>3 over exactly the range's adjacent differences (longest common prefix in bytes), bits-to-bytes conversion at every use, the split list (restart on shorter, extend on equal, close with e) and the recursion over it.",
		NotDec:  []string{"strict ascending order / uniqueness of the shard prefixes (follows from splitting at minimal common-prefix positions; combinatorial argument)", "termination of the recursion"},
		Trusted: []string{"go/ssa construction", "FirstDiffBits (C16)"},
		Quick:   []Config{cfgDefault, cfg386}, Thorough: []Config{cfgDefault, cfg386},
		Run: runC17,
	})
}
