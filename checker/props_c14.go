package main

import (
	"fmt"
	"go/token"
	"strings"

	"golang.org/x/tools/go/ssa"
)

// asProduct matches a*b of two non-constant values.
func asProduct(v ssa.Value) (ssa.Value, ssa.Value, bool) {
	x, y, ok := asBin(v, token.MUL)
	if !ok {
		return nil, nil, false
	}
	if _, c := constInt64(stripConv(x)); c {
		return nil, nil, false
	}
	if _, c := constInt64(stripConv(y)); c {
		return nil, nil, false
	}
	return stripConv(x), stripConv(y), true
}

// reportFresh: the result of fn is freshly allocated and fn writes nothing reachable from its parameters.
func reportFresh(w *World, r *Report, names ...string) {
	r.Rule("R-FRESH", "E1: the function writes no memory reachable from its arguments and its slice result is freshly allocated (never an alias of an input)")
	e := RunEffects(w)
	for _, n := range names {
		fn := findFunc(w, n)
		if fn == nil {
			r.Unknown("R-FRESH", n, "-", "function missing")
			continue
		}
		s := e.Sum[fn]
		var bad []string
		for _, ws := range s.wsites {
			if ws.r.kind != rkFresh {
				bad = append(bad, fmt.Sprintf("may write %s at %s (%s)", ws.r, ws.pos, ws.what))
			}
		}
		for rt := range s.ret {
			if rt.kind != rkFresh {
				bad = append(bad, "result may alias "+rt.String())
			}
		}
		if len(bad) > 0 {
			r.Bad("R-FRESH", n, w.Pos(fn.Pos()), strings.Join(bad, "; "))
		} else {
			r.OK("R-FRESH", n, w.Pos(fn.Pos()), "may-write roots: "+strings.Join(s.writes.strs(), ",")+"; result roots: "+strings.Join(s.ret.strs(), ","))
		}
	}
}

func runC14(c *Ctx, w *World, r *Report) {
	names := []string{"bitmap.Join", "bitmap.Getw", "bitmap.Slice"}
	fns, ok := requireFuncs(w, r, names...)
	ReportScale(w, r, names...)
	ReportPair(w, r, names...)
	ReportRound(w, r, names...)
	ReportTableWidth(w, r)
	refs := ReportBitRefs(w, r, names...)
	reportFresh(w, r, "bitmap.Join", "bitmap.Slice")
	if !ok {
		return
	}
	r.Rule("R-ALLOC", "the result is sized as ceil(bits/64) words: make length = (bits + 63) >> 6 with bits = to-from (Slice) or len(values)*w (Join)")
	r.Rule("R-COPYBIT", "Slice: the source bit tested is bit i of the input for i running from `from` while i < `to` exactly; the bit written is bit i-from of the result and is written only under source bit != 0")
	r.Rule("R-PACK", "Join and Getw agree on the packing: element i of width w lives at bit position i*w, word (i*w)>>6, offset (i*w)&63, masked with bitmap.Mask[w]; Join ORs (value & Mask[w]) << offset into that word, Getw returns (word >> offset) & Mask[w]")

	// ---- R-ALLOC
	{
		fn := fns["bitmap.Slice"]
		fa := w.FA(fn)
		var mk *ssa.MakeSlice
		eachInstr(fn, func(ins ssa.Instruction) {
			if m, ok := ins.(*ssa.MakeSlice); ok && isWordSlice(m.Type()) {
				mk = m
			}
		})
		if mk == nil {
			r.Bad("R-ALLOC", "bitmap.Slice", w.Pos(fn.Pos()), "no allocation of the result bitmap found")
		} else {
			x, cc, ok := asShiftRight(mk.Len)
			want := fa.Lin(fn.Params[2]).Sub(fa.Lin(fn.Params[1])).Add(linConst(63))
			if !ok || cc != 6 {
				r.Bad("R-ALLOC", "bitmap.Slice", w.InstrPos(mk), "result length "+fa.Lin(mk.Len).String()+" is not a bit count converted to words with >>6")
			} else {
				if ax, ac, ok := asAlignDown(x); ok && ac == 6 {
					x = ax
				}
				r.Check(fa.Lin(x).Eq(want), "R-ALLOC", "bitmap.Slice", w.InstrPos(mk), "result length is ("+fa.Lin(x).String()+")>>6, expected (to-from+63)>>6", "make length = ("+fa.Lin(x).String()+")>>6")
			}
		}
	}
	{
		fn := fns["bitmap.Join"]
		fa := w.FA(fn)
		var mk *ssa.MakeSlice
		eachInstr(fn, func(ins ssa.Instruction) {
			if m, ok := ins.(*ssa.MakeSlice); ok && isWordSlice(m.Type()) {
				mk = m
			}
		})
		if mk == nil {
			r.Bad("R-ALLOC", "bitmap.Join", w.Pos(fn.Pos()), "no allocation of the result bitmap found")
		} else {
			x, cc, ok := asShiftRight(mk.Len)
			bad := ""
			if !ok || cc != 6 {
				bad = "result length is not a bit count converted to words with >>6"
			} else {
				if ax, ac, ok := asAlignDown(x); ok && ac == 6 {
					x = ax
				}
				L := fa.Lin(x)
				if L.K != 63 || len(L.T) != 1 {
					bad = "result length is (" + L.String() + ")>>6, expected (len(values)*w + 63)>>6"
				} else {
					for atom, coef := range L.T {
						a, b, ok := asProduct(fa.AtomValue(atom))
						if !ok || coef != 1 {
							bad = "bit count is not len(values)*w"
							continue
						}
						isLen := func(v ssa.Value) bool {
							cl, ok := asCall(v, "builtin len")
							return ok && paramIndex(cl.Common().Args[0]) == 0
						}
						isW := func(v ssa.Value) bool { return paramIndex(stripConv(v)) == 1 }
						if !(isLen(a) && isW(b) || isLen(b) && isW(a)) {
							bad = "bit count is not len(values)*w"
						}
					}
				}
			}
			r.Check(bad == "", "R-ALLOC", "bitmap.Join", w.InstrPos(mk), bad, "make length = (len(subs)*size + 63) >> 6")
		}
	}
	// ---- R-COPYBIT
	{
		n := "bitmap.Slice"
		fn := fns[n]
		fa := w.FA(fn)
		var rd, wr *BitRef
		for i := range refs[n] {
			br := &refs[n][i]
			if br.Role == "words" && !br.Write && br.Use != nil {
				rd = br
			}
			if br.Role == "local" && br.Write {
				wr = br
			}
		}
		if rd == nil || wr == nil {
			r.Bad("R-COPYBIT", n, w.Pos(fn.Pos()), "source bit read on the input and destination bit write on the result not both found")
		} else {
			bad := ""
			var facts []string
			iv, ok := fa.InductionOf(rd.Pos, rd.Ins.Block())
			if !ok {
				bad = "source position is not a loop counter"
			} else {
				facts = append(facts, iv.Facts...)
				if !iv.FirstLin.Eq(fa.Lin(fn.Params[1])) || iv.Step != 1 {
					bad = fmt.Sprintf("source position starts at %s step %d, expected from, step 1", iv.FirstLin, iv.Step)
				}
				bd := fa.BoundsAt(rd.Ins.Block(), rd.PosLin.Sub(fa.Lin(fn.Params[2])))
				if !(bd.HasHi && bd.Hi == -1) {
					bad = "source position is not bounded by i < to exactly: i - to in " + bd.String()
				}
				if d := wr.PosLin.Sub(rd.PosLin.Sub(fa.Lin(fn.Params[1]))); !(d.IsConst() && d.K == 0) {
					bad = fmt.Sprintf("destination bit is %s, expected source position - from = %s", wr.PosLin, rd.PosLin.Sub(fa.Lin(fn.Params[1])))
				}
				// write under bit != 0
				guarded := false
				if bitKnownSet(fa.Conds(wr.Ins.Block()), rd) {
					guarded = true
				}
				// branch-free form: the source bit itself, as 0 or 1, is shifted to its place and OR-ed in:
				// r[j>>6] |= ((words[i>>6] >> (i&63)) & 1) << (j&63)
				if !guarded {
					if ia, ok := wr.Ins.(*ssa.IndexAddr); ok && ia.Referrers() != nil {
						for _, ref := range *ia.Referrers() {
							st, ok := ref.(*ssa.Store)
							if !ok {
								continue
							}
							a, b, ok := asBin(st.Val, token.OR)
							if !ok {
								continue
							}
							for _, sel := range []ssa.Value{a, b} {
								x, _, ok := asBin(sel, token.SHL)
								if !ok {
									continue
								}
								one, k, ok := asBinConst(stripConv(x), token.AND)
								if ok && k == 1 && stripConv(one) == rd.Use {
									if ub, isB := rd.Use.(*ssa.BinOp); isB && ub.Op == token.SHR {
										guarded = true
									}
								}
							}
						}
					}
				}
				if !guarded {
					bad = "destination bit is not written exactly under (source bit != 0)"
				}
			}
			r.Check(bad == "", "R-COPYBIT", n, w.InstrPos(wr.Ins), bad, append(facts, "dest bit = "+wr.PosLin.String()+", source bit = "+rd.PosLin.String())...)
		}
	}
	// ---- R-TRIM: trimming the result to a LENGTH n uses Mask[n] (n low bits), not MaskUpto[n] (n+1 bits)
	{
		n := "bitmap.Slice"
		fn := fns[n]
		fa := w.FA(fn)
		r.Rule("R-TRIM", "when Slice trims a result word to the range length (to-from) mod 64 it masks with bitmap.Mask[n] (exactly n low bits); MaskUpto[n] keeps n+1 bits and leaks input bit `to` into the result")
		bad := ""
		ntrim := 0
		want := fa.Lin(fn.Params[2]).Sub(fa.Lin(fn.Params[1]))
		eachInstr(fn, func(ins ssa.Instruction) {
			bo, ok := ins.(*ssa.BinOp)
			if !ok || bo.Op != token.AND {
				return
			}
			for _, m := range []ssa.Value{bo.X, bo.Y} {
				ms, ok := fa.MaskOf(m)
				if !ok || (ms.Kind != "low" && ms.Kind != "high") {
					continue
				}
				// the mask speaks about length n (N = n&63) or about n+1 (MaskUpto)
				isLen := func(L Lin) bool {
					v := fa.AtomValueOfLin(L)
					if v == nil {
						return false
					}
					x, j, ok := asLowMask(v)
					if !ok || j != 6 {
						return false
					}
					d := fa.Lin(x).Sub(want)
					return d.IsConst() && d.K%64 == 0
				}
				exact, plus1 := isLen(ms.N), isLen(ms.N.Add(linConst(-1)))
				if !exact && !plus1 {
					continue
				}
				ntrim++
				if !(exact && ms.Kind == "low") {
					bad = fmt.Sprintf("the result is trimmed to the range length with the %s side of bit %s (%s) at %s; a length n needs exactly the n low bits (Mask[n])", ms.Kind, ms.N.String(), ms.Via, w.InstrPos(ins))
				}
			}
		})
		r.Check(bad == "", "R-TRIM", n, w.Pos(fn.Pos()), bad, fmt.Sprintf("%d length-trim sites, all with Mask", ntrim))
	}
	// ---- R-PACK
	type pack struct {
		idx, width ssa.Value
		ok         bool
		bad        string
	}
	analysePos := func(fn *ssa.Function, pos ssa.Value) (ssa.Value, ssa.Value, bool) {
		a, b, ok := asProduct(pos)
		if !ok {
			return nil, nil, false
		}
		// width is the int32 "size"/"w" parameter (last parameter)
		wp := len(fn.Params) - 1
		if paramIndex(a) == wp {
			return b, a, true
		}
		if paramIndex(b) == wp {
			return a, b, true
		}
		return nil, nil, false
	}
	maskIsWidth := func(fn *ssa.Function, m ssa.Value) string {
		ms, ok := w.FA(fn).MaskOf(m)
		if !ok || ms.Kind != "low" {
			return "value is not masked with the low `width` bits (bitmap.Mask[w])"
		}
		if idx := w.FA(fn).AtomValueOfLin(ms.N); idx == nil || paramIndex(stripConv(idx)) != len(fn.Params)-1 {
			return "mask width is not the width parameter"
		}
		return ""
	}
	{ // Getw
		n := "bitmap.Getw"
		fn := fns[n]
		fa := w.FA(fn)
		bad := ""
		for _, ret := range returnsOf(fn) {
			a, b, ok := asBin(ret.Results[0], token.AND)
			if !ok {
				bad = "result is not (word >> offset) & Mask[w]"
				continue
			}
			var sh, m ssa.Value
			if _, _, ok := asBin(a, token.SHR); ok {
				sh, m = a, b
			} else {
				sh, m = b, a
			}
			wd, off, ok := asBin(sh, token.SHR)
			if !ok {
				bad = "result is not (word >> offset) & Mask[w]"
				continue
			}
			if e := maskIsWidth(fn, m); e != "" {
				bad = e
				continue
			}
			cont, widx, ok := asElemLoad(wd)
			if !ok || paramIndex(cont) != 0 {
				bad = "word is not bm[...]"
				continue
			}
			px, pc, ok1 := asShiftRight(widx)
			ox, oj, ok2 := asLowMask(off)
			if !ok1 || !ok2 || pc != 6 || oj != 6 || fa.VN(stripConv(px)) != fa.VN(stripConv(ox)) {
				bad = "word index and offset are not p>>6 and p&63 of one position p"
				continue
			}
			idx, _, ok := analysePos(fn, px)
			if !ok || paramIndex(idx) != 1 {
				bad = "position is not i*w"
			}
		}
		r.Check(bad == "", "R-PACK", n, w.Pos(fn.Pos()), bad, "returns (bm[(i*w)>>6] >> ((i*w)&63)) & Mask[w]")
	}
	{ // Join
		n := "bitmap.Join"
		fn := fns[n]
		fa := w.FA(fn)
		bad := ""
		nst := 0
		eachInstr(fn, func(ins ssa.Instruction) {
			st, ok := ins.(*ssa.Store)
			if !ok {
				return
			}
			ia, ok := st.Addr.(*ssa.IndexAddr)
			if !ok || !isWordSlice(ia.X.Type()) || containerRole(ia.X) != "local" {
				return
			}
			nst++
			px, pc, ok := asShiftRight(ia.Index)
			if !ok || pc != 6 {
				bad = "destination word is not r[p>>6]"
				return
			}
			idx, _, ok := analysePos(fn, px)
			if !ok {
				bad = "position is not i*size"
				return
			}
			iv, ok := fa.InductionOf(idx, st.Block())
			if !ok || !iv.FirstConst || iv.First != 0 || iv.Step != 1 {
				bad = "element index does not run 0,1,2,..."
				return
			}
			// every element is packed: the store is executed in every round of the loop (the low w bits of a value with
			// higher bits set are still its element)
			if iv.Phi != nil {
				hb := iv.Phi.Block()
				for _, pr := range hb.Preds {
					if hb.Dominates(pr) && !st.Block().Dominates(pr) {
						bad = "an element can be skipped: the store at " + w.InstrPos(st) + " is not executed in every round of the loop over the values (the property takes the low w bits of EVERY value, over-wide ones included)"
						return
					}
				}
			}
			a, b, ok := asBin(st.Val, token.OR)
			if !ok {
				bad = "destination word is not OR-ed into"
				return
			}
			var sh ssa.Value
			for _, s := range []ssa.Value{a, b} {
				if _, _, ok := asBin(s, token.SHL); ok {
					sh = s
				} else if cont, i2, ok := asElemLoad(s); !ok || fa.VN(cont) != fa.VN(ia.X) || fa.VN(i2) != fa.VN(ia.Index) {
					bad = "the word OR-ed into is not the destination word itself"
				}
			}
			if sh == nil {
				bad = "no (value & mask) << offset term"
				return
			}
			val, off, _ := asBin(sh, token.SHL)
			ox, oj, ok := asLowMask(off)
			if !ok || oj != 6 || fa.VN(stripConv(ox)) != fa.VN(stripConv(px)) {
				bad = "offset is not p&63 of the same position p"
				return
			}
			ea, eb, ok := asBin(val, token.AND)
			if !ok {
				bad = "value is not masked to its width before being shifted in"
				return
			}
			var elem, m ssa.Value
			if _, _, ok := asElemLoad(ea); ok && maskIsWidth(fn, ea) != "" {
				elem, m = ea, eb
			} else {
				elem, m = eb, ea
			}
			if e := maskIsWidth(fn, m); e != "" {
				bad = e
				return
			}
			cont, ei, ok := asElemLoad(elem)
			if !ok || paramIndex(cont) != 0 || !fa.Lin(ei).Eq(fa.Lin(idx)) {
				bad = "the value packed at position i*size is not values[i]"
			}
		})
		if nst == 0 {
			bad = "no store into the result bitmap"
		}
		r.Check(bad == "", "R-PACK", n, w.Pos(fn.Pos()), bad, "r[(i*size)>>6] |= (subs[i] & Mask[size]) << ((i*size)&63), i = 0,1,2,...")
	}
}

func init() {
	register(&Prop{
		ID: "C14", Level: "other",
		Explain: "Structural necessary conditions of Join/Getw/Slice (DESIGN.md 5/C14): unit consistency incl. the allocation (E4; this rule found the Slice allocation defect D2, now fixed), shift/mask pairing, allocation = ceil(bits/64), writer/reader agreement of the packing position i*w, mask Mask[w], Slice's bit copy (source i in [from,to) exactly, destination i-from, written only for set bits), and E1: inputs never written, results fresh.",
		NotDec:  []string{"that (v & Mask[w]) << off never crosses a word for w | 64 (arithmetic)", "contents of the Mask table"},
		Trusted: []string{"go/ssa construction"},
		Quick:   []Config{cfgDefault, cfg386}, Thorough: []Config{cfgDefault, cfg386},
		Run: runC14,
	})
}
