package main

import (
	"fmt"
	"go/ast"
	"go/constant"
	"go/token"
	"go/types"
	"sort"
	"strings"

	"golang.org/x/tools/go/ssa"
)

// isLow32 reports whether v is the low 32 bits of src: uint32(src) or src & 0xffffffff.
func isLow32(v ssa.Value, src ssa.Value) bool {
	if cv, ok := v.(*ssa.Convert); ok {
		if b, ok := cv.Type().Underlying().(interface{ Kind() interface{} }); ok {
			_ = b
		}
		if cv.X == src && cv.Type().String() == "uint32" {
			return true
		}
		return isLow32(cv.X, src) && (cv.Type().String() == "uint32" || cv.Type().String() == "uint64")
	}
	if x, k, ok := asBinConst(v, token.AND); ok && uint64(k) == 0xffffffff && stripConvTo(x) == src {
		return true
	}
	// (x << 32) >> 32 in an unsigned 64-bit type: the upper half is shifted out, zeros come back in
	if x, k, ok := asBinConst(v, token.SHR); ok && k == 32 && isUnsigned(v.Type()) && intWidth(v.Type()) == 64 {
		if y, k2, ok := asBinConst(x, token.SHL); ok && k2 == 32 && y == src {
			return true
		}
	}
	// an in-module accessor applied to src whose own single result is the low 32 bits of its parameter (PathMask(p))
	if call, ok := v.(*ssa.Call); ok && len(call.Common().Args) == 1 && call.Common().Args[0] == src {
		if f := call.Common().StaticCallee(); f != nil && len(f.Blocks) == 1 && len(f.Params) == 1 && strings.HasPrefix(funcFullName(f), "github.com/openacid/low/") {
			if ret, ok := f.Blocks[0].Instrs[len(f.Blocks[0].Instrs)-1].(*ssa.Return); ok && len(ret.Results) == 1 {
				return isLow32(ret.Results[0], f.Params[0])
			}
		}
	}
	return false
}

func stripConvTo(v ssa.Value) ssa.Value { return v }

// isIdxToPathTable: v is the table bmtree.idxToPath as an index base - the loaded slice of slices (var idxToPath =
// [][]uint64{...}) or the array variable itself (var idxToPath = [...][]uint64{...}).
func isIdxToPathTable(v ssa.Value) bool {
	if u, ok := v.(*ssa.UnOp); ok && isGlobal(u.X, "bmtree", "idxToPath") {
		return true
	}
	return isGlobal(v, "bmtree", "idxToPath")
}

// asPopcountLoop: v is the round counter of `n := 0; for m := x; m != 0; m &= m-1 { n++ }` (each round clears the
// lowest set bit of m), i.e. the popcount of x. Returns x.
func asPopcountLoop(v ssa.Value) (ssa.Value, bool) { return asBitLoop(v, "popcount") }

// asBitLenLoop: v is the round counter of `n := 0; for m := x; m != 0; m >>= 1 { n++ }`: the bit length of x
// (64 - LeadingZeros64 for a 64-bit x, 32 - LeadingZeros32 for a 32-bit one). Returns x.
func asBitLenLoop(v ssa.Value) (ssa.Value, bool) { return asBitLoop(v, "bitlen") }

func asBitLoop(v ssa.Value, kind string) (ssa.Value, bool) {
	n, ok := stripConv(v).(*ssa.Phi)
	if !ok || !isLoopHeaderPhi(n) {
		return nil, false
	}
	hb := n.Block()
	for i, e := range n.Edges {
		if hb.Dominates(hb.Preds[i]) {
			if x, k, ok := asBinConst(e, token.ADD); !ok || x != ssa.Value(n) || k != 1 {
				return nil, false
			}
		} else if k, ok := constInt64(stripConv(e)); !ok || k != 0 {
			return nil, false
		}
	}
	for _, ins := range hb.Instrs {
		m, isPhi := ins.(*ssa.Phi)
		if !isPhi {
			break
		}
		if m == n {
			continue
		}
		var init ssa.Value
		okM := true
		for i, e := range m.Edges {
			if !hb.Dominates(hb.Preds[i]) {
				init = e
				continue
			}
			if kind == "bitlen" {
				// m >>= 1 on an unsigned value
				if x, k, okS := asBinConst(e, token.SHR); !okS || x != ssa.Value(m) || k != 1 || !isUnsigned(m.Type()) {
					okM = false
				}
				continue
			}
			a, b, ok := asBin(e, token.AND)
			if !ok {
				okM = false
				break
			}
			if b == ssa.Value(m) {
				a, b = b, a
			}
			x, k, okS := asBinConst(b, token.SUB)
			if a != ssa.Value(m) || !okS || x != ssa.Value(m) || k != 1 {
				okM = false
			}
		}
		if !okM || init == nil {
			continue
		}
		// the loop runs exactly while m != 0
		ifi, ok := hb.Instrs[len(hb.Instrs)-1].(*ssa.If)
		if !ok {
			continue
		}
		bo, ok := ifi.Cond.(*ssa.BinOp)
		if !ok || (bo.Op != token.NEQ && bo.Op != token.EQL) {
			continue
		}
		var other ssa.Value
		if bo.X == ssa.Value(m) {
			other = bo.Y
		} else if bo.Y == ssa.Value(m) {
			other = bo.X
		}
		if k, isK := constInt64(stripConv(other)); other == nil || !isK || k != 0 {
			continue
		}
		body := hb.Succs[0]
		if bo.Op == token.EQL {
			body = hb.Succs[1]
		}
		if !hb.Dominates(body) || !reaches(body, hb, nil) || body == hb {
			continue
		}
		exit := hb.Succs[1]
		if bo.Op == token.EQL {
			exit = hb.Succs[0]
		}
		if reaches(exit, hb, nil) {
			continue // the other successor must leave the loop
		}
		return init, true
	}
	return nil, false
}

// pathLayoutProblem: v must be bits<<32 | lowmask(length)<<(height-length), the path word layout NewPath builds;
// returns "" when it is.
func pathLayoutProblem(fa *FA, v ssa.Value, isBits func(ssa.Value) bool, length, height Lin) string {
	a, b, ok := asBin(v, token.OR)
	if !ok {
		return "result is not bits<<32 | mask"
	}
	bad := ""
	var bitsT, maskT ssa.Value
	for _, s := range []ssa.Value{a, b} {
		if x, cc, ok := asBinConst(s, token.SHL); ok && isBits(x) {
			bitsT = s
			if cc != 32 {
				bad = fmt.Sprintf("searching bits are shifted by %d, the layout needs 32", cc)
			}
		} else {
			maskT = s
		}
	}
	if bitsT == nil || maskT == nil {
		return "result is not searchingBits<<32 | mask"
	}
	m, sh, ok := asBin(maskT, token.SHL)
	if !ok {
		return "mask is not Mask[length] << (height-length)"
	}
	if ms, ok := fa.MaskOf(m); !ok || ms.Kind != "low" || !ms.N.Eq(length) {
		bad = "mask bits are not the low `length` bits (bitmap.Mask[length])"
	}
	if !fa.Lin(sh).Eq(height.Sub(length)) {
		bad = "mask is shifted by " + fa.Lin(sh).String() + ", left alignment needs height-length"
	}
	return bad
}

func runC10(c *Ctx, w *World, r *Report) {
	names := []string{"bmtree.NewPath", "bmtree.PathBits", "bmtree.PathMask", "bmtree.PathLen", "bmtree.PathHeight", "bmtree.PathStr"}
	fns, ok := requireFuncs(w, r, names...)
	ReportTableWidth(w, r)
	ReportScale(w, r, names...)
	if !ok {
		return
	}
	// R-NOCONTRACT: the accessors are total over path words of every height up to 32; the debug contracts of the index
	// functions encode the 30-level limit of a bitmap tree and must not be reachable from them
	r.Rule("R-NOCONTRACT", "no path-word function (NewPath, PathBits, PathMask, PathLen, PathHeight, PathStr) reaches, through static calls inside the library, a call into the contract package openacid/must: the contracts of bmtree (pathCheck, bitmapSizeCheck) state the limits of a 30-level bitmap tree, path words exist for heights up to 32, and a contract that is a no-op in release builds panics under -tags debug")
	for _, n := range names {
		seen := map[*ssa.Function]bool{}
		bad := ""
		var walk func(f *ssa.Function, via string)
		walk = func(f *ssa.Function, via string) {
			if f == nil || seen[f] || f.Blocks == nil || !w.InModule(f) {
				return
			}
			seen[f] = true
			eachInstr(f, func(ins ssa.Instruction) {
				var com *ssa.CallCommon
				switch x := ins.(type) {
				case *ssa.Call:
					com = x.Common()
				case *ssa.Defer:
					com = x.Common()
				case *ssa.Go:
					com = x.Common()
				case *ssa.MakeClosure:
					if cf, ok := x.Fn.(*ssa.Function); ok {
						walk(cf, via)
					}
					return
				default:
					return
				}
				if callee := com.StaticCallee(); callee != nil {
					if callee.Pkg != nil && strings.Contains(callee.Pkg.Pkg.Path(), "openacid/must") {
						bad = "reaches the contract call " + calleeName(com) + " at " + w.InstrPos(ins) + via
						return
					}
					walk(callee, via+" via "+callee.Name())
				} else if com.IsInvoke() {
					if nt, ok := com.Value.Type().(*types.Named); ok && nt.Obj().Pkg() != nil && strings.Contains(nt.Obj().Pkg().Path(), "openacid/must") {
						bad = "reaches the contract call " + com.Method.Name() + " at " + w.InstrPos(ins) + via
					}
				} else if mv := com.Value; mv != nil {
					// must.Be.OK(..): a method of a package-level value of the contract package
					if strings.Contains(mv.Type().String(), "openacid/must") || strings.Contains(mv.String(), "openacid/must") {
						bad = "reaches a contract call at " + w.InstrPos(ins) + via
					}
				}
			})
		}
		walk(fns[n], "")
		r.Check(bad == "", "R-NOCONTRACT", n, w.Pos(fns[n].Pos()), bad, fmt.Sprintf("%d library functions reachable, none calls into openacid/must", len(seen)))
	}
	r.Rule("R-LAYOUT", "a path word is searching bits << 32 | mask, the mask being the low 32 bits: NewPath shifts the bits by 32 and ORs bitmap.Mask[length] << (height-length) (left aligned in height bits); PathBits = word >> 32; PathMask = low 32 bits; PathLen = popcount of the low 32 bits; PathHeight = bit length of the low 32 bits; PathStr prints the top PathLen bits: word >> (32 + PathHeight - PathLen), zero padded to PathLen digits, '' for the root")

	chk := func(n string, bad string, facts ...string) {
		r.Check(bad == "", "R-LAYOUT", n, w.Pos(fns[n].Pos()), bad, facts...)
	}
	{ // NewPath
		n := "bmtree.NewPath"
		fn := fns[n]
		fa := w.FA(fn)
		bad := ""
		for _, ret := range returnsOf(fn) {
			if why := pathLayoutProblem(fa, ret.Results[0], func(x ssa.Value) bool { return x == ssa.Value(fn.Params[0]) }, fa.Lin(fn.Params[1]), fa.Lin(fn.Params[2])); why != "" {
				bad = why
			}
		}
		chk(n, bad, "searchingBits<<32 | Mask[length]<<(height-length)")
	}
	{ // PathBits
		n := "bmtree.PathBits"
		fn := fns[n]
		bad := ""
		for _, ret := range returnsOf(fn) {
			x, cc, ok := asBinConst(ret.Results[0], token.SHR)
			if !ok || x != ssa.Value(fn.Params[0]) || cc != 32 {
				bad = "PathBits is not path >> 32"
			}
		}
		chk(n, bad, "path >> 32")
	}
	{ // PathMask
		n := "bmtree.PathMask"
		fn := fns[n]
		bad := ""
		for _, ret := range returnsOf(fn) {
			if !isLow32(ret.Results[0], fn.Params[0]) {
				bad = "PathMask is not the low 32 bits of the word"
			}
		}
		chk(n, bad, "path & 0xffffffff")
	}
	{ // PathLen
		n := "bmtree.PathLen"
		fn := fns[n]
		bad := ""
		for _, ret := range returnsOf(fn) {
			if arg, isLoop := asPopcountLoop(ret.Results[0]); isLoop {
				// the count of the rounds of `for m := x; m != 0; m &= m-1` is the popcount of x
				if !isLow32(arg, fn.Params[0]) {
					bad = "PathLen counts the bits of something other than the low 32 bits"
				}
				continue
			}
			call, ok := asCall(ret.Results[0], "math/bits.OnesCount32", "math/bits.OnesCount64")
			if !ok || !isLow32(call.Common().Args[0], fn.Params[0]) {
				bad = "PathLen is not the popcount of the low 32 bits"
			}
		}
		chk(n, bad, "OnesCount32(uint32(p))")
	}
	{ // PathHeight
		n := "bmtree.PathHeight"
		fn := fns[n]
		fa := w.FA(fn)
		bad := ""
		for _, ret := range returnsOf(fn) {
			if call, ok := asCall(ret.Results[0], "math/bits.Len32"); ok && isLow32(call.Common().Args[0], fn.Params[0]) {
				continue
			}
			// the bit length counted by shifting the mask out: the number of rounds of `for m := mask; m != 0; m >>= 1`
			if arg, isLoop := asBitLenLoop(ret.Results[0]); isLoop {
				if !isLow32(arg, fn.Params[0]) {
					bad = "PathHeight counts the bit length of something other than the low 32 bits"
				}
				continue
			}
			L := fa.Lin(ret.Results[0])
			okH := (L.K == 32 || L.K == 64) && len(L.T) == 1
			for atom, coef := range L.T {
				call, ok := fa.AtomValue(atom).(*ssa.Call)
				// the low 32 bits zero-extended to 64 have 32 more leading zeros: 64 - LeadingZeros64 = 32 - LeadingZeros32
				want := map[int64]string{32: "math/bits.LeadingZeros32", 64: "math/bits.LeadingZeros64"}[L.K]
				if !ok || coef != -1 || calleeName(call.Common()) != want || !isLow32(call.Common().Args[0], fn.Params[0]) {
					okH = false
				}
			}
			if !okH {
				bad = "PathHeight is " + L.String() + ", expected 32 - LeadingZeros32(low 32 bits)"
			}
		}
		chk(n, bad, "32 - LeadingZeros32(uint32(path))")
	}
	{ // PathStr
		n := "bmtree.PathStr"
		fn := fns[n]
		fa := w.FA(fn)
		bad := ""
		nfmt := 0
		isCallOf := func(v ssa.Value, f string) bool {
			call, ok := stripConv(v).(*ssa.Call)
			return ok && call.Common().StaticCallee() == fns[f] && call.Common().Args[0] == ssa.Value(fn.Params[0])
		}
		for _, ret := range returnsOf(fn) {
			if cst, ok := ret.Results[0].(*ssa.Const); ok {
				if constant.StringVal(cst.Value) != "" {
					bad = "constant result is not the empty string"
				}
				// under PathLen == 0
				okc := false
				for _, cd := range fa.Conds(ret.Block()) {
					// PathLen == 0 on its true edge, PathLen != 0 on its false edge, either operand order
					if bo, ok := cd.V.(*ssa.BinOp); ok && (bo.Op == token.EQL && cd.Pol || bo.Op == token.NEQ && !cd.Pol) {
						for _, side := range [2][2]ssa.Value{{bo.X, bo.Y}, {bo.Y, bo.X}} {
							if k, ok := constInt64(stripConv(side[1])); ok && k == 0 && isCallOf(side[0], "bmtree.PathLen") {
								okc = true
							}
						}
					}
				}
				// (PathLen is a popcount, never negative: <= 0 and < 1 say the same)
				if plc := func() ssa.Value {
					var out ssa.Value
					eachInstr(fn, func(ins ssa.Instruction) {
						if v, ok := ins.(ssa.Value); ok && isCallOf(v, "bmtree.PathLen") && out == nil {
							out = v
						}
					})
					return out
				}(); plc != nil && !okc {
					if bd := fa.BoundsAt(ret.Block(), fa.Lin(plc)); bd.HasHi && bd.Hi <= 0 {
						okc = true
					}
				}
				if !okc {
					bad = "'' is returned on an edge other than PathLen == 0"
				}
				continue
			}
			call, ok := ret.Results[0].(*ssa.Call)
			if !ok || calleeName(call.Common()) != "fmt.Sprintf" {
				bad = "result is not a formatted string"
				continue
			}
			nfmt++
			f, _ := call.Common().Args[0].(*ssa.Const)
			if f == nil || (constant.StringVal(f.Value) != "%0[1]*[2]b" && constant.StringVal(f.Value) != "%0*b") {
				bad = "format is not zero-padded binary with a width argument"
			}
			args := sprintfArgs(call)
			var width, val ssa.Value
			for _, a := range args {
				if isCallOf(a, "bmtree.PathLen") {
					width = a
				} else {
					val = a
				}
			}
			if width == nil || val == nil {
				bad = "width is not PathLen(path)"
				continue
			}
			x, sh, ok := asBin(val, token.SHR)
			if !ok || x != ssa.Value(fn.Params[0]) {
				bad = "value printed is not path >> k"
				continue
			}
			L := fa.Lin(sh)
			okS := L.K == 32 && len(L.T) == 2
			for atom, coef := range L.T {
				v := fa.AtomValue(atom)
				if !(coef == 1 && isCallOf(v, "bmtree.PathHeight") || coef == -1 && isCallOf(v, "bmtree.PathLen")) {
					okS = false
				}
			}
			if !okS {
				bad = "path is shifted by " + L.String() + ", the top PathLen bits need 32 + PathHeight - PathLen"
			}
		}
		if nfmt == 0 && bad == "" {
			bad = "no formatted result"
		}
		nempty := 0
		for _, ret := range returnsOf(fn) {
			if _, ok := ret.Results[0].(*ssa.Const); ok {
				nempty++
			}
		}
		if nempty == 0 && bad == "" {
			bad = "the root path (PathLen == 0) is not rendered as ''"
		}
		chk(n, bad, "'' if PathLen==0 else Sprintf(\"%0[1]*[2]b\", PathLen, path>>(32+PathHeight-PathLen))")
	}
}

// ---------------- C05 ----------------

// constTable reads a package-level [][]uint64 composite literal through go/types constant folding.
func constTable(w *World, short, name string) (map[int64][]uint64, token.Pos, string) {
	for _, p := range w.Pkgs {
		if w.Short(p.Types) != short {
			continue
		}
		for _, f := range p.Syntax {
			for _, d := range f.Decls {
				gd, ok := d.(*ast.GenDecl)
				if !ok {
					continue
				}
				for _, sp := range gd.Specs {
					vs, ok := sp.(*ast.ValueSpec)
					if !ok {
						continue
					}
					for i, id := range vs.Names {
						if id.Name != name || i >= len(vs.Values) {
							continue
						}
						cl, ok := vs.Values[i].(*ast.CompositeLit)
						if !ok {
							return nil, id.Pos(), "initialiser is not a composite literal"
						}
						out := map[int64][]uint64{}
						next := int64(0)
						for _, el := range cl.Elts {
							key := next
							val := el
							if kv, ok := el.(*ast.KeyValueExpr); ok {
								tv := p.TypesInfo.Types[kv.Key]
								if tv.Value == nil {
									return nil, id.Pos(), "non-constant key"
								}
								key, _ = constant.Int64Val(tv.Value)
								val = kv.Value
							}
							next = key + 1
							inner, ok := val.(*ast.CompositeLit)
							if !ok {
								return nil, id.Pos(), "inner element is not a literal list"
							}
							var row []uint64
							for _, e2 := range inner.Elts {
								tv := p.TypesInfo.Types[e2]
								if tv.Value == nil {
									return nil, id.Pos(), "non-constant table entry"
								}
								u, ok := constant.Uint64Val(tv.Value)
								if !ok {
									return nil, id.Pos(), "table entry out of range"
								}
								row = append(row, u)
							}
							out[key] = row
						}
						return out, id.Pos(), ""
					}
				}
			}
		}
	}
	return nil, token.NoPos, "variable not found"
}

// allPathsOfHeight generates every well-formed path of height t, sorted numerically.
func allPathsOfHeight(t uint) []uint64 {
	var out []uint64
	for l := uint(0); l <= t; l++ {
		mask := ((uint64(1) << l) - 1) << (t - l)
		for p := uint64(0); p < uint64(1)<<l; p++ {
			bits := p << (t - l)
			out = append(out, bits<<32|mask)
		}
	}
	sort.Slice(out, func(i, j int) bool { return out[i] < out[j] })
	return out
}

func runC05(c *Ctx, w *World, r *Report) {
	fns, ok := requireFuncs(w, r, "bmtree.IndexToPath", "bmtree.PathToIndex")
	r.Rule("R-TABLE", "the last-levels lookup table idxToPath has exactly the keys {0,1,2,4,8}; the row for key 2^t lists, in order, all well-formed paths of height t sorted numerically (by the path layout and pre-order = numeric order this is the only table that inverts PathToIndex on a full tree of height t); row 0 is {0}")
	r.Rule("R-SELECT", "the table is selected with mask&m and the descent loop stops on mask&m != 0 with the same m = 2^k-1 covering every key; the row is indexed by the remaining index")
	tab, pos, err := constTable(w, "bmtree", "idxToPath")
	if err != "" {
		r.Unknown("R-TABLE", "bmtree.idxToPath", w.Pos(pos), "cannot read the table: "+err)
		return
	}
	var keys []int64
	for k := range tab {
		keys = append(keys, k)
	}
	sort.Slice(keys, func(i, j int) bool { return keys[i] < keys[j] })
	wantKeys := []int64{0, 1, 2, 4, 8}
	r.Check(fmt.Sprint(keys) == fmt.Sprint(wantKeys), "R-TABLE", "bmtree.idxToPath|keys", w.Pos(pos), fmt.Sprintf("table keys are %v, expected %v", keys, wantKeys), fmt.Sprintf("keys %v", keys))
	nconst := 0
	for _, k := range wantKeys {
		row, ok := tab[k]
		if !ok {
			continue
		}
		var want []uint64
		if k == 0 {
			want = []uint64{0}
		} else {
			t, _ := log2(uint64(k))
			want = allPathsOfHeight(uint(t))
		}
		bad := ""
		if len(row) != len(want) {
			bad = fmt.Sprintf("row %d has %d entries, a full tree of that height has %d nodes", k, len(row), len(want))
		} else {
			for i := range row {
				nconst++
				if row[i] != want[i] {
					bad = fmt.Sprintf("row %d entry %d is %#x, the node with pre-order index %d is %#x", k, i, row[i], i, want[i])
					break
				}
			}
		}
		r.Check(bad == "", "R-TABLE", fmt.Sprintf("bmtree.idxToPath|row%d", k), w.Pos(pos), bad, fmt.Sprintf("%d constants equal the generated table", len(want)))
	}
	r.Units["table_constants_compared"] = nconst
	// R-TABLE-PRIVATE: the decided constants are what IndexToPath reads only if nobody can get a writable alias of the table
	{
		r.Rule("R-TABLE-PRIVATE", "E1: no function of package bmtree returns memory that aliases the lookup table idxToPath (a caller writing into such a result would change what IndexToPath returns afterwards); writes to it are excluded by R-STATELESS / C19")
		e := RunEffects(w)
		var leaks []string
		nf := 0
		for _, f := range w.SourceFuncs() {
			if fnPkg(f) == nil || w.Short(fnPkg(f)) != "bmtree" {
				continue
			}
			sm := e.Sum[f]
			if sm == nil {
				continue
			}
			nf++
			for rt := range sm.ret {
				if rt.kind == rkGlobal && rt.g != nil && rt.g.Name() == "idxToPath" {
					leaks = append(leaks, w.FuncName(f)+" at "+w.Pos(f.Pos()))
				}
			}
		}
		sort.Strings(leaks)
		r.Check(len(leaks) == 0, "R-TABLE-PRIVATE", "bmtree.idxToPath", w.Pos(pos), "a result of "+strings.Join(leaks, ", ")+" may alias the table", fmt.Sprintf("%d functions of bmtree summarised, no result rooted at the table", nf))
	}
	ReportShiftSign(w, r, "bmtree.IndexToPath", map[int]bool{0: true}, "treeheight is a tree height, 0..30 by contract")
	if !ok {
		return
	}
	// R-SELECT
	fn := fns["bmtree.IndexToPath"]
	fa := w.FA(fn)
	bad := ""
	var selMask int64 = -1
	var selX ssa.Value
	nsel := 0
	eachInstr(fn, func(ins ssa.Instruction) {
		ia, ok := ins.(*ssa.IndexAddr)
		if !ok {
			return
		}
		if !isIdxToPathTable(ia.X) {
			return
		}
		nsel++
		x, j, ok := asLowMask(ia.Index)
		if !ok {
			bad = "table is not selected with mask & (2^k-1)"
			return
		}
		selMask, selX = int64(1)<<uint(j)-1, x
	})
	if nsel == 0 {
		bad = "idxToPath is never consulted"
	}
	if selMask >= 0 {
		for _, k := range keys {
			if k > selMask {
				bad = fmt.Sprintf("selector mask %d cannot reach table key %d", selMask, k)
			}
		}
		// loop condition uses the same mask on the same variable
		found := false
		eachInstr(fn, func(ins ssa.Instruction) {
			bo, ok := ins.(*ssa.BinOp)
			if !ok || (bo.Op != token.EQL && bo.Op != token.NEQ) {
				return
			}
			x, j, ok := asLowMask(bo.X)
			if !ok {
				return
			}
			if k, ok := constInt64(stripConv(bo.Y)); !ok || k != 0 {
				return
			}
			if fa.VN(x) == fa.VN(selX) {
				found = true
				lm := int64(1)<<uint(j) - 1
				if lm&^selMask != 0 {
					bad = fmt.Sprintf("the descent loop stops on mask&%d but the table is selected with the narrower mask&%d: a stop bit outside the selector reads row 0", lm, selMask)
				}
				for b := int64(1); b <= lm; b <<= 1 {
					if _, ok := tab[b]; !ok {
						bad = fmt.Sprintf("the descent loop can stop with selector bit %d but the table has no row %d", b, b)
					}
				}
			}
		})
		if !found && bad == "" {
			bad = "no loop-exit test on the selector bits"
		}
	}
	r.Check(bad == "", "R-SELECT", "bmtree.IndexToPath", w.Pos(fn.Pos()), bad, fmt.Sprintf("selector and loop exit both use mask&%d", selMask))

	// R-LOOKUPEXIT: the descent loop is left only when the table can answer
	{
		r.Rule("R-LOOKUPEXIT", "every edge that leaves the bit-by-bit descent loop of IndexToPath is the failing edge of the selector test (mask&m == 0) or of the remaining-index test (index > 0): only then does the final lookup find a row for the selector, or index 0 in row 0. Any further way out (an iteration cap, a break on another condition) reaches row 0 - a single entry - with a non-zero index")
		badL := ""
		nexit := 0
		var hdr *ssa.BasicBlock
		var selTest *ssa.BinOp
		eachInstr(fn, func(ins ssa.Instruction) {
			bo, ok := ins.(*ssa.BinOp)
			if !ok || (bo.Op != token.EQL && bo.Op != token.NEQ) || selX == nil {
				return
			}
			x, _, ok := asLowMask(bo.X)
			if !ok || fa.VN(x) != fa.VN(selX) {
				return
			}
			if k, ok := constInt64(stripConv(bo.Y)); !ok || k != 0 {
				return
			}
			if bo.Referrers() != nil {
				for _, ref := range *bo.Referrers() {
					if ifi, ok := ref.(*ssa.If); ok {
						hdr, selTest = ifi.Block(), bo
					}
				}
			}
		})
		// the row index of the final lookup
		var rowIdx ssa.Value
		eachInstr(fn, func(ins ssa.Instruction) {
			if ia, ok := ins.(*ssa.IndexAddr); ok {
				if ld, ok := ia.X.(*ssa.UnOp); ok {
					if ia2, ok := ld.X.(*ssa.IndexAddr); ok {
						if isIdxToPathTable(ia2.X) {
							rowIdx = stripConv(ia.Index)
						}
					}
				}
			}
		})
		if hdr == nil || selTest == nil {
			badL = "no descent loop test on the selector bits found"
		} else {
			// the loop: the natural loop(s) whose header dominates the selector test and that contain it
			var loopHdr *ssa.BasicBlock
			for d := hdr; d != nil; d = d.Idom() {
				for _, p := range d.Preds {
					if d.Dominates(p) && fa.Reaches(hdr, p) {
						loopHdr = d
					}
				}
				if loopHdr != nil {
					break
				}
			}
			if loopHdr == nil {
				badL = "the selector test is not inside a loop"
			} else {
				inLoop := func(b *ssa.BasicBlock) bool { return loopHdr.Dominates(b) && fa.Reaches(b, loopHdr) }
				for _, b := range fn.Blocks {
					if !inLoop(b) {
						continue
					}
					for k, sc := range b.Succs {
						if inLoop(sc) {
							continue
						}
						nexit++
						ifi, ok := b.Instrs[len(b.Instrs)-1].(*ssa.If)
						if !ok {
							badL = "the descent loop is left at " + w.InstrPos(b.Instrs[len(b.Instrs)-1]) + " without a test"
							continue
						}
						pol := k == 0
						cond := ifi.Cond
						for {
							u, ok := cond.(*ssa.UnOp)
							if !ok || u.Op != token.NOT {
								break
							}
							cond, pol = u.X, !pol
						}
						if cond == ssa.Value(selTest) {
							if (selTest.Op == token.EQL) == pol {
								badL = "the descent loop is left on the edge where the selector bits are still zero"
							}
							continue
						}
						if D, op, ok := fa.CondRel(Cond{V: cond, Pol: pol, If: ifi}); ok && len(D.T) == 1 {
							var bd Bounds
							single := false
							for atom, cf := range D.T {
								if cf == 1 && rowIdx != nil && fa.AtomValue(atom) == rowIdx {
									single = true
								}
							}
							applyRel(&bd, D.K, op, "")
							if single && bd.HasHi && bd.Hi <= 0 {
								continue
							}
						}
						badL = "the descent loop can also be left at " + w.InstrPos(ifi) + " on a condition that is neither `selector bits != 0` nor `remaining index <= 0`: the table is then read with selector 0 and a non-zero index"
					}
				}
			}
		}
		r.Check(badL == "", "R-LOOKUPEXIT", "bmtree.IndexToPath", w.Pos(fn.Pos()), badL, fmt.Sprintf("%d loop exits, each on selector != 0 or index <= 0", nexit))
	}
	// R-ROWINDEX, R-PREFIX: necessary conditions of the two arithmetic stages (props_c05b.go)
	{
		var rowIdx ssa.Value
		eachInstr(fn, func(ins ssa.Instruction) {
			if ia, ok := ins.(*ssa.IndexAddr); ok {
				if ld, ok := ia.X.(*ssa.UnOp); ok {
					if ia2, ok := ld.X.(*ssa.IndexAddr); ok {
						if isIdxToPathTable(ia2.X) {
							rowIdx = ia.Index
						}
					}
				}
			}
		})
		reportRowIndex(w, r, fn, rowIdx)
		reportPrefix(w, r, fn)
	}
	// R-ACCUM: what earlier iterations put into the path word is kept
	{
		r.Rule("R-ACCUM", "the 64-bit words IndexToPath carries around its loops and combines into the result (the path accumulator, the level mask) are updated from their own previous value on every way round a loop (p2 |= .., mask >>= ..): a plain assignment inside a loop overwrites what earlier iterations contributed (e.g. a prefix shortcut applied a second time drops the bits fixed by the first)")
		badA := ""
		nacc := 0
		seen := map[ssa.Value]bool{}
		var accs []*ssa.Phi
		var walk func(v ssa.Value, depth int)
		walk = func(v ssa.Value, depth int) {
			if v == nil || seen[v] || depth > 40 {
				return
			}
			seen[v] = true
			switch x := v.(type) {
			case *ssa.Phi:
				if isLoopHeaderPhi(x) {
					if b, ok := x.Type().Underlying().(*types.Basic); ok && b.Kind() == types.Uint64 {
						accs = append(accs, x)
					}
				}
				for _, e := range x.Edges {
					walk(e, depth+1)
				}
			case *ssa.BinOp:
				switch x.Op {
				case token.OR, token.AND, token.AND_NOT, token.XOR, token.SHR, token.SHL, token.ADD, token.SUB:
					walk(x.X, depth+1)
					if x.Op != token.SHR && x.Op != token.SHL {
						walk(x.Y, depth+1)
					}
				}
			}
		}
		for _, ret := range returnsOf(fn) {
			walk(ret.Results[0], 0)
		}
		dependsOn := func(v ssa.Value, p *ssa.Phi) bool {
			sn := map[ssa.Value]bool{}
			var dep func(v ssa.Value) bool
			dep = func(v ssa.Value) bool {
				if v == nil || sn[v] {
					return false
				}
				sn[v] = true
				if v == ssa.Value(p) {
					return true
				}
				if ins, ok := v.(ssa.Instruction); ok {
					if _, isPhi := v.(*ssa.Phi); isPhi {
						return false // merges are expanded by the caller
					}
					for _, op := range ins.Operands(nil) {
						if op != nil && *op != nil && dep(*op) {
							return true
						}
					}
				}
				return false
			}
			return dep(v)
		}
		for _, p := range accs {
			nacc++
			for i, e := range p.Edges {
				if !p.Block().Dominates(p.Block().Preds[i]) {
					continue // entry edge
				}
				for _, leaf := range resolvePhiExcept(e, p) {
					if leaf == ssa.Value(p) || dependsOn(leaf, p) {
						continue
					}
					pos := w.Pos(p.Pos())
					if ins, ok := leaf.(ssa.Instruction); ok {
						pos = w.InstrPos(ins)
					}
					badA = fmt.Sprintf("the loop-carried word %s is replaced at %s by a value that does not derive from its previous value: the contribution of earlier iterations is lost", p.Comment, pos)
				}
			}
		}
		r.Check(badA == "", "R-ACCUM", "bmtree.IndexToPath", w.Pos(fn.Pos()), badA, fmt.Sprintf("%d loop-carried 64-bit words feed the result, each updated from its previous value", nacc))
	}
	// R-FILL32: (index<<32 | fill) & mask reads one bit of the index half and one of the mask half; the mask-half bit is bit h, h <= 30
	{
		r.Rule("R-FILL32", "in IndexToPath every constant OR-ed with index<<32 (the word from which `& mask` picks the level's index bit and its mask bit) has bits 0..30 all set and nothing in the upper half: the level mask bit sits at bit h for heights up to 30; a narrower fill (e.g. 0x3fffffff) loses the mask bit of the top level of a height-30 tree only")
		badF := ""
		nf := 0
		eachInstr(fn, func(ins ssa.Instruction) {
			bo, ok := ins.(*ssa.BinOp)
			if !ok || bo.Op != token.OR {
				return
			}
			for _, side := range [2][2]ssa.Value{{bo.X, bo.Y}, {bo.Y, bo.X}} {
				c, ok := constUint64(stripConv(side[1]))
				if !ok {
					continue
				}
				_, sh, ok := asShiftLeft(side[0])
				if !ok || sh != 32 {
					continue
				}
				nf++
				if c&0x7fffffff != 0x7fffffff || c>>32 != 0 {
					badF = fmt.Sprintf("index<<32 is filled with %#x at %s: bits 0..30 must all be set (and none above bit 31)", c, w.InstrPos(ins))
				}
			}
		})
		r.Check(badF == "" && nf > 0, "R-FILL32", "bmtree.IndexToPath", w.Pos(fn.Pos()), badF, fmt.Sprintf("%d fill constants, all covering bits 0..30", nf))
	}
	// contracts (if any) guarding IndexToPath must not overflow at height 30
	if cf := contractFuncsOf(w, fn); len(cf) > 0 {
		reportContractShl32(w, r, cf)
		reportContractRangeGeneral(w, r, cf)
	}
	// the round trip goes through PathToIndex: its contracts must admit every path IndexToPath can produce (heights up to 30)
	if cf := contractFuncsOf(w, fns["bmtree.PathToIndex"]); len(cf) > 0 {
		reportContractRangeGeneral(w, r, cf)
	}
	// R-STALE: every step of the descent decides left/right from the CURRENT remaining index
	r.Rule("R-STALE", "in IndexToPath every update of the remaining index (index--, index -= 2^k, the prefix-shortcut adjustment) is control dependent only on tests of that same version of the index: a left/right decision read from an older version (a stale bit, e.g. when several levels are decided from one read) mis-steps when the earlier move changed the lower bits")
	{
		idxParam := ssa.Value(fn.Params[1])
		ver := map[ssa.Value]bool{idxParam: true}
		// a parameter captured by a (contract) closure lives in a cell: its loads are the versions
		var cell *ssa.Alloc
		eachInstr(fn, func(ins ssa.Instruction) {
			if st, ok := ins.(*ssa.Store); ok && st.Val == idxParam {
				if al, ok := st.Addr.(*ssa.Alloc); ok {
					cell = al
				}
			}
		})
		if cell != nil {
			eachInstr(fn, func(ins ssa.Instruction) {
				if ld, ok := ins.(*ssa.UnOp); ok && ld.Op == token.MUL && ld.X == ssa.Value(cell) {
					ver[ld] = true
				}
			})
		}
		sameVersion := func(a, b ssa.Value) bool {
			if a == b {
				return true
			}
			la, ok1 := a.(*ssa.UnOp)
			lb, ok2 := b.(*ssa.UnOp)
			if ok1 && ok2 && cell != nil && la.X == ssa.Value(cell) && lb.X == ssa.Value(cell) {
				return fa.Epoch(la) == fa.Epoch(lb)
			}
			return false
		}
		changed := true
		for changed {
			changed = false
			eachInstr(fn, func(ins ssa.Instruction) {
				v, ok := ins.(ssa.Value)
				if !ok || ver[v] || !isIntType(v.Type()) || v.Type().String() != idxParam.Type().String() {
					return
				}
				t := false
				switch x := v.(type) {
				case *ssa.Phi:
					for _, e := range x.Edges {
						if ver[e] {
							t = true
						}
					}
				case *ssa.BinOp:
					if (x.Op == token.SUB || x.Op == token.ADD) && ver[x.X] {
						t = true
					}
				}
				if t {
					ver[v] = true
					changed = true
				}
			})
		}
		// dependencies of a value on index versions (stopping at versions)
		var deps func(v ssa.Value, seen map[ssa.Value]bool, out map[ssa.Value]bool)
		deps = func(v ssa.Value, seen map[ssa.Value]bool, out map[ssa.Value]bool) {
			if seen[v] {
				return
			}
			seen[v] = true
			if ver[v] {
				out[v] = true
				return
			}
			ins, ok := v.(ssa.Instruction)
			if !ok {
				return
			}
			if _, isPhi := v.(*ssa.Phi); isPhi {
				return // loop-carried non-index state (mask, p2)
			}
			var ops []*ssa.Value
			for _, o := range ins.Operands(ops) {
				if *o != nil {
					deps(*o, seen, out)
				}
			}
		}
		badS := ""
		nupd := 0
		eachInstr(fn, func(ins ssa.Instruction) {
			bo, ok := ins.(*ssa.BinOp)
			if !ok || !ver[bo] || !ver[bo.X] {
				return
			}
			nupd++
			for _, cd := range fa.Conds(bo.Block()) {
				out := map[ssa.Value]bool{}
				deps(cd.V, map[ssa.Value]bool{}, out)
				if len(out) == 0 {
					continue
				}
				for y := range out {
					if !sameVersion(y, bo.X) {
						badS = fmt.Sprintf("the index update at %s is decided by a test at %s that reads an older version of the index (%s, current is %s)", w.InstrPos(bo), w.InstrPos(cd.If), y.Name(), bo.X.Name())
					}
				}
				break // nearest index-dependent test only
			}
		})
		if nupd == 0 {
			badS = "no update of the remaining index found"
		}
		r.Check(badS == "", "R-STALE", "bmtree.IndexToPath", w.Pos(fn.Pos()), badS, fmt.Sprintf("%d index updates, each decided from the version it updates", nupd))
	}
	_ = strings.Join
}

// resolvePhiExcept expands v through merge phis into its sources; the phi `stop` is a source of its own.
func resolvePhiExcept(v ssa.Value, stop *ssa.Phi) []ssa.Value {
	var out []ssa.Value
	seen := map[ssa.Value]bool{}
	var rec func(ssa.Value)
	rec = func(v ssa.Value) {
		if seen[v] {
			return
		}
		seen[v] = true
		if p, ok := v.(*ssa.Phi); ok && p != stop {
			for _, e := range p.Edges {
				rec(e)
			}
			return
		}
		out = append(out, v)
	}
	rec(v)
	return out
}

func init() {
	register(&Prop{
		ID: "C10", Level: "other",
		Explain: "Layout agreement of the six path-word functions (DESIGN.md 5/C10): bits at shift 32, mask = low 32 bits, left alignment by height-length, 32-bit intrinsics on the low half, PathStr's shift and width. Every consumer of a path word must agree with NewPath on this split; numeric order = pre-order is a consequence of the layout and is not itself decided.",
		NotDec:  []string{"the order-equals-pre-order argument (a consequence of the layout; arithmetic)", "Mask table contents"},
		Trusted: []string{"go/ssa construction", "math/bits OnesCount32/LeadingZeros32"},
		Quick:   []Config{cfgDefault, cfg386}, Thorough: []Config{cfgDefault, cfg386},
		Run: runC10,
	})
	register(&Prop{
		ID: "C05", Level: "other",
		Explain: "E6 constant-table check (DESIGN.md 5/C05): the literal idxToPath table is read through go/types constant folding (no execution) and compared with the table generated from the path layout: all 27 constants, the key set, and the agreement of the selector constant with the loop-exit test. Heights <= 3 are answered by this table alone and every larger height ends in it.",
		NotDec:  []string{"that the common-prefix shortcut and the bit-by-bit descent loop compute the right path for heights >= 4 (arithmetic); decided of them are only necessary conditions: loop exits (R-LOOKUPEXIT), accumulation (R-ACCUM), fill constants (R-FILL32), a non-negative row index (R-ROWINDEX), the self-consistency and per-path prefix length of the shortcut (R-PREFIX)"},
		Trusted: []string{"go/types constant folding", "the generator in the checker (allPathsOfHeight), derived from the NewPath layout checked by C10"},
		Quick:   []Config{cfgDefault, cfg386}, Thorough: []Config{cfgDefault, cfg386},
		Run: runC05,
	})
}
