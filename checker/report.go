package main

import (
	"bufio"
	"encoding/json"
	"fmt"
	"os"
	"path/filepath"
	"sort"
	"strings"
	"time"
)

type Status int

const (
	Discharged Status = iota
	Violated
	Undecided
)

func (s Status) String() string {
	return [...]string{"discharged", "violated", "undecided"}[s]
}

// Oblig is one proof obligation (rule instance on a construct).
type Oblig struct {
	Rule   string   `json:"rule"`
	Key    string   `json:"key"` // rule|pkg.Func|role  (never a line number)
	Status string   `json:"status"`
	Pos    string   `json:"pos,omitempty"`
	Cfg    string   `json:"config,omitempty"`
	Msg    string   `json:"msg,omitempty"`
	Facts  []string `json:"facts,omitempty"`
	st     Status
	triv   bool
}

// Report collects the obligations of one property check.
type Report struct {
	Prop    string
	Tier    string
	Level   string
	cfg     string
	Obs     []*Oblig
	byKey   map[string]*Oblig
	Units   map[string]int // measured: packages, functions, call sites ...
	Rules   map[string]string
	NotDec  []string
	Trusted []string
	Assume  []string
	Extra   map[string]interface{}
	start   time.Time
}

func NewReport(prop, tier, level string) *Report {
	return &Report{Prop: prop, Tier: tier, Level: level, byKey: map[string]*Oblig{}, Units: map[string]int{},
		Rules: map[string]string{}, Extra: map[string]interface{}{}, start: time.Now()}
}

func (r *Report) SetCfg(c Config) { r.cfg = c.String() }

func (r *Report) add(rule, key string, st Status, pos, msg string, facts []string) *Oblig {
	full := rule + "|" + key
	if r.cfg != "" && r.cfg != (Config{}).String() {
		full += "|" + r.cfg
	}
	if o, ok := r.byKey[full]; ok {
		// same construct reported twice: keep the worst
		if st > o.st {
			o.st, o.Status, o.Pos, o.Msg, o.Facts = st, st.String(), pos, msg, facts
		}
		return o
	}
	o := &Oblig{Rule: rule, Key: full, Status: st.String(), Pos: pos, Cfg: r.cfg, Msg: msg, Facts: facts, st: st}
	r.Obs = append(r.Obs, o)
	r.byKey[full] = o
	return o
}

// OK records a discharged obligation.
func (r *Report) OK(rule, key, pos string, facts ...string) {
	r.add(rule, key, Discharged, pos, "", facts)
}

// Bad records a violated obligation.
func (r *Report) Bad(rule, key, pos, msg string, facts ...string) {
	r.add(rule, key, Violated, pos, msg, facts)
}

// Unknown records an obligation that could not be decided (counts as failure).
func (r *Report) Unknown(rule, key, pos, msg string, facts ...string) {
	r.add(rule, key, Undecided, pos, msg, facts)
}

// Check is a convenience: ok ? OK : Bad.
func (r *Report) Check(ok bool, rule, key, pos, msg string, facts ...string) bool {
	if ok {
		r.OK(rule, key, pos, facts...)
	} else {
		r.Bad(rule, key, pos, msg, facts...)
	}
	return ok
}

func (r *Report) Rule(name, doc string) { r.Rules[name] = doc }

// ---------------- known findings ----------------

type knownFinding struct {
	prop, key, what string
}

func loadKnownFindings(path string) ([]knownFinding, error) {
	f, err := os.Open(path)
	if err != nil {
		if os.IsNotExist(err) {
			return nil, nil
		}
		return nil, err
	}
	defer f.Close()
	var out []knownFinding
	sc := bufio.NewScanner(f)
	for sc.Scan() {
		line := strings.TrimSpace(sc.Text())
		if line == "" || strings.HasPrefix(line, "#") {
			continue
		}
		if !strings.HasPrefix(line, "finding:") {
			continue // "fixed:" lines are history and suppress nothing
		}
		rest := strings.TrimSpace(strings.TrimPrefix(line, "finding:"))
		kf := knownFinding{}
		for _, fld := range strings.Fields(rest) {
			if strings.HasPrefix(fld, "property=") {
				kf.prop = strings.TrimPrefix(fld, "property=")
			} else if strings.HasPrefix(fld, "key=") {
				kf.key = strings.TrimPrefix(fld, "key=")
			}
		}
		if i := strings.Index(rest, "what="); i >= 0 {
			kf.what = rest[i+5:]
		}
		if kf.prop != "" && kf.key != "" {
			out = append(out, kf)
		}
	}
	return out, sc.Err()
}

// ---------------- evidence ----------------

func verifDir() string {
	if d := os.Getenv("VERIF_DIR"); d != "" {
		return d
	}
	return "/verif"
}

// Finish writes evidence, prints VIOLATION / KNOWN-FINDING lines, returns exit code.
func (r *Report) Finish(explanation string, checkerCmd string) int {
	dbgTime("finish start")
	known, err := loadKnownFindings(filepath.Join(verifDir(), "known_findings.txt"))
	if err != nil {
		fmt.Println("cannot read known_findings.txt:", err)
	}
	isKnown := func(o *Oblig) *knownFinding {
		if o.st != Violated {
			return nil
		}
		for i := range known {
			if known[i].prop == r.Prop && known[i].key == o.Key {
				return &known[i]
			}
		}
		return nil
	}
	sort.SliceStable(r.Obs, func(i, j int) bool { return r.Obs[i].Key < r.Obs[j].Key })

	evdir := filepath.Join(verifDir(), "evidence")
	os.MkdirAll(evdir, 0o755)
	vdir := filepath.Join(evdir, r.Prop+".violations")
	os.RemoveAll(vdir)

	nDis, nViol, nKnown, nUndec, nNontriv := 0, 0, 0, 0, 0
	var lines []string
	ruleCount := map[string]int{}
	for _, o := range r.Obs {
		ruleCount[o.Rule]++
		switch o.st {
		case Discharged:
			nDis++
			if len(o.Facts) > 0 {
				nNontriv++
			}
		case Violated, Undecided:
			if kf := isKnown(o); kf != nil {
				nKnown++
				lines = append(lines, fmt.Sprintf("KNOWN-FINDING: property=%s %s %s", r.Prop, o.Key, kf.what))
				continue
			}
			if o.st == Violated {
				nViol++
			} else {
				nUndec++
			}
			os.MkdirAll(vdir, 0o755)
			path := filepath.Join(vdir, fmt.Sprintf("%03d.txt", nViol+nUndec))
			var sb strings.Builder
			fmt.Fprintf(&sb, "property: %s\nstatus: %s\nrule: %s\nkey: %s\nat: %s\nconfiguration: %s\nmessage: %s\n", r.Prop, o.Status, o.Rule, o.Key, o.Pos, o.Cfg, o.Msg)
			if doc, ok := r.Rules[o.Rule]; ok {
				fmt.Fprintf(&sb, "rule text: %s\n", doc)
			}
			for _, f := range o.Facts {
				fmt.Fprintf(&sb, "fact: %s\n", f)
			}
			fmt.Fprintf(&sb, "replay: /verif/check %s --only '%s'\n", r.Prop, o.Key)
			os.WriteFile(path, []byte(sb.String()), 0o644)
			fmt.Printf("%s %s at %s: %s\n", strings.ToUpper(o.Status), o.Key, o.Pos, o.Msg)
			for _, f := range o.Facts {
				fmt.Printf("    fact: %s\n", f)
			}
			lines = append(lines, fmt.Sprintf("VIOLATION property=%s replay=%s", r.Prop, path))
		}
	}
	for _, l := range lines {
		fmt.Println(l)
	}

	// samples: up to 20 obligations, spread over rules, non-trivial first
	var samples []interface{}
	seenRule := map[string]int{}
	for pass := 0; pass < 2 && len(samples) < 20; pass++ {
		for _, o := range r.Obs {
			if len(samples) >= 20 {
				break
			}
			if pass == 0 && seenRule[o.Rule] >= 2 {
				continue
			}
			if pass == 1 && seenRule[o.Rule] < 1000 && seenRule[o.Rule] >= 2 {
				// second pass: take remaining in order
				already := false
				for _, s := range samples {
					if s.(*Oblig) == o {
						already = true
					}
				}
				if already {
					continue
				}
			} else if pass == 1 {
				continue
			}
			seenRule[o.Rule]++
			samples = append(samples, o)
		}
	}
	var ruleList []string
	for name, doc := range r.Rules {
		ruleList = append(ruleList, fmt.Sprintf("%s (%d obligations): %s", name, ruleCount[name], doc))
	}
	sort.Strings(ruleList)
	full := explanation + " RULES: " + strings.Join(ruleList, " || ")
	if len(r.NotDec) > 0 {
		full += " NOT DECIDED (numeric clauses, stated honestly): " + strings.Join(r.NotDec, "; ")
	}
	cov := map[string]interface{}{
		"obligations":         len(r.Obs),
		"discharged":          nDis + nKnown,
		"known_findings":      nKnown,
		"undecided":           nUndec,
		"evaluations":         len(r.Obs),
		"distinct_nontrivial": nNontriv,
		"rule":                "one obligation per (rule, construct) instance found in /repo's SSA/type information on this run; non-trivial = discharged using at least one recorded fact about the code (not merely 'no instance here')",
		"explanation":         full,
		"checker_cmd":         checkerCmd,
		"trusted_base":        r.Trusted,
		"samples":             samples,
		"units":               r.Units,
		"obligations_by_rule": ruleCount,
		"exhaustive":          true,
	}
	for k, v := range r.Extra {
		cov[k] = v
	}
	if r.Assume == nil {
		r.Assume = []string{}
	}
	if r.Trusted == nil {
		r.Trusted = []string{}
	}
	cov["trusted_base"] = r.Trusted
	seed := 0
	fmt.Sscanf(os.Getenv("VERIF_SEED"), "%d", &seed)
	ev := map[string]interface{}{
		"property_id": r.Prop,
		"tier":        r.Tier,
		"seed":        seed,
		"level":       r.Level,
		"coverage":    cov,
		"assumptions": r.Assume,
		"wall_s":      time.Since(r.start).Seconds(),
		"violations":  nViol + nUndec,
	}
	b, _ := json.MarshalIndent(ev, "", " ")
	if err := os.WriteFile(filepath.Join(evdir, r.Prop+".json"), b, 0o644); err != nil {
		fmt.Println("cannot write evidence:", err)
		return 2
	}
	fmt.Printf("%s %s: %d obligations, %d discharged, %d known findings, %d violated, %d undecided (%.1fs)\n",
		r.Prop, r.Tier, len(r.Obs), nDis, nKnown, nViol, nUndec, time.Since(r.start).Seconds())
	if nViol+nUndec > 0 {
		return 1
	}
	return 0
}
