package main

import (
	"fmt"
	"go/constant"
	"go/token"
	"go/types"
	"os"
	"sort"
	"strings"

	"golang.org/x/tools/go/packages"
	"golang.org/x/tools/go/ssa"
	"golang.org/x/tools/go/ssa/ssautil"
)

const modPath = "github.com/openacid/low"

// Config is one build configuration of /repo that is analysed.
type Config struct {
	Tags   string // "" or "debug"
	GOARCH string // "" = host (amd64)

	inlineCap int // internal: >0 caps the inlining level below this value (fallback after a failed re-check)
}

func (c Config) String() string {
	t, a := c.Tags, c.GOARCH
	if t == "" {
		t = "none"
	}
	if a == "" {
		a = "amd64"
	}
	return "tags=" + t + ",GOARCH=" + a
}

// World is the resolved program for one configuration.
type World struct {
	Cfg      Config
	Dir      string
	Fset     *token.FileSet
	Pkgs     []*packages.Package
	Prog     *ssa.Program
	SSA      map[string]*ssa.Package // by import path
	Sizes    types.Sizes
	AllFns   map[*ssa.Function]bool
	NFuncs   int // source functions of the module
	NInlined int // calls to trivial same-package helpers dissolved before SSA construction
	pure     map[*ssa.Function]bool
}

// PureFunc: E1 says the function writes nothing but fresh memory and contains no
// nondeterministic construct (its result is a function of its arguments and init-only tables).
func (w *World) PureFunc(f *ssa.Function) bool {
	if w.pure == nil {
		w.pure = map[*ssa.Function]bool{}
		e := RunEffects(w)
		for fn, s := range e.Sum {
			ok := len(s.notes) == 0
			for r := range s.writes {
				if r.kind != rkFresh {
					ok = false
				}
			}
			w.pure[fn] = ok
		}
	}
	return w.pure[f]
}

// inlineLevel: 2 = expression and statement helpers (default), 1 = single-expression helpers only, 0 = none.
func inlineLevel() int {
	switch os.Getenv("LOWCHECK_NOINLINE") {
	case "":
		return 2
	case "stmt":
		return 1
	}
	return 0
}

func repoDir() string {
	if d := os.Getenv("LOW_REPO"); d != "" {
		return d
	}
	return "/repo"
}

// Load type-checks every package of the module in dir and builds SSA.
// Any load or type error is returned: "undecided = fail".
func Load(dir string, cfg Config, patterns ...string) (*World, error) {
	env := os.Environ()
	env = append(env, "GOFLAGS=-mod=mod", "GOPROXY=off", "GOSUMDB=off", "GOTOOLCHAIN=local", "GOWORK=off", "CGO_ENABLED=0")
	if cfg.GOARCH != "" {
		env = append(env, "GOARCH="+cfg.GOARCH)
	}
	pc := &packages.Config{
		Mode: packages.LoadAllSyntax | packages.NeedModule,
		Dir:  dir,
		Env:  env,
	}
	if cfg.Tags != "" {
		pc.BuildFlags = []string{"-tags=" + cfg.Tags}
	}
	if len(patterns) == 0 {
		patterns = []string{"./..."}
	}
	dbgTime("load start")
	pkgs, err := packages.Load(pc, patterns...)
	dbgTime("packages loaded")
	if err != nil {
		return nil, fmt.Errorf("packages.Load(%s, %s): %v", dir, cfg, err)
	}
	if len(pkgs) == 0 {
		return nil, fmt.Errorf("packages.Load(%s, %s): zero packages", dir, cfg)
	}
	var errs []string
	packages.Visit(pkgs, nil, func(p *packages.Package) {
		for _, e := range p.Errors {
			errs = append(errs, e.Error())
		}
	})
	if len(errs) > 0 {
		sort.Strings(errs)
		if len(errs) > 10 {
			errs = errs[:10]
		}
		return nil, fmt.Errorf("load/type errors in %s (%s):\n  %s", dir, cfg, strings.Join(errs, "\n  "))
	}
	nInlined := 0
	level := inlineLevel()
	if cfg.inlineCap > 0 && level >= cfg.inlineCap {
		level = cfg.inlineCap - 1
	}
	if level > 0 {
		n, ok := inlineTrivialHelpers(pkgs, inModuleFunc(pkgs), level)
		if !ok {
			// the rewritten syntax could not be re-checked: reload and inline one level less
			c2 := cfg
			c2.inlineCap = level
			return Load(dir, c2, patterns...)
		}
		nInlined = n
		dbgTime(fmt.Sprintf("inlined %d helper calls (level %d)", nInlined, level))
	}
	prog, spkgs := ssautil.AllPackages(pkgs, ssa.InstantiateGenerics)
	w := &World{Cfg: cfg, Dir: dir, Fset: prog.Fset, Pkgs: pkgs, Prog: prog, SSA: map[string]*ssa.Package{}, NInlined: nInlined}
	for i, p := range pkgs {
		if spkgs[i] != nil {
			w.SSA[p.PkgPath] = spkgs[i]
			// Function bodies are built for the module's own packages only;
			// dependencies stay declared-only (external callees are table-driven).
			if os.Getenv("LOWCHECK_FULLSSA") == "" {
				spkgs[i].Build()
			}
		}
		if w.Sizes == nil && p.TypesSizes != nil {
			w.Sizes = p.TypesSizes
		}
	}
	if os.Getenv("LOWCHECK_FULLSSA") != "" {
		prog.Build() // thorough tier: bodies of every dependency too (VTA sees flows through them)
	}
	dbgTime("ssa built")
	w.AllFns = ssautil.AllFunctions(prog)
	dbgTime("allfunctions")
	for fn := range w.AllFns {
		if fn.Blocks != nil && fn.Synthetic == "" && w.InModule(fn) {
			w.NFuncs++
		}
	}
	return w, nil
}

// fnPkg returns the types.Package of a function (following closures to parents).
func fnPkg(fn *ssa.Function) *types.Package {
	for fn != nil {
		if fn.Pkg != nil {
			return fn.Pkg.Pkg
		}
		if fn.Parent() == nil {
			if o := fn.Object(); o != nil {
				return o.Pkg()
			}
			return nil
		}
		fn = fn.Parent()
	}
	return nil
}

func (w *World) modPath() string {
	// module path of the analysed tree = longest common prefix root of loaded pkgs
	for _, p := range w.Pkgs {
		if p.Module != nil {
			return p.Module.Path
		}
	}
	return modPath
}

func (w *World) InModule(fn *ssa.Function) bool {
	p := fnPkg(fn)
	if p == nil {
		return false
	}
	m := w.modPath()
	return p.Path() == m || strings.HasPrefix(p.Path(), m+"/")
}

func (w *World) InModulePkg(path string) bool {
	m := w.modPath()
	return path == m || strings.HasPrefix(path, m+"/")
}

// Short returns the package path relative to the module ("bitmap").
func (w *World) Short(p *types.Package) string {
	if p == nil {
		return ""
	}
	m := w.modPath()
	if p.Path() == m {
		return "."
	}
	return strings.TrimPrefix(p.Path(), m+"/")
}

func (w *World) FnShortPkg(fn *ssa.Function) string { return w.Short(fnPkg(fn)) }

// Pkg returns the SSA package by short name, nil if absent.
func (w *World) Pkg(short string) *ssa.Package {
	return w.SSA[w.modPath()+"/"+short]
}

// Func resolves "Name" or "(*T).Name" / "T.Name" in the package; nil if absent.
func (w *World) Func(short, name string) *ssa.Function {
	p := w.Pkg(short)
	if p == nil {
		return nil
	}
	if !strings.Contains(name, ".") {
		return p.Func(name)
	}
	// method
	ptr := false
	s := name
	if strings.HasPrefix(s, "(*") {
		ptr = true
		s = strings.TrimPrefix(s, "(*")
		s = strings.Replace(s, ")", "", 1)
	}
	parts := strings.SplitN(s, ".", 2)
	tn := p.Type(parts[0])
	if tn == nil {
		return nil
	}
	var t types.Type = tn.Type()
	if ptr {
		t = types.NewPointer(t)
	}
	ms := w.Prog.MethodSets.MethodSet(t)
	for i := 0; i < ms.Len(); i++ {
		if ms.At(i).Obj().Name() == parts[1] {
			return w.Prog.MethodValue(ms.At(i))
		}
	}
	return nil
}

// Global resolves a package-level variable.
func (w *World) Global(short, name string) *ssa.Global {
	p := w.Pkg(short)
	if p == nil {
		return nil
	}
	return p.Var(name)
}

// NamedConstInt: the integer value of package-level constant short.name, if the package declares one.
func (w *World) NamedConstInt(short, name string) (int64, bool) {
	p := w.Pkg(short)
	if p == nil {
		return 0, false
	}
	nc, ok := p.Members[name].(*ssa.NamedConst)
	if !ok || nc.Value == nil || nc.Value.Value == nil {
		return 0, false
	}
	return constant.Int64Val(constant.ToInt(nc.Value.Value))
}

// FuncName gives "bitmap.Rank64" / "bitmap.(*TailBitmap).Set" / "sigbits.ShardByPrefix$1".
func (w *World) FuncName(fn *ssa.Function) string {
	if fn == nil {
		return "<nil>"
	}
	pk := w.FnShortPkg(fn)
	name := fn.Name()
	if fn.Parent() != nil {
		return w.FuncName(fn.Parent()) + "$" + strings.TrimPrefix(name, fn.Parent().Name()+"$")
	}
	if recv := fn.Signature.Recv(); recv != nil {
		t := recv.Type()
		star := ""
		if p, ok := t.(*types.Pointer); ok {
			t = p.Elem()
			star = "*"
		}
		tn := "?"
		if n, ok := t.(*types.Named); ok {
			tn = n.Obj().Name()
		}
		return fmt.Sprintf("%s.(%s%s).%s", pk, star, tn, name)
	}
	return pk + "." + name
}

// Pos renders a position relative to the analysed tree.
func (w *World) Pos(p token.Pos) string {
	if !p.IsValid() {
		return "-"
	}
	pp := w.Fset.Position(p)
	f := pp.Filename
	if strings.HasPrefix(f, w.Dir+"/") {
		f = strings.TrimPrefix(f, w.Dir+"/")
	}
	return fmt.Sprintf("%s:%d:%d", f, pp.Line, pp.Column)
}

// InstrPos finds the best position for an instruction (falls back to operands / block).
func (w *World) InstrPos(ins ssa.Instruction) string {
	if ins == nil {
		return "-"
	}
	if ins.Pos().IsValid() {
		return w.Pos(ins.Pos())
	}
	var ops []*ssa.Value
	for _, o := range ins.Operands(ops) {
		if *o != nil && (*o).Pos().IsValid() {
			return w.Pos((*o).Pos())
		}
	}
	// nearest positioned instruction in the block
	b := ins.Block()
	if b != nil {
		for _, i2 := range b.Instrs {
			if i2.Pos().IsValid() {
				return w.Pos(i2.Pos())
			}
		}
	}
	if ins.Parent() != nil {
		return w.Pos(ins.Parent().Pos())
	}
	return "-"
}

// SourceFuncs lists source-level functions (incl. closures and package init) of
// the given short packages, sorted by name.
func (w *World) SourceFuncs(shorts ...string) []*ssa.Function {
	want := map[string]bool{}
	for _, s := range shorts {
		want[s] = true
	}
	var out []*ssa.Function
	for fn := range w.AllFns {
		if fn.Blocks == nil {
			continue
		}
		if !w.InModule(fn) {
			continue
		}
		if len(want) > 0 && !want[w.FnShortPkg(fn)] {
			continue
		}
		if fn.Synthetic != "" && fn.Name() != "init" {
			continue
		}
		out = append(out, fn)
	}
	sort.Slice(out, func(i, j int) bool {
		a, b := w.FuncName(out[i]), w.FuncName(out[j])
		if a != b {
			return a < b
		}
		return out[i].Pos() < out[j].Pos()
	})
	return out
}
