package main

// E1 — effects / purity (mod-set analysis). See DESIGN.md section 3.

import (
	"fmt"
	"go/token"
	"go/types"
	"sort"
	"strings"

	"golang.org/x/tools/go/callgraph"
	"golang.org/x/tools/go/callgraph/cha"
	"golang.org/x/tools/go/callgraph/vta"
	"golang.org/x/tools/go/ssa"
)

type rootKind int

const (
	rkParam rootKind = iota
	rkFree
	rkGlobal
	rkFresh
	rkUnknown
)

type root struct {
	kind rootKind
	idx  int
	g    *ssa.Global
}

func (r root) String() string {
	switch r.kind {
	case rkParam:
		return fmt.Sprintf("param%d", r.idx)
	case rkFree:
		return fmt.Sprintf("freevar%d", r.idx)
	case rkGlobal:
		return "global:" + r.g.Pkg.Pkg.Name() + "." + r.g.Name()
	case rkFresh:
		return "fresh"
	}
	return "unknown"
}

type rootset map[root]bool

func (s rootset) add(o rootset) bool {
	ch := false
	for r := range o {
		if !s[r] {
			s[r] = true
			ch = true
		}
	}
	return ch
}

func (s rootset) strs() []string {
	var out []string
	for r := range s {
		out = append(out, r.String())
	}
	sort.Strings(out)
	return out
}

type effNote struct {
	rule string // R-PURE-EXT ...
	role string // stable construct role
	pos  string
	msg  string
}

type writeSite struct {
	r    root
	pos  string
	what string
}

type effSummary struct {
	writes  rootset
	wsites  []writeSite
	ret     rootset
	greads  map[*ssa.Global]string // global -> first position
	notes   []effNote
	noteSet map[string]bool
}

// Effects is the whole-module effect analysis of one World.
type Effects struct {
	W      *World
	Sum    map[*ssa.Function]*effSummary
	Rounds int
	cg     *callgraph.Graph
	// globalWriters: functions that store to a global (directly rooted)
	initOnly map[*ssa.Function]bool
}

var effCache = map[*World]*Effects{}

// external callee effect table. key = calleeName; value: indices of written args
// (receiver = 0 for methods since SSA passes it first), -1 = none.
type extEffect struct {
	writes   []int
	retAlias []int // result may alias these args (else fresh)
}

var extPureExact = map[string]extEffect{
	"bytes.Compare":                  {},
	"bytes.Equal":                    {},
	"bytes.HasPrefix":                {},
	"bytes.IndexByte":                {},
	"fmt.Sprintf":                    {},
	"fmt.Sprint":                     {},
	"fmt.Errorf":                     {},
	"reflect.ValueOf":                {retAlias: []int{0}},
	"reflect.TypeOf":                 {},
	"errors.New":                     {},
	"sort.Strings":                   {writes: []int{0}},
	"sort.Ints":                      {writes: []int{0}},
	"sort.Slice":                     {writes: []int{0}},
	"sort.SliceStable":               {writes: []int{0}},
	"sort.Sort":                      {writes: []int{0}},
	"sort.Stable":                    {writes: []int{0}},
	"sort.SearchInts":                {},
	"sort.SearchStrings":             {},
	"sort.Search":                    {},
	"encoding/binary.Read":           {writes: []int{2}},
	"encoding/binary.Write":          {writes: []int{0}},
	"io.ReadFull":                    {writes: []int{0, 1}},
	"io.ReadAtLeast":                 {writes: []int{0, 1}},
	"io.CopyN":                       {writes: []int{0, 1}},
	"io.Copy":                        {writes: []int{0, 1}},
	"unicode/utf8.RuneCountInString": {},
}

var extPurePkgs = map[string]bool{"math/bits": true, "strings": true, "math": true, "unicode/utf8": true, "strconv": true}

// packages whose use makes a result depend on more than the arguments, or
// synchronise/communicate: never allowed inside a pure function.
var extDenyPkgs = map[string]bool{"time": true, "math/rand": true, "math/rand/v2": true, "os": true, "sync": true, "sync/atomic": true,
	"runtime": true, "crypto/rand": true, "syscall": true, "net": true, "log": true, "io/ioutil": true, "os/signal": true}

func pointerLike(t types.Type) bool {
	switch tt := t.Underlying().(type) {
	case *types.Pointer, *types.Slice, *types.Map, *types.Interface, *types.Signature, *types.Chan:
		return true
	case *types.Basic:
		return tt.Info()&types.IsString != 0 || tt.Kind() == types.UnsafePointer
	case *types.Struct:
		for i := 0; i < tt.NumFields(); i++ {
			if pointerLike(tt.Field(i).Type()) {
				return true
			}
		}
	case *types.Array:
		return pointerLike(tt.Elem())
	case *types.Tuple:
		for i := 0; i < tt.Len(); i++ {
			if pointerLike(tt.At(i).Type()) {
				return true
			}
		}
	}
	return false
}

type effCtx struct {
	e      *Effects
	fn     *ssa.Function
	memo   map[ssa.Value]rootset
	active map[ssa.Value]bool
	stores map[ssa.Value][]ssa.Value // alloc/freevar cell -> stored values
}

func stripPtrCasts(v ssa.Value) ssa.Value {
	for {
		switch x := v.(type) {
		case *ssa.Convert:
			v = x.X
		case *ssa.ChangeType:
			v = x.X
		default:
			return v
		}
	}
}

// cellBase follows field/index/cast address arithmetic down to the allocation.
func cellBase(v ssa.Value) ssa.Value {
	for {
		switch x := v.(type) {
		case *ssa.Convert:
			v = x.X
		case *ssa.ChangeType:
			v = x.X
		case *ssa.FieldAddr:
			v = x.X
		case *ssa.IndexAddr:
			if _, ok := x.X.Type().Underlying().(*types.Pointer); ok { // pointer to array
				v = x.X
				continue
			}
			return v
		default:
			return v
		}
	}
}

func (c *effCtx) roots(v ssa.Value) rootset {
	if r, ok := c.memo[v]; ok {
		return r
	}
	if c.active[v] {
		return rootset{}
	}
	c.active[v] = true
	defer delete(c.active, v)
	rs := rootset{}
	switch x := v.(type) {
	case *ssa.Parameter:
		for i, p := range c.fn.Params {
			if p == x {
				rs[root{kind: rkParam, idx: i}] = true
			}
		}
	case *ssa.FreeVar:
		for i, p := range c.fn.FreeVars {
			if p == x {
				rs[root{kind: rkFree, idx: i}] = true
			}
		}
	case *ssa.Global:
		rs[root{kind: rkGlobal, g: x}] = true
	case *ssa.Alloc, *ssa.MakeSlice, *ssa.MakeMap, *ssa.MakeChan:
		rs[root{kind: rkFresh}] = true
	case *ssa.MakeClosure:
		rs[root{kind: rkFresh}] = true
		for _, b := range x.Bindings {
			rs.add(c.roots(b))
		}
	case *ssa.Const, *ssa.Function, *ssa.Builtin:
	case *ssa.IndexAddr:
		rs.add(c.roots(x.X))
	case *ssa.FieldAddr:
		rs.add(c.roots(x.X))
	case *ssa.Field:
		rs.add(c.roots(x.X))
	case *ssa.Index:
		rs.add(c.roots(x.X))
	case *ssa.Slice:
		rs.add(c.roots(x.X))
	case *ssa.Lookup:
		rs.add(c.roots(x.X))
	case *ssa.Phi:
		for _, e := range x.Edges {
			rs.add(c.roots(e))
		}
	case *ssa.ChangeType:
		rs.add(c.roots(x.X))
	case *ssa.Convert:
		fromStr := isStringType(x.X.Type())
		_, toSlice := x.Type().Underlying().(*types.Slice)
		_, fromSlice := x.X.Type().Underlying().(*types.Slice)
		toStr := isStringType(x.Type())
		if (fromStr && toSlice) || (fromSlice && toStr) || (isIntType(x.X.Type()) && toStr) {
			rs[root{kind: rkFresh}] = true // copying conversions
		} else {
			rs.add(c.roots(x.X))
		}
	case *ssa.ChangeInterface:
		rs.add(c.roots(x.X))
	case *ssa.MakeInterface:
		rs.add(c.roots(x.X))
	case *ssa.SliceToArrayPointer:
		rs.add(c.roots(x.X))
	case *ssa.TypeAssert:
		rs.add(c.roots(x.X))
	case *ssa.Extract:
		rs.add(c.roots(x.Tuple))
	case *ssa.UnOp:
		if x.Op == token.MUL { // load: content of a cell
			base := cellBase(x.X)
			switch base.(type) {
			case *ssa.Alloc:
				for _, sv := range c.stores[base] {
					rs.add(c.roots(sv))
				}
				if len(c.stores[base]) == 0 {
					rs[root{kind: rkFresh}] = true
				}
			default:
				// content of a location aliases the location's roots (conservative)
				rs.add(c.roots(x.X))
			}
		} else {
			rs.add(c.roots(x.X))
		}
	case *ssa.BinOp:
		rs[root{kind: rkFresh}] = true // string concatenation etc.
	case *ssa.Call:
		rs.add(c.callRet(x))
	case *ssa.Range:
		rs.add(c.roots(x.X))
	case *ssa.Next:
		rs.add(c.roots(x.Iter))
	default:
		rs[root{kind: rkUnknown}] = true
	}
	c.memo[v] = rs
	return rs
}

// callees resolves the possible callees of a call site.
func (c *effCtx) callees(site ssa.CallInstruction) ([]*ssa.Function, bool) {
	com := site.Common()
	if f := com.StaticCallee(); f != nil {
		return []*ssa.Function{f}, true
	}
	if _, ok := com.Value.(*ssa.Builtin); ok {
		return nil, true
	}
	// closure held in a local / captured cell
	if out := c.localClosures(com.Value); len(out) > 0 {
		return out, true
	}
	// VTA call graph
	g := c.e.callGraph()
	var out []*ssa.Function
	if n := g.Nodes[c.fn]; n != nil {
		for _, e := range n.Out {
			if e.Site == site && e.Callee != nil && e.Callee.Func != nil {
				out = append(out, e.Callee.Func)
			}
		}
	}
	return out, len(out) > 0
}

func (e *Effects) callGraph() *callgraph.Graph {
	if e.cg == nil {
		dbgTime("vta start")
		e.cg = vta.CallGraph(e.W.AllFns, cha.CallGraph(e.W.Prog))
		dbgTime("vta done")
	}
	return e.cg
}

func (c *effCtx) mapRoots(rs rootset, args []ssa.Value, closure *ssa.MakeClosure, callee *ssa.Function) rootset {
	out := rootset{}
	if closure == nil && callee != nil && callee.Parent() == c.fn {
		// closure of this function called through a local cell: find its creation
		eachInstr(c.fn, func(ins ssa.Instruction) {
			if mc, ok := ins.(*ssa.MakeClosure); ok && mc.Fn == callee && closure == nil {
				closure = mc
			}
		})
	}
	for r := range rs {
		switch r.kind {
		case rkParam:
			if r.idx < len(args) {
				out.add(c.roots(args[r.idx]))
			} else {
				out[root{kind: rkUnknown}] = true
			}
		case rkFree:
			if closure != nil && r.idx < len(closure.Bindings) {
				out.add(c.bindingRoots(closure.Bindings[r.idx]))
			} else {
				if callee == c.fn {
					// recursive call of a closure through its own captured cell
					out[root{kind: rkFree, idx: r.idx}] = true
				} else {
					out[root{kind: rkUnknown}] = true
				}
			}
		default:
			out[r] = true
		}
	}
	return out
}

// bindingRoots: a closure binding is the address of a captured variable cell;
// a write "through freevar k" is a write to the content reachable from that cell.
func (c *effCtx) bindingRoots(b ssa.Value) rootset {
	rs := rootset{}
	switch x := b.(type) {
	case *ssa.Alloc:
		for _, sv := range c.stores[x] {
			rs.add(c.roots(sv))
		}
		rs[root{kind: rkFresh}] = true
	default:
		rs.add(c.roots(b))
	}
	return rs
}

func allArgs(com *ssa.CallCommon) []ssa.Value {
	if com.IsInvoke() {
		return append([]ssa.Value{com.Value}, com.Args...)
	}
	return com.Args
}

func (c *effCtx) callRet(call *ssa.Call) rootset {
	com := call.Common()
	rs := rootset{}
	if b, ok := com.Value.(*ssa.Builtin); ok {
		switch b.Name() {
		case "append":
			rs.add(c.roots(com.Args[0]))
			rs[root{kind: rkFresh}] = true
		default:
			rs[root{kind: rkFresh}] = true
		}
		return rs
	}
	fns, ok := c.callees(call)
	if !ok {
		rs[root{kind: rkUnknown}] = true
		return rs
	}
	args := allArgs(com)
	for _, f := range fns {
		if s, ok := c.e.Sum[f]; ok {
			var mc *ssa.MakeClosure
			if m, ok := com.Value.(*ssa.MakeClosure); ok {
				mc = m
			}
			rs.add(c.mapRoots(s.ret, args, mc, f))
			continue
		}
		name := funcFullName(f)
		if ee, ok := extPureExact[name]; ok {
			rs[root{kind: rkFresh}] = true
			for _, i := range ee.retAlias {
				if i < len(args) {
					rs.add(c.roots(args[i]))
				}
			}
			continue
		}
		// unknown external: result may alias any pointer-like argument
		rs[root{kind: rkFresh}] = true
		for _, a := range args {
			if pointerLike(a.Type()) {
				rs.add(c.roots(a))
			}
		}
	}
	return rs
}

// viaRole marks a note as inherited from a callee (idempotent).
func viaRole(role string) string {
	if strings.HasPrefix(role, "via ") {
		return role
	}
	return "via callee: " + role
}

func (s *effSummary) note(rule, role, pos, msg string) bool {
	k := rule + "|" + role + "|" + pos
	if s.noteSet[k] {
		return false
	}
	s.noteSet[k] = true
	s.notes = append(s.notes, effNote{rule, role, pos, msg})
	return true
}

func (e *Effects) analyze(fn *ssa.Function) bool {
	c := &effCtx{e: e, fn: fn, memo: map[ssa.Value]rootset{}, active: map[ssa.Value]bool{}, stores: map[ssa.Value][]ssa.Value{}}
	eachInstr(fn, func(ins ssa.Instruction) {
		if st, ok := ins.(*ssa.Store); ok {
			if al, ok := cellBase(st.Addr).(*ssa.Alloc); ok {
				c.stores[al] = append(c.stores[al], st.Val)
			}
		}
	})
	s := e.Sum[fn]
	changed := false
	write := func(rs rootset, ins ssa.Instruction, what string) {
		for r := range rs {
			if r.kind == rkFresh {
				continue
			}
			if !s.writes[r] {
				s.writes[r] = true
				changed = true
				s.wsites = append(s.wsites, writeSite{r, e.W.InstrPos(ins), what})
			}
		}
	}
	for _, b := range fn.Blocks {
		for _, ins := range b.Instrs {
			switch x := ins.(type) {
			case *ssa.Store:
				if _, ok := x.Addr.(*ssa.Alloc); ok {
					continue // local variable cell
				}
				if _, ok := x.Addr.(*ssa.FreeVar); ok {
					continue // assignment to a captured local variable of the enclosing frame
				}
				if al, ok := cellBase(x.Addr).(*ssa.Alloc); ok && !escapes(al) {
					continue // field/element of a local aggregate
				}
				write(c.roots(x.Addr), ins, "store")
			case *ssa.MapUpdate:
				write(c.roots(x.Map), ins, "map update")
			case *ssa.UnOp:
				if x.Op == token.MUL {
					if g, ok := addrBase(x.X).(*ssa.Global); ok {
						if _, seen := s.greads[g]; !seen {
							s.greads[g] = e.W.InstrPos(ins)
							changed = true
						}
					}
				}
				if x.Op == token.ARROW {
					if s.note("R-PURE-EXT", "chan-recv", e.W.InstrPos(ins), "channel receive") {
						changed = true
					}
				}
			case *ssa.Send:
				if s.note("R-PURE-EXT", "chan-send", e.W.InstrPos(ins), "channel send") {
					changed = true
				}
			case *ssa.Select:
				if s.note("R-PURE-EXT", "select", e.W.InstrPos(ins), "select statement") {
					changed = true
				}
			case *ssa.Go:
				if s.note("R-PURE-EXT", "go", e.W.InstrPos(ins), "goroutine started") {
					changed = true
				}
			case *ssa.Range:
				if _, ok := x.X.Type().Underlying().(*types.Map); ok {
					if s.note("R-PURE-EXT", "map-range", e.W.InstrPos(ins), "range over a map: iteration order is not a function of the arguments") {
						changed = true
					}
				}
			case *ssa.MakeClosure:
				// the closure may be invoked by whoever receives it: account its
				// effects at creation (over-approximation)
				cl := x.Fn.(*ssa.Function)
				if cs, ok := e.Sum[cl]; ok {
					write(c.mapRoots(cs.writes, nil, x, cl), ins, "closure "+cl.Name())
					for g, p := range cs.greads {
						if _, seen := s.greads[g]; !seen {
							s.greads[g] = p
							changed = true
						}
					}
					for _, n := range cs.notes {
						if s.note(n.rule, viaRole(n.role), n.pos, n.msg) {
							changed = true
						}
					}
				}
			}
			site, ok := ins.(ssa.CallInstruction)
			if !ok {
				continue
			}
			com := site.Common()
			if bi, ok := com.Value.(*ssa.Builtin); ok {
				switch bi.Name() {
				case "copy", "append", "delete", "clear":
					write(c.roots(com.Args[0]), ins, "builtin "+bi.Name())
				}
				continue
			}
			fns, ok := c.callees(site)
			if !ok {
				if s.note("R-PURE-EXT", "unresolved-call "+calleeName(com), e.W.InstrPos(ins), "dynamic call with no resolvable callee: "+calleeName(com)) {
					changed = true
				}
				continue
			}
			args := allArgs(com)
			for _, f := range fns {
				cs, ok := e.Sum[f]
				if ok {
					var mc *ssa.MakeClosure
					if m, ok := com.Value.(*ssa.MakeClosure); ok {
						mc = m
					}
					write(c.mapRoots(cs.writes, args, mc, f), ins, "call "+f.Name())
					for g, p := range cs.greads {
						if _, seen := s.greads[g]; !seen {
							s.greads[g] = p
							changed = true
						}
					}
					for _, n := range cs.notes {
						if s.note(n.rule, viaRole(n.role), n.pos, n.msg) {
							changed = true
						}
					}
					continue
				}
				// external callee
				name := funcFullName(f)
				pk := ""
				if p := fnPkg(f); p != nil {
					pk = p.Path()
				}
				if extDenyPkgs[pk] {
					if s.note("R-PURE-EXT", "call "+name, e.W.InstrPos(ins), "call into package "+pk+" (state, time, randomness or synchronisation)") {
						changed = true
					}
					continue
				}
				if ee, ok := extPureExact[name]; ok {
					for _, i := range ee.writes {
						if i < len(args) {
							write(c.roots(args[i]), ins, "call "+name+" writes its argument")
						}
					}
					continue
				}
				if extPurePkgs[pk] && f.Signature.Recv() == nil {
					continue
				}
				if strings.HasPrefix(pk, "github.com/openacid/must") {
					continue // trusted: panics or returns; closures accounted at MakeClosure
				}
				if pk == "reflect" && f.Signature.Recv() != nil && !strings.HasPrefix(f.Name(), "Set") {
					continue // read-only accessors of reflect.Value / reflect.Type
				}
				// unlisted external: allowed only if it cannot reach caller-visible memory
				bad := false
				for _, a := range args {
					if !pointerLike(a.Type()) {
						continue
					}
					for r := range c.roots(a) {
						if r.kind != rkFresh {
							bad = true
						}
					}
				}
				if bad {
					if s.note("R-PURE-EXT", "call "+name, e.W.InstrPos(ins), "unlisted external callee "+name+" receives memory reachable from an argument or a global") {
						changed = true
					}
				}
			}
		}
	}
	for _, b := range fn.Blocks {
		for _, ins := range b.Instrs {
			if x, ok := ins.(*ssa.Return); ok {
				for _, r := range x.Results {
					if pointerLike(r.Type()) {
						if s.ret.add(c.roots(r)) {
							changed = true
						}
					}
				}
			}
		}
	}
	return changed
}

// escapes: the address of the alloc is used other than for loads/stores/field
// arithmetic (passed to a call, stored, captured).
func escapes(al *ssa.Alloc) bool {
	var visit func(v ssa.Value, depth int) bool
	visit = func(v ssa.Value, depth int) bool {
		if depth > 6 {
			return true
		}
		refs := v.Referrers()
		if refs == nil {
			return true
		}
		for _, u := range *refs {
			switch x := u.(type) {
			case *ssa.Store:
				if x.Val == v {
					return true
				}
			case *ssa.UnOp:
			case *ssa.FieldAddr:
				if visit(x, depth+1) {
					return true
				}
			case *ssa.IndexAddr:
				if visit(x, depth+1) {
					return true
				}
			case *ssa.DebugRef:
			default:
				return true
			}
		}
		return false
	}
	return visit(al, 0)
}

// RunEffects computes summaries for every function of the module to a fixpoint.
func RunEffects(w *World) *Effects {
	if e, ok := effCache[w]; ok {
		return e
	}
	e := &Effects{W: w, Sum: map[*ssa.Function]*effSummary{}}
	var fns []*ssa.Function
	for fn := range w.AllFns {
		if fn.Blocks != nil && w.InModule(fn) {
			fns = append(fns, fn)
			e.Sum[fn] = &effSummary{writes: rootset{}, ret: rootset{}, greads: map[*ssa.Global]string{}, noteSet: map[string]bool{}}
		}
	}
	sort.Slice(fns, func(i, j int) bool {
		a, b := w.FuncName(fns[i]), w.FuncName(fns[j])
		if a != b {
			return a < b
		}
		return fns[i].Pos() < fns[j].Pos()
	})
	for iter := 0; iter < 50; iter++ {
		ch := false
		for _, fn := range fns {
			if e.analyze(fn) {
				ch = true
			}
		}
		e.Rounds = iter + 1
		if !ch {
			break
		}
	}
	effCache[w] = e
	return e
}

// InitOnlyFuncs: functions reachable only from package initialisers.
func (e *Effects) reachableFrom(rootsFn []*ssa.Function) map[*ssa.Function]bool {
	seen := map[*ssa.Function]bool{}
	var st []*ssa.Function
	st = append(st, rootsFn...)
	for len(st) > 0 {
		f := st[len(st)-1]
		st = st[:len(st)-1]
		if seen[f] || f == nil {
			continue
		}
		seen[f] = true
		if f.Blocks == nil {
			continue
		}
		c := &effCtx{e: e, fn: f}
		eachInstr(f, func(ins ssa.Instruction) {
			switch x := ins.(type) {
			case *ssa.MakeClosure:
				st = append(st, x.Fn.(*ssa.Function))
			case ssa.CallInstruction:
				if fs, ok := c.callees(x); ok {
					st = append(st, fs...)
				}
			}
			// function values taken
			var ops []*ssa.Value
			for _, o := range ins.Operands(ops) {
				if fv, ok := (*o).(*ssa.Function); ok {
					st = append(st, fv)
				}
			}
		})
	}
	return seen
}

// localClosures resolves a call through a variable cell that only ever holds
// closures created in this function nest (e.g. `var dfs func(); dfs = func(){...dfs()...}`).
func (c *effCtx) localClosures(v ssa.Value) []*ssa.Function {
	u, ok := v.(*ssa.UnOp)
	if !ok || u.Op != token.MUL {
		if mc, ok := v.(*ssa.MakeClosure); ok {
			return []*ssa.Function{mc.Fn.(*ssa.Function)}
		}
		return nil
	}
	var cell *ssa.Alloc
	owner := c.fn
	switch ad := u.X.(type) {
	case *ssa.Alloc:
		cell = ad
	case *ssa.FreeVar:
		// walk up to the frame that owns the cell
		fn := c.fn
		var cur ssa.Value = ad
		for fn.Parent() != nil {
			fv, ok := cur.(*ssa.FreeVar)
			if !ok {
				break
			}
			idx := -1
			for i, f := range fn.FreeVars {
				if f == fv {
					idx = i
				}
			}
			par := fn.Parent()
			var bind ssa.Value
			eachInstr(par, func(ins ssa.Instruction) {
				if mc, ok := ins.(*ssa.MakeClosure); ok && mc.Fn == fn && idx >= 0 && idx < len(mc.Bindings) {
					bind = mc.Bindings[idx]
				}
			})
			if bind == nil {
				return nil
			}
			cur, fn = bind, par
		}
		al, ok := cur.(*ssa.Alloc)
		if !ok {
			return nil
		}
		cell, owner = al, fn
	default:
		return nil
	}
	// every store to the cell (in the owner and all nested closures) must be a MakeClosure
	var out []*ssa.Function
	okAll := true
	var scan func(fn *ssa.Function, cellv ssa.Value)
	scan = func(fn *ssa.Function, cellv ssa.Value) {
		eachInstr(fn, func(ins ssa.Instruction) {
			switch x := ins.(type) {
			case *ssa.Store:
				if x.Addr == cellv {
					if mc, ok := x.Val.(*ssa.MakeClosure); ok {
						out = append(out, mc.Fn.(*ssa.Function))
					} else if cst, ok := x.Val.(*ssa.Const); ok && cst.IsNil() {
					} else {
						okAll = false
					}
				} else if x.Val == cellv {
					okAll = false
				}
			case *ssa.MakeClosure:
				for i, b := range x.Bindings {
					if b == cellv {
						scan(x.Fn.(*ssa.Function), x.Fn.(*ssa.Function).FreeVars[i])
					}
				}
			case ssa.CallInstruction:
				for _, a := range x.Common().Args {
					if a == cellv {
						okAll = false
					}
				}
			}
		})
	}
	scan(owner, cell)
	if !okAll {
		return nil
	}
	return out
}
