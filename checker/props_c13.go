package main

import (
	"fmt"
	"go/constant"
	"go/token"
	"strings"

	"golang.org/x/tools/go/ssa"
)

// posSite: a returned position built from a word scan.
type posSite struct {
	Val   ssa.Value
	Call  *ssa.Call // TrailingZeros64 / LeadingZeros64
	Trail bool
}

// checkWordPositions applies R-WPC1/R-WPC2 to every position expression that
// reaches result resIdx of fn. container: root name of the bitmap.
func checkWordPositions(w *World, r *Report, fn *ssa.Function, name string, resIdx int, container string) (nsites int) {
	fa := w.FA(fn)
	seen := map[ssa.Value]bool{}
	for _, ret := range returnsOf(fn) {
		if resIdx >= len(ret.Results) {
			continue
		}
		for _, src := range resolvePhi(ret.Results[resIdx]) {
			if seen[src] {
				continue
			}
			seen[src] = true
			L := fa.Lin(src)
			var call *ssa.Call
			var coef int64
			var callAtom string
			n := 0
			for atom, cf := range L.T {
				if c, ok := fa.AtomValue(atom).(*ssa.Call); ok {
					nm := calleeName(c.Common())
					if strings.HasPrefix(nm, "math/bits.TrailingZeros") || strings.HasPrefix(nm, "math/bits.LeadingZeros") {
						call, coef, callAtom = c, cf, atom
						n++
					}
				}
			}
			if n == 0 {
				continue
			}
			nsites++
			key := fmt.Sprintf("%s|result%d|site%d", name, resIdx, nsites)
			pos := w.InstrPos(call)
			if n > 1 {
				r.Bad("R-WPC1", key, pos, "position mixes several zero-count terms")
				continue
			}
			trail := strings.HasPrefix(calleeName(call.Common()), "math/bits.TrailingZeros")
			if !strings.HasSuffix(calleeName(call.Common()), "64") {
				r.Bad("R-WPC1", key, pos, "zero count of a 64-bit word must use the 64-bit intrinsic, found "+calleeName(call.Common()))
				continue
			}
			if trail && coef != 1 || !trail && coef != -1 {
				r.Bad("R-WPC1", key, pos, fmt.Sprintf("position must be base + TrailingZeros64(w) or base - LeadingZeros64(w); found coefficient %+d", coef))
				continue
			}
			R := L.clone()
			delete(R.T, callAtom)
			want := int64(0)
			if !trail {
				want = 63
			}
			cg, ok := fa.CongLin(R, 64)
			if !ok {
				r.Bad("R-WPC1", key, pos, fmt.Sprintf("cannot show that the base %s of the position is %d modulo 64", R, want))
				continue
			}
			if cg != want {
				r.Bad("R-WPC1", key, pos, fmt.Sprintf("base of the position is %d modulo 64, must be %d so that the position lies inside the word examined", cg, want), "base = "+R.String())
				continue
			}
			// the word examined: strip masks
			wv := call.Common().Args[0]
			base0 := R.clone()
			base0.K -= want
			okIdx := false
			// case A: base = 64*K (+want): the examined word must be container[K], edge by edge through loop phis
			divisible := base0.K%64 == 0
			for _, cf := range base0.T {
				if cf%64 != 0 {
					divisible = false
				}
			}
			if divisible {
				K := linConst(base0.K / 64)
				for atom, cf := range base0.T {
					K.T[atom] = cf / 64
				}
				okIdx = wordIndexMatches(fa, wv, K, container, 0)
			}
			if !okIdx {
				// case B: base = x (aligned), word = container[x>>6]
				if _, kIdx, ok := wordOrigin(wv, container); ok {
					if x, c, ok := asShiftRight(kIdx); ok && c == 6 {
						d := fa.Lin(x).Sub(R)
						okIdx = d.IsConst() && d.K == 0
					}
				}
			}
			if !okIdx {
				r.Bad("R-WPC1", key, pos, fmt.Sprintf("the position base %s does not belong to the word of %s that was examined (on some path the word index and the base disagree)", R, container))
				continue
			}
			r.OK("R-WPC1", key, pos, fmt.Sprintf("position = %s; base is %d mod 64 and base>>6 is the index of the examined word", L, want))
			// R-WPC2: control dependence on w != 0
			guarded := false
			wvn := fa.VN(stripConv(wv))
			for _, cd := range fa.Conds(call.Block()) {
				if bo, ok := cd.V.(*ssa.BinOp); ok {
					for _, side := range [2][2]ssa.Value{{bo.X, bo.Y}, {bo.Y, bo.X}} {
						if k, ok := constInt64(stripConv(side[1])); ok && k == 0 && fa.VN(stripConv(side[0])) == wvn {
							if (bo.Op.String() == "!=" && cd.Pol) || (bo.Op.String() == "==" && !cd.Pol) {
								guarded = true
							}
						}
					}
				}
			}
			r.Check(guarded, "R-WPC2", key, pos, "the zero count is not control dependent on the examined word being non-zero (a zero word would yield a position outside the word)", "dominated by the w != 0 edge")
			// R-FIRSTHIT: the first hit of a scan is the answer: where a returned position is computed, the scan ends
			r.Rule("R-FIRSTHIT", "a returned position computed from a non-zero word inside a scan loop is never carried round that loop (it does not flow into a loop-header phi): after the first hit the scan is over (break / return / a fresh variable per iteration). A scan that carries on overwrites the nearest hit with a farther one")
			// the position must not be carried round the scan loop: it never flows into a loop-header phi
			var carried *ssa.Phi
			{
				seenV := map[ssa.Value]bool{}
				var follow func(v ssa.Value)
				follow = func(v ssa.Value) {
					if v == nil || seenV[v] || v.Referrers() == nil {
						return
					}
					seenV[v] = true
					for _, ref := range *v.Referrers() {
						switch x := ref.(type) {
						case *ssa.Phi:
							if isLoopHeaderPhi(x) && loopBody(x.Block())[call.Block()] {
								// not carried when the edge into the header is only taken with the merged value equal to a
								// negative sentinel (`nxt = find(..); if nxt != -1 { break }`): a position is never negative
								sentinelOnly := false
								if vp, ok := v.(*ssa.Phi); ok {
									for i, e := range x.Edges {
										if e != v {
											continue
										}
										for _, cd := range fa.Conds(x.Block().Preds[i]) {
											bo, ok := cd.V.(*ssa.BinOp)
											if !ok || (bo.Op != token.EQL && bo.Op != token.NEQ) || stripConv(bo.X) != ssa.Value(vp) {
												continue
											}
											if k, ok := constInt64(stripConv(bo.Y)); ok && k < 0 && (bo.Op == token.EQL) == cd.Pol {
												sentinelOnly = true
											}
										}
									}
								}
								if sentinelOnly {
									continue
								}
								// not carried on when the same edge sets the loop's stop flag: `for found := false; !found && ..;`
								// with `found = true` next to the hit leaves the loop at its head before anything is overwritten
								stopsAtHead := true
								nIn := 0
								for i, e := range x.Edges {
									if e != v {
										continue
									}
									nIn++
									if headerExitsOnEdge(x.Block(), x.Block().Preds[i], nil, nil) {
										continue
									}
									// the hit and the flag are merged after the `if word != 0 {..}`: decide by the edge of that
									// merge the position came in through
									okVia := false
									if vp, isPhi := v.(*ssa.Phi); isPhi && !isLoopHeaderPhi(vp) {
										okVia = true
										nFrom := 0
										for j, ve := range vp.Edges {
											if !seenV[ve] && ve != ssa.Value(call) {
												continue // not the hit
											}
											nFrom++
											if !headerExitsOnEdge(x.Block(), x.Block().Preds[i], vp.Block(), vp.Block().Preds[j]) {
												okVia = false
											}
										}
										if nFrom == 0 {
											okVia = false
										}
									}
									if !okVia {
										stopsAtHead = false
									}
								}
								if nIn > 0 && stopsAtHead {
									continue
								}
								carried = x
								return
							}
							follow(x)
						case *ssa.Convert:
							follow(x)
						case *ssa.BinOp:
							if x.Op == token.ADD || x.Op == token.SUB {
								follow(x)
							}
						}
					}
				}
				follow(call)
			}
			why := ""
			if carried != nil {
				why = "the position computed at " + pos + " is carried round the loop headed at " + w.InstrPos(carried.Block().Instrs[0]) + " (variable " + carried.Comment + "): the scan continues after a hit and a later word can replace the answer"
			}
			r.Check(carried == nil, "R-FIRSTHIT", key, pos, why, "computed where the scan ends")
		}
	}
	return nsites
}

// wordOrigin strips AND/AND_NOT with mask operands and returns the element load.
func wordOrigin(v ssa.Value, container string) (ssa.Value, ssa.Value, bool) {
	v = stripConv(v)
	for depth := 0; depth < 6; depth++ {
		if x, idx, ok := asElemLoad(v); ok {
			if containerRole(x) == container {
				if sl, isSl := x.(*ssa.Slice); isSl && sl.Low != nil {
					if k, isC := constInt64(stripConv(sl.Low)); !isC || k != 0 {
						return nil, nil, false // index relative to a re-sliced view: not a word index of the container
					}
				}
				return v, idx, true
			}
			return nil, nil, false
		}
		b, ok := v.(*ssa.BinOp)
		if !ok {
			break
		}
		switch b.Op.String() {
		case "&", "&^":
			// one operand is the word (possibly nested), the other a mask
			if _, _, ok := wordOrigin(b.X, container); ok {
				v = stripConv(b.X)
				continue
			}
			if b.Op.String() == "&" {
				if _, _, ok := wordOrigin(b.Y, container); ok {
					v = stripConv(b.Y)
					continue
				}
			}
		}
		break
	}
	if p, ok := v.(*ssa.Phi); ok {
		// loop-carried word: all non-self edges must agree on the origin expression shape
		var res [2]ssa.Value
		okAll := true
		for _, e := range p.Edges {
			if e == ssa.Value(p) {
				continue
			}
			s, i, ok := wordOrigin(e, container)
			if !ok {
				okAll = false
			}
			res = [2]ssa.Value{s, i}
		}
		if okAll && res[0] != nil {
			return res[0], res[1], true
		}
	}
	return nil, nil, false
}

func runC13(c *Ctx, w *World, r *Report) {
	names := []string{"bitmap.NextOne", "bitmap.PrevOne"}
	fns, ok := requireFuncs(w, r, names...)
	ReportMaskWord(w, r, names...)
	ReportScale(w, r, names...)
	ReportPair(w, r, names...)
	ReportRound(w, r, names...)
	ReportTableWidth(w, r)
	if !ok {
		return
	}
	r.Rule("R-WPC1", "a returned position base + TrailingZeros64(w) needs base = 0 (mod 64) and base>>6 equal to the index of the word w was loaded from; base - LeadingZeros64(w) needs base = 63 (mod 64) likewise: otherwise the position is outside the word examined")
	r.Rule("R-WPC2", "the zero count is taken only under w != 0")
	r.Rule("R-CLIP", "every non-constant returned position p satisfies the range test exactly (NextOne: p < end, PrevOne: p >= i) on the returning edge and the failing edge returns -1")
	r.Rule("R-FIRSTWORD", "the first word examined is masked with the table that keeps the range side of the start bit: RMask[i&63] (bits >= i) for NextOne, MaskUpto[(end-1)&63] (bits <= end-1) for PrevOne, indexed by the offset of the same position whose >>6 selects the word")

	r.Rule("R-EMPTYONLY", "a return of the not-found constant that is reached before any word of the bitmap was examined is taken only for an empty range: its path conditions imply end <= i. A guard or shortcut that answers 'nothing found' for a non-empty range without looking (e.g. a range that ends exactly at the end of the bitmap) loses the 1-bits of that range")
	for _, n := range names {
		fn := fns[n]
		fa := w.FA(fn)
		{
			bad := ""
			nret := 0
			var loadBlocks []*ssa.BasicBlock
			eachInstr(fn, func(ins ssa.Instruction) {
				if v, ok := ins.(ssa.Value); ok {
					if cont, _, ok := asElemLoad(v); ok && containerRole(cont) == "bm" {
						loadBlocks = append(loadBlocks, ins.Block())
					}
				}
			})
			spanL := fa.Lin(fn.Params[2]).Sub(fa.Lin(fn.Params[1]))
			for _, ret := range returnsOf(fn) {
				if len(ret.Results) == 0 {
					continue
				}
				allConst := true
				for _, src := range resolvePhi(ret.Results[0]) {
					if _, ok := constInt64(stripConv(src)); !ok {
						allConst = false
					}
				}
				if !allConst {
					continue
				}
				examined := false
				for _, lb := range loadBlocks {
					if lb.Dominates(ret.Block()) {
						examined = true
					}
				}
				if examined {
					continue
				}
				nret++
				for _, cs := range fa.CondsDNF(ret.Block(), 0) {
					if bd := fa.boundsFrom(cs, spanL); !(bd.HasHi && bd.Hi <= 0) {
						bad = fmt.Sprintf("the return at %s answers not-found before any word was examined on a path where (end - i) is in %s: only an empty range may be answered without looking", w.InstrPos(ret), bd)
					}
				}
			}
			r.Check(bad == "", "R-EMPTYONLY", n, w.Pos(fn.Pos()), bad, fmt.Sprintf("%d constant returns that precede every word load; each implies end <= i", nret))
		}
		k := checkWordPositions(w, r, fn, n, 0, "bm")
		if k < 2 {
			r.Bad("R-WPC1", n+"|sites", w.Pos(fn.Pos()), fmt.Sprintf("expected at least 2 word-scan position sites (first word, following words), found %d", k))
		}
		// R-SCANEND: the word scan reaches the word that holds the last position of the range
		{
			r.Rule("R-SCANEND", "the scan over the following words runs until the word holding the far end of the range: a position counter runs while pos < end (NextOne) / pos >= i (PrevOne); a word counter k runs while k < N with N >= ceil(end/64), i.e. (end+63)>>6 (NextOne) resp. while k >= i>>6 (PrevOne): rounding the bound the wrong way skips the trailing partial word")
			badE := ""
			nscan := 0
			endL, iL := fa.Lin(fn.Params[2]), fa.Lin(fn.Params[1])
			eachInstr(fn, func(ins ssa.Instruction) {
				call, ok := ins.(*ssa.Call)
				nm := ""
				if ok {
					nm = calleeName(call.Common())
				}
				if !ok || !(strings.HasPrefix(nm, "math/bits.TrailingZeros") || strings.HasPrefix(nm, "math/bits.LeadingZeros")) {
					return
				}
				b := stripMasks(call.Common().Args[0], "bm")
				_, idx, ok := asElemLoad(b)
				if !ok {
					return
				}
				// the loop variable: either idx itself (word counter) or x with idx = x>>6 (position counter)
				var iv *LoopIV
				isPos := false
				if x, c, ok := asShiftRight(idx); ok && c == 6 {
					if v, ok := fa.InductionOf(x, call.Block()); ok {
						iv, isPos = v, true
					}
				}
				if iv == nil {
					if v, ok := fa.InductionOf(idx, call.Block()); ok {
						iv = v
					}
				}
				if iv == nil {
					return // the first (masked) word is not in a loop
				}
				nscan++
				// the scan is entered whenever the first word yields nothing: no further test between the first word's
				// test and the loop decides whether the following words are looked at (its own range test apart)
				if iv.Phi != nil {
					hb := iv.Phi.Block()
					var firstTest *ssa.If
					for d := hb.Idom(); d != nil; d = d.Idom() {
						ifi, ok := d.Instrs[len(d.Instrs)-1].(*ssa.If)
						if !ok {
							continue
						}
						bo, ok := ifi.Cond.(*ssa.BinOp)
						if !ok || (bo.Op != token.NEQ && bo.Op != token.EQL) {
							continue
						}
						for _, side := range [2][2]ssa.Value{{bo.X, bo.Y}, {bo.Y, bo.X}} {
							if k, isK := constUint64(stripConv(side[1])); isK && k == 0 {
								if _, _, isW := wordOrigin(side[0], "bm"); isW {
									firstTest = ifi
								}
							}
						}
						if firstTest != nil {
							break
						}
					}
					if firstTest != nil {
						for pi, pred := range hb.Preds {
							if hb.Dominates(pred) {
								continue
							}
							firstL := fa.Lin(iv.Phi.Edges[pi])
							for _, cd := range append(append([]Cond{}, fa.Conds(pred)...), selfCond(pred, hb)...) {
								if cd.If == nil || cd.If == firstTest || !firstTest.Block().Dominates(cd.If.Block()) {
									continue
								}
								okOwn := false
								if L, op, ok := fa.CondRel(cd); ok {
									if n == "bitmap.NextOne" {
										okOwn = L.Eq(firstL.Sub(endL)) && op == opLT || L.Eq(endL.Sub(firstL)) && op == opGT
									} else {
										okOwn = L.Eq(firstL.Sub(iL)) && op == opGE || L.Eq(iL.Sub(firstL)) && op == opLE
									}
								}
								// a re-test of the 'nothing found yet' sentinel the first word's test produced (`nxt := posOf(first
								// word); if nxt == -1 { scan }`): a merge behind that test, compared with a constant one of its
								// alternatives is
								if bo, isBo := cd.V.(*ssa.BinOp); isBo && !okOwn {
									for _, side := range [2][2]ssa.Value{{bo.X, bo.Y}, {bo.Y, bo.X}} {
										ph, isPhi := stripConv(side[0]).(*ssa.Phi)
										kc, isK := constInt64(stripConv(side[1]))
										if !isPhi || !isK || isLoopHeaderPhi(ph) || !firstTest.Block().Dominates(ph.Block()) {
											continue
										}
										for _, e := range ph.Edges {
											if ek, isC := constInt64(stripConv(e)); isC && ek == kc {
												okOwn = true
											}
										}
									}
								}
								if !okOwn {
									badE = "after the first word yielded nothing, whether the following words are scanned additionally depends on the branch at " + w.InstrPos(cd.If) + ": a 1-bit in a word the range reaches into can be answered 'not found' without that word being looked at"
								}
							}
						}
					}
				}
				// every word between the first one and the far end is examined, nearest first: the counter moves one
				// word per round towards the far end (forward for NextOne, backward for PrevOne)
				{
					want := int64(1)
					if isPos {
						want = 64
					}
					if n != "bitmap.NextOne" {
						want = -want
					}
					if iv.Step != want {
						badE = fmt.Sprintf("the word scan moves its counter by %d per round, expected %d: words are skipped or the scan runs away from the range", iv.Step, want)
						return
					}
				}
				if n == "bitmap.NextOne" {
					if !iv.HasN && !isPos && iv.HasScaledN && iv.Scale == 64 {
						// word counter k guarded by its position: 64*k < M visits every word that starts before M
						if d := iv.ScaledN.Sub(endL); !(d.IsConst() && d.K >= 0) {
							badE = "the forward scan over word indexes stops when 64*k reaches " + iv.ScaledN.String() + ", before end"
						}
						return
					}
					if !iv.HasN {
						badE = "the forward word scan has no upper bound"
						return
					}
					if isPos {
						if d := iv.N.Sub(endL); !(d.IsConst() && d.K >= 0) {
							badE = "the forward scan stops at position " + iv.N.String() + ", before end"
						}
						// pos < end visits the word of end-1 only if pos is the FIRST position of its word
						if cg, ok := fa.CongLin(iv.FirstLin, 64); !ok || cg != 0 || iv.Step%64 != 0 {
							badE = "the forward scan compares the position counter " + iv.FirstLin.String() + " (step " + fmt.Sprint(iv.Step) + ") with end although it is not the first position of a word (0 mod 64): the trailing partial word is skipped when the start offset exceeds the bits of it that are in range"
						}
						return
					}
					okN := false
					if v := fa.AtomValueOfLin(Lin{T: iv.N.T, K: 0}); v != nil {
						if x, c, ok := asShiftRight(v); ok && c == 6 {
							if d := fa.Lin(x).Sub(endL); d.IsConst() && d.K+64*iv.N.K >= 63 {
								okN = true
							}
						}
					}
					if iv.N.Eq(linAtom("call:builtin len(p0)")) {
						okN = true
					}
					if !okN {
						badE = "the forward scan over word indexes stops at word " + iv.N.String() + "; it must reach ceil(end/64) = (end+63)>>6 (a bound rounded down skips the trailing partial word)"
					}
				} else {
					// PrevOne: backward; guard pos >= i or k >= i>>6: lower bound on the counter
					L := fa.Lin(iv.Phi)
					if isPos {
						bd := fa.BoundsAt(call.Block(), L.Sub(iL))
						if !(bd.HasLo && bd.Lo <= 0) {
							badE = "the backward scan stops before reaching position i"
						}
						// pos >= i visits the word of i only if pos is the LAST position of its word
						if cg, ok := fa.CongLin(iv.FirstLin, 64); !ok || cg != 63 || iv.Step%64 != 0 {
							badE = "the backward scan compares the position counter " + iv.FirstLin.String() + " (step " + fmt.Sprint(iv.Step) + ") with i although it is not the last position of a word (63 mod 64): the leading partial word is skipped"
						}
						return
					}
					okLo := false
					for _, cd := range fa.Conds(call.Block()) {
						D, op, ok := fa.CondRel(cd)
						if !ok || (op != opGE && op != opGT) {
							continue
						}
						E := L.Sub(D) // bound: k >= E
						if v := fa.AtomValueOfLin(Lin{T: E.T, K: 0}); v != nil {
							if x, c, ok := asShiftRight(v); ok && c == 6 && fa.Lin(x).Sub(iL).IsConst() && fa.Lin(x).Sub(iL).K <= 0 {
								okLo = true
							}
						}
						if len(E.T) == 0 && E.K <= 0 {
							okLo = true
						}
					}
					// guard on the position of the word: 64*k + R >= i-ish. Word k must be visited whenever its last
					// position 64*k+63 is >= i: the guard D >= 0 (D > 0) must follow from 64*k + 63 - i >= 0.
					for _, cd := range fa.Conds(call.Block()) {
						D, op, ok := fa.CondRel(cd)
						if !ok || (op != opGE && op != opGT) {
							continue
						}
						need := linConst(63).addScaled(fa.Lin(idx), 64).Sub(iL)
						if d := D.Sub(need); d.IsConst() && (op == opGE && d.K >= 0 || op == opGT && d.K >= 1) {
							okLo = true
						}
					}
					if !okLo {
						badE = "the backward scan over word indexes does not reach word i>>6"
					}
				}
			})
			if nscan == 0 {
				badE = "no word scan loop found"
			}
			r.Check(badE == "", "R-SCANEND", n, w.Pos(fn.Pos()), badE, fmt.Sprintf("%d scan loop(s) reach the far end of the range", nscan))
		}
		// R-CLIP
		bound := ssa.Value(fn.Params[2]) // end
		wantHi := true
		if n == "bitmap.PrevOne" {
			bound = fn.Params[1] // i
			wantHi = false
		}
		nret := 0
		for _, ret := range returnsOf(fn) {
			v := ret.Results[0]
			if kc, ok := constInt64(stripConv(v)); ok {
				if kc != -1 {
					r.Bad("R-CLIP", n+"|const", w.InstrPos(ret), fmt.Sprintf("constant result %d: the not-found value is -1", kc))
				}
				continue
			}
			nret++
			L := fa.Lin(v).Sub(fa.Lin(bound))
			bd := fa.BoundsAt(ret.Block(), L)
			key := fmt.Sprintf("%s|return%d", n, nret)
			if wantHi {
				if bd.HasHi && bd.Hi == -1 {
					r.OK("R-CLIP", key, w.InstrPos(ret), "on the returning edge: result - end <= -1 ("+strings.Join(bd.Why, "; ")+")")
				} else {
					r.Bad("R-CLIP", key, w.InstrPos(ret), "returned position is not established to be < end exactly: result - end in "+bd.String(), bd.Why...)
				}
			} else {
				if bd.HasLo && bd.Lo == 0 {
					r.OK("R-CLIP", key, w.InstrPos(ret), "on the returning edge: result - i >= 0 ("+strings.Join(bd.Why, "; ")+")")
				} else {
					r.Bad("R-CLIP", key, w.InstrPos(ret), "returned position is not established to be >= i exactly: result - i in "+bd.String(), bd.Why...)
				}
			}
		}
		if nret == 0 {
			r.Bad("R-CLIP", n+"|none", w.Pos(fn.Pos()), "no position-returning return found")
		}
		// failing edge returns -1: some return of -1 is dominated by the complementary condition
		// (covered: all constant returns are -1, and the position return is guarded)

		// R-FIRSTWORD
		wantTab := "RMask"
		if n == "bitmap.PrevOne" {
			wantTab = "MaskUpto"
		}
		found, bad := false, ""
		eachInstr(fn, func(ins ssa.Instruction) {
			bo, ok := ins.(*ssa.BinOp)
			if !ok || bo.Op.String() != "&" {
				return
			}
			for _, side := range [2][2]ssa.Value{{bo.X, bo.Y}, {bo.Y, bo.X}} {
				cont, widx, ok := asElemLoad(side[0])
				if !ok || containerRole(cont) != "bm" {
					continue
				}
				ms, ok := fa.MaskOf(side[1])
				if !ok {
					continue
				}
				found = true
				// NextOne keeps bits >= x&63 ("high" from the offset); PrevOne keeps bits <= x&63 ("low" of offset+1)
				wantKind, adj := "high", int64(0)
				if n == "bitmap.PrevOne" {
					wantKind, adj = "low", 1
				}
				if ms.Kind != wantKind {
					bad = fmt.Sprintf("first word masked with a %s-side mask (%s); %s needs the %s side (%s)", ms.Kind, ms.Via, n, wantKind, wantTab)
				}
				tidx := fa.AtomValueOfLin(ms.N.Add(linConst(-adj)))
				if tidx == nil {
					bad = "mask offset is not x&63"
					continue
				}
				px, pc, ok1 := asShiftRight(widx)
				ox, oj, ok2 := asLowMask(tidx)
				if !ok1 || !ok2 || pc != 6 || oj != 6 || fa.VN(stripConv(px)) != fa.VN(stripConv(ox)) {
					bad = "word index and mask offset are not x>>6 and x&63 of the same position x"
				} else {
					// x must be the start of the range: i for NextOne, end-1 for PrevOne
					xl := fa.Lin(px)
					var want Lin
					if n == "bitmap.NextOne" {
						want = fa.Lin(fn.Params[1])
					} else {
						want = fa.Lin(fn.Params[2]).Add(linConst(-1))
					}
					if !xl.Eq(want) {
						bad = fmt.Sprintf("first word is selected by %s, expected %s", xl, want)
					}
				}
			}
		})
		if !found {
			bad = "no masked first word bm[x>>6] & Table[x&63] found"
		}
		r.Check(bad == "", "R-FIRSTWORD", n, w.Pos(fn.Pos()), bad, "first word = bm[x>>6] & "+wantTab+"[x&63] with x the first position of the scan")
	}
}

func init() {
	register(&Prop{
		ID: "C13", Level: "other",
		Explain: "Structural necessary conditions of NextOne/PrevOne (DESIGN.md 5/C13): unit consistency (E4), shift/mask pairing, alignment constants, and E5 word/position coherence: each returned position lies inside the word that was examined (congruence mod 64 + word index identity), is computed only from a non-zero word, and is clipped to the range exactly; the first word is masked on the correct side.",
		NotDec:  []string{"contents of RMask/MaskUpto (built by an init loop)", "termination / that no word between start and result is skipped beyond what the +-64 step with aligned base implies"},
		Trusted: []string{"go/ssa construction", "math/bits.TrailingZeros64 / LeadingZeros64 semantics"},
		Quick:   []Config{cfgDefault, cfg386}, Thorough: []Config{cfgDefault, cfg386},
		Run: runC13,
	})
}

// stripMasks removes AND / AND_NOT with mask operands around a word value.
func stripMasks(v ssa.Value, container string) ssa.Value {
	v = stripConv(v)
	for depth := 0; depth < 6; depth++ {
		b, ok := v.(*ssa.BinOp)
		if !ok || (b.Op != token.AND && b.Op != token.AND_NOT) {
			return v
		}
		// the word side is the one that is (transitively) a load of the container or a phi; masks are table loads / constants / ^table
		isMask := func(x ssa.Value) bool {
			x = stripConv(x)
			if u, ok := x.(*ssa.UnOp); ok && u.Op == token.XOR {
				x = stripConv(u.X)
			}
			if _, ok := x.(*ssa.Const); ok {
				return true
			}
			return looksLikeMask(x)
		}
		switch {
		case isMask(b.Y):
			v = stripConv(b.X)
		case b.Op == token.AND && isMask(b.X):
			v = stripConv(b.Y)
		default:
			return v
		}
	}
	return v
}

// wordIndexMatches: the word value wv is container[K] on every path (phi edges of the word and of K are matched pairwise).
func wordIndexMatches(fa *FA, wv ssa.Value, K Lin, container string, depth int) bool {
	if depth > 6 {
		return false
	}
	b := stripMasks(wv, container)
	if cont, idx, ok := asElemLoad(b); ok {
		// an element of a re-sliced view bm[lo:hi] is element lo+k of bm
		off, okOff := sliceOffset(fa, cont)
		return containerRole(cont) == container && okOff && fa.Lin(idx).Add(off).Eq(K)
	}
	p, ok := b.(*ssa.Phi)
	if !ok {
		return false
	}
	q, ok := fa.AtomValueOfLin(K).(*ssa.Phi)
	if !ok || q.Block() != p.Block() || len(q.Edges) != len(p.Edges) {
		return false
	}
	for j := range p.Edges {
		ev := stripMasks(p.Edges[j], container)
		if ev == ssa.Value(p) {
			if stripConv(q.Edges[j]) != ssa.Value(q) {
				return false
			}
			continue
		}
		if !wordIndexMatches(fa, p.Edges[j], fa.Lin(q.Edges[j]), container, depth+1) {
			return false
		}
	}
	return true
}

// headerExitsOnEdge: entering loop header hb through the edge from pred, the header's own test leaves the loop at
// once because it tests a boolean flag (a phi of hb) that is a constant on that edge: `for found := false; !found &&
// cond; ...` after `found = true`.
func headerExitsOnEdge(hb, pred, mergeBlk, fromBlk *ssa.BasicBlock) bool {
	ifi, ok := hb.Instrs[len(hb.Instrs)-1].(*ssa.If)
	if !ok || len(hb.Succs) != 2 {
		return false
	}
	cond, pol := ifi.Cond, true
	for {
		if u, ok := cond.(*ssa.UnOp); ok && u.Op == token.NOT {
			cond, pol = u.X, !pol
			continue
		}
		break
	}
	p, ok := cond.(*ssa.Phi)
	if !ok || p.Block() != hb {
		return false
	}
	var val *bool
	for i, pr := range hb.Preds {
		if pr != pred {
			continue
		}
		ev := p.Edges[i]
		if mp, isM := ev.(*ssa.Phi); isM && mergeBlk != nil && mp.Block() == mergeBlk {
			// the flag as merged in mergeBlk: its value on the edge from fromBlk
			ev = nil
			for j, mpr := range mergeBlk.Preds {
				if mpr == fromBlk {
					ev = mp.Edges[j]
				}
			}
		}
		c, isC := ev.(*ssa.Const)
		if !isC || c.Value == nil || c.Value.Kind() != constant.Bool {
			return false
		}
		b := constant.BoolVal(c.Value)
		val = &b
	}
	if val == nil {
		return false
	}
	taken := hb.Succs[1]
	if *val == pol {
		taken = hb.Succs[0]
	}
	// the successor taken must be outside the loop
	return !(hb.Dominates(taken) && reaches(taken, hb, nil)) || taken == hb && false
}
