// Package bitmap (fixture): tiny must-fire / must-stay-silent examples that the
// checker analyses on EVERY run. A rule that stops firing on its bad example
// means the checker is broken (exit 2, CHECKER-BROKEN), never a silent pass.
package bitmap

import (
	"fmt"
	"reflect"
	"unsafe"
)

var table [4]int

// ---- E1 effects
func BadWritesArg(xs []uint64) uint64 { xs[0] = 1; return xs[0] }
func BadWritesGlobal(i int) int       { table[i&3] = i; return table[0] }
func GoodLocal(xs []uint64) uint64 {
	tmp := make([]uint64, len(xs))
	copy(tmp, xs)
	tmp[0] = 1
	return tmp[0]
}

// ---- E4 scale
func BadScale(words []uint64, i int32) uint64 { return words[i>>6] + words[i>>3] }
func GoodScale(words []uint64, i int32) uint64 {
	return words[i>>6] >> uint(i&63)
}

// ---- R-PAIR / R-ROUND
func BadPair(words []uint64, i int32) uint64 { return words[i>>6] >> uint(i&31) }
func BadRound(n int32) []uint64              { return make([]uint64, (n+62)>>6) }
func GoodRound(n int32) []uint64             { return make([]uint64, (n+63)>>6) }

// ---- E0 unsafe cast size
func BadCast(s string) []byte  { return *(*[]byte)(unsafe.Pointer(&s)) }
func GoodCast(b []byte) string { return *(*string)(unsafe.Pointer(&b)) }

// ---- E7 exact bounds
func GuardedGet(xs []uint64, k int32) uint64 {
	if k < 0 || k >= int32(len(xs)) {
		return 0
	}
	return xs[k]
}
func LooseGet(xs []uint64, k int32) uint64 {
	if k < 0 || k > int32(len(xs)) {
		return 0
	}
	return xs[k]
}

// ---- E2 kind specialisation
func SizeKinds(v reflect.Value) int {
	switch v.Kind() {
	case reflect.Int, reflect.Int8:
		return int(v.Type().Size())
	default:
		panic(fmt.Sprintf("unknown kind %s", v.Kind()))
	}
}

// ---- E5 congruence
func AlignedNext(xs []uint64, i int32) int32 {
	for i = (i + 63) &^ 63; i < int32(len(xs))<<6; i += 64 {
		if xs[i>>6] != 0 {
			return i
		}
	}
	return -1
}
func MisalignedNext(xs []uint64, i int32) int32 {
	for i = (i + 63) &^ 63; i < int32(len(xs))<<6; i += 63 {
		if xs[i>>6] != 0 {
			return i
		}
	}
	return -1
}

// ---- R-PANICSITES / R-ALLOCWRAP (expected count on the real tree is zero: these must match on every run)
func BadNewPanic(xs []uint64, i int32) uint64 {
	if int(i>>6) > len(xs) {
		panic("out of range")
	}
	return xs[i>>6]
}
func GoodNoPanic(xs []uint64, i int32) uint64 { return xs[i>>6] }
func BadAllocWrap(from, to uint64) []uint64   { return make([]uint64, 0, to-from) }
func GoodAllocGuarded(from, to uint64) []uint64 {
	if to < from {
		return nil
	}
	return make([]uint64, 0, to-from)
}

// ---- helper inlining: a boolean helper in an if condition keeps the guarded access directly controlled
func hasWord(xs []uint64, k int) bool {
	if k < 0 {
		return false
	}
	return k < len(xs)
}
func ThreadedGet(xs []uint64, k int) uint64 {
	if hasWord(xs, k) {
		return xs[k]
	}
	return 0
}

// ---- boolean flag threading: the flag stands for the condition that set it
func FlagGet(xs []uint64, k int) uint64 {
	inside := false
	if k >= 0 && k < len(xs) {
		inside = true
	}
	if inside {
		return xs[k]
	}
	return 0
}

// ---- linear forms: len of a re-slice and of a fresh slice, a distributed product
func LinLen(xs []uint64, n, j, w int) (int, int, int) {
	ys := make([]uint64, n)
	return len(xs[1:]), len(ys), w * (j + 1)
}

// ---- generic rules added after red-team round 6
func BadCountNarrow(ds []int32, m int32) []uint16 {
	counts := make([]uint16, m)
	for _, d := range ds {
		if d < m {
			counts[d]++
		}
	}
	return counts
}
func GoodCountBounded(w uint8) uint8 {
	n := uint8(0)
	for j := 0; j < 8; j++ {
		if w&(1<<uint(j)) != 0 {
			n++
		}
	}
	return n
}
func GoodCountWide(ds []int32, m int32) []int32 {
	counts := make([]int32, m)
	for _, d := range ds {
		if d < m {
			counts[d]++
		}
	}
	return counts
}
func BadMul32(q, size int32, pl uint) int32  { return q * size >> pl }
func GoodMul64(q, size int32, pl uint) int32 { return int32(uint64(q) * uint64(size) >> pl) }
func GoodMulBit(flag, cnt int32) int32       { return (flag & 1) * cnt }
