module fixture

go 1.14
