// Package iofx (fixture): E3 examples.
package iofx

import "io"

type hdr struct{ BodySize uint64 }

func (h *hdr) GetBodySize() int64 { return int64(h.BodySize) }

type Header interface{ GetBodySize() int64 }

func BadTaint(r io.Reader, h Header) ([]byte, error) {
	b := make([]byte, h.GetBodySize())
	_, err := io.ReadFull(r, b)
	return b, err
}

func GoodTaint(r io.Reader, h Header) ([]byte, error) {
	n := h.GetBodySize()
	if n < 0 || n > 1<<20 {
		return nil, io.ErrUnexpectedEOF
	}
	b := make([]byte, n)
	_, err := io.ReadFull(r, b)
	return b, err
}

func BadDropsErr(w io.Writer, p []byte) (int, error) {
	n, _ := w.Write(p)
	return n, nil
}

func GoodPropagates(w io.Writer, p []byte) (int, error) {
	n, err := w.Write(p)
	if err != nil {
		return n, err
	}
	return n, nil
}

func BadCount(w io.Writer, a, b []byte) (int, error) {
	n, err := w.Write(a)
	if err != nil {
		return n, err
	}
	n2, err := w.Write(b)
	return n2, err
}
