package iofx

import "bytes"

func BadCutAtNul(v []byte) string { return string(v[:bytes.IndexByte(v, 0)]) }
func GoodCutAtNul(v []byte) string {
	i := bytes.IndexByte(v, 0)
	if i < 0 {
		return string(v)
	}
	return string(v[:i])
}
func GoodCutAfter(v []byte) string { return string(v[bytes.LastIndexByte(v, '/')+1:]) }
