package main

// E5 — word/position coherence helpers: congruence mod 2^c of linear forms.

import (
	"go/token"
	"strings"

	"golang.org/x/tools/go/ssa"
)

// congValue returns v mod m when derivable (optimistic over loop phis).
func (a *FA) congValue(v ssa.Value, m int64, active map[ssa.Value]bool) (int64, bool) {
	v = stripConv(v)
	if k, ok := constInt64(v); ok {
		return ((k % m) + m) % m, true
	}
	if active[v] {
		return -1, true // optimistic: "whatever the others say"
	}
	// invariant established by C15's own rules (R-WHO + R-COMPACT): TailBitmap.Offset is a multiple of 64
	if _, f, ok := asFieldLoad(v); ok && f == "Offset" && 64%m == 0 {
		if u, ok := v.(*ssa.UnOp); ok {
			if fad, ok := u.X.(*ssa.FieldAddr); ok && strings.HasSuffix(fad.X.Type().String(), "bitmap.TailBitmap") {
				return 0, true
			}
		}
	}
	switch x := v.(type) {
	case *ssa.Phi:
		active[v] = true
		defer delete(active, v)
		res := int64(-1)
		for _, e := range x.Edges {
			c, ok := a.congValue(e, m, active)
			if !ok {
				return 0, false
			}
			if c == -1 {
				continue
			}
			if res == -1 {
				res = c
			} else if res != c {
				return 0, false
			}
		}
		return res, true
	case *ssa.BinOp:
		switch x.Op {
		case token.ADD, token.SUB:
			l, ok1 := a.congValue(x.X, m, active)
			r, ok2 := a.congValue(x.Y, m, active)
			if !ok1 || !ok2 {
				return 0, false
			}
			if l == -1 || r == -1 {
				// optimistic placeholder combined with a constant: resolved by the caller's merge
				if l == -1 && r == 0 || r == -1 && l == 0 {
					return -1, true
				}
				return 0, false
			}
			if x.Op == token.ADD {
				return (l + r) % m, true
			}
			return ((l-r)%m + m) % m, true
		case token.SHL:
			if k, ok := constInt64(stripConv(x.Y)); ok && k < 62 && (int64(1)<<uint(k))%m == 0 {
				return 0, true
			}
		case token.MUL:
			if k, ok := constInt64(stripConv(x.Y)); ok && k%m == 0 {
				return 0, true
			}
			if k, ok := constInt64(stripConv(x.X)); ok && k%m == 0 {
				return 0, true
			}
		case token.AND, token.AND_NOT:
			if _, c, ok := asAlignDown(x); ok && (int64(1)<<uint(c))%m == 0 {
				return 0, true
			}
			if _, j, ok := asLowMask(x); ok && (int64(1)<<uint(j)) <= m {
				return 0, false // value below 2^j, congruence unknown
			}
		}
	}
	return 0, false
}

// CongLin: L mod m.
func (a *FA) CongLin(L Lin, m int64) (int64, bool) {
	sum := ((L.K % m) + m) % m
	for atom, coef := range L.T {
		if coef%m == 0 {
			continue
		}
		v := a.AtomValue(atom)
		if v == nil {
			return 0, false
		}
		c, ok := a.congValue(v, m, map[ssa.Value]bool{})
		if !ok || c == -1 {
			return 0, false
		}
		sum = ((sum+coef*c)%m + m) % m
	}
	return sum, true
}
