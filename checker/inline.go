package main

// AST pre-inlining of trivial same-package helpers (DESIGN.md 1.1 promise "extracting an
// in-repo helper must not change the verdict"): a call f(a1..an) to a package-level,
// non-recursive function whose body is a single `return <expr>` is replaced by that
// expression with the parameters substituted, the package is re-type-checked and SSA is
// built from the rewritten syntax. Any doubt (side effects in duplicated arguments, types
// that cannot be spelled, identifiers that would resolve differently, type errors after
// rewriting) leaves the package exactly as loaded.

import (
	"fmt"
	"go/ast"
	"go/constant"
	"go/importer"
	"go/printer"
	"go/token"
	"go/types"
	"os"
	"strings"

	"golang.org/x/tools/go/packages"
)

type inlineCand struct {
	decl   *ast.FuncDecl
	obj    *types.Func
	expr   ast.Expr
	params []*types.Var
	method bool // a computed accessor: params[0] is the receiver
}

func basicTypeExpr(t types.Type) (ast.Expr, bool) {
	switch tt := t.(type) {
	case *types.Basic:
		if tt.Kind() == types.UnsafePointer || tt.Info()&types.IsUntyped != 0 {
			return nil, false
		}
		return ast.NewIdent(tt.Name()), true
	case *types.Slice:
		e, ok := basicTypeExpr(tt.Elem())
		if !ok {
			return nil, false
		}
		return &ast.ArrayType{Elt: e}, true
	}
	return nil, false
}

func pureArg(e ast.Expr) bool {
	ok := true
	ast.Inspect(e, func(n ast.Node) bool {
		switch x := n.(type) {
		case *ast.CallExpr:
			// conversions to basic types and len/cap are fine
			if id, isId := x.Fun.(*ast.Ident); isId {
				switch id.Name {
				case "len", "cap", "int", "int8", "int16", "int32", "int64", "uint", "uint8", "uint16", "uint32", "uint64", "uintptr", "byte", "string":
					return true
				}
			}
			ok = false
		case *ast.UnaryExpr:
			if x.Op == token.ARROW {
				ok = false
			}
		case *ast.FuncLit:
			ok = false
		}
		return ok
	})
	return ok
}

// cloneExpr deep-copies the expression kinds that occur in arithmetic helpers.
func cloneExpr(e ast.Expr, subst func(*ast.Ident) ast.Expr) (ast.Expr, bool) {
	switch x := e.(type) {
	case nil:
		return nil, true
	case *ast.Ident:
		if r := subst(x); r != nil {
			return r, true
		}
		c := *x
		return &c, true
	case *ast.BasicLit:
		c := *x
		return &c, true
	case *ast.ParenExpr:
		in, ok := cloneExpr(x.X, subst)
		return &ast.ParenExpr{Lparen: x.Lparen, X: in, Rparen: x.Rparen}, ok
	case *ast.UnaryExpr:
		in, ok := cloneExpr(x.X, subst)
		return &ast.UnaryExpr{OpPos: x.OpPos, Op: x.Op, X: in}, ok && x.Op != token.ARROW
	case *ast.BinaryExpr:
		l, ok1 := cloneExpr(x.X, subst)
		r, ok2 := cloneExpr(x.Y, subst)
		return &ast.BinaryExpr{X: l, OpPos: x.OpPos, Op: x.Op, Y: r}, ok1 && ok2
	case *ast.IndexExpr:
		l, ok1 := cloneExpr(x.X, subst)
		r, ok2 := cloneExpr(x.Index, subst)
		return &ast.IndexExpr{X: l, Lbrack: x.Lbrack, Index: r, Rbrack: x.Rbrack}, ok1 && ok2
	case *ast.SelectorExpr:
		l, ok := cloneExpr(x.X, subst)
		s := *x.Sel
		return &ast.SelectorExpr{X: l, Sel: &s}, ok
	case *ast.CallExpr:
		f, ok := cloneExpr(x.Fun, subst)
		var args []ast.Expr
		for _, a := range x.Args {
			ca, ok2 := cloneExpr(a, subst)
			ok = ok && ok2
			args = append(args, ca)
		}
		return &ast.CallExpr{Fun: f, Lparen: x.Lparen, Args: args, Ellipsis: x.Ellipsis, Rparen: x.Rparen}, ok
	case *ast.ArrayType:
		if x.Len != nil {
			return nil, false
		}
		el, ok := cloneExpr(x.Elt, subst)
		return &ast.ArrayType{Lbrack: x.Lbrack, Elt: el}, ok
	case *ast.SliceExpr:
		a, ok1 := cloneExpr(x.X, subst)
		lo, ok2 := cloneExpr(x.Low, subst)
		hi, ok3 := cloneExpr(x.High, subst)
		mx, ok4 := cloneExpr(x.Max, subst)
		return &ast.SliceExpr{X: a, Lbrack: x.Lbrack, Low: lo, High: hi, Max: mx, Slice3: x.Slice3, Rbrack: x.Rbrack}, ok1 && ok2 && ok3 && ok4
	}
	return nil, false
}

// inlineTrivialHelpers rewrites the module packages in place. level 1: single-expression helpers;
// level 2: also statement-level inlining (inline2.go). Returns the number of calls inlined and whether
// every package could be re-checked (false: the syntax trees are unusable, the caller must reload).
func inlineTrivialHelpers(pkgs []*packages.Package, inModule func(*packages.Package) bool, level int) (int, bool) {
	total := 0
	newTypes := map[string]*types.Package{}
	var order []*packages.Package
	packages.Visit(pkgs, nil, func(p *packages.Package) { // post-order: dependencies first
		if inModule(p) {
			order = append(order, p)
		}
	})
	for _, p := range order {
		n, ok := inlinePackage(p, newTypes, level)
		if !ok {
			return total, false
		}
		total += n
	}
	return total, true
}

func inlinePackage(p *packages.Package, newTypes map[string]*types.Package, level int) (int, bool) {
	if p.TypesInfo == nil || len(p.Syntax) == 0 {
		return 0, true
	}
	info := p.TypesInfo
	// needs re-check if a dependency inside the module was re-checked (type identity), even without own inlining
	depRechecked := false
	for path := range p.Imports {
		if _, ok := newTypes[path]; ok {
			depRechecked = true
		}
	}
	// candidates
	cands := map[*types.Func]*inlineCand{}
	for _, f := range p.Syntax {
		for _, d := range f.Decls {
			fd, ok := d.(*ast.FuncDecl)
			if !ok || fd.Body == nil || len(fd.Body.List) != 1 || fd.Type.TypeParams != nil {
				continue
			}
			// computed accessors: a method without parameters whose body is one arithmetic expression over the
			// receiver's fields (SectionWriter.Size: limit - base) reads, at a call x.Size() on a plain variable, like
			// the expression. Bare getters and everything the rules look for by name stay calls.
			isAccessor := false
			if fd.Recv != nil {
				if len(fd.Recv.List) != 1 || len(fd.Recv.List[0].Names) != 1 || fd.Type.Params == nil || len(fd.Type.Params.List) != 0 {
					continue
				}
				ret, ok := fd.Body.List[0].(*ast.ReturnStmt)
				if !ok || len(ret.Results) != 1 {
					continue
				}
				if _, isBin := ast.Unparen(ret.Results[0]).(*ast.BinaryExpr); !isBin {
					continue
				}
				plain := true
				ast.Inspect(ret.Results[0], func(n ast.Node) bool {
					switch n.(type) {
					case *ast.CallExpr, *ast.FuncLit, *ast.IndexExpr, *ast.SliceExpr, *ast.StarExpr, *ast.UnaryExpr:
						plain = false
					}
					return plain
				})
				if !plain {
					continue
				}
				isAccessor = true
			}
			ret, ok := fd.Body.List[0].(*ast.ReturnStmt)
			if !ok || len(ret.Results) != 1 || fd.Type.Results == nil || len(fd.Type.Results.List) != 1 || len(fd.Type.Results.List[0].Names) > 0 {
				continue
			}
			obj, ok := info.Defs[fd.Name].(*types.Func)
			if !ok {
				continue
			}
			if (obj.Exported() && !isAccessor) || inlineKeep[p.Types.Name()+"."+obj.Name()] {
				continue // exported API functions and the helpers the rules are anchored at by name (rules look for calls to them) stay functions
			}
			sig := obj.Type().(*types.Signature)
			if sig.Variadic() {
				continue
			}
			c := &inlineCand{decl: fd, obj: obj, expr: ret.Results[0]}
			okc := true
			if isAccessor {
				rv, _ := info.Defs[fd.Recv.List[0].Names[0]].(*types.Var)
				if rv == nil || rv.Name() == "_" {
					continue
				}
				c.params = append(c.params, rv)
				c.method = true
			}
			for i := 0; i < sig.Params().Len(); i++ {
				pv := sig.Params().At(i)
				if pv.Name() == "" || pv.Name() == "_" {
					okc = false
				}
				c.params = append(c.params, pv)
			}
			// no function literals, no self call
			ast.Inspect(c.expr, func(n ast.Node) bool {
				switch x := n.(type) {
				case *ast.FuncLit:
					okc = false
				case *ast.Ident:
					if info.Uses[x] == types.Object(obj) {
						okc = false
					}
				}
				return okc
			})
			if okc {
				cands[obj] = c
			}
		}
	}
	// rewrite call sites
	nInl := 0
	type check struct {
		id   *ast.Ident
		name string
		pkg  *types.Package
	}
	var checks []check
	var curFile *ast.File
	rewrite := func(call *ast.CallExpr) ast.Expr {
		var fobj *types.Func
		var c *inlineCand
		callArgs := call.Args
		if sel, isSel := call.Fun.(*ast.SelectorExpr); isSel {
			// x.Accessor() on a plain variable
			recv, isId := sel.X.(*ast.Ident)
			if !isId || len(call.Args) != 0 {
				return nil
			}
			if _, isVar := info.Uses[recv].(*types.Var); !isVar {
				return nil
			}
			fobj, _ = info.Uses[sel.Sel].(*types.Func)
			if fobj == nil {
				return nil
			}
			c = cands[fobj]
			if c == nil || !c.method {
				return nil
			}
			callArgs = []ast.Expr{recv}
		} else {
			id, ok := call.Fun.(*ast.Ident)
			if !ok {
				return nil
			}
			fobj, ok = info.Uses[id].(*types.Func)
			if !ok {
				return nil
			}
			c = cands[fobj]
			if c != nil && c.method {
				return nil
			}
		}
		if c == nil || len(callArgs) != len(c.params) || call.Ellipsis.IsValid() {
			return nil
		}
		// imported package names used by the helper must mean the same package in the caller's file
		if fs := info.Scopes[curFile]; fs == nil {
			return nil
		} else {
			agree := true
			ast.Inspect(c.expr, func(m ast.Node) bool {
				if id, isId := m.(*ast.Ident); isId {
					if pn, isPn := info.Uses[id].(*types.PkgName); isPn {
						o, _ := fs.Lookup(id.Name).(*types.PkgName)
						if o == nil || o.Imported().Path() != pn.Imported().Path() {
							agree = false
						}
					}
				}
				return agree
			})
			if !agree {
				return nil
			}
		}
		// occurrences of each parameter
		occ := map[*types.Var]int{}
		ast.Inspect(c.expr, func(n ast.Node) bool {
			if x, ok := n.(*ast.Ident); ok {
				if v, ok := info.Uses[x].(*types.Var); ok {
					occ[v]++
				}
			}
			return true
		})
		argFor := map[*types.Var]ast.Expr{}
		for i, pv := range c.params {
			a := callArgs[i]
			if occ[pv] != 1 && !pureArg(a) {
				return nil
			}
			te, ok := basicTypeExpr(pv.Type())
			if !ok {
				// identical static type and not an untyped constant: plain parenthesised argument
				tv, has := info.Types[a]
				if !has || tv.Value != nil || !types.Identical(tv.Type, pv.Type()) {
					return nil
				}
				argFor[pv] = &ast.ParenExpr{X: a}
				continue
			}
			argFor[pv] = &ast.ParenExpr{X: &ast.CallExpr{Fun: te, Args: []ast.Expr{a}}}
		}
		var local []check
		okAll := true
		body, ok := cloneExpr(c.expr, func(x *ast.Ident) ast.Expr {
			o := info.Uses[x]
			if v, ok := o.(*types.Var); ok {
				if a, isParam := argFor[v]; isParam {
					ca, ok := cloneExpr(a, func(*ast.Ident) ast.Expr { return nil })
					if !ok {
						okAll = false
					}
					return ca
				}
			}
			if o != nil && o.Pkg() != nil && o.Parent() == o.Pkg().Scope() {
				cp := *x
				local = append(local, check{&cp, o.Name(), o.Pkg()})
				return &cp
			}
			if pn, ok := o.(*types.PkgName); ok {
				cp := *x
				local = append(local, check{&cp, pn.Imported().Path(), nil})
				return &cp
			}
			return nil
		})
		if !ok || !okAll || body == nil {
			return nil
		}
		var res ast.Expr = &ast.ParenExpr{X: body}
		if te, ok := basicTypeExpr(fobj.Type().(*types.Signature).Results().At(0).Type()); ok {
			res = &ast.CallExpr{Fun: te, Args: []ast.Expr{body}}
		}
		checks = append(checks, local...)
		nInl++
		return res
	}
	var files []*ast.File
	for _, f := range p.Syntax {
		files = append(files, f)
	}
	if len(cands) > 0 {
		for _, f := range files {
			curFile = f
			rewriteExprs(f, func(e ast.Expr) ast.Expr {
				if call, ok := e.(*ast.CallExpr); ok {
					return rewrite(call)
				}
				return nil
			})
		}
	}
	// operand order: a constant operand of a commutative numeric operation or of a comparison goes to the right
	// (`0 == x&15` reads `x&15 == 0`, `15&mask` reads `mask&15`, `0 < n` reads `n > 0`); the constant has no effects,
	// so the evaluation order is untouched
	{
		mirror := map[token.Token]token.Token{token.LSS: token.GTR, token.GTR: token.LSS, token.LEQ: token.GEQ, token.GEQ: token.LEQ, token.EQL: token.EQL, token.NEQ: token.NEQ}
		for _, f := range files {
			ast.Inspect(f, func(nd ast.Node) bool {
				be, ok := nd.(*ast.BinaryExpr)
				if !ok {
					return true
				}
				tx, okx := info.Types[be.X]
				ty, oky := info.Types[be.Y]
				if !okx || !oky || tx.Value == nil || ty.Value != nil {
					return true
				}
				numeric := func(t types.Type) bool {
					b, ok := t.Underlying().(*types.Basic)
					return ok && b.Info()&types.IsNumeric != 0
				}
				if ty.Type == nil || !numeric(ty.Type) {
					return true
				}
				switch be.Op {
				case token.ADD, token.MUL, token.AND, token.OR, token.XOR:
					be.X, be.Y = be.Y, be.X
					nInl++
				case token.EQL, token.NEQ, token.LSS, token.GTR, token.LEQ, token.GEQ:
					be.X, be.Y = be.Y, be.X
					be.Op = mirror[be.Op]
					nInl++
				}
				return true
			})
		}
	}
	// a range loop over a short literal list is the sequence of its iterations: `for _, part := range [][]byte{h, d}
	// { body }` reads `{ part := h; body } { part := d; body }` (no break/continue/goto/label/defer/closure in body;
	// the elements are plain variables of the element type)
	for _, f := range files {
		nInl += unrollLiteralRanges(f, info)
	}
	// unsigned division / remainder by a constant power of two are the shift and the mask (`path / (1<<32)` reads
	// `path >> 32`, `path % (1<<32)` reads `path & 0xffffffff`): exact for unsigned operands of any width
	for _, f := range files {
		ast.Inspect(f, func(nd ast.Node) bool {
			be, ok := nd.(*ast.BinaryExpr)
			if !ok || (be.Op != token.QUO && be.Op != token.REM) {
				return true
			}
			tx, okx := info.Types[be.X]
			ty, oky := info.Types[be.Y]
			if !okx || !oky || tx.Value != nil || ty.Value == nil || tx.Type == nil {
				return true
			}
			b, ok := tx.Type.Underlying().(*types.Basic)
			if !ok || b.Info()&types.IsUnsigned == 0 {
				return true
			}
			u, exact := constant.Uint64Val(constant.ToInt(ty.Value))
			if !exact || u == 0 || u&(u-1) != 0 {
				return true
			}
			k := 0
			for u>>uint(k) != 1 {
				k++
			}
			if be.Op == token.QUO {
				be.Op = token.SHR
				be.Y = &ast.BasicLit{ValuePos: be.Y.Pos(), Kind: token.INT, Value: fmt.Sprint(k)}
			} else {
				be.Op = token.AND
				be.Y = &ast.BasicLit{ValuePos: be.Y.Pos(), Kind: token.INT, Value: fmt.Sprintf("%#x", u-1)}
			}
			nInl++
			return true
		})
	}
	// standard-library synonyms: bits.LenN(x) is N - bits.LeadingZerosN(x) by definition (math/bits); the rules
	// speak about LeadingZeros only
	for _, f := range files {
		rewriteExprs(f, func(e ast.Expr) ast.Expr {
			call, ok := e.(*ast.CallExpr)
			if !ok {
				return nil
			}
			sel, ok := call.Fun.(*ast.SelectorExpr)
			if !ok {
				return nil
			}
			pid, ok := sel.X.(*ast.Ident)
			if !ok {
				return nil
			}
			pn, ok := info.Uses[pid].(*types.PkgName)
			if !ok {
				return nil
			}
			// io.ReadAtLeast(r, b, len(b)) is io.ReadFull(r, b) by definition (package io), b a plain variable
			if pn.Imported().Path() == "io" && sel.Sel.Name == "ReadAtLeast" && len(call.Args) == 3 {
				b, isId := call.Args[1].(*ast.Ident)
				lc, isCall := call.Args[2].(*ast.CallExpr)
				if isId && isCall && len(lc.Args) == 1 {
					if f, ok := lc.Fun.(*ast.Ident); ok {
						if bi, ok := info.Uses[f].(*types.Builtin); ok && bi.Name() == "len" {
							if b2, ok := lc.Args[0].(*ast.Ident); ok && info.Uses[b2] != nil && info.Uses[b2] == info.Uses[b] {
								if _, isVar := info.Uses[b].(*types.Var); isVar {
									cp := *pid
									checks = append(checks, check{&cp, "io", nil})
									nInl++
									return &ast.CallExpr{Fun: &ast.SelectorExpr{X: &cp, Sel: &ast.Ident{Name: "ReadFull", NamePos: sel.Sel.Pos()}}, Lparen: call.Lparen, Args: call.Args[:2], Rparen: call.Rparen}
								}
							}
						}
					}
				}
				return nil
			}
			if pn.Imported().Path() != "math/bits" {
				return nil
			}
			width := map[string]string{"Len64": "64", "Len32": "32", "Len16": "16", "Len8": "8"}[sel.Sel.Name]
			if width == "" {
				return nil
			}
			if len(call.Args) != 1 {
				return nil
			}
			cp := *pid
			checks = append(checks, check{&cp, "math/bits", nil})
			nInl++
			return &ast.ParenExpr{X: &ast.BinaryExpr{
				X:  &ast.BasicLit{Kind: token.INT, Value: width, ValuePos: call.Pos()},
				Op: token.SUB, OpPos: call.Pos(),
				Y: &ast.CallExpr{Fun: &ast.SelectorExpr{X: &cp, Sel: &ast.Ident{Name: "LeadingZeros" + width, NamePos: sel.Sel.Pos()}}, Lparen: call.Lparen, Args: call.Args, Rparen: call.Rparen}}}
		})
	}
	recheck := func() (*types.Package, *types.Info, error) {
		ninfo := &types.Info{
			Types: map[ast.Expr]types.TypeAndValue{}, Defs: map[*ast.Ident]types.Object{}, Uses: map[*ast.Ident]types.Object{},
			Implicits: map[ast.Node]types.Object{}, Selections: map[*ast.SelectorExpr]*types.Selection{}, Scopes: map[ast.Node]*types.Scope{},
			Instances: map[*ast.Ident]types.Instance{},
		}
		imp := importerFunc(func(path string) (*types.Package, error) {
			if np, ok := newTypes[path]; ok {
				return np, nil
			}
			if ip, ok := p.Imports[path]; ok && ip.Types != nil {
				return ip.Types, nil
			}
			return nil, fmt.Errorf("import %q not loaded", path)
		})
		var terr error
		conf := types.Config{Importer: imp, Sizes: p.TypesSizes, Error: func(err error) {
			if terr == nil {
				terr = err
			}
		}}
		np, _ := conf.Check(p.PkgPath, p.Fset, files, ninfo)
		if terr == nil && np == nil {
			terr = fmt.Errorf("no package")
		}
		return np, ninfo, terr
	}
	hygienic := func(ninfo *types.Info, name string, pkg *types.Package, id *ast.Ident) bool {
		o := ninfo.Uses[id]
		if pkg == nil {
			pn, ok := o.(*types.PkgName)
			return ok && pn.Imported().Path() == name
		}
		return o != nil && o.Name() == name && o.Pkg() != nil && o.Pkg().Path() == pkg.Path() && o.Parent() == o.Pkg().Scope()
	}
	dirty := false
	if nInl > 0 || depRechecked {
		np, ninfo, terr := recheck()
		if terr != nil {
			if os.Getenv("LOWCHECK_TIMING") != "" {
				fmt.Fprintln(os.Stderr, "inline: re-check failed for", p.PkgPath, terr)
			}
			return 0, false
		}
		// hygiene: package-level identifiers copied from helper bodies still mean the same object
		for _, c := range checks {
			if !hygienic(ninfo, c.name, c.pkg, c.id) {
				return 0, false
			}
		}
		p.Types, p.TypesInfo = np, ninfo
		info = ninfo
		dirty = true
	}
	if level >= 2 {
		for round := 0; round < 3; round++ {
			n, hc := inlineStmtRound(p.Types.Name(), files, info)
			if n == 0 {
				break
			}
			np, ninfo, terr := recheck()
			if terr != nil {
				if os.Getenv("LOWCHECK_TIMING") != "" {
					fmt.Fprintln(os.Stderr, "inline(stmt): re-check failed for", p.PkgPath, terr)
				}
				return 0, false
			}
			for _, c := range hc {
				if !hygienic(ninfo, c.name, c.pkg, c.id) {
					if os.Getenv("LOWCHECK_TIMING") != "" {
						fmt.Fprintln(os.Stderr, "inline(stmt): identifier", c.name, "resolves differently after inlining in", p.PkgPath)
					}
					return 0, false
				}
			}
			p.Types, p.TypesInfo = np, ninfo
			info = ninfo
			nInl += n
			dirty = true
		}
	}
	if dirty {
		newTypes[p.PkgPath] = p.Types
	}
	if want := os.Getenv("LOWCHECK_DUMPSRC"); want != "" {
		// debugging aid: print the (possibly rewritten) declaration the rules will see
		for _, f := range files {
			for _, d := range f.Decls {
				if fd, ok := d.(*ast.FuncDecl); ok && p.Types.Name()+"."+fd.Name.Name == want {
					fmt.Fprintf(os.Stderr, "---- %s after inlining ----\n", want)
					printer.Fprint(os.Stderr, token.NewFileSet(), fd)
					fmt.Fprintln(os.Stderr)
				}
			}
		}
	}
	return nInl, true
}

type importerFunc func(path string) (*types.Package, error)

func (f importerFunc) Import(path string) (*types.Package, error) { return f(path) }

var _ = importer.Default

// rewriteExprs applies f to every expression position of the file (post-order); f returns a replacement or nil.
func rewriteExprs(file *ast.File, f func(ast.Expr) ast.Expr) {
	var visitExpr func(e *ast.Expr)
	var visitNode func(n ast.Node)
	visitExpr = func(e *ast.Expr) {
		if *e == nil {
			return
		}
		visitNode(*e)
		if r := f(*e); r != nil {
			*e = r
		}
	}
	visitExprs := func(es []ast.Expr) {
		for i := range es {
			visitExpr(&es[i])
		}
	}
	visitNode = func(n ast.Node) {
		switch x := n.(type) {
		case *ast.File:
			for _, d := range x.Decls {
				visitNode(d)
			}
		case *ast.FuncDecl:
			if x.Body != nil {
				visitNode(x.Body)
			}
		case *ast.GenDecl:
			for _, s := range x.Specs {
				if vs, ok := s.(*ast.ValueSpec); ok {
					visitExprs(vs.Values)
				}
			}
		case *ast.BlockStmt:
			for _, s := range x.List {
				visitNode(s)
			}
		case *ast.ExprStmt:
			visitExpr(&x.X)
		case *ast.AssignStmt:
			visitExprs(x.Lhs)
			visitExprs(x.Rhs)
		case *ast.ReturnStmt:
			visitExprs(x.Results)
		case *ast.IfStmt:
			if x.Init != nil {
				visitNode(x.Init)
			}
			visitExpr(&x.Cond)
			visitNode(x.Body)
			if x.Else != nil {
				visitNode(x.Else)
			}
		case *ast.ForStmt:
			if x.Init != nil {
				visitNode(x.Init)
			}
			if x.Cond != nil {
				visitExpr(&x.Cond)
			}
			if x.Post != nil {
				visitNode(x.Post)
			}
			visitNode(x.Body)
		case *ast.RangeStmt:
			visitExpr(&x.X)
			visitNode(x.Body)
		case *ast.SwitchStmt:
			if x.Init != nil {
				visitNode(x.Init)
			}
			if x.Tag != nil {
				visitExpr(&x.Tag)
			}
			visitNode(x.Body)
		case *ast.TypeSwitchStmt:
			visitNode(x.Body)
		case *ast.CaseClause:
			visitExprs(x.List)
			for _, s := range x.Body {
				visitNode(s)
			}
		case *ast.IncDecStmt:
			visitExpr(&x.X)
		case *ast.DeclStmt:
			visitNode(x.Decl)
		case *ast.DeferStmt:
			visitExprs(x.Call.Args)
		case *ast.GoStmt:
			visitExprs(x.Call.Args)
		case *ast.LabeledStmt:
			visitNode(x.Stmt)
		case *ast.SendStmt:
			visitExpr(&x.Chan)
			visitExpr(&x.Value)
		// expressions
		case *ast.ParenExpr:
			visitExpr(&x.X)
		case *ast.UnaryExpr:
			visitExpr(&x.X)
		case *ast.BinaryExpr:
			visitExpr(&x.X)
			visitExpr(&x.Y)
		case *ast.CallExpr:
			visitExpr(&x.Fun)
			visitExprs(x.Args)
		case *ast.IndexExpr:
			visitExpr(&x.X)
			visitExpr(&x.Index)
		case *ast.SliceExpr:
			visitExpr(&x.X)
			if x.Low != nil {
				visitExpr(&x.Low)
			}
			if x.High != nil {
				visitExpr(&x.High)
			}
			if x.Max != nil {
				visitExpr(&x.Max)
			}
		case *ast.SelectorExpr:
			visitExpr(&x.X)
		case *ast.StarExpr:
			visitExpr(&x.X)
		case *ast.CompositeLit:
			visitExprs(x.Elts)
		case *ast.KeyValueExpr:
			visitExpr(&x.Value)
		case *ast.FuncLit:
			visitNode(x.Body)
		case *ast.TypeAssertExpr:
			visitExpr(&x.X)
		}
	}
	visitNode(file)
}

func modulePathOf(pkgs []*packages.Package) string {
	for _, p := range pkgs {
		if p.Module != nil {
			return p.Module.Path
		}
	}
	return modPath
}

func inModuleFunc(pkgs []*packages.Package) func(*packages.Package) bool {
	m := modulePathOf(pkgs)
	return func(p *packages.Package) bool { return p.PkgPath == m || strings.HasPrefix(p.PkgPath, m+"/") }
}

// unrollLiteralRanges rewrites, in place, every `for _, x := range <literal of 1..4 plain variables> { body }`.
func unrollLiteralRanges(f *ast.File, info *types.Info) int {
	n := 0
	unroll := func(rs *ast.RangeStmt) ast.Stmt {
		if rs.Tok != token.DEFINE || rs.Value == nil {
			return nil
		}
		if rs.Key != nil {
			if k, ok := rs.Key.(*ast.Ident); !ok || k.Name != "_" {
				return nil
			}
		}
		val, ok := rs.Value.(*ast.Ident)
		if !ok || val.Name == "_" {
			return nil
		}
		cl, ok := ast.Unparen(rs.X).(*ast.CompositeLit)
		if !ok || len(cl.Elts) == 0 || len(cl.Elts) > 4 {
			return nil
		}
		var elemT types.Type
		switch t := info.TypeOf(cl).(type) {
		case nil:
			return nil
		default:
			switch u := t.Underlying().(type) {
			case *types.Slice:
				elemT = u.Elem()
			case *types.Array:
				elemT = u.Elem()
			default:
				return nil
			}
		}
		for _, e := range cl.Elts {
			id, ok := e.(*ast.Ident)
			if !ok {
				return nil
			}
			if _, isVar := info.Uses[id].(*types.Var); !isVar || !types.Identical(info.TypeOf(id), elemT) {
				return nil
			}
		}
		okBody, used := true, false
		vobj := info.Defs[val]
		ast.Inspect(rs.Body, func(nd ast.Node) bool {
			switch x := nd.(type) {
			case *ast.BranchStmt, *ast.LabeledStmt, *ast.DeferStmt, *ast.FuncLit, *ast.GoStmt:
				okBody = false
			case *ast.Ident:
				if vobj != nil && info.Uses[x] == vobj {
					used = true
				}
			case *ast.AssignStmt:
				// the elements must not be re-assigned by the body (each iteration reads the original variable)
				for _, l := range x.Lhs {
					if lid, ok := l.(*ast.Ident); ok {
						for _, e := range cl.Elts {
							if info.Uses[lid] != nil && info.Uses[lid] == info.Uses[e.(*ast.Ident)] {
								okBody = false
							}
						}
					}
				}
			}
			return okBody
		})
		if !okBody || !used {
			return nil
		}
		out := &ast.BlockStmt{Lbrace: rs.For, Rbrace: rs.Body.Rbrace}
		for _, e := range cl.Elts {
			body := cloneAST(rs.Body, nil).(*ast.BlockStmt)
			v := &ast.Ident{NamePos: val.NamePos, Name: val.Name}
			src := &ast.Ident{NamePos: e.Pos(), Name: e.(*ast.Ident).Name}
			blk := &ast.BlockStmt{Lbrace: rs.For, Rbrace: rs.Body.Rbrace}
			blk.List = append(blk.List, &ast.AssignStmt{Lhs: []ast.Expr{v}, TokPos: val.NamePos, Tok: token.DEFINE, Rhs: []ast.Expr{src}})
			blk.List = append(blk.List, body.List...)
			out.List = append(out.List, blk)
		}
		n++
		return out
	}
	var visitList func(list []ast.Stmt)
	ast.Inspect(f, func(nd ast.Node) bool {
		var list []ast.Stmt
		switch x := nd.(type) {
		case *ast.BlockStmt:
			list = x.List
		case *ast.CaseClause:
			list = x.Body
		case *ast.CommClause:
			list = x.Body
		default:
			return true
		}
		for i, st := range list {
			if rs, ok := st.(*ast.RangeStmt); ok {
				if rep := unroll(rs); rep != nil {
					list[i] = rep
				}
			}
		}
		return true
	})
	_ = visitList
	return n
}
