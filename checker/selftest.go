package main

// Every-run self test (DESIGN.md 2.3): the engines are applied to tiny fixture
// packages; each rule must fire on its bad example and stay silent on its good one.

import (
	"fmt"
	"os"
	"path/filepath"
	"strings"

	"golang.org/x/tools/go/ssa"
)

func fixtureDir() string {
	if d := os.Getenv("LOWCHECK_FIXTURES"); d != "" {
		return d
	}
	exe, err := os.Executable()
	if err == nil {
		d := filepath.Join(filepath.Dir(filepath.Dir(exe)), "checker", "fixtures", "fx")
		if _, err := os.Stat(d); err == nil {
			return d
		}
	}
	return filepath.Join(verifDir(), "checker", "fixtures", "fx")
}

// SelfTest returns the list of failed expectations and the number of expectations checked.
func SelfTest() (failed []string, n int) {
	w, err := Load(fixtureDir(), Config{})
	if err != nil {
		return []string{"fixture module does not load: " + err.Error()}, 0
	}
	expect := func(ok bool, what string) {
		n++
		if !ok {
			failed = append(failed, what)
		}
	}
	fn := func(pkg, name string) *ssa.Function {
		f := w.Func(pkg, name)
		if f == nil {
			failed = append(failed, "fixture function missing: "+pkg+"."+name)
		}
		return f
	}
	// E1
	e := RunEffects(w)
	hasRoot := func(f *ssa.Function, k rootKind) bool {
		if f == nil {
			return false
		}
		for r := range e.Sum[f].writes {
			if r.kind == k {
				return true
			}
		}
		return false
	}
	expect(hasRoot(fn("bitmap", "BadWritesArg"), rkParam), "E1: write through an argument not detected")
	expect(hasRoot(fn("bitmap", "BadWritesGlobal"), rkGlobal), "E1: write to a global not detected")
	expect(!hasRoot(fn("bitmap", "GoodLocal"), rkParam) && !hasRoot(fn("bitmap", "GoodLocal"), rkGlobal), "E1: false write reported on a local copy")
	// E4
	s := RunScale(w)
	conf := map[string]bool{}
	for _, c := range s.Conflicts {
		conf[c.Fn.Name()] = true
	}
	expect(conf["BadScale"], "E4: unit conflict (>>6 and >>3 on one position) not detected")
	expect(!conf["GoodScale"] && !conf["GoodRound"], "E4: false unit conflict")
	// R-PAIR / R-ROUND via a scratch report
	r := NewReport("SELF", "quick", "other")
	ReportPair(w, r, "bitmap.BadPair", "bitmap.GoodScale")
	ReportRound(w, r, "bitmap.BadRound", "bitmap.GoodRound")
	st := map[string]Status{}
	for _, o := range r.Obs {
		st[o.Key] = o.st
	}
	expect(st["R-PAIR|bitmap.BadPair"] == Violated, "R-PAIR: >>6 with &31 not detected")
	expect(st["R-PAIR|bitmap.GoodScale"] == Discharged, "R-PAIR: false alarm")
	expect(st["R-ROUND|bitmap.BadRound"] == Violated, "R-ROUND: (n+62)>>6 sizing not detected")
	expect(st["R-ROUND|bitmap.GoodRound"] == Discharged, "R-ROUND: false alarm")
	// E0
	if f := fn("bitmap", "BadCast"); f != nil {
		ucs := unsafeCasts(f)
		expect(len(ucs) == 1 && w.Sizes.Sizeof(ucs[0].To) > w.Sizes.Sizeof(ucs[0].From), "E0: oversized unsafe cast not detected")
	}
	if f := fn("bitmap", "GoodCast"); f != nil {
		ucs := unsafeCasts(f)
		expect(len(ucs) == 1 && w.Sizes.Sizeof(ucs[0].To) <= w.Sizes.Sizeof(ucs[0].From), "E0: false alarm on a shrinking cast")
	}
	// E7
	bounds := func(name string) (Bounds, Bounds) {
		f := fn("bitmap", name)
		if f == nil {
			return Bounds{}, Bounds{}
		}
		fa := w.FA(f)
		for _, site := range elemSites(f, "xs") {
			k := fa.Lin(site.Index)
			return fa.BoundsAt(site.Ins.Block(), k), fa.BoundsAt(site.Ins.Block(), k.Sub(linAtom("call:builtin len(p0)")))
		}
		return Bounds{}, Bounds{}
	}
	lo, hi := bounds("GuardedGet")
	expect(lo.HasLo && lo.Lo == 0 && hi.HasHi && hi.Hi == -1, "E7: exact guard 0 <= k < len not derived")
	_, hi2 := bounds("LooseGet")
	expect(hi2.HasHi && hi2.Hi == 0, "E7: loose guard k <= len not distinguished from k < len")
	// E2
	if f := fn("bitmap", "SizeKinds"); f != nil {
		recv := ssa.Value(f.Params[0])
		reach := func(kind string) bool {
			k, _ := kindConst(w, kind)
			for b := range kindSlice(f, recv, k) {
				for _, ins := range b.Instrs {
					if _, ok := ins.(*ssa.Panic); ok {
						return true
					}
				}
			}
			return false
		}
		expect(reach("Uint"), "E2: missing kind does not reach the panic")
		expect(!reach("Int8"), "E2: handled kind reaches the panic")
	}
	// E5
	cong := func(name string) (int64, bool) {
		f := fn("bitmap", name)
		if f == nil {
			return 0, false
		}
		fa := w.FA(f)
		for _, ret := range returnsOf(f) {
			if _, isC := ret.Results[0].(*ssa.Const); !isC {
				return fa.CongLin(fa.Lin(ret.Results[0]), 64)
			}
		}
		return 0, false
	}
	c1, ok1 := cong("AlignedNext")
	expect(ok1 && c1 == 0, "E5: 64-aligned loop variable not recognised")
	_, ok2 := cong("MisalignedNext")
	expect(!ok2, "E5: step 63 accepted as 64-aligned")
	// E3
	isSrc := func(v ssa.Value) bool {
		c, ok := v.(*ssa.Call)
		return ok && c.Common().IsInvoke() && c.Common().Method.Name() == "GetBodySize"
	}
	if f := fn("iofx", "BadTaint"); f != nil {
		_, sinks := taintedSinks(f, isSrc)
		okT := false
		for _, sk := range sinks {
			bd := w.FA(f).BoundsAt(sk.Ins.Block(), w.FA(f).Lin(sk.Val))
			if !(bd.HasLo && bd.HasHi) {
				okT = true
			}
		}
		expect(okT, "E3: unchecked header size reaching make not detected")
	}
	if f := fn("iofx", "GoodTaint"); f != nil {
		_, sinks := taintedSinks(f, isSrc)
		okT := len(sinks) > 0
		for _, sk := range sinks {
			bd := w.FA(f).BoundsAt(sk.Ins.Block(), w.FA(f).Lin(sk.Val))
			if !(bd.HasLo && bd.Lo >= 0 && bd.HasHi) {
				okT = false
			}
		}
		expect(okT, "E3: bounded header size reported as unchecked")
	}
	r2 := NewReport("SELF", "quick", "other")
	ReportErrProp(w, r2, nil, "iofx.BadDropsErr", "iofx.GoodPropagates")
	var badE, goodE bool
	for _, o := range r2.Obs {
		if strings.Contains(o.Key, "BadDropsErr") && o.st == Violated {
			badE = true
		}
		if strings.Contains(o.Key, "GoodPropagates") && o.st == Discharged {
			goodE = true
		}
	}
	expect(badE, "R-ERRPROP: dropped error not detected")
	expect(goodE, "R-ERRPROP: false alarm on a propagated error")
	if f := fn("iofx", "BadCount"); f != nil {
		r3 := NewReport("SELF", "quick", "other")
		ReportCount(w, r3, "iofx.BadCount", 0, isParamStream(f, 0))
		badC := false
		for _, o := range r3.Obs {
			if o.st == Violated {
				badC = true
			}
		}
		expect(badC, "R-COUNT: count that forgets the first write not detected")
	}
	// generic rules whose instance count on the real tree is zero
	{
		r4 := NewReport("SELF", "quick", "other")
		ReportPanicSites(w, r4, "bitmap.BadNewPanic", "bitmap.GoodNoPanic")
		ReportAllocWrap(w, r4, "bitmap.BadAllocWrap", "bitmap.GoodAllocGuarded")
		st4 := map[string]Status{}
		for _, o := range r4.Obs {
			st4[o.Key] = o.st
		}
		expect(st4["R-PANICSITES|bitmap.BadNewPanic"] == Violated, "R-PANICSITES: an unconfirmed explicit panic is not reported")
		expect(st4["R-PANICSITES|bitmap.GoodNoPanic"] == Discharged, "R-PANICSITES: false alarm")
		expect(st4["R-ALLOCWRAP|bitmap.BadAllocWrap"] == Violated, "R-ALLOCWRAP: make(.., to-from) on unsigned operands without a guard is not reported")
		expect(st4["R-ALLOCWRAP|bitmap.GoodAllocGuarded"] == Discharged, "R-ALLOCWRAP: false alarm on a guarded unsigned difference")
	}
	{
		r5 := NewReport("SELF", "quick", "other")
		ReportCountWidth(w, r5, "bitmap.BadCountNarrow", "bitmap.GoodCountBounded", "bitmap.GoodCountWide")
		ReportMul32(w, r5, "bitmap.BadMul32", "bitmap.GoodMul64", "bitmap.GoodMulBit")
		ReportNegBound(w, r5, "iofx.BadCutAtNul", "iofx.GoodCutAtNul", "iofx.GoodCutAfter")
		st5 := map[string]Status{}
		for _, o := range r5.Obs {
			st5[o.Key] = o.st
		}
		expect(st5["R-COUNTWIDTH|bitmap.BadCountNarrow"] == Violated, "R-COUNTWIDTH: a 16-bit histogram cell incremented per input element is not reported")
		expect(st5["R-COUNTWIDTH|bitmap.GoodCountBounded"] == Discharged, "R-COUNTWIDTH: false alarm on a narrow counter in a loop of 8 iterations")
		expect(st5["R-COUNTWIDTH|bitmap.GoodCountWide"] == Discharged, "R-COUNTWIDTH: false alarm on a 32-bit histogram")
		expect(st5["R-MUL32|bitmap.BadMul32"] == Violated, "R-MUL32: an int32 product of two run-time values is not reported")
		expect(st5["R-MUL32|bitmap.GoodMul64"] == Discharged, "R-MUL32: false alarm on a product widened to uint64")
		expect(st5["R-MUL32|bitmap.GoodMulBit"] == Discharged, "R-MUL32: false alarm on a single-bit factor")
		expect(st5["R-NEGBOUND|iofx.BadCutAtNul"] == Violated, "R-NEGBOUND: v[:bytes.IndexByte(v,0)] without a guard is not reported")
		expect(st5["R-NEGBOUND|iofx.GoodCutAtNul"] == Discharged, "R-NEGBOUND: false alarm on a guarded search result")
		expect(st5["R-NEGBOUND|iofx.GoodCutAfter"] == Discharged, "R-NEGBOUND: false alarm on result+1")
	}
	// shared machinery the no-false-alarm discipline rests on
	guardedIdx := func(name string) bool {
		f := fn("bitmap", name)
		if f == nil {
			return false
		}
		fa := w.FA(f)
		okAll, nsite := true, 0
		for _, site := range elemSites(f, "xs") {
			nsite++
			okSite := false
			for _, cs := range fa.CondsDNF(site.Ins.Block(), 0) {
				lo := fa.boundsFrom(cs, fa.Lin(site.Index))
				hi := fa.boundsFrom(cs, fa.Lin(site.Index).Sub(linAtom("call:builtin len(p0)")))
				okSite = lo.HasLo && lo.Lo == 0 && hi.HasHi && hi.Hi == -1
				if !okSite {
					break
				}
			}
			if !okSite {
				okAll = false
			}
		}
		return okAll && nsite > 0
	}
	expect(guardedIdx("ThreadedGet"), "inliner: a boolean helper in an if condition is not threaded to the branch (guard 0 <= k < len lost)")
	expect(guardedIdx("FlagGet"), "conditions: a boolean flag is not threaded to the condition that set it")
	if f := fn("bitmap", "LinLen"); f != nil {
		fa := w.FA(f)
		for _, ret := range returnsOf(f) {
			lx := linAtom("call:builtin len(p0)").Add(linConst(-1))
			expect(fa.Lin(ret.Results[0]).Eq(lx), "linear forms: len(xs[1:]) is not len(xs)-1")
			expect(fa.Lin(ret.Results[1]).Eq(fa.Lin(f.Params[1])), "linear forms: len(make([]T, n)) is not n")
			prod, _ := linMul(fa.Lin(f.Params[3]), fa.Lin(f.Params[2]).Add(linConst(1)))
			expect(fa.Lin(ret.Results[2]).Eq(prod), "linear forms: w*(j+1) is not w*j + w")
		}
	}
	return failed, n
}

var selfTestN int

func runSelfTest() int {
	failed, n := SelfTest()
	selfTestN = n
	if len(failed) > 0 {
		for _, f := range failed {
			fmt.Println("CHECKER-BROKEN:", f)
		}
		return 2
	}
	fmt.Printf("self-test: %d fixture expectations hold (every engine fires on its bad example and is silent on its good one)\n", n)
	return 0
}
