package main

// R-WORDWIDTH: 64-bit words stay 64 bits wide on every platform. int, uint and uintptr are 32 bits on
// 386/arm; source that routes a 64-bit word through them is correct on amd64 (where every test runs)
// and wrong on 32-bit builds. Two shapes are decided from the types alone, in every configuration:
//   (a) a math/bits function of platform width (OnesCount, TrailingZeros, LeadingZeros, Len, Reverse,
//       RotateLeft) applied to a value converted from a 64-bit fixed-width type;
//   (b) a left shift by a non-constant amount computed in int/uint/uintptr whose result is later
//       converted to a 64-bit type (the upper 32 bits were already lost, or sign-extended).

import (
	"fmt"
	"go/ast"
	"go/token"
	"go/types"

	"golang.org/x/tools/go/packages"

	"golang.org/x/tools/go/ssa"
)

func platformSized(t types.Type) bool {
	b, ok := t.Underlying().(*types.Basic)
	return ok && (b.Kind() == types.Int || b.Kind() == types.Uint || b.Kind() == types.Uintptr)
}

func fixed64(t types.Type) bool {
	b, ok := t.Underlying().(*types.Basic)
	return ok && (b.Kind() == types.Int64 || b.Kind() == types.Uint64)
}

var platformBitsFuncs = map[string]bool{
	"math/bits.OnesCount": true, "math/bits.TrailingZeros": true, "math/bits.LeadingZeros": true, "math/bits.Len": true,
	"math/bits.Reverse": true, "math/bits.ReverseBytes": true, "math/bits.RotateLeft": true,
}

func ReportWordWidth(w *World, r *Report, names ...string) {
	r.Rule("R-WORDWIDTH", "no 64-bit word passes through a platform-sized integer type: no math/bits function of platform width is applied to a value converted from int64/uint64, and no variable left shift computed in int/uint/uintptr is widened to 64 bits afterwards (both are correct on amd64 and wrong on 32-bit platforms)")
	for _, n := range names {
		fn := findFunc(w, n)
		if fn == nil || fn.Blocks == nil {
			continue
		}
		bad := ""
		nsites := 0
		eachInstr(fn, func(ins ssa.Instruction) {
			switch x := ins.(type) {
			case *ssa.Call:
				if !platformBitsFuncs[calleeName(x.Common())] || len(x.Common().Args) == 0 {
					return
				}
				nsites++
				a := x.Common().Args[0]
				for {
					cv, ok := a.(*ssa.Convert)
					if !ok {
						break
					}
					if platformSized(cv.Type()) && fixed64(cv.X.Type()) {
						bad = fmt.Sprintf("%s is applied at %s to a %s converted to %s: on 32-bit platforms the upper half of the word is dropped", calleeName(x.Common()), w.InstrPos(ins), cv.X.Type(), cv.Type())
					}
					a = cv.X
				}
			case *ssa.BinOp:
				if x.Op != token.SHL || !platformSized(x.Type()) {
					return
				}
				if _, isC := constInt64(stripConv(x.Y)); isC {
					return
				}
				nsites++
				// forward: does the value reach a conversion to a 64-bit type through arithmetic?
				seen := map[ssa.Value]bool{}
				var walk func(v ssa.Value, depth int)
				walk = func(v ssa.Value, depth int) {
					if seen[v] || depth > 10 || v.Referrers() == nil {
						return
					}
					seen[v] = true
					for _, ref := range *v.Referrers() {
						switch y := ref.(type) {
						case *ssa.Convert:
							if fixed64(y.Type()) {
								bad = fmt.Sprintf("a shift computed in %s at %s is widened to %s at %s: on 32-bit platforms shift amounts of 32 and more give 0 (or a sign-extended word)", x.Type(), w.InstrPos(ins), y.Type(), w.InstrPos(y))
								return
							}
							if platformSized(y.Type()) {
								walk(y, depth+1)
							}
						case *ssa.BinOp:
							if isIntType(y.Type()) && y.Op != token.SHR {
								walk(y, depth+1)
							}
						case *ssa.UnOp:
							if isIntType(y.Type()) {
								walk(y, depth+1)
							}
						case *ssa.Phi:
							walk(y, depth+1)
						}
					}
				}
				walk(x, 0)
			}
		})
		r.Check(bad == "", "R-WORDWIDTH", n, w.Pos(fn.Pos()), bad, fmt.Sprintf("%d platform-width bit operations, none on a 64-bit word", nsites))
	}
}

// ReportConstWidth: package-level constants must not be computed through platform-sized types
// (`int64(^uint(0) >> 1)` is MaxInt64 on amd64 and MaxInt32 on 386).
func ReportConstWidth(w *World, r *Report, shorts ...string) {
	r.Rule("R-CONSTWIDTH", "no package-level constant of the property's packages is computed through a conversion to int, uint or uintptr: such a constant has a different value on 32-bit platforms")
	for _, sp := range shorts {
		var pk *packages.Package
		for _, p := range w.Pkgs {
			if p.Types != nil && w.Short(p.Types) == sp {
				pk = p
			}
		}
		if pk == nil {
			continue
		}
		bad := ""
		nconst := 0
		for _, f := range pk.Syntax {
			for _, d := range f.Decls {
				gd, ok := d.(*ast.GenDecl)
				if !ok || gd.Tok != token.CONST {
					continue
				}
				for _, sp := range gd.Specs {
					vs := sp.(*ast.ValueSpec)
					for i, val := range vs.Values {
						nconst++
						ast.Inspect(val, func(n ast.Node) bool {
							call, ok := n.(*ast.CallExpr)
							if !ok {
								return true
							}
							if tv, ok := pk.TypesInfo.Types[call.Fun]; ok && tv.IsType() && platformSized(tv.Type) {
								name := "?"
								if i < len(vs.Names) {
									name = vs.Names[i].Name
								}
								bad = fmt.Sprintf("constant %s is computed through %s at %s", name, tv.Type, w.Pos(call.Pos()))
							}
							return true
						})
					}
				}
			}
		}
		r.Check(bad == "", "R-CONSTWIDTH", sp, "-", bad, fmt.Sprintf("%d constant initialisers, none uses a platform-sized type", nconst))
	}
}
