package main

// E2 — finite-enum specialisation of a reflect.Kind switch (DESIGN.md 3/E2).

import (
	"go/constant"
	"go/token"
	"go/types"

	"golang.org/x/tools/go/ssa"
)

// kindConst looks up reflect.<name>.
func kindConst(w *World, name string) (int64, bool) {
	for _, p := range w.Prog.AllPackages() {
		if p.Pkg.Path() == "reflect" {
			if c, ok := p.Pkg.Scope().Lookup(name).(*types.Const); ok {
				v, ok := constant.Int64Val(c.Val())
				return v, ok
			}
		}
	}
	return 0, false
}

func isKindCallOn(v ssa.Value, recv ssa.Value) bool {
	c, ok := v.(*ssa.Call)
	if !ok {
		return false
	}
	f := c.Common().StaticCallee()
	if f == nil || funcFullName(f) != "(reflect.Value).Kind" {
		return false
	}
	return len(c.Common().Args) == 1 && c.Common().Args[0] == recv
}

// kindSlice returns the blocks reachable from entry when Kind() of recv equals k.
func kindSlice(fn *ssa.Function, recv ssa.Value, k int64) map[*ssa.BasicBlock]bool {
	seen := map[*ssa.BasicBlock]bool{}
	var st []*ssa.BasicBlock
	if len(fn.Blocks) == 0 {
		return seen
	}
	st = append(st, fn.Blocks[0])
	for len(st) > 0 {
		b := st[len(st)-1]
		st = st[:len(st)-1]
		if seen[b] {
			continue
		}
		seen[b] = true
		if ifi, ok := b.Instrs[len(b.Instrs)-1].(*ssa.If); ok {
			if val, known := evalKindCond(ifi.Cond, recv, k); known {
				if val {
					st = append(st, b.Succs[0])
				} else {
					st = append(st, b.Succs[1])
				}
				continue
			}
		}
		st = append(st, b.Succs...)
	}
	return seen
}

func evalKindCond(c ssa.Value, recv ssa.Value, k int64) (bool, bool) {
	switch x := c.(type) {
	case *ssa.Call:
		// v.IsValid() is v.Kind() != Invalid (package reflect): decided by the kind
		if f := x.Common().StaticCallee(); f != nil && funcFullName(f) == "(reflect.Value).IsValid" && len(x.Common().Args) == 1 && x.Common().Args[0] == recv {
			return k != 0, true
		}
	case *ssa.UnOp:
		if x.Op == token.NOT {
			v, ok := evalKindCond(x.X, recv, k)
			return !v, ok
		}
	case *ssa.BinOp:
		if x.Op != token.EQL && x.Op != token.NEQ {
			return false, false
		}
		var cv ssa.Value
		if isKindCallOn(x.X, recv) {
			cv = x.Y
		} else if isKindCallOn(x.Y, recv) {
			cv = x.X
		} else {
			return false, false
		}
		ci, ok := constInt64(cv)
		if !ok {
			return false, false
		}
		if x.Op == token.EQL {
			return ci == k, true
		}
		return ci != k, true
	}
	return false, false
}

// flowsTo reports whether value v can flow (through arithmetic, phis, conversions)
// into an operand of some instruction accepted by sink.
func flowsTo(v ssa.Value, sink func(ssa.Instruction) bool) bool {
	seen := map[ssa.Value]bool{}
	var rec func(v ssa.Value) bool
	rec = func(v ssa.Value) bool {
		if seen[v] {
			return false
		}
		seen[v] = true
		refs := v.Referrers()
		if refs == nil {
			return false
		}
		for _, u := range *refs {
			if sink(u) {
				return true
			}
			switch x := u.(type) {
			case *ssa.BinOp, *ssa.Phi, *ssa.Convert, *ssa.ChangeType, *ssa.UnOp, *ssa.MakeInterface:
				if rec(x.(ssa.Value)) {
					return true
				}
			}
		}
		return false
	}
	return rec(v)
}
