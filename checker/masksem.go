package main

// Semantic view of mask values: table lookups (bitmap.Mask, RMask, MaskUpto, RMaskUpto, Bit, RBit)
// and the computed forms that equal them, so that rules speak about "the n low bits" rather than
// about one spelling of it.

import (
	"fmt"
	"go/token"
	"go/types"

	"golang.org/x/tools/go/ssa"
)

// MaskSem: Kind in {"low": bits [0,n), "high": bits [n,64), "bit": bit n, "notbit"}; N is the bit count / position as a linear form.
// upto(n) is represented as low(n+1), above(n) as high(n+1).
type MaskSem struct {
	Kind string
	N    Lin
	Via  string // "table:Mask", "computed"
}

func complementKind(k string) string {
	switch k {
	case "low":
		return "high"
	case "high":
		return "low"
	case "bit":
		return "notbit"
	case "notbit":
		return "bit"
	}
	return k
}

func isAllOnes(v ssa.Value) bool {
	v = stripConv(v)
	if u, ok := constUint64(v); ok {
		if u == ^uint64(0) || int64(u) == -1 {
			return true
		}
		if b, ok := v.Type().Underlying().(*types.Basic); ok {
			switch b.Kind() {
			case types.Uint8:
				return u == 0xff
			case types.Uint16:
				return u == 0xffff
			case types.Uint32:
				return u == 0xffffffff
			}
		}
		return false
	}
	if x, ok := v.(*ssa.UnOp); ok && x.Op == token.XOR {
		if k, ok := constInt64(stripConv(x.X)); ok && k == 0 {
			return true
		}
	}
	return false
}

// MaskOf recognises a mask value.
func (a *FA) MaskOf(v ssa.Value) (MaskSem, bool) {
	return a.maskOf(v, 0)
}

func (a *FA) maskOf(v ssa.Value, depth int) (MaskSem, bool) {
	if depth > 4 {
		return MaskSem{}, false
	}
	v = stripConv(v)
	// table lookups
	if tab, idx, ok := asElemLoad(v); ok {
		if g, ok := tab.(*ssa.Global); ok && g.Pkg.Pkg.Name() == "bitmap" {
			n := a.Lin(idx)
			switch g.Name() {
			case "Mask":
				return MaskSem{"low", n, "table:Mask"}, true
			case "RMask":
				return MaskSem{"high", n, "table:RMask"}, true
			case "MaskUpto":
				return MaskSem{"low", n.Add(linConst(1)), "table:MaskUpto"}, true
			case "RMaskUpto":
				return MaskSem{"high", n.Add(linConst(1)), "table:RMaskUpto"}, true
			case "Bit":
				return MaskSem{"bit", n, "table:Bit"}, true
			case "RBit":
				return MaskSem{"notbit", n, "table:RBit"}, true
			}
		}
		return MaskSem{}, false
	}
	switch x := v.(type) {
	case *ssa.UnOp:
		if x.Op == token.XOR { // ^m
			if m, ok := a.maskOf(x.X, depth+1); ok {
				m.Kind = complementKind(m.Kind)
				return m, true
			}
		}
	case *ssa.BinOp:
		switch x.Op {
		case token.SUB: // (1<<n) - 1, Bit[n] - 1
			if k, ok := constInt64(stripConv(x.Y)); ok && k == 1 {
				if one, n, ok := asBin(x.X, token.SHL); ok {
					if c, ok := constInt64(stripConv(one)); ok && c == 1 {
						return MaskSem{"low", a.Lin(n), "computed"}, true
					}
				}
				if m, ok := a.maskOf(x.X, depth+1); ok && m.Kind == "bit" {
					return MaskSem{"low", m.N, "computed"}, true
				}
			}
		case token.OR, token.ADD, token.XOR: // disjoint parts joined: bit(n) | low(n) = low(n+1), bit(n) | high(n+1) = high(n)
			m1, ok1 := a.maskOf(x.X, depth+1)
			m2, ok2 := a.maskOf(x.Y, depth+1)
			if ok1 && ok2 {
				if m1.Kind != "bit" {
					m1, m2 = m2, m1
				}
				if m1.Kind == "bit" && m2.Kind == "low" && m1.N.Eq(m2.N) {
					return MaskSem{"low", m1.N.Add(linConst(1)), "computed"}, true
				}
				if m1.Kind == "bit" && m2.Kind == "high" && m1.N.Add(linConst(1)).Eq(m2.N) {
					return MaskSem{"high", m1.N, "computed"}, true
				}
			}
		case token.SHL:
			if c, ok := constInt64(stripConv(x.X)); ok && c == 1 { // 1<<n
				return MaskSem{"bit", a.Lin(x.Y), "computed"}, true
			}
			if isAllOnes(x.X) { // ^0 << n
				return MaskSem{"high", a.Lin(x.Y), "computed"}, true
			}
			// (m << 1) etc. not handled
		case token.SHR:
			if isAllOnes(x.X) { // ^0 >> s  keeps the low 64-s bits
				return MaskSem{"low", linConst(int64(intWidth(x.X.Type()))).Sub(a.Lin(x.Y)), "computed"}, true
			}
		}
	}
	return MaskSem{}, false
}

func intWidth(t types.Type) int {
	if b, ok := t.Underlying().(*types.Basic); ok {
		switch b.Kind() {
		case types.Uint8, types.Int8:
			return 8
		case types.Uint16, types.Int16:
			return 16
		case types.Uint32, types.Int32:
			return 32
		}
	}
	return 64
}

// looksLikeMask: the shape test of MaskOf without the linear form (for callers without a function analysis).
func looksLikeMask(v ssa.Value) bool {
	v = stripConv(v)
	if tab, _, ok := asElemLoad(v); ok {
		g, ok := tab.(*ssa.Global)
		return ok && g.Pkg.Pkg.Name() == "bitmap" && maskTables[g.Name()]
	}
	switch x := v.(type) {
	case *ssa.UnOp:
		return x.Op == token.XOR && looksLikeMask(x.X)
	case *ssa.BinOp:
		switch x.Op {
		case token.SUB:
			if k, ok := constInt64(stripConv(x.Y)); ok && k == 1 {
				if one, _, ok := asBin(x.X, token.SHL); ok {
					c, ok := constInt64(stripConv(one))
					return ok && c == 1
				}
				return looksLikeMask(x.X) // bit - 1
			}
		case token.OR, token.ADD, token.XOR:
			return looksLikeMask(x.X) && looksLikeMask(x.Y) // masks joined
		case token.SHL:
			if c, ok := constInt64(stripConv(x.X)); ok && c == 1 {
				return true
			}
			return isAllOnes(x.X)
		case token.SHR:
			return isAllOnes(x.X)
		}
	}
	return false
}

// ReportTableWidth: the functions that fill the exported mask tables compute every variable left shift in a
// fixed 64-bit type. `1 << uint(i)` in int / uint is 32 bits wide on 386/arm: entries 32..63 come out as 0 or
// sign-extended, on amd64 the same source is correct — a configuration-dependent defect no amd64 test sees.
func ReportTableWidth(w *World, r *Report) {
	r.Rule("R-TABLEWIDTH", "code that stores into bitmap.Mask/RMask/MaskUpto/RMaskUpto/Bit/RBit performs every left shift by a non-constant amount in a 64-bit type (not int/uint/uintptr or a narrower type), so the tables have the same contents on 32-bit platforms")
	p := w.Pkg("bitmap")
	if p == nil {
		r.Unknown("R-TABLEWIDTH", "bitmap", "-", "package bitmap not found")
		return
	}
	nfn := 0
	for _, fn := range w.SourceFuncs() {
		if fnPkg(fn) == nil || fnPkg(fn) != p.Pkg {
			continue
		}
		writes := false
		eachInstr(fn, func(ins ssa.Instruction) {
			if st, ok := ins.(*ssa.Store); ok {
				if g, ok := addrBase(st.Addr).(*ssa.Global); ok && maskTables[g.Name()] {
					writes = true
				}
			}
		})
		if !writes {
			continue
		}
		nfn++
		bad := ""
		nsh := 0
		eachInstr(fn, func(ins ssa.Instruction) {
			bo, ok := ins.(*ssa.BinOp)
			if !ok || bo.Op != token.SHL {
				return
			}
			if _, isC := constInt64(stripConv(bo.Y)); isC {
				return
			}
			nsh++
			bt, ok := bo.Type().Underlying().(*types.Basic)
			if !ok {
				return
			}
			switch bt.Kind() {
			case types.Uint64, types.Int64:
			case types.Int, types.Uint, types.Uintptr:
				bad = fmt.Sprintf("a table entry is derived from a shift computed in the platform-sized type %s at %s: on 32-bit platforms entries 32..63 are wrong", bt.Name(), w.InstrPos(ins))
			default:
				bad = fmt.Sprintf("a table entry is derived from a shift computed in %s at %s", bt.Name(), w.InstrPos(ins))
			}
		})
		r.Check(bad == "", "R-TABLEWIDTH", w.FuncName(fn), w.Pos(fn.Pos()), bad, fmt.Sprintf("%d variable shifts, all in 64-bit types", nsh))
	}
	if nfn == 0 {
		r.Unknown("R-TABLEWIDTH", "bitmap", "-", "no function storing into the mask tables found")
	}
}

// ReportMaskWord: a mask derived from the in-word offset of a position (x&63) is applied to the word that position
// lies in. When the masked operand is directly a load C[idx] of a word container, idx must be x>>6; a loop
// variable that merely starts at x>>6 applies the checkpoint's mask to every word the loop visits.
func ReportMaskWord(w *World, r *Report, names ...string) {
	r.Rule("R-MASKWORD", "where a word loaded as C[idx] is masked with a mask built from the offset x&63 of a position x, idx is x>>6 (the word x lies in), not a different or a moving word index")
	for _, n := range names {
		fn := findFunc(w, n)
		if fn == nil || fn.Blocks == nil {
			continue
		}
		fa := w.FA(fn)
		bad := ""
		nsite := 0
		eachInstr(fn, func(ins ssa.Instruction) {
			bo, ok := ins.(*ssa.BinOp)
			if !ok || (bo.Op != token.AND && bo.Op != token.AND_NOT) {
				return
			}
			for _, side := range [2][2]ssa.Value{{bo.X, bo.Y}, {bo.Y, bo.X}} {
				cont, idx, ok := asElemLoad(side[0])
				if !ok || !isWordSlice(cont.Type()) {
					continue
				}
				if g, isG := cont.(*ssa.Global); isG && maskTables[g.Name()] {
					continue
				}
				ms, ok := fa.MaskOf(side[1])
				if !ok {
					continue
				}
				var pos ssa.Value
				for _, L := range []Lin{ms.N, ms.N.Add(linConst(-1))} {
					if v := fa.AtomValueOfLin(L); v != nil {
						if x, j, ok := asLowMask(v); ok && j == 6 {
							pos = x
						}
					}
				}
				if pos == nil {
					continue
				}
				nsite++
				want := linAtom("(>> " + fa.VN(stripConv(pos)) + " c:6)")
				want2 := linAtom("(>> " + fa.VN(pos) + " c:6)")
				got := fa.Lin(idx)
				// pos = 64*idx + (in-word offset): the position was assembled from this very word index
				assembled := false
				if pl := fa.Lin(pos); len(got.T) > 0 {
					d := pl.Sub(linConst(0).addScaled(got, 64))
					assembled = true
					for atom := range got.T {
						if d.T[atom] != 0 {
							assembled = false
						}
					}
					for atom := range got.T {
						if pl.T[atom] == 0 {
							assembled = false
						}
					}
				}
				// idx = x>>6 spelled x/64 (positions are non-negative)
				if x, c, ok := asShiftRight(idx); ok && c == 6 && fa.VN(stripConv(x)) == fa.VN(stripConv(pos)) {
					assembled = true
				}
				if !got.Eq(want) && !got.Eq(want2) && !assembled {
					bad = fmt.Sprintf("the word %s[%s] is masked at %s with a mask built from the offset of position %s, which lies in word %s", containerRole(cont), got, w.InstrPos(ins), fa.Lin(pos), want)
				}
			}
		})
		r.Check(bad == "", "R-MASKWORD", n, w.Pos(fn.Pos()), bad, fmt.Sprintf("%d offset masks applied to directly loaded words, each to the word of its position", nsite))
	}
}

// ReportGrowZero: growing a word container appends zero words only. The bits of a bitmap are written by the
// single-bit store at the word index of the position; an append that carries data puts that data at index
// len(Words), which is the word of the position only when exactly one word is missing.
func ReportGrowZero(w *World, r *Report, field string, names ...string) {
	r.Rule("R-GROWZERO", "every append to the word container appends the constant 0 (or a freshly made zero slice): growth only makes room, the bit itself is written at the word index of its position; an append that carries the bit stores it at index len(Words), the wrong word whenever more than one word is missing")
	for _, n := range names {
		fn := findFunc(w, n)
		if fn == nil || fn.Blocks == nil {
			continue
		}
		bad := ""
		napp := 0
		eachInstr(fn, func(ins ssa.Instruction) {
			call, ok := ins.(*ssa.Call)
			if !ok {
				return
			}
			b, ok := call.Common().Value.(*ssa.Builtin)
			if !ok || b.Name() != "append" || len(call.Common().Args) < 2 {
				return
			}
			if _, f, ok := asFieldLoad(call.Common().Args[0]); !ok || f != field {
				return
			}
			napp++
			if _, isMake := call.Common().Args[1].(*ssa.MakeSlice); isMake {
				return
			}
			vals := appendedValues(call)
			if len(vals) == 0 {
				bad = fmt.Sprintf("what is appended to %s at %s cannot be identified", field, w.InstrPos(ins))
				return
			}
			for _, v := range vals {
				if k, ok := constUint64(stripConv(v)); !ok || k != 0 {
					bad = fmt.Sprintf("a non-zero word (%s) is appended to %s at %s: the bit lands in word len(%s), not in the word of its position", fmtVal(w, v), field, w.InstrPos(ins), field)
				}
			}
		})
		r.Check(bad == "", "R-GROWZERO", n, w.Pos(fn.Pos()), bad, fmt.Sprintf("%d appends to %s, all of zero words", napp, field))
	}
}
