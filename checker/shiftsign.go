package main

// R-SHIFTSIGN: a shift count written uint(x) with x a signed integer is a huge count when x is negative
// (the shifted value vanishes silently, no panic). The rule demands that x >= 0 is established where the
// shift executes: by a dominating comparison, by the range of the operation that produced x
// (math/bits results, masked values, sums and differences of such), or because x is a parameter whose
// contract is non-negative (declared per function).

import (
	"fmt"
	"go/token"
	"go/types"
	"strings"

	"golang.org/x/tools/go/ssa"
)

type ival struct {
	lo, hi       int64
	hasLo, hasHi bool
}

func (a *FA) interval(v ssa.Value, nonNegParams map[int]bool, depth int) ival {
	if depth > 12 || v == nil {
		return ival{}
	}
	if k, ok := constInt64(v); ok {
		return ival{k, k, true, true}
	}
	switch x := v.(type) {
	case *ssa.Parameter:
		if nonNegParams[paramIndex(x)] {
			return ival{lo: 0, hasLo: true}
		}
	case *ssa.Convert:
		if isIntType(x.Type()) && isIntType(x.X.Type()) {
			in := a.interval(x.X, nonNegParams, depth+1)
			// widening or same-size signed->signed keeps the interval; anything else only if the source is known small and non-negative
			if a.W.Sizes.Sizeof(x.Type()) >= a.W.Sizes.Sizeof(x.X.Type()) {
				if b, ok := x.X.Type().Underlying().(*types.Basic); ok && b.Info()&types.IsUnsigned != 0 {
					if !in.hasLo || in.lo < 0 {
						in.lo, in.hasLo = 0, true
					}
				}
				return in
			}
			if in.hasLo && in.lo >= 0 && in.hasHi && in.hi < 1<<31 {
				return in
			}
		}
	case *ssa.Call:
		n := calleeName(x.Common())
		if strings.HasPrefix(n, "math/bits.") {
			for _, p := range []struct {
				pre string
				w   int64
			}{{"OnesCount", 0}, {"LeadingZeros", 0}, {"TrailingZeros", 0}, {"Len", 0}} {
				if strings.HasPrefix(n, "math/bits."+p.pre) {
					w := int64(64)
					for _, s := range []string{"8", "16", "32", "64"} {
						if strings.HasSuffix(n, s) {
							fmt.Sscan(s, &w)
						}
					}
					return ival{0, w, true, true}
				}
			}
		}
		if n == "builtin len" || n == "builtin cap" {
			return ival{lo: 0, hasLo: true}
		}
	case *ssa.BinOp:
		l, r := a.interval(x.X, nonNegParams, depth+1), a.interval(x.Y, nonNegParams, depth+1)
		switch x.Op {
		case token.ADD:
			return ival{l.lo + r.lo, l.hi + r.hi, l.hasLo && r.hasLo, l.hasHi && r.hasHi}
		case token.SUB:
			return ival{l.lo - r.hi, l.hi - r.lo, l.hasLo && r.hasHi, l.hasHi && r.hasLo}
		case token.AND:
			if r.hasLo && r.lo >= 0 && r.hasHi {
				return ival{0, r.hi, true, true}
			}
			if l.hasLo && l.lo >= 0 && l.hasHi {
				return ival{0, l.hi, true, true}
			}
		case token.SHR, token.QUO:
			if l.hasLo && l.lo >= 0 {
				return ival{0, l.hi, true, l.hasHi}
			}
		case token.REM:
			if l.hasLo && l.lo >= 0 && r.hasHi {
				return ival{0, r.hi, true, true}
			}
		}
	case *ssa.Phi:
		// merges only (a loop-carried value is not bounded by its entry value)
		for _, pr := range x.Block().Preds {
			if x.Block().Dominates(pr) {
				return ival{}
			}
		}
		var out ival
		for i, e := range x.Edges {
			iv := a.interval(e, nonNegParams, depth+1)
			if i == 0 {
				out = iv
				continue
			}
			out.hasLo = out.hasLo && iv.hasLo
			out.hasHi = out.hasHi && iv.hasHi
			if iv.lo < out.lo {
				out.lo = iv.lo
			}
			if iv.hi > out.hi {
				out.hi = iv.hi
			}
		}
		return out
	}
	return ival{}
}

// ReportShiftSign files one obligation per function; nonNeg lists the parameters (by index) whose contract is >= 0.
func ReportShiftSign(w *World, r *Report, n string, nonNeg map[int]bool, why string) {
	r.Rule("R-SHIFTSIGN", "a shift count uint(x) taken from a signed x executes only where x >= 0 is established (by a dominating comparison, by the range of math/bits results and masked values, or for parameters with a non-negative contract): a negative x is a shift by more than the word width and silently yields 0")
	fn := findFunc(w, n)
	if fn == nil || fn.Blocks == nil {
		return
	}
	fa := w.FA(fn)
	bad := ""
	nsh := 0
	eachInstr(fn, func(ins ssa.Instruction) {
		bo, ok := ins.(*ssa.BinOp)
		if !ok || (bo.Op != token.SHL && bo.Op != token.SHR) {
			return
		}
		cv, ok := bo.Y.(*ssa.Convert)
		if !ok {
			return
		}
		sb, ok := cv.X.Type().Underlying().(*types.Basic)
		if !ok || sb.Info()&types.IsInteger == 0 || sb.Info()&types.IsUnsigned != 0 {
			return
		}
		if _, isC := constInt64(cv.X); isC {
			return
		}
		nsh++
		iv := fa.interval(cv.X, nonNeg, 0)
		if iv.hasLo && iv.lo >= 0 {
			return
		}
		bd := fa.BoundsAt(bo.Block(), fa.Lin(cv.X))
		if bd.HasLo && bd.Lo >= 0 {
			return
		}
		bad = fmt.Sprintf("the shift at %s takes its count from %s, which is not established to be >= 0 there (range %s, guards %s)", w.InstrPos(ins), fa.Lin(cv.X), fmtIval(iv), bd)
	})
	r.Check(bad == "", "R-SHIFTSIGN", n, w.Pos(fn.Pos()), bad, fmt.Sprintf("%d shifts by a signed count, each with a count established >= 0 (%s)", nsh, why))
}

func fmtIval(i ival) string {
	lo, hi := "-inf", "+inf"
	if i.hasLo {
		lo = fmt.Sprint(i.lo)
	}
	if i.hasHi {
		hi = fmt.Sprint(i.hi)
	}
	return "[" + lo + "," + hi + "]"
}
