package main

// E4 — scale (unit) inference (DESIGN.md 3/E4): every integer position value
// gets an unknown exponent k ("counts units of 2^k bits"); containers get an
// index unit and an element unit; constraints go into a weighted union-find.

import (
	"fmt"
	"go/token"
	"go/types"
	"sort"
	"strings"

	"golang.org/x/tools/go/ssa"
)

var scalePkgs = map[string]bool{"bitmap": true, "bmtree": true, "bitstr": true, "bitword": true, "sigbits": true}

type ufScale struct {
	parent []int
	delta  []int // k(i) = k(parent[i]) + delta[i]
	konst  map[int]int
	why    map[int]string
	name   []string
}

func (u *ufScale) fresh(name string) int {
	u.parent = append(u.parent, len(u.parent))
	u.delta = append(u.delta, 0)
	u.name = append(u.name, name)
	return len(u.parent) - 1
}

func (u *ufScale) find(x int) (int, int) {
	if u.parent[x] == x {
		return x, 0
	}
	r, d := u.find(u.parent[x])
	u.parent[x] = r
	u.delta[x] += d
	return r, u.delta[x]
}

// ScaleConflict is one R-SCALE report.
type ScaleConflict struct {
	Fn    *ssa.Function
	Pos   string
	Role  string
	Msg   string
	Facts []string
}

type unitName int

func unitStr(k int) string {
	switch k {
	case 0:
		return "bits"
	case 3:
		return "bytes (2^3 bits)"
	case 6:
		return "64-bit words (2^6 bits)"
	case 7:
		return "128-bit blocks (2^7 bits)"
	}
	return fmt.Sprintf("units of 2^%d bits", k)
}

type Scale struct {
	W         *World
	u         *ufScale
	vvar      map[ssa.Value]int
	ivar      map[ssa.Value]int
	evar      map[ssa.Value]int
	data      map[ssa.Value]bool
	fvar      map[*types.Var][3]int
	gvar      map[*ssa.Global][3]int
	cell      map[ssa.Value][3]int
	fnres     map[*ssa.Function][][3]int
	Conflicts []ScaleConflict
	deferred  []scaleDeferred
	curFn     *ssa.Function
	curIns    ssa.Instruction
	curRole   string
	Funcs     []*ssa.Function
	// statistics
	NValues, NScaled int
	SitesPerFn       map[*ssa.Function]int
}

var scaleCache = map[*World]*Scale{}

func (a *Scale) conflict(msg string, facts ...string) {
	pos := "-"
	if a.curIns != nil {
		pos = a.W.InstrPos(a.curIns)
	} else if a.curFn != nil {
		pos = a.W.Pos(a.curFn.Pos())
	}
	a.Conflicts = append(a.Conflicts, ScaleConflict{Fn: a.curFn, Pos: pos, Role: a.curRole, Msg: msg, Facts: facts})
}

// union asserts k(x) = k(y) + d
func (a *Scale) union(x, y, d int, where string) {
	u := a.u
	rx, dx := u.find(x)
	ry, dy := u.find(y)
	if rx == ry {
		if dx != dy+d {
			a.conflict(fmt.Sprintf("unit relation mismatch: %s is used both as %s and as %s relative to %s", u.name[x], relStr(dx-dy), relStr(d), u.name[y]),
				"first relation: "+u.name[x]+" = "+u.name[y]+" scaled by 2^"+fmt.Sprint(dx-dy), "required here ("+where+"): scaled by 2^"+fmt.Sprint(d))
		}
		return
	}
	u.parent[rx] = ry
	u.delta[rx] = dy + d - dx
	if kx, ok := u.konst[rx]; ok {
		kr := kx - u.delta[rx]
		if ky, ok2 := u.konst[ry]; ok2 {
			if ky != kr {
				a.conflict(fmt.Sprintf("unit conflict: a value counted in %s meets a value counted in %s", unitStr(kr+dy+d), unitStr(ky+dy+d)),
					fmt.Sprintf("%s: %s because %s", u.name[x], unitStr(kx+dx), u.why[rx]),
					fmt.Sprintf("%s: %s because %s", u.name[y], unitStr(ky+dy), u.why[ry]),
					"joined at "+where)
			}
		} else {
			u.konst[ry] = kr
			u.why[ry] = u.why[rx]
		}
	}
}

func relStr(d int) string { return fmt.Sprintf("2^%d", d) }

func (a *Scale) setConst(x, k int, why string) {
	u := a.u
	r, d := u.find(x)
	kr := k - d
	if old, ok := u.konst[r]; ok {
		if old != kr {
			a.conflict(fmt.Sprintf("unit conflict: %s must be in %s here but is in %s", u.name[x], unitStr(k), unitStr(old+d)),
				"required: "+why, "established: "+u.why[r])
		}
		return
	}
	u.konst[r] = kr
	u.why[r] = why
}

func elemOfType(t types.Type) types.Type {
	switch tt := t.Underlying().(type) {
	case *types.Slice:
		return tt.Elem()
	case *types.Array:
		return tt.Elem()
	case *types.Pointer:
		if ar, ok := tt.Elem().Underlying().(*types.Array); ok {
			return ar.Elem()
		}
	case *types.Basic:
		if tt.Info()&types.IsString != 0 {
			return types.Typ[types.Uint8]
		}
	}
	return nil
}

func (a *Scale) short(fn *ssa.Function) string { return a.W.FnShortPkg(fn) }

var maskTables = map[string]bool{"Mask": true, "RMask": true, "MaskUpto": true, "RMaskUpto": true, "Bit": true, "RBit": true}

// bitContainerScale: the repository's own statement of what its containers hold.
func (a *Scale) bitContainerScale(v ssa.Value, fn *ssa.Function) (int, bool) {
	t := v.Type()
	if p, ok := t.Underlying().(*types.Pointer); ok {
		t = p.Elem()
	}
	pk := a.short(fn)
	// text produced by a library outside the module (strconv.FormatUint, fmt.Sprintf, strings.Repeat ...) is not a
	// bit container: its length counts characters (binary digits = bits in PathStr), not bytes of a key
	switch x := v.(type) {
	case *ssa.Call:
		if cal := x.Common().StaticCallee(); cal != nil && !a.W.InModule(cal) {
			return 0, false
		}
	case *ssa.BinOp, *ssa.Phi, *ssa.Const:
		// concatenations and merges take their unit from their operands (a.same), never from their type; a literal is not a key
		if isStringType(t) {
			return 0, false
		}
	}
	if isStringType(t) {
		return 3, true
	}
	if s, ok := t.Underlying().(*types.Slice); ok {
		if eb, ok := s.Elem().Underlying().(*types.Basic); ok {
			if eb.Kind() == types.Uint8 {
				return 3, true
			}
			if eb.Kind() == types.Uint64 {
				if pk == "bitmap" {
					// exception: Join's first parameter is a list of values, not a bitmap
					if p, ok := v.(*ssa.Parameter); ok && fn.Name() == "Join" && len(fn.Params) > 0 && fn.Params[0] == p {
						return 0, false
					}
					return 6, true // "A bitmap uses []uint64 as storage" (bitmap/bitmap.go)
				}
				if pk == "bmtree" {
					// only Decode's bitmap argument is a bitmap in bmtree ([]uint64 elsewhere are path lists)
					if p, ok := v.(*ssa.Parameter); ok && fn.Name() == "Decode" && len(fn.Params) > 1 && fn.Params[1] == p {
						return 6, true
					}
				}
			}
		}
	}
	return 0, false
}

func (a *Scale) V(v ssa.Value) (int, bool) {
	if _, ok := v.(*ssa.Const); ok {
		return 0, false
	}
	if a.data[v] {
		return 0, false
	}
	if !isIntType(v.Type()) {
		return 0, false
	}
	if b, ok := v.Type().Underlying().(*types.Basic); ok && (b.Kind() == types.Uint64 || b.Kind() == types.Uint8) {
		return 0, false // repo convention: uint64/uint8 hold bit patterns, positions are int32/int/int64/uint32/uint
	}
	if x, ok := a.vvar[v]; ok {
		return x, true
	}
	x := a.u.fresh(a.describe(v))
	a.vvar[v] = x
	return x, true
}

func (a *Scale) describe(v ssa.Value) string {
	switch x := v.(type) {
	case *ssa.Parameter:
		return "parameter " + x.Name()
	case *ssa.Global:
		return "variable " + x.Name()
	}
	s := v.String()
	if len(s) > 40 {
		s = s[:40] + "..."
	}
	return "`" + s + "` at " + a.W.Pos(v.Pos())
}

func (a *Scale) C(v ssa.Value, fn *ssa.Function) (int, int, bool) {
	if elemOfType(v.Type()) == nil {
		return 0, 0, false
	}
	if x, ok := a.ivar[v]; ok {
		return x, a.evar[v], true
	}
	i := a.u.fresh("index unit of " + a.describe(v))
	e := a.u.fresh("element unit of " + a.describe(v))
	a.ivar[v], a.evar[v] = i, e
	if k, ok := a.bitContainerScale(v, fn); ok {
		a.setConst(i, k, fmt.Sprintf("container %s of type %s is indexed in %s", a.describe(v), v.Type(), unitStr(k)))
	}
	if g, ok := v.(*ssa.Global); ok && g.Pkg.Pkg.Name() == "bitmap" && maskTables[g.Name()] {
		a.setConst(i, 0, "mask table bitmap."+g.Name()+" is indexed by a bit width/offset")
	}
	return i, e, true
}

func (a *Scale) isBitContainer(v ssa.Value, fn *ssa.Function) bool {
	if _, ok := a.bitContainerScale(v, fn); ok {
		return true
	}
	if g, ok := v.(*ssa.Global); ok && g.Pkg.Pkg.Name() == "bitmap" && maskTables[g.Name()] {
		return true
	}
	return false
}

// conv: only 8, 64 and 128 are unit conversions; other powers of two are
// unit-preserving scalings (DESIGN.md E4 refinement).
func unitConv(c int) int {
	if c == 3 || c == 6 || c == 7 {
		return c
	}
	return 0
}

// scaleDeferred: a scaling by 2 or 16. Both are ambiguous in this library: 2 = 128/64 converts between
// words and 128-bit blocks (`words[2*k]` with k a block index), 16 = 128/8 between bytes and blocks; both
// are also used as plain unit-preserving growth factors (`cap*2`). The relation k(res) - k(x) may therefore
// be 0 or d; it is checked after all definite constraints are in, and only when both sides are known.
type scaleDeferred struct {
	res, x, d int
	fn        *ssa.Function
	ins       ssa.Instruction
	where     string
}

// scaled relates the result of `x * 2^c`, `x << c` (down = false) or `x / 2^c`, `x >> c` (down = true).
func (a *Scale) scaled(res, x, c int, down bool, where string) {
	d := unitConv(c)
	if c == 1 || c == 4 {
		d = c
	}
	if !down {
		d = -d
	}
	if c == 1 || c == 4 {
		a.deferred = append(a.deferred, scaleDeferred{res: res, x: x, d: d, fn: a.curFn, ins: a.curIns, where: where})
		return
	}
	a.union(res, x, d, where)
}

func (a *Scale) checkDeferred() {
	u := a.u
	// a deferred relation whose operand class is otherwise unconstrained keeps the old reading (unit preserving):
	// it only propagates a known unit, it cannot by itself contradict anything.
	for _, q := range a.deferred {
		rr, dr := u.find(q.res)
		rx, dx := u.find(q.x)
		var rel int
		if rr == rx {
			rel = dr - dx
		} else {
			kr, ok1 := u.konst[rr]
			kx, ok2 := u.konst[rx]
			if !ok1 || !ok2 {
				continue
			}
			rel = (kr + dr) - (kx + dx)
		}
		if rel != 0 && rel != q.d {
			a.curFn, a.curIns, a.curRole = q.fn, q.ins, "arith scale"
			a.conflict(fmt.Sprintf("unit relation mismatch: %s relates to %s by 2^%d, the operation (%s) allows 2^0 or 2^%d", u.name[q.res], u.name[q.x], rel, q.where, q.d))
		}
	}
}

func (a *Scale) triple(name string) [3]int {
	return [3]int{a.u.fresh(name), a.u.fresh("index unit of " + name), a.u.fresh("element unit of " + name)}
}

func (a *Scale) cellFor(addr ssa.Value, fn *ssa.Function) ([3]int, bool) {
	switch x := addr.(type) {
	case *ssa.Alloc:
		if t, ok := a.cell[x]; ok {
			return t, true
		}
		t := a.triple("local " + x.Comment)
		a.cell[x] = t
		return t, true
	case *ssa.FreeVar:
		if t, ok := a.cell[x]; ok {
			return t, true
		}
		t := a.triple("captured " + x.Name())
		a.cell[x] = t
		return t, true
	case *ssa.Global:
		if t, ok := a.gvar[x]; ok {
			return t, true
		}
		t := a.triple("variable " + x.Name())
		a.gvar[x] = t
		return t, true
	case *ssa.FieldAddr:
		st := x.X.Type().Underlying().(*types.Pointer).Elem().Underlying().(*types.Struct)
		f := st.Field(x.Field)
		if t, ok := a.fvar[f]; ok {
			return t, true
		}
		t := a.triple("field " + f.Name())
		a.fvar[f] = t
		// struct fields holding bitmaps in package bitmap
		if f.Pkg() != nil && f.Pkg().Name() == "bitmap" {
			if s, ok := f.Type().Underlying().(*types.Slice); ok {
				if eb, ok := s.Elem().Underlying().(*types.Basic); ok && eb.Kind() == types.Uint64 {
					a.setConst(t[1], 6, "field "+f.Name()+" []uint64 of package bitmap is a bitmap (indexed in 64-bit words)")
				}
			}
		}
		return t, true
	}
	return [3]int{}, false
}

func (a *Scale) flow(v ssa.Value, t [3]int, fn *ssa.Function, where string) {
	if x, ok := a.V(v); ok {
		a.union(x, t[0], 0, where)
	}
	if i, e, ok := a.C(v, fn); ok {
		a.union(i, t[1], 0, where)
		a.union(e, t[2], 0, where)
	}
}

func (a *Scale) same(v, w ssa.Value, fn *ssa.Function, where string) {
	if x, ok := a.V(v); ok {
		if y, ok := a.V(w); ok {
			a.union(x, y, 0, where)
		}
	}
	if i, e, ok := a.C(v, fn); ok {
		if j, f, ok := a.C(w, fn); ok {
			a.union(i, j, 0, where)
			a.union(e, f, 0, where)
		}
	}
}

func (a *Scale) same2(v ssa.Value, fv *ssa.Function, w ssa.Value, fw *ssa.Function, where string) {
	if x, ok := a.V(v); ok {
		if y, ok := a.V(w); ok {
			a.union(x, y, 0, where)
		}
	}
	if i, e, ok := a.C(v, fv); ok {
		if j, f, ok := a.C(w, fw); ok {
			a.union(i, j, 0, where)
			a.union(e, f, 0, where)
		}
	}
}

func (a *Scale) results(fn *ssa.Function) [][3]int {
	if r, ok := a.fnres[fn]; ok {
		return r
	}
	n := fn.Signature.Results().Len()
	r := make([][3]int, n)
	for i := range r {
		r[i] = a.triple(fmt.Sprintf("result %d of %s", i, fn.Name()))
	}
	a.fnres[fn] = r
	return r
}

// markData: loads from bit containers are bit patterns, not positions.
func (a *Scale) markData(fn *ssa.Function) {
	changed := true
	for changed {
		changed = false
		mark := func(v ssa.Value) {
			if !a.data[v] {
				a.data[v] = true
				changed = true
			}
		}
		for _, b := range fn.Blocks {
			for _, ins := range b.Instrs {
				switch x := ins.(type) {
				case *ssa.UnOp:
					if x.Op == token.MUL {
						if ia, ok := x.X.(*ssa.IndexAddr); ok && a.isBitContainer(ia.X, fn) {
							mark(x)
						}
					} else if a.data[x.X] {
						mark(x)
					}
				case *ssa.Index:
					if a.isBitContainer(x.X, fn) {
						mark(x)
					}
				case *ssa.Lookup:
					if a.isBitContainer(x.X, fn) {
						mark(x)
					}
				case *ssa.BinOp:
					if a.data[x.X] || a.data[x.Y] {
						switch x.Op {
						case token.EQL, token.NEQ, token.LSS, token.LEQ, token.GTR, token.GEQ:
						default:
							mark(x)
						}
					}
				case *ssa.Convert:
					if a.data[x.X] {
						mark(x)
					}
				case *ssa.ChangeType:
					if a.data[x.X] {
						mark(x)
					}
				case *ssa.Phi:
					for _, e := range x.Edges {
						if a.data[e] {
							mark(x)
						}
					}
				case *ssa.Call:
					// popcount / leading / trailing zeros of a data word is a number of bits
				}
			}
		}
	}
}

func containerRole(v ssa.Value) string {
	if r := containerRole1(v, map[ssa.Value]bool{}); r != "" {
		return r
	}
	return "local"
}

func containerRole1(v ssa.Value, seen map[ssa.Value]bool) string {
	for depth := 0; depth < 20; depth++ {
		if seen[v] {
			return "" // a merge reached again through its own back edge (words = append(words, 0) in a loop) adds nothing
		}
		switch x := v.(type) {
		case *ssa.Parameter:
			return canonParam(x)
		case *ssa.Global:
			return x.Name()
		case *ssa.FreeVar:
			// a captured variable: the parameter (or local) of the enclosing function it stands for
			if b := freeVarBinding(x); b != nil {
				if al, ok := b.(*ssa.Alloc); ok {
					return cellRole(al)
				}
				if p, ok := b.(*ssa.Parameter); ok {
					return canonParam(p)
				}
			}
			return x.Name()
		case *ssa.Slice:
			v = x.X
		case *ssa.ChangeType:
			v = x.X
		case *ssa.Convert:
			v = x.X
		case *ssa.FieldAddr:
			return "." + canonField(x.X.Type(), x.Field)
		case *ssa.IndexAddr:
			v = x.X
		case *ssa.UnOp:
			if x.Op != token.MUL {
				return "local"
			}
			v = x.X
		case *ssa.Phi:
			seen[v] = true
			role := ""
			for _, e := range x.Edges {
				r := containerRole1(e, seen)
				if r == "" {
					continue
				}
				if role == "" {
					role = r
				} else if role != r {
					return "local"
				}
			}
			if role == "" {
				return "local"
			}
			return role
		case *ssa.Call:
			if b, ok := x.Common().Value.(*ssa.Builtin); ok && b.Name() == "append" {
				v = x.Common().Args[0]
				continue
			}
			return "local"
		default:
			return "local"
		}
	}
	return "local"
}

func (a *Scale) doFunc(fn *ssa.Function) {
	a.curFn = fn
	a.markData(fn)
	for _, b := range fn.Blocks {
		for _, ins := range b.Instrs {
			a.curIns = ins
			a.curRole = "expr"
			where := a.W.InstrPos(ins)
			switch x := ins.(type) {
			case *ssa.BinOp:
				switch x.Op {
				case token.EQL, token.NEQ, token.LSS, token.LEQ, token.GTR, token.GEQ:
					a.curRole = "compare"
					if xv, ok := a.V(x.X); ok {
						if yv, ok := a.V(x.Y); ok {
							a.union(xv, yv, 0, "comparison at "+where)
						}
					}
					continue
				case token.SHL, token.SHR:
					if _, isC := x.Y.(*ssa.Const); !isC {
						if yv, ok := a.V(x.Y); ok {
							a.curRole = "shift-amount"
							a.setConst(yv, 0, "it is a shift amount at "+where)
						}
					}
				}
				res, okr := a.V(x)
				if !okr {
					continue
				}
				_, xIsC := x.X.(*ssa.Const)
				_, yIsC := x.Y.(*ssa.Const)
				a.curRole = "arith " + x.Op.String()
				switch x.Op {
				case token.ADD, token.SUB, token.OR, token.XOR:
					if !xIsC {
						if v, ok := a.V(x.X); ok {
							a.union(res, v, 0, "`"+x.Op.String()+"` at "+where)
						}
					}
					if !yIsC {
						if v, ok := a.V(x.Y); ok {
							a.union(res, v, 0, "`"+x.Op.String()+"` at "+where)
						}
					}
				case token.MUL:
					if yIsC {
						if cu, ok := constUint64(x.Y); ok {
							if c, ok := log2(cu); ok && c >= 1 && c <= 7 {
								if v, ok := a.V(x.X); ok {
									a.scaled(res, v, c, false, fmt.Sprintf("`*%d` at %s", cu, where))
								}
							}
						}
					} else if xIsC {
						if cu, ok := constUint64(x.X); ok {
							if c, ok := log2(cu); ok && c >= 1 && c <= 7 {
								if v, ok := a.V(x.Y); ok {
									a.scaled(res, v, c, false, fmt.Sprintf("`%d*` at %s", cu, where))
								}
							}
						}
					}
				case token.QUO:
					if yIsC {
						if cu, ok := constUint64(x.Y); ok {
							if c, ok := log2(cu); ok && c >= 1 && c <= 7 {
								if v, ok := a.V(x.X); ok {
									a.scaled(res, v, c, true, fmt.Sprintf("`/%d` at %s", cu, where))
								}
							}
						}
					}
				case token.SHL, token.SHR:
					if yIsC && !xIsC {
						if c, ok := constInt64(x.Y); ok && c >= 1 && c <= 7 {
							if v, ok := a.V(x.X); ok {
								a.scaled(res, v, int(c), x.Op == token.SHR, fmt.Sprintf("`%s%d` at %s", x.Op, c, where))
							}
						}
					}
				case token.AND, token.AND_NOT, token.REM:
					if yIsC && !xIsC {
						if v, ok := a.V(x.X); ok {
							a.union(res, v, 0, "`"+x.Op.String()+" const` at "+where)
						}
					}
				}
				continue
			}
			switch x := ins.(type) {
			case *ssa.Phi:
				a.curRole = "phi"
				for _, e := range x.Edges {
					a.same(x, e, fn, "merge at "+where)
				}
			case *ssa.Convert:
				a.same(x, x.X, fn, "conversion at "+where)
			case *ssa.ChangeType:
				a.same(x, x.X, fn, "conversion at "+where)
			case *ssa.UnOp:
				switch x.Op {
				case token.MUL:
					if ia, ok := x.X.(*ssa.IndexAddr); ok {
						if _, e, ok := a.C(ia.X, fn); ok {
							if v, ok := a.V(x); ok {
								a.curRole = "load " + containerRole(ia.X)
								if rs, isRs := inPlaceRescale(fn)[rescaleRoot(ia.X)]; isRs && rs.cell && rs.loads[x] {
									// the variable's list is converted in place up front (xs[i] >>= 3) and the variable stands for
									// the converted list: the load that feeds the conversion sees the old unit
									a.union(v, e, -rs.c, "element load (feeding the in-place conversion of the list) at "+where)
								} else if isRs && !rs.cell && !rs.loads[x] {
									// the list was converted in place up front (xs[i] >>= 3): what is read from it afterwards
									// is counted in the new unit
									a.union(v, e, rs.c, "element load (after the in-place conversion of the list) at "+where)
								} else {
									a.union(v, e, 0, "element load at "+where)
								}
							}
						}
					} else if t, ok := a.cellFor(x.X, fn); ok {
						a.curRole = "load " + containerRole(x.X)
						a.flow(x, t, fn, "load at "+where)
					}
				case token.SUB, token.XOR:
					a.same(x, x.X, fn, where)
				}
			case *ssa.Store:
				if ia, ok := x.Addr.(*ssa.IndexAddr); ok {
					if rs, isRs := inPlaceRescale(fn)[rescaleRoot(ia.X)]; isRs && rs.stores[x] {
						break // the in-place conversion itself: relates the old element to the new one through its own shift
					}
					if _, e, ok := a.C(ia.X, fn); ok {
						if v, ok := a.V(x.Val); ok {
							a.curRole = "store " + containerRole(ia.X)
							a.union(v, e, 0, "element store at "+where)
						}
					}
				} else if t, ok := a.cellFor(x.Addr, fn); ok {
					a.curRole = "store " + containerRole(x.Addr)
					if rs, isRs := inPlaceRescale(fn)[x.Addr]; isRs && rs.cell {
						// the list assigned here is the one the up-front conversion then rewrites in place
						if i, e, ok := a.C(x.Val, fn); ok {
							a.union(i, t[1], 0, "store at "+where)
							a.union(t[2], e, rs.c, "store (list converted in place afterwards) at "+where)
						}
						break
					}
					a.flow(x.Val, t, fn, "store at "+where)
				}
			case *ssa.IndexAddr:
				if i, _, ok := a.C(x.X, fn); ok {
					if v, ok := a.V(x.Index); ok {
						a.curRole = "index " + containerRole(x.X)
						a.SitesPerFn[fn]++
						a.union(v, i, 0, "index expression at "+where)
					}
				}
			case *ssa.Index:
				if i, e, ok := a.C(x.X, fn); ok {
					a.curRole = "index " + containerRole(x.X)
					if v, ok := a.V(x.Index); ok {
						a.SitesPerFn[fn]++
						a.union(v, i, 0, "index expression at "+where)
					}
					if v, ok := a.V(x); ok {
						a.union(v, e, 0, "element load at "+where)
					}
				}
			case *ssa.Lookup:
				if i, _, ok := a.C(x.X, fn); ok {
					if v, ok := a.V(x.Index); ok {
						a.curRole = "index " + containerRole(x.X)
						a.union(v, i, 0, "index expression at "+where)
					}
				}
			case *ssa.Slice:
				a.curRole = "slice " + containerRole(x.X)
				a.same(x, x.X, fn, "slicing at "+where)
				if i, _, ok := a.C(x.X, fn); ok {
					for _, bnd := range []ssa.Value{x.Low, x.High, x.Max} {
						if bnd != nil {
							if v, ok := a.V(bnd); ok {
								a.SitesPerFn[fn]++
								a.union(v, i, 0, "slice bound at "+where)
							}
						}
					}
				}
			case *ssa.MakeSlice:
				a.curRole = "make"
				if i, _, ok := a.C(x, fn); ok {
					for _, bnd := range []ssa.Value{x.Len, x.Cap} {
						if v, ok := a.V(bnd); ok {
							a.SitesPerFn[fn]++
							a.union(v, i, 0, "make size at "+where)
						}
					}
				}
			case *ssa.Extract:
				if c, ok := x.Tuple.(*ssa.Call); ok {
					if callee := c.Call.StaticCallee(); callee != nil && scalePkgs[a.short(callee)] && callee.Blocks != nil {
						rs := a.results(callee)
						a.curRole = "result of " + callee.Name()
						a.flow(x, rs[x.Index], fn, "result of "+callee.Name()+" at "+where)
					}
				}
			case *ssa.Call:
				com := x.Common()
				if bi, ok := com.Value.(*ssa.Builtin); ok {
					switch bi.Name() {
					case "len", "cap":
						if i, _, ok := a.C(com.Args[0], fn); ok {
							if v, ok := a.V(x); ok {
								a.curRole = "len " + containerRole(com.Args[0])
								a.union(v, i, 0, bi.Name()+"() at "+where)
							}
						}
					case "append":
						a.curRole = "append"
						a.same(x, com.Args[0], fn, "append at "+where)
						if len(com.Args) > 1 {
							_, e0, ok0 := a.C(com.Args[0], fn)
							_, e1, ok1 := a.C(com.Args[1], fn)
							if ok0 && ok1 {
								a.union(e0, e1, 0, "append at "+where)
							}
						}
					case "copy":
						a.curRole = "copy"
						_, e0, ok0 := a.C(com.Args[0], fn)
						_, e1, ok1 := a.C(com.Args[1], fn)
						if ok0 && ok1 {
							a.union(e0, e1, 0, "copy at "+where)
						}
					}
					continue
				}
				callee := com.StaticCallee()
				if callee == nil {
					continue
				}
				name := funcFullName(callee)
				if strings.HasPrefix(name, "math/bits.") {
					// counts of bits: OnesCount*, LeadingZeros*, TrailingZeros*, Len*
					n := callee.Name()
					if strings.HasPrefix(n, "OnesCount") || strings.HasPrefix(n, "LeadingZeros") || strings.HasPrefix(n, "TrailingZeros") || strings.HasPrefix(n, "Len") {
						if v, ok := a.V(x); ok && (strings.HasPrefix(n, "LeadingZeros") || strings.HasPrefix(n, "TrailingZeros")) {
							a.curRole = "bits." + n
							a.setConst(v, 0, "bits."+n+" returns a number of bits ("+where+")")
						}
					}
					continue
				}
				if !scalePkgs[a.short(callee)] || callee.Blocks == nil {
					continue
				}
				a.curRole = "call " + callee.Name()
				for i, p := range callee.Params {
					if i < len(com.Args) {
						a.same2(com.Args[i], fn, p, callee, fmt.Sprintf("argument %d of %s at %s", i, callee.Name(), where))
					}
				}
				if callee.Signature.Results().Len() == 1 {
					rs := a.results(callee)
					a.flow(x, rs[0], fn, "result of "+callee.Name()+" at "+where)
				}
			case *ssa.Return:
				rs := a.results(fn)
				for i, rv := range x.Results {
					a.curRole = fmt.Sprintf("return %d", i)
					a.flow(rv, rs[i], fn, "return at "+where)
				}
			case *ssa.MakeClosure:
				cl := x.Fn.(*ssa.Function)
				a.curRole = "closure"
				for i, bnd := range x.Bindings {
					fv := cl.FreeVars[i]
					if t, ok := a.cellFor(bnd, fn); ok {
						t2, _ := a.cellFor(fv, cl)
						for k := 0; k < 3; k++ {
							a.union(t[k], t2[k], 0, "closure capture at "+where)
						}
					}
				}
			}
		}
	}
	a.curIns = nil
}

// API seeds: results that are bit positions by the documented contract.
// value: per result index, 0 = "in bits" (elements in bits for slices), -1 = no seed.
var scaleAPISeeds = map[string][]int{
	"bitstr.Len":              {0},
	"bitmap.NextOne":          {0},
	"bitmap.PrevOne":          {0},
	"bitmap.Select32":         {0, 0},
	"bitmap.Select32R64":      {0, 0},
	"bitmap.ToArray":          {0},
	"sigbits.FirstDiffBits":   {0},
	"bitmap.FromStr32":        {0, -1},
	"bitmap.IndexSelect32":    {0},
	"bitmap.IndexSelect32R64": {0, -1},
}

// API pairing: builder result index unit == reader parameter index unit.
var scalePairs = [][4]string{
	// builder, result#, reader, param name position
	{"bitmap.IndexRank64", "0", "bitmap.Rank64", "1"},
	{"bitmap.IndexRank128", "0", "bitmap.Rank128", "1"},
	{"bitmap.IndexRank64", "0", "bitmap.Select32R64", "2"},
	{"bitmap.IndexSelect32R64", "1", "bitmap.Select32R64", "2"},
}

func RunScale(w *World) *Scale {
	if s, ok := scaleCache[w]; ok {
		return s
	}
	a := &Scale{W: w, u: &ufScale{konst: map[int]int{}, why: map[int]string{}},
		vvar: map[ssa.Value]int{}, ivar: map[ssa.Value]int{}, evar: map[ssa.Value]int{}, data: map[ssa.Value]bool{},
		fvar: map[*types.Var][3]int{}, gvar: map[*ssa.Global][3]int{}, cell: map[ssa.Value][3]int{}, fnres: map[*ssa.Function][][3]int{},
		SitesPerFn: map[*ssa.Function]int{}}
	var shorts []string
	for s := range scalePkgs {
		shorts = append(shorts, s)
	}
	sort.Strings(shorts)
	a.Funcs = w.SourceFuncs(shorts...)
	for _, fn := range a.Funcs {
		a.doFunc(fn)
	}
	byName := map[string]*ssa.Function{}
	for _, fn := range a.Funcs {
		byName[w.FuncName(fn)] = fn
	}
	for name, sc := range scaleAPISeeds {
		fn := byName[name]
		if fn == nil {
			continue
		}
		a.curFn, a.curIns, a.curRole = fn, nil, "api-result"
		rs := a.results(fn)
		for i, k := range sc {
			if k < 0 || i >= len(rs) {
				continue
			}
			if isIntType(fn.Signature.Results().At(i).Type()) {
				a.setConst(rs[i][0], k, "documented API: result of "+name+" is a bit position/count")
			} else {
				a.setConst(rs[i][2], k, "documented API: elements of the result of "+name+" are bit positions")
			}
		}
	}
	for _, p := range scalePairs {
		b, rd := byName[p[0]], byName[p[2]]
		if b == nil || rd == nil {
			continue
		}
		var ri, pi int
		fmt.Sscan(p[1], &ri)
		fmt.Sscan(p[3], &pi)
		if ri >= len(a.results(b)) || pi >= len(rd.Params) {
			continue
		}
		a.curFn, a.curIns, a.curRole = rd, nil, "api-pair "+p[0]
		if i, _, ok := a.C(rd.Params[pi], rd); ok {
			a.union(a.results(b)[ri][1], i, 0, "index built by "+p[0]+" is consumed by "+p[2]+" parameter "+rd.Params[pi].Name())
		}
	}
	a.checkDeferred()
	a.NValues = len(a.vvar)
	for _, x := range a.vvar {
		r, _ := a.u.find(x)
		if _, ok := a.u.konst[r]; ok {
			a.NScaled++
		}
	}
	scaleCache[w] = a
	return a
}

// ScaleOf returns the inferred unit exponent of an integer value.
func (a *Scale) ScaleOf(v ssa.Value) (int, bool) {
	x, ok := a.vvar[v]
	if !ok {
		return 0, false
	}
	r, d := a.u.find(x)
	k, ok := a.u.konst[r]
	return k + d, ok
}

// IndexScaleOf returns the inferred index unit of a container value.
func (a *Scale) IndexScaleOf(v ssa.Value) (int, bool) {
	x, ok := a.ivar[v]
	if !ok {
		return 0, false
	}
	r, d := a.u.find(x)
	k, ok := a.u.konst[r]
	return k + d, ok
}

// ReportScale files the E4 obligations of the listed functions into r.
func ReportScale(w *World, r *Report, fnNames ...string) {
	r.Rule("R-SCALE", "unit inference (bits / bytes=2^3 / words=2^6 / blocks=2^7) over every integer position, index, length, make size and slice bound, seeded by the repository's container conventions and documented API units; two different units meeting in one value, or a cycle of shifts that does not balance, is a violation")
	s := RunScale(w)
	want := map[string]bool{}
	for _, n := range fnNames {
		want[n] = true
	}
	// group conflicts by function
	conf := map[string][]ScaleConflict{}
	for _, c := range s.Conflicts {
		n := w.FuncName(c.Fn)
		// closures report under their parent
		if i := strings.Index(n, "$"); i >= 0 {
			n = n[:i]
		}
		conf[n] = append(conf[n], c)
	}
	for _, n := range fnNames {
		var fn *ssa.Function
		for _, f := range s.Funcs {
			if w.FuncName(f) == n {
				fn = f
			}
		}
		if fn == nil {
			r.Unknown("R-SCALE", n, "-", "function named by the property is missing from the analysed tree")
			continue
		}
		cs := conf[n]
		if len(cs) == 0 {
			sites := s.SitesPerFn[fn]
			// closures
			for f2, k := range s.SitesPerFn {
				if f2.Parent() == fn {
					sites += k
				}
			}
			nv, nk := 0, 0
			for v := range s.vvar {
				if ins, ok := v.(ssa.Instruction); ok && (ins.Parent() == fn || (ins.Parent() != nil && ins.Parent().Parent() == fn)) {
					nv++
					if _, ok := s.ScaleOf(v); ok {
						nk++
					}
				}
			}
			var facts []string
			if sites > 0 || nk > 0 {
				facts = []string{fmt.Sprintf("%d index/bound/size sites checked, %d of %d integer values carry an inferred unit, no two units meet", sites, nk, nv)}
			}
			r.OK("R-SCALE", n, w.Pos(fn.Pos()), facts...)
			continue
		}
		seen := map[string]int{}
		for _, c := range cs {
			role := c.Role
			seen[role]++
			key := n + "|" + role
			if seen[role] > 1 {
				key += fmt.Sprintf("#%d", seen[role])
			}
			r.Bad("R-SCALE", key, c.Pos, c.Msg, c.Facts...)
		}
	}
	r.Units["scale_functions"] = len(s.Funcs)
	r.Units["scale_integer_values"] = s.NValues
	r.Units["scale_values_with_unit"] = s.NScaled
	r.Units["scale_conflicts_whole_module"] = len(s.Conflicts)
}

// inPlaceRescale: containers of fn whose every element is converted to another unit in place by a dedicated statement
// xs[i] = xs[i] >> c (c in {3,6,7}; or << c): the loads that feed the conversion see the old unit, every other load of
// the container the new one. c is the exponent difference new - old.
type rescaleInfo struct {
	c      int
	cell   bool // the container is a local variable's cell: the variable stands for the converted list
	loads  map[*ssa.UnOp]bool
	stores map[*ssa.Store]bool
}

var rescaleCache = map[*ssa.Function]map[ssa.Value]*rescaleInfo{}

func inPlaceRescale(fn *ssa.Function) map[ssa.Value]*rescaleInfo {
	if m, ok := rescaleCache[fn]; ok {
		return m
	}
	m := map[ssa.Value]*rescaleInfo{}
	rescaleCache[fn] = m
	eachInstr(fn, func(ins ssa.Instruction) {
		st, ok := ins.(*ssa.Store)
		if !ok {
			return
		}
		ia, ok := st.Addr.(*ssa.IndexAddr)
		if !ok {
			return
		}
		var x ssa.Value
		c, down := 0, false
		if y, k, ok := asShiftRight(st.Val); ok {
			x, c, down = y, k, true
		} else if y, k, ok := asShiftLeft(st.Val); ok {
			x, c = y, k
		}
		if x == nil || unitConv(c) == 0 {
			return
		}
		ld, ok := stripConv(x).(*ssa.UnOp)
		if !ok || ld.Op != token.MUL {
			return
		}
		ia2, ok := ld.X.(*ssa.IndexAddr)
		if !ok || ia2.X != ia.X || ia2.Index != ia.Index {
			return
		}
		root := rescaleRoot(ia.X)
		ri := m[root]
		if ri == nil {
			ri = &rescaleInfo{loads: map[*ssa.UnOp]bool{}, stores: map[*ssa.Store]bool{}}
			if al, ok := root.(*ssa.Alloc); ok {
				// exactly one assignment of the variable, in this function
				n := 0
				for _, r := range *al.Referrers() {
					if s, ok := r.(*ssa.Store); ok && s.Addr == ssa.Value(al) {
						n++
					}
				}
				if n != 1 || al.Parent() != fn {
					return
				}
				ri.cell = true
			}
			m[root] = ri
		}
		if down {
			ri.c = c
		} else {
			ri.c = -c
		}
		ri.loads[ld] = true
		ri.stores[st] = true
	})
	return m
}

// rescaleRoot: the local variable a container value is read from, else the value itself.
func rescaleRoot(v ssa.Value) ssa.Value {
	if u, ok := v.(*ssa.UnOp); ok && u.Op == token.MUL {
		if al, ok := u.X.(*ssa.Alloc); ok {
			return al
		}
	}
	return v
}
