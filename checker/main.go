// lowcheck: static analysis of openacid/low against the fixed property list.
// Nothing of /repo is executed; every verdict is computed from the type-checked
// packages and their SSA form.
package main

import (
	"flag"
	"fmt"
	"os"
	"runtime/debug"
	"sort"
	"strings"
)

// Ctx gives rule code access to the loaded configurations.
type Ctx struct {
	Dir    string
	Tier   string
	worlds map[Config]*World
	errs   map[Config]error
	Only   string
}

func (c *Ctx) World(cfg Config) (*World, error) {
	if w, ok := c.worlds[cfg]; ok {
		return w, nil
	}
	if e, ok := c.errs[cfg]; ok {
		return nil, e
	}
	w, err := Load(c.Dir, cfg)
	if err != nil {
		c.errs[cfg] = err
		return nil, err
	}
	c.worlds[cfg] = w
	return w, nil
}

// Prop is one property check.
type Prop struct {
	ID      string
	Level   string // "other" | "proof"
	Explain string
	NotDec  []string
	Trusted []string
	Assume  []string
	// Configs analysed per tier.
	Quick    []Config
	Thorough []Config
	Run      func(c *Ctx, w *World, r *Report)
}

var registry = map[string]*Prop{}

func register(p *Prop) { registry[p.ID] = p }

var (
	cfgDefault = Config{}
	cfgDebug   = Config{Tags: "debug"}
	cfg386     = Config{GOARCH: "386"}
	cfgArm64   = Config{GOARCH: "arm64"}
	cfgDbg386  = Config{Tags: "debug", GOARCH: "386"}
)

var allThorough = []Config{cfgDefault, cfgDebug, cfg386, cfgArm64}

func runProp(c *Ctx, p *Prop) (code int) {
	r := NewReport(p.ID, c.Tier, p.Level)
	r.NotDec, r.Trusted, r.Assume = p.NotDec, p.Trusted, p.Assume
	r.Assume = append(append([]string{}, r.Assume...), "the tree type-checks in the analysed configurations and go/ssa faithfully represents it", "preconditions stated in the property text (argument ranges, ascending inputs) hold for callers")
	cfgs := p.Quick
	if c.Tier == "thorough" && len(p.Thorough) > 0 {
		cfgs = p.Thorough
	}
	if len(cfgs) == 0 {
		cfgs = []Config{cfgDefault}
	}
	var cfgNames []string
	for _, cfg := range cfgs {
		cfgNames = append(cfgNames, cfg.String())
		r.SetCfg(cfg)
		w, err := c.World(cfg)
		if err != nil {
			r.Unknown("R-LOAD", "load", "-", "the analysed tree does not load/type-check in this configuration: "+err.Error())
			continue
		}
		r.Units["packages_loaded("+cfg.String()+")"] = len(w.Pkgs)
		r.Units["module_functions("+cfg.String()+")"] = w.NFuncs
		func() {
			defer func() {
				if e := recover(); e != nil {
					r.Unknown("R-PANIC", "analyser", "-", fmt.Sprintf("analyser panic (undecided = fail): %v\n%s", e, debug.Stack()))
				}
			}()
			p.Run(c, w, r)
		}()
	}
	r.Extra["configurations"] = cfgNames
	if selfTestN > 0 {
		r.Extra["selftest"] = fmt.Sprintf("%d fixture expectations checked before this run (checker/fixtures/fx): each engine fired on its must-fire example and stayed silent on its must-stay-silent example", selfTestN)
	}
	if c.Only != "" {
		var keep []*Oblig
		for _, o := range r.Obs {
			if strings.Contains(o.Key, c.Only) {
				keep = append(keep, o)
			}
		}
		r.Obs = keep
		for _, o := range keep {
			fmt.Printf("%s %s at %s %s\n", o.Status, o.Key, o.Pos, o.Msg)
			for _, f := range o.Facts {
				fmt.Println("    fact:", f)
			}
		}
	}
	cmd := fmt.Sprintf("/verif/check %s %s", p.ID, c.Tier)
	return r.Finish(p.Explain, cmd)
}

func main() {
	prop := flag.String("prop", "", "property id (C01..C20) or 'all'")
	tier := flag.String("tier", "quick", "quick|thorough")
	repo := flag.String("repo", repoDir(), "tree to analyse")
	only := flag.String("only", "", "restrict output to obligations whose key contains this string")
	list := flag.Bool("list", false, "list registered properties")
	dumpN := flag.Bool("dumpnames", false, "print names_frozen.go (canonical parameter and field names) for the tree")
	selfOnly := flag.Bool("selftest", false, "run only the fixture self-test")
	noSelf := flag.Bool("noselftest", false, "skip the fixture self-test")
	flag.Parse()
	debug.SetGCPercent(400)
	if *list {
		var ids []string
		for id := range registry {
			ids = append(ids, id)
		}
		sort.Strings(ids)
		fmt.Println(strings.Join(ids, " "))
		return
	}
	if t := os.Getenv("VERIF_TIER"); t != "" && *tier == "" {
		*tier = t
	}
	if *tier == "thorough" {
		os.Setenv("LOWCHECK_FULLSSA", "1")
	}
	c := &Ctx{Dir: *repo, Tier: *tier, worlds: map[Config]*World{}, errs: map[Config]error{}, Only: *only}
	var ids []string
	if *prop == "all" {
		for id := range registry {
			if strings.HasPrefix(id, "C") {
				ids = append(ids, id)
			}
		}
		sort.Strings(ids)
	} else {
		ids = strings.Split(*prop, ",")
	}
	if *selfOnly {
		os.Exit(runSelfTest())
	}
	if *dumpN {
		w, err := Load(*repo, Config{})
		if err != nil {
			fmt.Fprintln(os.Stderr, err)
			os.Exit(2)
		}
		dumpNames(w)
		return
	}
	stop := startProf()
	exit := 0
	if !*noSelf && os.Getenv("LOWCHECK_NOSELFTEST") == "" {
		if code := runSelfTest(); code != 0 {
			os.Exit(code)
		}
	}
	for _, id := range ids {
		p, ok := registry[id]
		if !ok {
			fmt.Fprintf(os.Stderr, "unknown property %q\n", id)
			os.Exit(2)
		}
		if code := runProp(c, p); code > exit {
			exit = code
		}
	}
	stop()
	os.Exit(exit)
}
