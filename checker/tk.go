package main

// Toolkit shared by all rule engines: callee naming, value numbering, linear
// forms, dominating conditions and integer bounds derived from them.

import (
	"fmt"
	"go/constant"
	"go/token"
	"go/types"
	"os"
	"sort"
	"strings"

	"golang.org/x/tools/go/ssa"
)

// ---------- generic helpers ----------

func eachInstr(fn *ssa.Function, f func(ssa.Instruction)) {
	for _, b := range fn.Blocks {
		for _, ins := range b.Instrs {
			f(ins)
		}
	}
}

// calleeName gives a stable, type-resolved name for a call:
//
//	"math/bits.OnesCount64", "(*bytes.Buffer).Grow", "invoke io.Writer.Write",
//	"builtin len", "closure f$1", "dynamic".
func calleeName(com *ssa.CallCommon) string {
	if com.IsInvoke() {
		recv := com.Value.Type()
		return "invoke " + types.TypeString(recv, nil) + "." + com.Method.Name()
	}
	switch v := com.Value.(type) {
	case *ssa.Builtin:
		return "builtin " + v.Name()
	case *ssa.Function:
		return funcFullName(v)
	case *ssa.MakeClosure:
		return funcFullName(v.Fn.(*ssa.Function))
	}
	return "dynamic"
}

func funcFullName(f *ssa.Function) string {
	if f == nil {
		return "<nil>"
	}
	if recv := f.Signature.Recv(); recv != nil {
		return "(" + types.TypeString(recv.Type(), nil) + ")." + f.Name()
	}
	if p := fnPkg(f); p != nil {
		return p.Path() + "." + f.Name()
	}
	return f.String()
}

func isIntType(t types.Type) bool {
	b, ok := t.Underlying().(*types.Basic)
	return ok && b.Info()&types.IsInteger != 0
}

func isUnsigned(t types.Type) bool {
	b, ok := t.Underlying().(*types.Basic)
	return ok && b.Info()&types.IsUnsigned != 0
}

func isStringType(t types.Type) bool {
	b, ok := t.Underlying().(*types.Basic)
	return ok && b.Info()&types.IsString != 0
}

// constInt64 returns the integer value of a constant SSA value.
func constInt64(v ssa.Value) (int64, bool) {
	c, ok := v.(*ssa.Const)
	if !ok || c.Value == nil || c.Value.Kind() != constant.Int {
		return 0, false
	}
	if i, ok := constant.Int64Val(c.Value); ok {
		return i, true
	}
	if u, ok := constant.Uint64Val(c.Value); ok {
		return int64(u), true // two's complement
	}
	return 0, false
}

func constUint64(v ssa.Value) (uint64, bool) {
	c, ok := v.(*ssa.Const)
	if !ok || c.Value == nil || c.Value.Kind() != constant.Int {
		return 0, false
	}
	if u, ok := constant.Uint64Val(c.Value); ok {
		return u, true
	}
	if i, ok := constant.Int64Val(c.Value); ok {
		return uint64(i), true
	}
	return 0, false
}

// stripConv removes integer conversions and ChangeType wrappers.
func stripConv(v ssa.Value) ssa.Value {
	for {
		switch x := v.(type) {
		case *ssa.Convert:
			if isIntType(x.Type()) && isIntType(x.X.Type()) {
				v = x.X
				continue
			}
			return v
		case *ssa.ChangeType:
			v = x.X
			continue
		}
		return v
	}
}

func log2(u uint64) (int, bool) {
	if u == 0 || u&(u-1) != 0 {
		return 0, false
	}
	n := 0
	for u > 1 {
		u >>= 1
		n++
	}
	return n, true
}

// ---------- per-function analysis context ----------

// FA caches value numbers, memory epochs and dominating conditions of one function.
type FA struct {
	W       *World
	Fn      *ssa.Function
	vnMemo  map[ssa.Value]string
	epoch   map[*ssa.UnOp]string
	conds   map[*ssa.BasicBlock][]Cond
	reach   map[*ssa.BasicBlock]map[*ssa.BasicBlock]bool
	atomVal map[string]ssa.Value
	affine  map[*ssa.Phi]*phiAffine
}

// phiAffine: a loop counter P = init + step*k (k = number of completed iterations).
type phiAffine struct {
	init Lin
	step int64
	ok   bool
	busy bool
}

var faCache = map[*ssa.Function]*FA{}

func (w *World) FA(fn *ssa.Function) *FA {
	if a, ok := faCache[fn]; ok {
		return a
	}
	a := &FA{W: w, Fn: fn, vnMemo: map[ssa.Value]string{}, conds: map[*ssa.BasicBlock][]Cond{}}
	faCache[fn] = a
	return a
}

// pure external callees whose result depends only on the arguments.
func pureCallee(name string) bool {
	if strings.HasPrefix(name, "math/bits.") {
		return true
	}
	switch name {
	case "builtin len", "builtin cap", "builtin min", "builtin max":
		return true
	}
	return false
}

var commutative = map[token.Token]bool{token.ADD: true, token.MUL: true, token.AND: true, token.OR: true, token.XOR: true, token.EQL: true, token.NEQ: true}

// VN returns a structural value number: two values with equal VN are equal
// whenever both are evaluated at the same dynamic moment.
func (a *FA) VN(v ssa.Value) string {
	if v == nil {
		return "nil"
	}
	if s, ok := a.vnMemo[v]; ok {
		return s
	}
	a.vnMemo[v] = "rec:" + v.Name() // cycle guard
	s := a.vn1(v)
	a.vnMemo[v] = s
	if a.atomVal == nil {
		a.atomVal = map[string]ssa.Value{}
	}
	if _, ok := a.atomVal[s]; !ok {
		a.atomVal[s] = v
	}
	return s
}

func (a *FA) vn1(v ssa.Value) string {
	switch x := v.(type) {
	case *ssa.Const:
		if x.Value == nil {
			return "c:nil:" + x.Type().String()
		}
		if x.Value.Kind() == constant.Int {
			return "c:" + x.Value.ExactString()
		}
		return "c:" + x.Value.ExactString() + ":" + x.Type().String()
	case *ssa.Parameter:
		for i, p := range x.Parent().Params {
			if p == x {
				return fmt.Sprintf("p%d", i)
			}
		}
	case *ssa.FreeVar:
		for i, p := range x.Parent().FreeVars {
			if p == x {
				return fmt.Sprintf("fv%d", i)
			}
		}
	case *ssa.Global:
		return "g:" + x.Pkg.Pkg.Path() + "." + x.Name()
	case *ssa.Function:
		return "fn:" + funcFullName(x)
	case *ssa.Builtin:
		return "bi:" + x.Name()
	case *ssa.BinOp:
		if isIntType(x.Type()) {
			lin := false
			switch x.Op {
			case token.ADD, token.SUB:
				lin = true
			case token.MUL:
				_, c1 := constInt64(stripConv(x.X))
				_, c2 := constInt64(stripConv(x.Y))
				lin = c1 || c2
			case token.SHL:
				k, c := constInt64(stripConv(x.Y))
				lin = c && k >= 0 && k < 62
			}
			if lin {
				// canonical linear form: x<<1, x*2, x+x and reordered sums get one value number
				L := a.lin(x, 0)
				if !(len(L.T) == 1 && L.K == 0 && L.T["v:"+x.Name()] == 1) {
					return "L{" + L.String() + "}"
				}
			}
		}
		l, r := a.VN(x.X), a.VN(x.Y)
		if commutative[x.Op] && r < l {
			l, r = r, l
		}
		return "(" + x.Op.String() + " " + l + " " + r + ")"
	case *ssa.UnOp:
		if x.Op == token.MUL {
			if sv := singleStoreCell(x.X); sv != nil {
				return a.VN(sv) // a parameter spilled into a cell because a closure captures it
			}
			return "ld(" + a.VN(x.X) + ")@" + a.Epoch(x)
		}
		if x.Op == token.ARROW {
			break
		}
		return "(" + x.Op.String() + " " + a.VN(x.X) + ")"
	case *ssa.Convert:
		return "cv:" + x.Type().String() + "(" + a.VN(x.X) + ")"
	case *ssa.ChangeType:
		return a.VN(x.X)
	case *ssa.IndexAddr:
		return "ia(" + a.VN(x.X) + "," + a.VN(x.Index) + ")"
	case *ssa.Index:
		return "ix(" + a.VN(x.X) + "," + a.VN(x.Index) + ")"
	case *ssa.FieldAddr:
		return fmt.Sprintf("fa(%s,#%d)", a.VN(x.X), x.Field)
	case *ssa.Field:
		return fmt.Sprintf("fld(%s,#%d)", a.VN(x.X), x.Field)
	case *ssa.Slice:
		return "sl(" + a.VN(x.X) + "," + a.VN(x.Low) + "," + a.VN(x.High) + "," + a.VN(x.Max) + ")"
	case *ssa.Extract:
		return fmt.Sprintf("ex(%s,#%d)", a.VN(x.Tuple), x.Index)
	case *ssa.Call:
		name := calleeName(x.Common())
		if f := x.Common().StaticCallee(); f != nil && f.Blocks != nil && a.W.InModule(f) && a.W.PureFunc(f) {
			var as []string
			for _, arg := range x.Common().Args {
				as = append(as, a.VN(arg))
			}
			if symmetricFirstTwo[name] && len(as) >= 2 && as[1] < as[0] {
				as[0], as[1] = as[1], as[0]
			}
			return "call:" + name + "(" + strings.Join(as, ",") + ")"
		}
		if pureCallee(name) {
			var as []string
			for _, arg := range x.Common().Args {
				as = append(as, a.VN(arg))
			}
			return "call:" + name + "(" + strings.Join(as, ",") + ")"
		}
	}
	return "v:" + v.Name()
}

// ---------- memory epochs (reaching writes) for loads ----------

// addrBase returns the root pointer of an address expression and whether the
// address is a struct field / global / element path.
func addrBase(v ssa.Value) ssa.Value {
	for {
		switch x := v.(type) {
		case *ssa.FieldAddr:
			v = x.X
		case *ssa.IndexAddr:
			v = x.X
		case *ssa.ChangeType:
			v = x.X
		case *ssa.Convert:
			v = x.X
		default:
			return v
		}
	}
}

// mayWrite reports whether ins may write the location loaded by ld.
func (a *FA) mayWrite(ins ssa.Instruction, ld *ssa.UnOp) bool {
	switch x := ins.(type) {
	case *ssa.Store:
		// same field index / same kind of address
		la, sa := ld.X, x.Addr
		if lf, ok := la.(*ssa.FieldAddr); ok {
			if sf, ok := sa.(*ssa.FieldAddr); ok {
				return lf.Field == sf.Field && types.Identical(lf.X.Type(), sf.X.Type())
			}
			// a store through another kind of pointer to a field-typed cell: alias if types match
			return types.Identical(sa.Type(), la.Type()) && !isAlloc(sa)
		}
		if _, ok := la.(*ssa.Global); ok {
			return sa == la
		}
		if li, ok := la.(*ssa.IndexAddr); ok {
			if si, ok := sa.(*ssa.IndexAddr); ok {
				return types.Identical(li.X.Type(), si.X.Type())
			}
		}
		return types.Identical(sa.Type(), la.Type())
	case ssa.CallInstruction:
		com := x.Common()
		name := calleeName(com)
		if pureCallee(name) || strings.HasPrefix(name, "builtin ") && name != "builtin copy" && name != "builtin append" {
			return false
		}
		// a call may write what it can reach: anything rooted at a pointer-like argument
		base := addrBase(ld.X)
		bvn := a.VN(base)
		args := com.Args
		if com.IsInvoke() {
			args = append([]ssa.Value{com.Value}, args...)
		}
		for _, arg := range args {
			if a.VN(addrBase(arg)) == bvn {
				return true
			}
		}
		if g, ok := base.(*ssa.Global); ok {
			// callee in the same module might write the global
			if f := com.StaticCallee(); f != nil && a.W.InModule(f) {
				return writesGlobal(f, g, map[*ssa.Function]bool{})
			}
		}
		return false
	}
	return false
}

func isAlloc(v ssa.Value) bool { _, ok := v.(*ssa.Alloc); return ok }

func writesGlobal(f *ssa.Function, g *ssa.Global, seen map[*ssa.Function]bool) bool {
	if seen[f] || f.Blocks == nil {
		return false
	}
	seen[f] = true
	found := false
	eachInstr(f, func(ins ssa.Instruction) {
		switch x := ins.(type) {
		case *ssa.Store:
			if addrBase(x.Addr) == g {
				found = true
			}
		case ssa.CallInstruction:
			if c := x.Common().StaticCallee(); c != nil && writesGlobal(c, g, seen) {
				found = true
			}
		}
	})
	return found
}

// Epoch identifies the set of writes that may reach a load. Loads of the same
// address with the same epoch yield the same value.
func (a *FA) Epoch(ld *ssa.UnOp) string {
	if a.epoch == nil {
		a.epoch = map[*ssa.UnOp]string{}
	}
	if s, ok := a.epoch[ld]; ok {
		return s
	}
	a.epoch[ld] = "?"
	// backward search from ld: collect the nearest may-writes on every path
	type item struct {
		b   *ssa.BasicBlock
		idx int // scan instructions idx-1 .. 0
	}
	var found []string
	seen := map[*ssa.BasicBlock]bool{}
	var work []item
	pos := -1
	for i, ins := range ld.Block().Instrs {
		if ins == ld {
			pos = i
		}
	}
	work = append(work, item{ld.Block(), pos})
	entry := false
	for len(work) > 0 {
		it := work[len(work)-1]
		work = work[:len(work)-1]
		hit := false
		for i := it.idx - 1; i >= 0; i-- {
			ins := it.b.Instrs[i]
			if a.mayWrite(ins, ld) {
				found = append(found, fmt.Sprintf("%d.%d", it.b.Index, i))
				hit = true
				break
			}
		}
		if hit {
			continue
		}
		if len(it.b.Preds) == 0 {
			entry = true
		}
		for _, p := range it.b.Preds {
			if !seen[p] {
				seen[p] = true
				work = append(work, item{p, len(p.Instrs)})
			}
		}
	}
	if entry {
		found = append(found, "entry")
	}
	sort.Strings(found)
	// dedup
	var out []string
	for i, s := range found {
		if i == 0 || s != found[i-1] {
			out = append(out, s)
		}
	}
	s := strings.Join(out, "+")
	a.epoch[ld] = s
	return s
}

// ---------- linear forms ----------

// Lin is K + sum coef*atom; atoms are value numbers.
type Lin struct {
	K int64
	T map[string]int64
}

func (l Lin) clone() Lin {
	n := Lin{K: l.K, T: map[string]int64{}}
	for k, v := range l.T {
		n.T[k] = v
	}
	return n
}

func (l Lin) addScaled(o Lin, s int64) Lin {
	n := l.clone()
	n.K += s * o.K
	for k, v := range o.T {
		n.T[k] += s * v
		if n.T[k] == 0 {
			delete(n.T, k)
		}
	}
	return n
}

func (l Lin) Sub(o Lin) Lin { return l.addScaled(o, -1) }
func (l Lin) Add(o Lin) Lin { return l.addScaled(o, 1) }
func (l Lin) Neg() Lin      { return Lin{T: map[string]int64{}}.addScaled(l, -1) }
func (l Lin) IsConst() bool { return len(l.T) == 0 }

func (l Lin) Eq(o Lin) bool {
	d := l.Sub(o)
	return d.K == 0 && len(d.T) == 0
}

func (l Lin) String() string {
	var ks []string
	for k := range l.T {
		ks = append(ks, k)
	}
	sort.Strings(ks)
	var sb strings.Builder
	for _, k := range ks {
		fmt.Fprintf(&sb, "%+d*%s ", l.T[k], k)
	}
	fmt.Fprintf(&sb, "%+d", l.K)
	return sb.String()
}

func linConst(k int64) Lin { return Lin{K: k, T: map[string]int64{}} }
func linAtom(s string) Lin { return Lin{T: map[string]int64{s: 1}} }

// Lin computes the linear form of an integer value; integer conversions are
// transparent (stated in DESIGN.md 7.1).
func (a *FA) Lin(v ssa.Value) Lin {
	return a.lin(v, 0)
}

func (a *FA) lin(v ssa.Value, depth int) Lin {
	if depth > 40 {
		return linAtom(a.VN(v))
	}
	v = stripConv(v)
	if k, ok := constInt64(v); ok {
		return linConst(k)
	}
	switch x := v.(type) {
	case *ssa.BinOp:
		switch x.Op {
		case token.ADD:
			return a.lin(x.X, depth+1).Add(a.lin(x.Y, depth+1))
		case token.SUB:
			return a.lin(x.X, depth+1).Sub(a.lin(x.Y, depth+1))
		case token.MUL:
			if k, ok := constInt64(stripConv(x.Y)); ok {
				return linConst(0).addScaled(a.lin(x.X, depth+1), k)
			}
			if k, ok := constInt64(stripConv(x.X)); ok {
				return linConst(0).addScaled(a.lin(x.Y, depth+1), k)
			}
			// a product with a genuine sum distributes: w*(j+1) = w*j + w. Products of two atoms keep the name the
			// value numbering gives them, "(* l r)" with sorted operands, so that both spellings meet.
			if isIntType(x.Type()) {
				LX, LY := a.lin(x.X, depth+1), a.lin(x.Y, depth+1)
				nx, ny := len(LX.T), len(LY.T)
				if LX.K != 0 {
					nx++
				}
				if LY.K != 0 {
					ny++
				}
				if nx > 1 || ny > 1 {
					if res, ok := linMul(LX, LY); ok {
						return res
					}
				}
			}
		case token.SHL:
			if k, ok := constInt64(stripConv(x.Y)); ok && k >= 0 && k < 62 {
				return linConst(0).addScaled(a.lin(x.X, depth+1), int64(1)<<uint(k))
			}
		case token.OR:
			// x | (2^c-1)  ==  ((x >> c) << c) + 2^c-1   (the last position of x's 2^c-aligned block, signed or unsigned)
			if os.Getenv("LOWCHECK_NOALIGNNORM") == "" {
				for _, side := range [2][2]ssa.Value{{x.X, x.Y}, {x.Y, x.X}} {
					if k, ok := constInt64(stripConv(side[1])); ok && k > 0 {
						if c, ok := log2(uint64(k) + 1); ok && c > 0 && c < 32 {
							sh := "(>> " + a.VN(side[0]) + " c:" + fmt.Sprint(c) + ")"
							return linConst(k).addScaled(linAtom(sh), int64(1)<<uint(c))
						}
					}
				}
			}
		case token.AND, token.AND_NOT:
			// x &^ (2^c-1)  ==  x & -2^c  ==  (x >> c) << c   (floor to a multiple of 2^c, signed or unsigned)
			if os.Getenv("LOWCHECK_NOALIGNNORM") == "" {
				if ax, c, ok := asAlignDown(x); ok && c > 0 && c < 32 {
					sh := "(>> " + a.VN(ax) + " c:" + fmt.Sprint(c) + ")"
					return linConst(0).addScaled(linAtom(sh), int64(1)<<uint(c))
				}
			}
		}
	case *ssa.UnOp:
		if x.Op == token.SUB {
			return a.lin(x.X, depth+1).Neg()
		}
	case *ssa.Phi:
		// a merge of one and the same value (a result variable assigned the same thing before every exit)
		if !isLoopHeaderPhi(x) && len(x.Edges) > 0 && depth < 6 {
			same := true
			for _, e := range x.Edges[1:] {
				if stripConv(e) != stripConv(x.Edges[0]) || !types.Identical(e.Type(), x.Edges[0].Type()) {
					same = false
				}
			}
			if same && types.Identical(x.Edges[0].Type(), x.Type()) {
				return a.lin(x.Edges[0], depth+1)
			}
		}
		// counters that move in lockstep (for src, dst := from, 0; ..; src, dst = src+1, dst+1) are one counter and an
		// offset: every counter of a loop header is expressed through the first one with the same step
		if isLoopHeaderPhi(x) && isIntType(x.Type()) {
			if af := a.affineOf(x); af != nil && af.ok {
				for _, ins := range x.Block().Instrs {
					q, isPhi := ins.(*ssa.Phi)
					if !isPhi {
						break
					}
					if q == x {
						break // x is the canonical counter itself
					}
					if !isIntType(q.Type()) || !types.Identical(q.Type(), x.Type()) {
						continue
					}
					if aq := a.affineOf(q); aq != nil && aq.ok && aq.step == af.step {
						return linAtom(a.VN(q)).Add(af.init.Sub(aq.init))
					}
				}
			}
		}
	case *ssa.Call:
		// len(x[lo:hi]) = hi - lo, len(x[lo:]) = len(x) - lo   (slices and strings; a helper that returns a sub-slice
		// and is measured by its caller must read like the arithmetic on the lengths it stands for)
		if b, ok := x.Call.Value.(*ssa.Builtin); ok && b.Name() == "len" && len(x.Call.Args) == 1 {
			// len(make([]T, n)) = n (a slice value is immutable: later appends produce other values)
			if mk, ok := x.Call.Args[0].(*ssa.MakeSlice); ok {
				return a.lin(mk.Len, depth+1)
			}
			if sl, ok := x.Call.Args[0].(*ssa.Slice); ok {
				if _, isPtr := sl.X.Type().Underlying().(*types.Pointer); !isPtr {
					var hi Lin
					if sl.High != nil {
						hi = a.lin(sl.High, depth+1)
					} else {
						hi = a.lenOf(sl.X, depth+1)
					}
					if sl.Low != nil {
						return hi.Sub(a.lin(sl.Low, depth+1))
					}
					return hi
				}
			}
		}
	}
	return linAtom(a.VN(v))
}

// loopExit: one CFG edge that leaves a natural loop, with the branch it is taken on (If == nil: unconditional).
type loopExit struct {
	From *ssa.BasicBlock
	If   *ssa.If
	Cond ssa.Value // condition with negations stripped
	Pol  bool      // truth value of Cond on the exiting edge
}

// loopExits lists the edges that leave the natural loop with header hdr.
func (a *FA) loopExits(hdr *ssa.BasicBlock) []loopExit {
	// the natural loop of hdr: hdr plus everything that reaches one of its latches without passing through hdr
	body := map[*ssa.BasicBlock]bool{hdr: true}
	var st []*ssa.BasicBlock
	for _, p := range hdr.Preds {
		if hdr.Dominates(p) && !body[p] {
			body[p] = true
			st = append(st, p)
		}
	}
	for len(st) > 0 {
		b := st[len(st)-1]
		st = st[:len(st)-1]
		for _, p := range b.Preds {
			if !body[p] {
				body[p] = true
				st = append(st, p)
			}
		}
	}
	inLoop := func(b *ssa.BasicBlock) bool { return body[b] }
	var out []loopExit
	for _, b := range hdr.Parent().Blocks {
		if !inLoop(b) {
			continue
		}
		for k, sc := range b.Succs {
			if inLoop(sc) {
				continue
			}
			ex := loopExit{From: b}
			if ifi, ok := b.Instrs[len(b.Instrs)-1].(*ssa.If); ok && len(b.Succs) == 2 {
				ex.If = ifi
				ex.Cond, ex.Pol = ifi.Cond, k == 0
				for {
					u, ok := ex.Cond.(*ssa.UnOp)
					if !ok || u.Op != token.NOT {
						break
					}
					ex.Cond, ex.Pol = u.X, !ex.Pol
				}
			}
			out = append(out, ex)
		}
	}
	return out
}

// loopBody: the natural loop of hdr (empty when hdr has no back edge).
func loopBody(hdr *ssa.BasicBlock) map[*ssa.BasicBlock]bool {
	body := map[*ssa.BasicBlock]bool{}
	var st []*ssa.BasicBlock
	for _, p := range hdr.Preds {
		if hdr.Dominates(p) && !body[p] {
			body[p] = true
			st = append(st, p)
		}
	}
	if len(st) == 0 {
		return body
	}
	body[hdr] = true
	for len(st) > 0 {
		b := st[len(st)-1]
		st = st[:len(st)-1]
		if b == hdr {
			continue
		}
		for _, p := range b.Preds {
			if !body[p] {
				body[p] = true
				st = append(st, p)
			}
		}
	}
	return body
}

// inSomeLoop reports the header of a natural loop whose body contains b (control can come round again after b).
func inSomeLoop(b *ssa.BasicBlock) *ssa.BasicBlock {
	for _, h := range b.Parent().Blocks {
		if body := loopBody(h); body[b] {
			return h
		}
	}
	return nil
}

// earlyExit: a loop that is meant to visit every value of its counter up to the guard's bound is left only through a
// test of that counter; returns a description of another way out (break on a different condition, return), or "".
func (a *FA) earlyExit(iv *LoopIV) string {
	if iv == nil || iv.Phi == nil {
		return ""
	}
	phiAtom := a.VN(iv.Phi)
	for _, ex := range a.loopExits(iv.Phi.Block()) {
		if ex.If == nil {
			return "the loop is left unconditionally at " + a.W.InstrPos(ex.From.Instrs[len(ex.From.Instrs)-1])
		}
		if D, _, ok := a.CondRel(Cond{V: ex.Cond, Pol: ex.Pol, If: ex.If}); ok && D.T[phiAtom] != 0 {
			continue
		}
		return "the loop is also left on the branch at " + a.W.InstrPos(ex.If) + ", which does not test the counter: the remaining elements are not visited"
	}
	return ""
}

// linMul multiplies two small linear forms with unit coefficients: the products of their atoms carry the name the
// value numbering gives to a product of those two values, "(* l r)" with sorted operands.
func linMul(LX, LY Lin) (Lin, bool) {
	unit := func(L Lin) bool {
		for _, c := range L.T {
			if c != 1 && c != -1 {
				return false
			}
		}
		return true
	}
	if len(LX.T) > 3 || len(LY.T) > 3 || !unit(LX) || !unit(LY) {
		return Lin{}, false
	}
	res := linConst(LX.K * LY.K)
	res = res.addScaled(Lin{T: LX.T}, LY.K)
	res = res.addScaled(Lin{T: LY.T}, LX.K)
	for ax, cx := range LX.T {
		for ay, cy := range LY.T {
			l, r := ax, ay
			if r < l {
				l, r = r, l
			}
			name := "(* " + l + " " + r + ")"
			res.T[name] += cx * cy
			if res.T[name] == 0 {
				delete(res.T, name)
			}
		}
	}
	return res, true
}

// LinAlts expands the merge phis (not loop-header phis) that occur as atoms of the linear form of v into their
// alternatives: the finite set of linear forms v can take (at most cap forms, else the unexpanded form alone).
func (a *FA) LinAlts(v ssa.Value, cap int) []Lin {
	out := []Lin{a.Lin(v)}
	for round := 0; round < 6; round++ {
		changed := false
		var next []Lin
		for _, L := range out {
			expanded := false
			for atom, cf := range L.T {
				p, ok := a.AtomValue(atom).(*ssa.Phi)
				if !ok || isLoopHeaderPhi(p) {
					continue
				}
				rest := L.clone()
				delete(rest.T, atom)
				for _, e := range p.Edges {
					next = append(next, rest.addScaled(a.Lin(e), cf))
				}
				expanded, changed = true, true
				break
			}
			if !expanded {
				next = append(next, L)
			}
		}
		if len(next) > cap {
			return []Lin{a.Lin(v)}
		}
		out = next
		if !changed {
			break
		}
	}
	return out
}

// affineOf: initial value and constant step of a loop-header phi (all back edges add the same constant, all entry
// edges agree on the initial value).
func (a *FA) affineOf(p *ssa.Phi) *phiAffine {
	if a.affine == nil {
		a.affine = map[*ssa.Phi]*phiAffine{}
	}
	if af, ok := a.affine[p]; ok {
		if af.busy {
			return nil
		}
		return af
	}
	af := &phiAffine{busy: true}
	a.affine[p] = af
	pl := linAtom(a.VN(p))
	var init *Lin
	okAll, haveStep := true, false
	for i, e := range p.Edges {
		el := a.lin(e, 1)
		if p.Block().Dominates(p.Block().Preds[i]) { // back edge
			d := el.Sub(pl)
			if !d.IsConst() || d.K == 0 || haveStep && d.K != af.step {
				okAll = false
				break
			}
			af.step, haveStep = d.K, true
			continue
		}
		if _, dep := el.T[a.VN(p)]; dep {
			okAll = false
			break
		}
		if init != nil && !init.Eq(el) {
			okAll = false
			break
		}
		e2 := el
		init = &e2
	}
	af.busy = false
	if okAll && haveStep && init != nil {
		af.init, af.ok = *init, true
	}
	return af
}

// lenOf: the linear form of len(x) for a slice or string value x that is not itself the operand of a len call.
func (a *FA) lenOf(x ssa.Value, depth int) Lin {
	if mk, ok := x.(*ssa.MakeSlice); ok {
		return a.lin(mk.Len, depth+1)
	}
	if sl, ok := x.(*ssa.Slice); ok {
		if _, isPtr := sl.X.Type().Underlying().(*types.Pointer); !isPtr {
			var hi Lin
			if sl.High != nil {
				hi = a.lin(sl.High, depth+1)
			} else {
				hi = a.lenOf(sl.X, depth+1)
			}
			if sl.Low != nil {
				return hi.Sub(a.lin(sl.Low, depth+1))
			}
			return hi
		}
	}
	return linAtom("call:builtin len(" + a.VN(x) + ")")
}

// ---------- dominating conditions ----------

// Cond: value V has truth value Pol on every path to the block.
type Cond struct {
	V   ssa.Value
	Pol bool
	If  *ssa.If
}

func blockDominates(a, b *ssa.BasicBlock) bool { return a.Dominates(b) }

// edgeDominates reports whether the CFG edge from->to dominates block b.
func edgeDominates(from, to, b *ssa.BasicBlock) bool {
	if !to.Dominates(b) {
		return false
	}
	for _, p := range to.Preds {
		if p == from {
			continue
		}
		if !to.Dominates(p) {
			return false
		}
	}
	// if both successors are the same block the edge tells nothing
	return true
}

// Conds returns the branch conditions that hold on entry to block b.
func (a *FA) Conds(b *ssa.BasicBlock) []Cond {
	if c, ok := a.conds[b]; ok {
		return c
	}
	var out []Cond
	for d := b.Idom(); d != nil; d = d.Idom() {
		ifi, ok := d.Instrs[len(d.Instrs)-1].(*ssa.If)
		if !ok || len(d.Succs) != 2 || d.Succs[0] == d.Succs[1] {
			continue
		}
		for k := 0; k < 2; k++ {
			if edgeDominates(d, d.Succs[k], b) {
				v, pol := ifi.Cond, k == 0
				for {
					if u, ok := v.(*ssa.UnOp); ok && u.Op == token.NOT {
						v, pol = u.X, !pol
						continue
					}
					break
				}
				out = append(out, Cond{V: v, Pol: pol, If: ifi})
			}
		}
	}
	// a block that is itself the unique target of an edge from its idom is covered above
	a.conds[b] = out
	return out
}

// Rel is a canonical relation "L op 0".
type relOp int

const (
	opLT relOp = iota
	opLE
	opGT
	opGE
	opEQ
	opNE
)

func (o relOp) String() string { return [...]string{"<", "<=", ">", ">=", "==", "!="}[o] }

func negOp(o relOp) relOp {
	return [...]relOp{opGE, opGT, opLE, opLT, opNE, opEQ}[o]
}
func flipOp(o relOp) relOp { // a op b  <=>  b flip(op) a
	return [...]relOp{opGT, opGE, opLT, opLE, opEQ, opNE}[o]
}

func tokOp(t token.Token) (relOp, bool) {
	switch t {
	case token.LSS:
		return opLT, true
	case token.LEQ:
		return opLE, true
	case token.GTR:
		return opGT, true
	case token.GEQ:
		return opGE, true
	case token.EQL:
		return opEQ, true
	case token.NEQ:
		return opNE, true
	}
	return 0, false
}

// CondRel turns an integer comparison condition into (D, op) meaning "D op 0".
func (a *FA) CondRel(c Cond) (Lin, relOp, bool) {
	bo, ok := c.V.(*ssa.BinOp)
	if !ok {
		return Lin{}, 0, false
	}
	op, ok := tokOp(bo.Op)
	if !ok || !isIntType(bo.X.Type()) {
		return Lin{}, 0, false
	}
	if !c.Pol {
		op = negOp(op)
	}
	return a.Lin(bo.X).Sub(a.Lin(bo.Y)), op, true
}

// Bounds is an integer interval with optional ends.
type Bounds struct {
	Lo, Hi       int64
	HasLo, HasHi bool
	Why          []string
}

func (b Bounds) String() string {
	lo, hi := "-inf", "+inf"
	if b.HasLo {
		lo = fmt.Sprint(b.Lo)
	}
	if b.HasHi {
		hi = fmt.Sprint(b.Hi)
	}
	return "[" + lo + "," + hi + "]"
}

func (b *Bounds) upper(h int64, why string) {
	if !b.HasHi || h < b.Hi {
		b.Hi, b.HasHi = h, true
	}
	b.Why = append(b.Why, why)
}
func (b *Bounds) lower(l int64, why string) {
	if !b.HasLo || l > b.Lo {
		b.Lo, b.HasLo = l, true
	}
	b.Why = append(b.Why, why)
}

// BoundsAt derives the interval of linear form L implied by the branch
// conditions dominating block blk (no solving: only conditions whose canonical
// form is +-L + const).
func (a *FA) BoundsAt(blk *ssa.BasicBlock, L Lin) Bounds {
	return a.boundsFrom(a.Conds(blk), L)
}

func (a *FA) boundsFrom(conds []Cond, L Lin) Bounds {
	var bd Bounds
	// L = +-atom + k: what is known about the atom alone (its intrinsic range, tests of it against constants) carries over
	if len(L.T) == 1 {
		for atom, cf := range L.T {
			if (cf == 1 && L.K != 0) || cf == -1 {
				sub := a.boundsFrom(conds, linAtom(atom))
				if cf == 1 {
					if sub.HasLo {
						bd.lower(sub.Lo+L.K, "from the atom")
					}
					if sub.HasHi {
						bd.upper(sub.Hi+L.K, "from the atom")
					}
				} else {
					if sub.HasLo {
						bd.upper(-sub.Lo+L.K, "from the atom")
					}
					if sub.HasHi {
						bd.lower(-sub.Hi+L.K, "from the atom")
					}
				}
			}
		}
	}
	// what the value is by construction: a math/bits count lies in [0, width]; a length or capacity is >= 0
	if v := a.AtomValueOfLin(L); v != nil {
		if call, ok := v.(*ssa.Call); ok {
			name := calleeName(call.Common())
			if name == "builtin len" || name == "builtin cap" {
				bd.lower(0, "a length")
			}
			if wd := bitsCountWidth(name); wd > 0 {
				bd.lower(0, "a bit count")
				bd.upper(wd, "a bit count")
				// LeadingZeros(x) / TrailingZeros(x) reach the full width exactly for x == 0
				if strings.Contains(name, "LeadingZeros") || strings.Contains(name, "TrailingZeros") {
					arg := stripConv(call.Common().Args[0])
					for _, c := range conds {
						bo, ok := c.V.(*ssa.BinOp)
						if !ok || (bo.Op != token.NEQ && bo.Op != token.EQL) {
							continue
						}
						for _, side := range [2][2]ssa.Value{{bo.X, bo.Y}, {bo.Y, bo.X}} {
							if k, isK := constUint64(stripConv(side[1])); isK && k == 0 && a.VN(stripConv(side[0])) == a.VN(arg) {
								if (bo.Op == token.NEQ) == c.Pol {
									bd.upper(wd-1, "the counted word is non-zero")
								}
							}
						}
					}
				}
			}
		}
	}
	var ne []int64 // L != k
	for _, c := range conds {
		D, op, ok := a.CondRel(c)
		if !ok {
			continue
		}
		why := fmt.Sprintf("%s %s 0 (branch at %s)", D, op, a.W.InstrPos(c.If))
		if d := D.Sub(L); d.IsConst() {
			// L + k op 0
			applyRel(&bd, d.K, op, why)
			if op == opNE {
				ne = append(ne, -d.K)
			}
		} else if d := D.Add(L); d.IsConst() {
			// -L + k op 0  <=>  L - k flip(op) 0
			applyRel(&bd, -d.K, flipOp(op), why)
			if op == opNE {
				ne = append(ne, d.K)
			}
		}
	}
	// an excluded end point tightens the interval
	for round := 0; round < 3; round++ {
		for _, k := range ne {
			if bd.HasHi && bd.Hi == k {
				bd.Hi = k - 1
			}
			if bd.HasLo && bd.Lo == k {
				bd.Lo = k + 1
			}
		}
	}
	return bd
}

// bitsCountWidth: the largest value a math/bits counting function returns (0: not such a function; platform-width
// variants are left out).
func bitsCountWidth(name string) int64 {
	if !strings.HasPrefix(name, "math/bits.") {
		return 0
	}
	n := strings.TrimPrefix(name, "math/bits.")
	for _, p := range []string{"LeadingZeros", "TrailingZeros", "OnesCount", "Len"} {
		if strings.HasPrefix(n, p) {
			switch strings.TrimPrefix(n, p) {
			case "64":
				return 64
			case "32":
				return 32
			case "16":
				return 16
			case "8":
				return 8
			}
		}
	}
	return 0
}

// applyRel: L + k op 0
func applyRel(bd *Bounds, k int64, op relOp, why string) {
	switch op {
	case opLT:
		bd.upper(-k-1, why)
	case opLE:
		bd.upper(-k, why)
	case opGT:
		bd.lower(-k+1, why)
	case opGE:
		bd.lower(-k, why)
	case opEQ:
		bd.upper(-k, why)
		bd.lower(-k, why)
	}
}

// Reaches reports CFG reachability from block x to block y (x==y counts only via a cycle... no: reflexive).
func (a *FA) Reaches(x, y *ssa.BasicBlock) bool {
	if x == y {
		return true
	}
	if a.reach == nil {
		a.reach = map[*ssa.BasicBlock]map[*ssa.BasicBlock]bool{}
	}
	m, ok := a.reach[x]
	if !ok {
		m = map[*ssa.BasicBlock]bool{}
		var st []*ssa.BasicBlock
		st = append(st, x.Succs...)
		for len(st) > 0 {
			b := st[len(st)-1]
			st = st[:len(st)-1]
			if m[b] {
				continue
			}
			m[b] = true
			st = append(st, b.Succs...)
		}
		a.reach[x] = m
	}
	return m[y]
}

// instrDominates: instruction x executes before y on every path to y.
func instrDominates(x, y ssa.Instruction) bool {
	bx, by := x.Block(), y.Block()
	if bx == by {
		for _, ins := range bx.Instrs {
			if ins == x {
				return true
			}
			if ins == y {
				return false
			}
		}
		return false
	}
	return bx.Dominates(by)
}

// Returns lists the return instructions of a function.
func returnsOf(fn *ssa.Function) []*ssa.Return {
	var out []*ssa.Return
	eachInstr(fn, func(ins ssa.Instruction) {
		if r, ok := ins.(*ssa.Return); ok {
			out = append(out, r)
		}
	})
	return out
}

// resolvePhi expands a value through Phi nodes into its non-phi sources.
func resolvePhi(v ssa.Value) []ssa.Value {
	var out []ssa.Value
	seen := map[ssa.Value]bool{}
	var rec func(ssa.Value)
	rec = func(v ssa.Value) {
		if seen[v] {
			return
		}
		seen[v] = true
		if p, ok := v.(*ssa.Phi); ok {
			for _, e := range p.Edges {
				rec(e)
			}
			return
		}
		out = append(out, v)
	}
	rec(v)
	return out
}

// AtomValue returns a representative SSA value for an atom of a linear form.
func (a *FA) AtomValue(atom string) ssa.Value { return a.atomVal[atom] }

// LoopIV describes "idx runs 0,1,2,... while idx < N".
type LoopIV struct {
	Phi        *ssa.Phi
	First      int64 // value of idx in the first iteration (valid if FirstConst)
	FirstLin   Lin   // same, as a linear form (parameters allowed)
	FirstConst bool
	Step       int64
	N          Lin // exclusive upper bound established by the dominating guard (valid if HasN)
	HasN       bool
	// a guard on a multiple of the index, `Scale*idx < ScaledN` (e.g. `w<<6 < end` for a word counter w)
	Scale      int64
	ScaledN    Lin
	HasScaledN bool
	Facts      []string
}

// InductionOf analyses an index value used in block use: idx = phi + k with
// phi = [init, phi + step].
func (a *FA) InductionOf(idx ssa.Value, use *ssa.BasicBlock) (*LoopIV, bool) {
	L := a.Lin(idx)
	var phi *ssa.Phi
	var phiAtom string
	for atom, coef := range L.T {
		if p, ok := a.AtomValue(atom).(*ssa.Phi); ok && coef == 1 {
			if phi != nil {
				return nil, false
			}
			phi, phiAtom = p, atom
		}
	}
	if phi == nil || len(phi.Edges) < 2 {
		return nil, false
	}
	iv := &LoopIV{Phi: phi}
	pl := linAtom(phiAtom)
	found := false
	// edges are either "phi + step" (back edges, possibly several: continue statements) or the initial value
	var initL *Lin
	for _, e := range phi.Edges {
		el := a.Lin(e)
		if d := el.Sub(pl); d.IsConst() && d.K != 0 {
			if found && iv.Step != d.K {
				return nil, false
			}
			iv.Step = d.K
			found = true
			continue
		}
		if _, dep := el.T[phiAtom]; dep {
			return nil, false
		}
		if initL != nil && !initL.Eq(el) {
			return nil, false
		}
		e2 := el
		initL = &e2
	}
	if !found || initL == nil {
		return nil, false
	}
	rest := L.Sub(pl)
	iv.FirstLin = initL.Add(rest)
	iv.FirstConst = iv.FirstLin.IsConst()
	iv.First = iv.FirstLin.K
	if !found {
		return nil, false
	}
	iv.Facts = append(iv.Facts, fmt.Sprintf("index %s: first value %s, step %d", L, iv.FirstLin, iv.Step))
	// loop guard: a dominating condition D op 0 where D = idx - N; the test in the
	// loop header itself is preferred over guards nested in the body
	for pass := 0; pass < 2 && !iv.HasN; pass++ {
		for _, c := range a.Conds(use) {
			if pass == 0 && c.If.Block() != phi.Block() {
				continue
			}
			D, op, ok := a.CondRel(c)
			if !ok {
				continue
			}
			if D.T[phiAtom] == 1 && (op == opLT || op == opLE) {
				n := L.Sub(D)
				if op == opLE {
					n.K++
				}
				iv.N, iv.HasN = n, true
				iv.Facts = append(iv.Facts, fmt.Sprintf("guard at %s: index < %s", a.W.InstrPos(c.If), n))
				break
			}
			if D.T[phiAtom] == -1 && (op == opGT || op == opGE) {
				n := L.Add(D)
				if op == opGE {
					n.K++
				}
				iv.N, iv.HasN = n, true
				iv.Facts = append(iv.Facts, fmt.Sprintf("guard at %s: index < %s", a.W.InstrPos(c.If), n))
				break
			}
			if cf := D.T[phiAtom]; !iv.HasScaledN && (cf > 1 && (op == opLT || op == opLE) || cf < -1 && (op == opGT || op == opGE)) {
				// cf*phi + R < 0  <=>  cf*idx < cf*idx - D
				sc, DD := cf, D
				if cf < 0 {
					sc, DD = -cf, D.Neg()
				}
				n := linConst(0).addScaled(L, sc).Sub(DD)
				if op == opLE || op == opGE {
					n.K++
				}
				iv.Scale, iv.ScaledN, iv.HasScaledN = sc, n, true
				iv.Facts = append(iv.Facts, fmt.Sprintf("guard at %s: %d*index < %s", a.W.InstrPos(c.If), sc, n))
			}
		}
	}
	return iv, true
}

// AtomValueOfLin: the representative value of a linear form that is exactly one atom with coefficient 1.
func (a *FA) AtomValueOfLin(L Lin) ssa.Value {
	if len(L.T) != 1 || L.K != 0 {
		return nil
	}
	for atom, coef := range L.T {
		if coef == 1 {
			return a.AtomValue(atom)
		}
	}
	return nil
}

// symmetricFirstTwo: in-module pure functions that are symmetric in their first two arguments.
// shiftMulti(a, b, h) = sum_{i+j>=h} a_i b_j 2^(i+j-h) is symmetric in (a, b) (DESIGN.md E9 exception).
var symmetricFirstTwo = map[string]bool{"github.com/openacid/low/bmtree.shiftMulti": true}

// singleStoreCell: addr is a local cell that is stored exactly once (with a value defined
// before any load) and never stored to by a capturing closure; returns the stored value.
func singleStoreCell(addr ssa.Value) ssa.Value {
	al, ok := addr.(*ssa.Alloc)
	if !ok || al.Referrers() == nil {
		return nil
	}
	var stored ssa.Value
	for _, ref := range *al.Referrers() {
		switch x := ref.(type) {
		case *ssa.Store:
			if x.Addr != ssa.Value(al) {
				return nil // the address itself is stored somewhere
			}
			if stored != nil {
				return nil
			}
			stored = x.Val
		case *ssa.UnOp:
		case *ssa.DebugRef:
		case *ssa.MakeClosure:
			cl := x.Fn.(*ssa.Function)
			for i, b := range x.Bindings {
				if b != ssa.Value(al) {
					continue
				}
				fv := cl.FreeVars[i]
				if fv.Referrers() != nil {
					for _, r2 := range *fv.Referrers() {
						if st, ok := r2.(*ssa.Store); ok && st.Addr == ssa.Value(fv) {
							return nil
						}
						if _, ok := r2.(*ssa.UnOp); !ok {
							if _, ok := r2.(*ssa.Store); !ok {
								return nil
							}
						}
					}
				}
			}
		default:
			return nil
		}
	}
	if _, isParam := stored.(*ssa.Parameter); !isParam {
		return nil
	}
	return stored
}

// elemLoadLin: v is cont[idx] with idx as a linear form. Besides a plain element load this recognises the
// "predecessor carried round the loop" spelling - prev := xs[a]; for i := a+1; ..; i++ { cur := xs[i]; use(prev, cur);
// prev = cur } - where the loop-header phi prev is xs[i-1] in every iteration: its entry value is xs[init-step+k] and
// every back edge brings xs[i+k] for the counter i (init, step) of the same loop header.
func (a *FA) elemLoadLin(v ssa.Value) (ssa.Value, Lin, bool) {
	if c, i, ok := asElemLoad(v); ok {
		// an element of a re-sliced view xs[lo:][k] is element lo+k of xs
		if _, isSl := c.(*ssa.Slice); isSl {
			if off, okOff := sliceOffset(a, c); okOff {
				base := c
				for depth := 0; depth < 8; depth++ {
					sl, ok := base.(*ssa.Slice)
					if !ok {
						break
					}
					if _, isPtr := sl.X.Type().Underlying().(*types.Pointer); isPtr {
						break
					}
					base = sl.X
				}
				return base, a.Lin(i).Add(off), true
			}
		}
		return c, a.Lin(i), true
	}
	p, ok := stripConv(v).(*ssa.Phi)
	if !ok || !isLoopHeaderPhi(p) {
		return nil, Lin{}, false
	}
	var cont ssa.Value
	var iv *ssa.Phi
	var k Lin
	haveBack := false
	var entry []Lin
	for i, e := range p.Edges {
		c, idx, ok := asElemLoad(e)
		if !ok {
			return nil, Lin{}, false
		}
		if cont == nil {
			cont = c
		} else if a.VN(cont) != a.VN(c) {
			return nil, Lin{}, false
		}
		L := a.Lin(idx)
		if !p.Block().Dominates(p.Block().Preds[i]) {
			entry = append(entry, L)
			continue
		}
		// back edge: index = counter + const
		var q *ssa.Phi
		for atom, cf := range L.T {
			if ph, ok := a.AtomValue(atom).(*ssa.Phi); ok && cf == 1 && ph.Block() == p.Block() {
				q = ph
			}
		}
		if q == nil || len(L.T) != 1 {
			return nil, Lin{}, false
		}
		off := L.Sub(linAtom(a.VN(q)))
		if haveBack && (q != iv || !off.Eq(k)) {
			return nil, Lin{}, false
		}
		iv, k, haveBack = q, off, true
	}
	if !haveBack || len(entry) == 0 {
		return nil, Lin{}, false
	}
	af := a.affineOf(iv)
	if af == nil || !af.ok || af.step == 0 {
		return nil, Lin{}, false
	}
	want := af.init.Add(linConst(-af.step)).Add(k)
	for _, e := range entry {
		if !e.Eq(want) {
			return nil, Lin{}, false
		}
	}
	return cont, linAtom(a.VN(iv)).Add(linConst(-af.step)).Add(k), true
}

// innermostLoop: the header of the smallest natural loop whose body contains b (nil: b is in no loop).
func innermostLoop(b *ssa.BasicBlock) *ssa.BasicBlock {
	var best *ssa.BasicBlock
	bestN := 0
	for _, h := range b.Parent().Blocks {
		if body := loopBody(h); body[b] && (best == nil || len(body) < bestN) {
			best, bestN = h, len(body)
		}
	}
	return best
}

// GuardResolved: merged variables whose value at blk is known from a guard. A variable initialised to a constant and
// assigned in one branch (`f, d := 0, 0; if c { f, d = ..., ... }; if f > 0 { use f, d }`) is a merge of the constant and
// the computed value; under a dominating test that the constant fails, the merge is the computed value - and so are the
// other variables merged at the same point (the same incoming edge was taken for all of them).
func (a *FA) GuardResolved(blk *ssa.BasicBlock) map[*ssa.Phi]ssa.Value {
	out := map[*ssa.Phi]ssa.Value{}
	for _, cd := range a.Conds(blk) {
		bo, ok := cd.V.(*ssa.BinOp)
		if !ok {
			continue
		}
		op, ok := tokOp(bo.Op)
		if !ok {
			continue
		}
		if !cd.Pol {
			op = negOp(op)
		}
		for _, side := range [2]int{0, 1} {
			pv, kv := bo.X, bo.Y
			o := op
			if side == 1 {
				pv, kv = bo.Y, bo.X
				o = mirrorOp(op)
			}
			p, isPhi := stripConv(pv).(*ssa.Phi)
			k, isK := constInt64(stripConv(kv))
			if !isPhi || !isK || isLoopHeaderPhi(p) || !p.Block().Dominates(blk) || !isIntType(p.Type()) {
				continue
			}
			if _, narrowed := pv.(*ssa.Convert); narrowed && !types.Identical(pv.Type(), p.Type()) {
				continue
			}
			feasible := -1
			n := 0
			for i, e := range p.Edges {
				ek, isC := constInt64(stripConv(e))
				if isC && !relHolds(ek, o, k) {
					continue // this incoming edge cannot have been taken
				}
				feasible = i
				n++
			}
			if n != 1 {
				continue
			}
			for _, ins := range p.Block().Instrs {
				q, ok := ins.(*ssa.Phi)
				if !ok {
					break
				}
				out[q] = q.Edges[feasible]
			}
		}
	}
	return out
}

func relHolds(x int64, op relOp, y int64) bool {
	switch op {
	case opLT:
		return x < y
	case opLE:
		return x <= y
	case opGT:
		return x > y
	case opGE:
		return x >= y
	case opEQ:
		return x == y
	}
	return x != y
}

func mirrorOp(op relOp) relOp {
	switch op {
	case opLT:
		return opGT
	case opLE:
		return opGE
	case opGT:
		return opLT
	case opGE:
		return opLE
	}
	return op
}

// SubstResolved rewrites a linear form with the guard-resolved values of the merged variables it mentions.
func (a *FA) SubstResolved(L Lin, res map[*ssa.Phi]ssa.Value) Lin {
	for round := 0; round < 3; round++ {
		changed := false
		for atom, cf := range L.T {
			p, ok := a.AtomValue(atom).(*ssa.Phi)
			if !ok || res[p] == nil {
				continue
			}
			n := L.clone()
			delete(n.T, atom)
			L = n.addScaled(a.Lin(res[p]), cf)
			changed = true
			break
		}
		if !changed {
			break
		}
	}
	return L
}
