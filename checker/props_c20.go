package main

import (
	"fmt"
	"go/constant"
	"go/token"
	"go/types"
	"reflect"
	"sort"
	"strings"

	"golang.org/x/tools/go/ssa"
)

var c20Scalars = []string{"Bool", "Int", "Int8", "Int16", "Int32", "Int64", "Uint", "Uint8", "Uint16", "Uint32", "Uint64", "Uintptr",
	"Float32", "Float64", "Complex64", "Complex128"}
var c20Composite = []string{"Array", "Interface", "Map", "Ptr", "Slice", "String", "Struct"}

func runC20(c *Ctx, w *World, r *Report) {
	r.Rule("R-KINDS", "for each of the 23 reflect kinds named by the property, the specialisation of sizeof to that kind (branches on v.Kind() resolved, everything else kept) reaches no panic")
	r.Rule("R-HEADER", "in the specialisation to kind K exactly the header variable of K is added into the returned sum (map/slice/string/pointer/interface), none for other kinds, and its initial value equals types.Sizes.Sizeof of such a type in this configuration")
	r.Rule("R-RECURSE", "in the specialisation to a composite kind the recursive calls are fed by the accessors that enumerate every part (MapKeys+MapIndex | MapRange; Len+Index; Elem behind a nil test; Elem; NumField+Field); scalars take v.Type().Size()")
	r.Rule("R-STATHDR", "the number printed in Stat's header line is sizeof(v) of the same value; Of returns sizeof(ValueOf(data)) and 0 for nil")
	r.Rule("R-ANCHOR", "size.Of, size.Stat, and the recursive sizing function exist")

	of := w.Func("size", "Of")
	statAPI := w.Func("size", "Stat")
	if of == nil || statAPI == nil {
		r.Unknown("R-ANCHOR", "size.Of/size.Stat", "-", "API function missing")
		return
	}
	// the sizing function: the module function called by Of with a reflect.Value
	var sizeof *ssa.Function
	eachInstr(of, func(ins ssa.Instruction) {
		if call, ok := ins.(*ssa.Call); ok {
			if f := call.Common().StaticCallee(); f != nil && w.InModule(f) && f.Blocks != nil && len(f.Params) >= 1 &&
				types.TypeString(f.Params[0].Type(), nil) == "reflect.Value" {
				sizeof = f
			}
		}
	})
	if sizeof == nil {
		r.Unknown("R-ANCHOR", "size.sizeof", w.Pos(of.Pos()), "size.Of does not call a module function taking a reflect.Value")
		return
	}
	// follow thin wrappers: a function that does not branch on Kind itself but hands its value to one module function
	for depth := 0; depth < 3; depth++ {
		branches := false
		eachInstr(sizeof, func(ins ssa.Instruction) {
			if v, ok := ins.(ssa.Value); ok && isKindCallOn(v, sizeof.Params[0]) {
				branches = true
			}
		})
		if branches {
			break
		}
		var next *ssa.Function
		eachInstr(sizeof, func(ins ssa.Instruction) {
			if call, ok := ins.(*ssa.Call); ok {
				if f := call.Common().StaticCallee(); f != nil && w.InModule(f) && f.Blocks != nil && len(f.Params) >= 1 &&
					types.TypeString(f.Params[0].Type(), nil) == "reflect.Value" && len(call.Common().Args) >= 1 && call.Common().Args[0] == ssa.Value(sizeof.Params[0]) {
					next = f
				}
			}
		})
		if next == nil {
			break
		}
		sizeof = next
	}
	r.OK("R-ANCHOR", "size.Of->"+w.FuncName(sizeof), w.Pos(sizeof.Pos()), "sizing function resolved through Of's call graph: "+w.FuncName(sizeof))
	recv := ssa.Value(sizeof.Params[0])
	// the generic rules of every anchored function (stateless, no goroutines, widths, panic sites, allocations)
	requireFuncs(w, r, "size.Of", "size.Stat", w.FuncName(sizeof))
	// R-ADDITIVE: the size of a value is a function of that value alone
	r.Rule("R-ADDITIVE", "the recursive sizing function is effect-free (E1): it writes no memory reachable from its parameters or from package-level variables, so the size of a part does not depend on what was visited before (a memo / visited set carried through the recursion makes shared sub-values count once: additivity is lost)")
	{
		e := RunEffects(w)
		var bad []string
		if sm := e.Sum[sizeof]; sm != nil {
			for _, ws := range sm.wsites {
				if ws.r.kind != rkFresh {
					bad = append(bad, fmt.Sprintf("may write %s at %s (%s)", ws.r, ws.pos, ws.what))
				}
			}
		}
		r.Check(len(bad) == 0, "R-ADDITIVE", w.FuncName(sizeof), w.Pos(sizeof.Pos()), strings.Join(bad, "; "), "no write to non-fresh memory")
	}
	// R-VALUEONLY: what is counted is decided by the value alone
	r.Rule("R-VALUEONLY", "every branch of the recursive sizing function is decided by the value being measured (its kind, nil-ness, length, iteration state): no branch condition depends on another parameter (a depth budget, an option, a visited set) - such a branch stops or alters the descent for some well-formed acyclic value, whose parts then drop out of the structural sum")
	{
		bad := ""
		nif := 0
		for _, b := range sizeof.Blocks {
			ifi, ok := b.Instrs[len(b.Instrs)-1].(*ssa.If)
			if !ok {
				continue
			}
			nif++
			seen := map[ssa.Value]bool{}
			var dep func(v ssa.Value) string
			dep = func(v ssa.Value) string {
				if v == nil || seen[v] {
					return ""
				}
				seen[v] = true
				switch x := v.(type) {
				case *ssa.Parameter:
					if x != sizeof.Params[0] {
						return "parameter " + x.Name()
					}
					return ""
				case *ssa.FreeVar:
					return "captured variable " + x.Name()
				case *ssa.Const, *ssa.Global, *ssa.Function, *ssa.Builtin:
					return ""
				}
				if ins, ok := v.(ssa.Instruction); ok {
					for _, op := range ins.Operands(nil) {
						if op != nil && *op != nil {
							if d := dep(*op); d != "" {
								return d
							}
						}
					}
				}
				return ""
			}
			if d := dep(ifi.Cond); d != "" {
				bad = fmt.Sprintf("the branch at %s depends on %s, not only on the value being measured", w.InstrPos(ifi), d)
			}
		}
		r.Check(bad == "", "R-VALUEONLY", w.FuncName(sizeof), w.Pos(sizeof.Pos()), bad, fmt.Sprintf("%d branches, each decided by the measured value alone", nif))
	}
	r.Units["sizeof_blocks"] = len(sizeof.Blocks)

	hasKindSwitch := false
	eachInstr(sizeof, func(ins ssa.Instruction) {
		if v, ok := ins.(ssa.Value); ok && isKindCallOn(v, recv) {
			hasKindSwitch = true
		}
	})
	if !hasKindSwitch {
		r.Unknown("R-KINDS", "size.sizeof|kind-switch", w.Pos(sizeof.Pos()), "sizing function does not branch on v.Kind() of its parameter: cannot specialise")
		return
	}

	// header variables: package-level ints of package size with constant initialiser
	initVal := map[*ssa.Global]int64{}
	if ini := w.Pkg("size").Func("init"); ini != nil {
		eachInstr(ini, func(ins ssa.Instruction) {
			if st, ok := ins.(*ssa.Store); ok {
				if g, ok := st.Addr.(*ssa.Global); ok {
					if k, ok := constInt64(stripConv(st.Val)); ok {
						initVal[g] = k
					}
				}
			}
		})
	}
	ptr := w.Sizes.Sizeof(types.NewPointer(types.Typ[types.Int]))
	wantHeader := map[string]int64{
		"Map":       w.Sizes.Sizeof(types.NewMap(types.Typ[types.Int], types.Typ[types.Int])),
		"Slice":     w.Sizes.Sizeof(types.NewSlice(types.Typ[types.Int8])),
		"String":    w.Sizes.Sizeof(types.Typ[types.String]),
		"Ptr":       ptr,
		"Interface": w.Sizes.Sizeof(types.NewInterfaceType(nil, nil)),
	}
	isReturnSink := func(ins ssa.Instruction) bool { _, ok := ins.(*ssa.Return); return ok }

	all := append(append([]string{}, c20Scalars...), c20Composite...)
	for _, kn := range all {
		k, ok := kindConst(w, kn)
		if !ok {
			r.Unknown("R-KINDS", "size.sizeof|"+kn, "-", "reflect."+kn+" not found")
			continue
		}
		slice := kindSlice(sizeof, recv, k)
		var panics []string
		methods := map[string]bool{}
		var recCalls []*ssa.Call
		var hdrLoads []*ssa.Global
		nIns := 0
		for _, b := range sizeof.Blocks {
			if !slice[b] {
				continue
			}
			for _, ins := range b.Instrs {
				nIns++
				switch x := ins.(type) {
				case *ssa.Panic:
					panics = append(panics, w.InstrPos(ins))
				case *ssa.Call:
					com := x.Common()
					if f := com.StaticCallee(); f != nil {
						if f == sizeof {
							recCalls = append(recCalls, x)
						} else if strings.HasPrefix(funcFullName(f), "(reflect.Value).") || strings.HasPrefix(funcFullName(f), "(*reflect.MapIter).") {
							methods[f.Name()] = true
						}
					} else if com.IsInvoke() && strings.HasSuffix(types.TypeString(com.Value.Type(), nil), "reflect.Type") {
						methods["Type."+com.Method.Name()] = true
					}
				case *ssa.UnOp:
					if x.Op == token.MUL {
						if g, ok := x.X.(*ssa.Global); ok && g.Pkg == sizeof.Pkg {
							if flowsTo(x, isReturnSink) {
								hdrLoads = append(hdrLoads, g)
							}
						}
					}
				}
			}
		}
		key := "size.sizeof|" + kn
		var ms []string
		for m := range methods {
			ms = append(ms, m)
		}
		sort.Strings(ms)
		facts := []string{fmt.Sprintf("specialisation to reflect.%s: %d of %d blocks, %d instructions; reflect accessors: %s; recursive calls: %d", kn, len(slice), len(sizeof.Blocks), nIns, strings.Join(ms, ","), len(recCalls))}
		// R-KINDS
		if len(panics) > 0 {
			r.Bad("R-KINDS", key, panics[0], fmt.Sprintf("size.Of panics for values of kind %s: the kind switch has no case for reflect.%s (panic reachable at %s)", strings.ToLower(kn), kn, strings.Join(panics, ",")), facts...)
		} else {
			r.OK("R-KINDS", key, w.Pos(sizeof.Pos()), facts...)
		}
		// R-HEADER: per return of the specialisation, the header loads that flow into that return. Loads in exclusive
		// branches are alternatives; two loads of which one dominates the other lie on one path and are both added.
		want, hasHdr := wantHeader[kn]
		{
			type hl struct {
				g  *ssa.Global
				ld *ssa.UnOp
			}
			var loads []hl
			for _, b := range sizeof.Blocks {
				if !slice[b] {
					continue
				}
				for _, ins := range b.Instrs {
					if x, ok := ins.(*ssa.UnOp); ok && x.Op == token.MUL {
						if g, ok := x.X.(*ssa.Global); ok && g.Pkg == sizeof.Pkg {
							loads = append(loads, hl{g, x})
						}
					}
				}
			}
			badH, okFact := "", ""
			nret := 0
			for _, b := range sizeof.Blocks {
				if !slice[b] {
					continue
				}
				ret, ok := b.Instrs[len(b.Instrs)-1].(*ssa.Return)
				if !ok {
					continue
				}
				nret++
				var into []hl
				for _, l := range loads {
					if flowsTo(l.ld, func(ins ssa.Instruction) bool { return ins == ssa.Instruction(ret) }) {
						into = append(into, l)
					}
				}
				// header sizes written as constants (const block instead of variables) show up as the constant part of
				// the returned sum: the constant carried by each alternative of the result, loop accumulators unfolded
				// to their initial value
				constPart := func() (int64, bool) {
					fa := w.FA(sizeof)
					var base func(L Lin, depth int) (int64, bool)
					base = func(L Lin, depth int) (int64, bool) {
						tot := L.K
						for atom, cf := range L.T {
							v := fa.AtomValue(atom)
							if p, ok := v.(*ssa.Phi); ok && isLoopHeaderPhi(p) && depth < 4 {
								for i, e := range p.Edges {
									if !p.Block().Dominates(p.Block().Preds[i]) {
										if b, ok := base(fa.Lin(e), depth+1); ok {
											tot += cf * b
										}
										break
									}
								}
							}
						}
						return tot, true
					}
					// alternatives of the result within this specialisation: merges take only the edges that come from
					// blocks of the slice
					var alts func(v ssa.Value, depth int) []Lin
					alts = func(v ssa.Value, depth int) []Lin {
						L := fa.Lin(v)
						if depth > 6 {
							return []Lin{L}
						}
						for atom, cf := range L.T {
							p, ok := fa.AtomValue(atom).(*ssa.Phi)
							if !ok || isLoopHeaderPhi(p) {
								continue
							}
							rest := L.clone()
							delete(rest.T, atom)
							var out []Lin
							for i, e := range p.Edges {
								pred := p.Block().Preds[i]
								if !slice[pred] {
									continue
								}
								// the edge itself must be one the specialisation takes
								if ifi, ok := pred.Instrs[len(pred.Instrs)-1].(*ssa.If); ok && len(pred.Succs) == 2 {
									if val, known := evalKindCond(ifi.Cond, recv, k); known {
										taken := pred.Succs[1]
										if val {
											taken = pred.Succs[0]
										}
										if taken != p.Block() {
											continue
										}
									}
								}
								for _, sub := range alts(e, depth+1) {
									out = append(out, rest.addScaled(sub, cf))
								}
							}
							if len(out) > 0 && len(out) <= 16 {
								return out
							}
							return []Lin{L}
						}
						return []Lin{L}
					}
					var first int64
					have := false
					for _, L := range alts(ret.Results[0], 0) {
						b, _ := base(L, 0)
						if have && b != first {
							return 0, false
						}
						first, have = b, true
					}
					return first, have
				}
				if !hasHdr {
					if len(into) > 0 {
						badH = fmt.Sprintf("kind %s has no header but package variable %s is added into the sum returned at %s", kn, into[0].g.Name(), w.InstrPos(ret))
					} else if c, ok := constPart(); ok && c != 0 {
						badH = fmt.Sprintf("kind %s has no header but the constant %d is added into the sum returned at %s", kn, c, w.InstrPos(ret))
					}
					continue
				}
				if len(into) == 0 {
					if c, ok := constPart(); ok && c == want {
						okFact = fmt.Sprintf("header constant %d = Sizeof(%s header)", c, strings.ToLower(kn))
						continue
					} else if ok && c != 0 {
						badH = fmt.Sprintf("header added for kind %s is the constant %d, but a %s header is %d bytes in this configuration", kn, c, strings.ToLower(kn), want)
						continue
					}
					badH = fmt.Sprintf("kind %s must add its header into the sum, the return at %s adds none", kn, w.InstrPos(ret))
					continue
				}
				// within the specialisation: one load can be followed by the other on a path
				sliceReach := func(from, to *ssa.BasicBlock) bool {
					seen := map[*ssa.BasicBlock]bool{}
					st := []*ssa.BasicBlock{from}
					for len(st) > 0 {
						b := st[len(st)-1]
						st = st[:len(st)-1]
						for _, sc := range b.Succs {
							if sc == to {
								return true
							}
							if slice[sc] && !seen[sc] {
								seen[sc] = true
								st = append(st, sc)
							}
						}
					}
					return false
				}
				for i, a := range into {
					for j, c := range into {
						if i < j && (a.ld.Block() == c.ld.Block() || sliceReach(a.ld.Block(), c.ld.Block()) || sliceReach(c.ld.Block(), a.ld.Block())) {
							badH = fmt.Sprintf("kind %s must add exactly one header variable into the sum, the return at %s receives %s and %s on one path", kn, w.InstrPos(ret), a.g.Name(), c.g.Name())
						}
					}
					iv, ok := initVal[a.g]
					if !ok {
						badH = "header variable " + a.g.Name() + " has no constant initialiser"
					} else if iv != want {
						badH = fmt.Sprintf("header added for kind %s is %s = %d, but a %s header is %d bytes in this configuration", kn, a.g.Name(), iv, strings.ToLower(kn), want)
					} else {
						okFact = fmt.Sprintf("header variable %s = %d = Sizeof(%s header)", a.g.Name(), iv, strings.ToLower(kn))
					}
				}
			}
			if nret == 0 && badH == "" && len(panics) == 0 {
				badH = "the specialisation has no return"
			}
			if !hasHdr && okFact == "" {
				okFact = "no header variable flows into the result for this kind"
			}
			if badH != "" {
				r.Bad("R-HEADER", key, w.Pos(sizeof.Pos()), badH, facts...)
			} else {
				r.OK("R-HEADER", key, w.Pos(sizeof.Pos()), okFact)
			}
		}
		// R-RECURSE
		need := func(names ...string) []string {
			var miss []string
			for _, n := range names {
				if !methods[n] {
					miss = append(miss, n)
				}
			}
			return miss
		}
		// sources of recursive call arguments: which accessor produced them
		argSrc := map[string]bool{}
		for _, rc := range recCalls {
			for _, src := range resolvePhi(rc.Common().Args[0]) {
				if call, ok := src.(*ssa.Call); ok {
					if f := call.Common().StaticCallee(); f != nil {
						argSrc[f.Name()] = true
					}
				} else if ld, ok := src.(*ssa.UnOp); ok && ld.Op == token.MUL {
					// element of the MapKeys slice
					if ia, ok := ld.X.(*ssa.IndexAddr); ok {
						for _, s2 := range resolvePhi(ia.X) {
							if call, ok := s2.(*ssa.Call); ok {
								if f := call.Common().StaticCallee(); f != nil {
									argSrc[f.Name()+"[]"] = true
								}
							}
						}
					}
				}
			}
		}
		// Elem() that feeds the recursion is Elem of the value itself: following a chain (v.Elem().Elem()...) skips the
		// headers of the pointers or interfaces in between
		elemOfOther := ""
		for _, rc := range recCalls {
			for _, src := range resolvePhi(rc.Common().Args[0]) {
				if call, ok := src.(*ssa.Call); ok {
					if f := call.Common().StaticCallee(); f != nil && f.Name() == "Elem" && strings.HasPrefix(funcFullName(f), "(reflect.Value).") &&
						len(call.Common().Args) > 0 && call.Common().Args[0] != recv {
						elemOfOther = w.InstrPos(call)
					}
				}
			}
		}
		// a map entry is measured on every round of the iteration: no test inside the loop decides whether a key or a
		// value is walked
		condInLoop := ""
		if kn == "Map" {
			var nextBlk *ssa.BasicBlock
			var nextCall ssa.Value
			eachInstr(sizeof, func(ins ssa.Instruction) {
				if call, ok := ins.(*ssa.Call); ok && slice[ins.Block()] {
					if f := call.Common().StaticCallee(); f != nil && f.Name() == "Next" && strings.Contains(funcFullName(f), "reflect.MapIter") {
						nextBlk, nextCall = ins.Block(), call
					}
				}
			})
			if nextBlk != nil {
				for _, rc := range recCalls {
					if !slice[rc.Block()] {
						continue
					}
					if !nextBlk.Dominates(rc.Block()) {
						continue
					}
					// every round goes through the call: it dominates each back edge of the loop (within this kind's slice)
					for _, latch := range nextBlk.Preds {
						if nextBlk.Dominates(latch) && slice[latch] && !rc.Block().Dominates(latch) {
							condInLoop = w.InstrPos(rc) + " (a round of the loop headed at " + w.InstrPos(nextCall.(ssa.Instruction)) + " can come round without it)"
						}
					}
				}
			}
		}
		var srcs []string
		for s := range argSrc {
			srcs = append(srcs, s)
		}
		sort.Strings(srcs)
		rfacts := append(facts, "recursive call arguments come from: "+strings.Join(srcs, ","))
		var miss []string
		switch kn {
		case "Map":
			if methods["MapRange"] {
				if !(argSrc["Key"] && argSrc["Value"]) {
					miss = append(miss, "recursion on both MapIter.Key and MapIter.Value")
				}
			} else {
				miss = need("MapKeys", "MapIndex")
				if !(argSrc["MapKeys[]"] || argSrc["Key"]) {
					miss = append(miss, "recursion on every key")
				}
				if !argSrc["MapIndex"] {
					miss = append(miss, "recursion on every value (MapIndex)")
				}
			}
			// R-MAPITER: the value of an entry comes from the iteration, not from a second lookup
			r.Rule("R-MAPITER", "the value of each map entry is taken from the iteration itself (reflect.MapIter.Value), not from a second lookup v.MapIndex(key): MapIndex returns the invalid Value for a key that is not equal to itself (a NaN float or complex, or an array/struct/interface holding one), sizeof(invalid) is 0 and the entry's value silently drops out of the sum")
			r.Check(!argSrc["MapIndex"], "R-MAPITER", key, w.Pos(sizeof.Pos()), "the values of a map are obtained by v.MapIndex(key): for a key that is not equal to itself (NaN) the lookup fails and the value is counted as 0 bytes, e.g. Of(map[float64]int64{NaN: 7}) = 16 instead of 24", "values come from MapIter.Value()")
		case "Slice", "Array":
			miss = need("Len", "Index")
			if !argSrc["Index"] {
				miss = append(miss, "recursion on Index(i)")
			}
		case "String":
			miss = need("Len")
		case "Ptr":
			miss = need("Elem")
			if !argSrc["Elem"] {
				miss = append(miss, "recursion on Elem()")
			}
			// nil test: the recursive call must be control dependent on a branch
			guarded := false
			for _, rc := range recCalls {
				if len(w.FA(sizeof).Conds(rc.Block())) > 0 {
					for _, cd := range w.FA(sizeof).Conds(rc.Block()) {
						if _, isKind := evalKindCond(cd.V, recv, k); !isKind {
							guarded = true
						}
					}
				}
			}
			if !guarded && !methods["IsNil"] {
				miss = append(miss, "a nil test guarding Elem()")
			}
		case "Interface":
			miss = need("Elem")
			if !argSrc["Elem"] {
				miss = append(miss, "recursion on Elem()")
			}
		case "Struct":
			miss = need("NumField", "Field")
			if !argSrc["Field"] {
				miss = append(miss, "recursion on Field(i)")
			}
		default:
			if !methods["Type.Size"] {
				miss = append(miss, "v.Type().Size()")
			}
			if len(recCalls) > 0 {
				miss = append(miss, "no recursion for a scalar")
			}
		}
		if elemOfOther != "" && (kn == "Ptr" || kn == "Interface") {
			miss = append(miss, "recursion on Elem() of the value itself: the Elem() at "+elemOfOther+" is taken of another value (a chain of pointers followed in one go loses the header of every pointer in between)")
		}
		if condInLoop != "" {
			miss = append(miss, "every entry of the map measured: the recursive call at "+condInLoop+" is skipped for some entries (keys of one type need not have one size: strings, pointers, interfaces, arrays or structs of them)")
		}
		if len(panics) > 0 {
			// already reported under R-KINDS; recursion facts are meaningless on a panicking slice
			continue
		}
		// Type.Size() includes alignment padding: it may feed the sum for scalar kinds only
		if _, isComposite := map[string]bool{"Array": true, "Interface": true, "Map": true, "Ptr": true, "Slice": true, "String": true, "Struct": true}[kn]; isComposite {
			for _, b := range sizeof.Blocks {
				if !slice[b] {
					continue
				}
				for _, ins := range b.Instrs {
					call, ok := ins.(*ssa.Call)
					if !ok || !call.Common().IsInvoke() || call.Common().Method.Name() != "Size" || !strings.HasSuffix(types.TypeString(call.Common().Value.Type(), nil), "reflect.Type") {
						continue
					}
					if typeSizeGuardedScalar(w.FA(sizeof), call) {
						continue // the size of a *part's* type, taken only when that type's own kind is a scalar (element fast path)
					}
					if flowsTo(call, isReturnSink) {
						miss = append(miss, fmt.Sprintf("a plain sum of parts: reflect.Type.Size() (which includes alignment padding and ignores indirect parts) feeds the result for this composite kind at %s", w.InstrPos(ins)))
					}
				}
			}
		}
		// full range: an index-driven recursion must enumerate 0..n-1 with n the
		// accessor that counts the parts
		if len(miss) == 0 {
			counter := map[string]string{"Slice": "Len", "Array": "Len", "Struct": "NumField", "Map": "len"}[kn]
			if counter != "" {
				for _, rc := range recCalls {
					idx := recursionIndex(rc)
					if idx == nil {
						continue // iterator style (MapRange): nothing to check
					}
					fa := w.FA(sizeof)
					iv, ok := fa.InductionOf(idx, rc.Block())
					if !ok {
						miss = append(miss, "an index that is a simple counting loop variable at "+w.InstrPos(rc))
						continue
					}
					rfacts = append(rfacts, iv.Facts...)
					// every part: the recursive call is made in every round of the loop, no part is skipped by a branch inside it
					if iv.Phi != nil {
						hb := iv.Phi.Block()
						for _, pr := range hb.Preds {
							if hb.Dominates(pr) && !rc.Block().Dominates(pr) {
								miss = append(miss, fmt.Sprintf("the size of EVERY part: the recursive call at %s is not made in every round of the loop over the parts (a part is skipped on some branch - blank or unexported fields, zero elements ... are parts like any other)", w.InstrPos(rc)))
							}
						}
					}
					if !iv.FirstConst || iv.First != 0 || iv.Step != 1 {
						miss = append(miss, fmt.Sprintf("enumeration from 0 in steps of 1 (found first=%d step=%d) at %s", iv.First, iv.Step, w.InstrPos(rc)))
					}
					if !iv.HasN {
						miss = append(miss, "a loop guard index < count")
						continue
					}
					okN := false
					if len(iv.N.T) == 1 && iv.N.K == 0 {
						for atom, coef := range iv.N.T {
							if coef != 1 {
								continue
							}
							if cv, ok := fa.AtomValue(atom).(*ssa.Call); ok {
								if f := cv.Common().StaticCallee(); f != nil && f.Name() == counter && len(cv.Common().Args) > 0 && cv.Common().Args[0] == recv {
									okN = true
								}
							}
							if counter == "len" && strings.HasPrefix(atom, "call:builtin len(") {
								okN = true
							}
						}
					}
					if !okN {
						miss = append(miss, fmt.Sprintf("loop bound equal to v.%s() (found %s) at %s", counter, iv.N, w.InstrPos(rc)))
					}
				}
			}
		}
		// no bypass: within the specialisation every path to a return passes the head of the enumeration loop (an empty
		// container passes it too), except on an edge that is only taken when the part count is zero
		if len(miss) == 0 && (kn == "Slice" || kn == "Array" || kn == "Struct" || kn == "Map") {
			fa := w.FA(sizeof)
			heads := map[*ssa.BasicBlock]bool{}
			for _, rc := range recCalls {
				if idx := recursionIndex(rc); idx != nil {
					if iv, ok := fa.InductionOf(idx, rc.Block()); ok && iv.Phi != nil {
						heads[iv.Phi.Block()] = true
					}
				}
			}
			var counters []ssa.Value
			for _, b := range sizeof.Blocks {
				if !slice[b] {
					continue
				}
				for _, ins := range b.Instrs {
					call, ok := ins.(*ssa.Call)
					if !ok {
						continue
					}
					if f := call.Common().StaticCallee(); f != nil {
						if f.Name() == "Next" && strings.HasPrefix(funcFullName(f), "(*reflect.MapIter).") {
							heads[b] = true
						}
						if (f.Name() == "Len" || f.Name() == "NumField") && strings.HasPrefix(funcFullName(f), "(reflect.Value).") && len(call.Common().Args) > 0 && call.Common().Args[0] == recv {
							counters = append(counters, call)
						}
					}
				}
			}
			if len(heads) > 0 {
				// states are CFG edges (pred -> block): a branch on a merged boolean constant (the `ok` of a dissolved
				// two-result helper) is decided by the edge the merge was entered through
				type edge struct{ from, to *ssa.BasicBlock }
				seen := map[edge]bool{}
				st := []edge{{nil, sizeof.Blocks[0]}}
				for len(st) > 0 && len(miss) == 0 {
					cur := st[len(st)-1]
					st = st[:len(st)-1]
					b := cur.to
					if _, isRet := b.Instrs[len(b.Instrs)-1].(*ssa.Return); isRet {
						miss = append(miss, fmt.Sprintf("the enumeration of every part on every path: the return at %s is reached without passing the loop over the parts (a fast path or shortcut that sizes this %s some other way); only an edge taken when the part count is 0 may bypass it", w.InstrPos(b.Instrs[len(b.Instrs)-1]), strings.ToLower(kn)))
						break
					}
					// a path that sizes the parts uniformly by the size of their (scalar) type accounts for every part
					uniform := false
					for _, ins := range b.Instrs {
						if call, ok := ins.(*ssa.Call); ok && call.Common().IsInvoke() && call.Common().Method.Name() == "Size" &&
							strings.HasSuffix(types.TypeString(call.Common().Value.Type(), nil), "reflect.Type") && typeSizeGuardedScalar(fa, call) {
							uniform = true
						}
					}
					if uniform {
						continue
					}
					succs := b.Succs
					if ifi, ok := b.Instrs[len(b.Instrs)-1].(*ssa.If); ok && len(b.Succs) == 2 {
						if val, known := evalKindCond(ifi.Cond, recv, k); known {
							if val {
								succs = b.Succs[:1]
							} else {
								succs = b.Succs[1:]
							}
						} else if p, isPhi := ifi.Cond.(*ssa.Phi); isPhi && p.Block() == b && cur.from != nil {
							for i, pr := range b.Preds {
								if pr != cur.from {
									continue
								}
								if c, isC := p.Edges[i].(*ssa.Const); isC && c.Value != nil && c.Value.Kind() == constant.Bool {
									if constant.BoolVal(c.Value) {
										succs = b.Succs[:1]
									} else {
										succs = b.Succs[1:]
									}
								}
							}
						}
					}
					for _, sc := range succs {
						if !slice[sc] || seen[edge{b, sc}] || heads[sc] {
							continue
						}
						empty := false
						for _, cv := range counters {
							if bd := fa.boundsFrom(selfCond(b, sc), fa.Lin(cv)); bd.HasHi && bd.Hi <= 0 {
								empty = true
							}
						}
						if empty {
							continue
						}
						seen[edge{b, sc}] = true
						st = append(st, edge{b, sc})
					}
				}
				if len(miss) == 0 {
					rfacts = append(rfacts, fmt.Sprintf("no return of the specialisation is reachable without passing the head of the loop over the parts (%d loop heads)", len(heads)))
				}
			}
		}
		if len(miss) > 0 {
			r.Bad("R-RECURSE", key, w.Pos(sizeof.Pos()), fmt.Sprintf("specialisation to kind %s lacks: %s", kn, strings.Join(miss, "; ")), rfacts...)
		} else {
			r.OK("R-RECURSE", key, w.Pos(sizeof.Pos()), rfacts...)
		}
	}

	// R-STATHDR: Of
	{
		okRet, bad := true, ""
		for _, ret := range returnsOf(of) {
			for _, src := range resolvePhi(ret.Results[0]) {
				if k, ok := constInt64(src); ok && k == 0 {
					// 0 is the size of the nil argument only: the edge must be data == nil itself
					isNilEdge := false
					if len(resolvePhi(ret.Results[0])) == 1 {
						for _, cd := range w.FA(of).Conds(ret.Block()) {
							if bo, ok := cd.V.(*ssa.BinOp); ok && (bo.Op == token.EQL) == cd.Pol && (bo.Op == token.EQL || bo.Op == token.NEQ) {
								for _, pr := range [2][2]ssa.Value{{bo.X, bo.Y}, {bo.Y, bo.X}} {
									if c, ok := pr[1].(*ssa.Const); ok && c.IsNil() && pr[0] == ssa.Value(of.Params[0]) {
										isNilEdge = true
									}
								}
							}
						}
					}
					if !isNilEdge {
						okRet, bad = false, "0 returned at "+w.InstrPos(ret)+" on an edge other than data == nil (a typed nil pointer still has its 8-byte header)"
					}
					continue
				}
				if call, ok := src.(*ssa.Call); ok && call.Common().StaticCallee() == sizeof {
					arg := call.Common().Args[0]
					if vc, ok := arg.(*ssa.Call); ok && calleeName(vc.Common()) == "reflect.ValueOf" && vc.Common().Args[0] == ssa.Value(of.Params[0]) {
						continue
					}
				}
				okRet, bad = false, src.String()
			}
		}
		r.Check(okRet, "R-STATHDR", "size.Of|result", w.Pos(of.Pos()), "Of returns something other than 0 or sizeof(reflect.ValueOf(data)): "+bad, "every returned value is the constant 0 or sizeof(reflect.ValueOf(data))")
	}
	// R-STATHDR: stat's header
	var stat *ssa.Function
	eachInstr(statAPI, func(ins ssa.Instruction) {
		if call, ok := ins.(*ssa.Call); ok {
			if f := call.Common().StaticCallee(); f != nil && w.InModule(f) && f.Blocks != nil && len(f.Params) >= 1 &&
				types.TypeString(f.Params[0].Type(), nil) == "reflect.Value" {
				stat = f
			}
		}
	})
	if stat == nil {
		r.Unknown("R-STATHDR", "size.stat", w.Pos(statAPI.Pos()), "Stat does not call a module function taking a reflect.Value")
		return
	}
	// Stat describes the value it was given: what it hands on is reflect.ValueOf(v) itself, on every path
	{
		badArg := ""
		ncall := 0
		eachInstr(statAPI, func(ins ssa.Instruction) {
			call, ok := ins.(*ssa.Call)
			if !ok || call.Common().StaticCallee() != stat {
				return
			}
			ncall++
			for _, src := range resolvePhi(call.Common().Args[0]) {
				vc, ok := src.(*ssa.Call)
				if !ok || calleeName(vc.Common()) != "reflect.ValueOf" || vc.Common().Args[0] != ssa.Value(statAPI.Params[0]) {
					badArg = fmt.Sprintf("Stat describes %s at %s, not reflect.ValueOf(v): its first line is then not Of(v)", src, w.InstrPos(ins))
				}
			}
		})
		r.Check(badArg == "" && ncall > 0, "R-STATHDR", "size.Stat|arg", w.Pos(statAPI.Pos()), badArg, "stat(reflect.ValueOf(v), ...)")
	}
	// every integer printed by a Sprintf that builds the header must be sizeof(param0)
	nHdr, badHdr := 0, ""
	eachInstr(stat, func(ins ssa.Instruction) {
		call, ok := ins.(*ssa.Call)
		if !ok || calleeName(call.Common()) != "fmt.Sprintf" {
			return
		}
		// header Sprintfs are those that print v.Type()
		args := sprintfArgs(call)
		printsType := false
		for _, a := range args {
			if c2, ok := a.(*ssa.Call); ok && strings.HasSuffix(calleeName(c2.Common()), ").Type") {
				printsType = true
			}
		}
		if !printsType {
			return
		}
		nHdr++
		found := false
		for _, a := range args {
			if !isIntType(a.Type()) {
				continue
			}
			for _, src := range resolvePhi(stripConv(a)) {
				if c2, ok := src.(*ssa.Call); ok && c2.Common().StaticCallee() == sizeof && c2.Common().Args[0] == ssa.Value(stat.Params[0]) {
					found = true
				} else {
					badHdr = fmt.Sprintf("header at %s prints integer %s which is not sizeof(v)", w.InstrPos(ins), src)
				}
			}
		}
		if !found && badHdr == "" {
			badHdr = fmt.Sprintf("header at %s prints no sizeof(v)", w.InstrPos(ins))
		}
	})
	if nHdr == 0 {
		r.Unknown("R-STATHDR", "size.stat|header", w.Pos(stat.Pos()), "no header-building Sprintf (one printing v.Type()) found in stat")
	} else {
		r.Check(badHdr == "", "R-STATHDR", "size.stat|header", w.Pos(stat.Pos()), badHdr, fmt.Sprintf("%d header Sprintf sites; every integer they print is sizeof(v) of stat's own argument", nHdr))
	}
}

// sprintfArgs returns the values boxed into the variadic slice of a call.
func sprintfArgs(call *ssa.Call) []ssa.Value {
	var out []ssa.Value
	args := call.Common().Args
	if len(args) == 0 {
		return nil
	}
	sl, ok := args[len(args)-1].(*ssa.Slice)
	if !ok {
		return nil
	}
	al, ok := sl.X.(*ssa.Alloc)
	if !ok {
		return nil
	}
	for _, ref := range *al.Referrers() {
		if ia, ok := ref.(*ssa.IndexAddr); ok {
			for _, r2 := range *ia.Referrers() {
				if st, ok := r2.(*ssa.Store); ok {
					v := st.Val
					if mi, ok := v.(*ssa.MakeInterface); ok {
						v = mi.X
					} else if ci, ok := v.(*ssa.ChangeInterface); ok {
						v = ci.X
					}
					out = append(out, v)
				}
			}
		}
	}
	return out
}

// scalarKinds: the kinds whose values refer to no other memory and whose reflect.Type.Size() is their structural size.
var scalarKinds = map[int64]bool{
	int64(reflect.Bool): true, int64(reflect.Int): true, int64(reflect.Int8): true, int64(reflect.Int16): true, int64(reflect.Int32): true, int64(reflect.Int64): true,
	int64(reflect.Uint): true, int64(reflect.Uint8): true, int64(reflect.Uint16): true, int64(reflect.Uint32): true, int64(reflect.Uint64): true, int64(reflect.Uintptr): true,
	int64(reflect.Float32): true, int64(reflect.Float64): true, int64(reflect.Complex64): true, int64(reflect.Complex128): true,
}

// typeSizeGuardedScalar: call is T.Size() on a reflect.Type value T and every path to it passes a test
// T.Kind() == K with K a scalar kind (the same value T).
func typeSizeGuardedScalar(fa *FA, call *ssa.Call) bool {
	tv := call.Common().Value
	isKindOfT := func(v ssa.Value) bool {
		c, ok := v.(*ssa.Call)
		return ok && c.Common().IsInvoke() && c.Common().Method.Name() == "Kind" && c.Common().Value == tv
	}
	dnf := fa.CondsDNF(call.Block(), 0)
	if len(dnf) == 0 {
		return false
	}
	for _, cs := range dnf {
		ok := false
		for _, cd := range cs {
			bo, isB := cd.V.(*ssa.BinOp)
			if !isB || bo.Op != token.EQL || !cd.Pol {
				continue
			}
			for _, side := range [2][2]ssa.Value{{bo.X, bo.Y}, {bo.Y, bo.X}} {
				if k, isK := constInt64(side[1]); isK && isKindOfT(side[0]) && scalarKinds[k] {
					ok = true
				}
			}
		}
		if !ok {
			return false
		}
	}
	return true
}

func init() {
	register(&Prop{
		ID: "C20", Level: "other",
		Explain: "E2 finite-enum specialisation (DESIGN.md 3/E2): size.sizeof is partitioned by the 23 reflect kinds the property names; each specialisation is inspected for reachability of panic, for the header variable added, and for the accessors feeding the recursion. Decided: every kind is handled, headers are right per kind and configuration, the recursion covers every part, Stat's header equals Of. This pins additivity per kind; nothing numeric is executed.",
		NotDec:  []string{"cyclic values (outside the property)", "that reflect's accessors return what their documentation says (trusted)"},
		Trusted: []string{"go/ssa construction", "reflect.Value accessor contracts (Len/Index/MapKeys/MapIndex/Elem/Field/NumField)", "types.Sizes of the configuration (gc sizes)"},
		Quick:   []Config{cfgDefault, cfg386}, Thorough: []Config{cfgDefault, cfg386, cfgArm64},
		Run: runC20,
	})
}

// recursionIndex finds the index i of a recursive call sizeof(v.Index(i)) /
// sizeof(v.Field(i)) / sizeof(keys[i]) / sizeof(v.MapIndex(keys[i])).
func recursionIndex(rc *ssa.Call) ssa.Value {
	arg := rc.Common().Args[0]
	for depth := 0; depth < 4; depth++ {
		switch x := arg.(type) {
		case *ssa.Call:
			f := x.Common().StaticCallee()
			if f == nil {
				return nil
			}
			switch f.Name() {
			case "Index", "Field":
				return x.Common().Args[1]
			case "MapIndex":
				arg = x.Common().Args[1]
				continue
			}
			return nil
		case *ssa.UnOp:
			if ia, ok := x.X.(*ssa.IndexAddr); ok {
				return ia.Index
			}
			return nil
		default:
			return nil
		}
	}
	return nil
}
