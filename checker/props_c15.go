package main

import (
	"fmt"
	"go/token"
	"go/types"
	"sort"
	"strings"

	"golang.org/x/tools/go/ssa"
)

// fieldStoreSites lists, over the whole module, every store to field fname of struct type tname in package pkg.
func fieldStoreSites(w *World, pkg, tname, fname string) map[*ssa.Function][]*ssa.Store {
	out := map[*ssa.Function][]*ssa.Store{}
	for fn := range w.AllFns {
		if fn.Blocks == nil || !w.InModule(fn) {
			continue
		}
		eachInstr(fn, func(ins ssa.Instruction) {
			st, ok := ins.(*ssa.Store)
			if !ok {
				return
			}
			fa, ok := st.Addr.(*ssa.FieldAddr)
			if !ok {
				return
			}
			pt, ok := fa.X.Type().Underlying().(*types.Pointer)
			if !ok {
				return
			}
			nt, ok := pt.Elem().(*types.Named)
			if !ok || nt.Obj().Name() != tname || nt.Obj().Pkg() == nil || w.Short(nt.Obj().Pkg()) != pkg {
				return
			}
			if fieldName(fa) == fname {
				out[fn] = append(out[fn], st)
			}
		})
	}
	return out
}

func reportWho(w *World, r *Report, pkg, tname, fname string, allowed ...string) {
	r.Rule("R-WHO", "who-may-write: a state field is stored only by the functions listed (constructor and the operations whose contract is to move it)")
	sites := fieldStoreSites(w, pkg, tname, fname)
	allow := map[string]bool{}
	for _, a := range allowed {
		allow[a] = true
	}
	var names []string
	for fn := range sites {
		names = append(names, w.FuncName(fn))
	}
	sort.Strings(names)
	key := pkg + "." + tname + "." + fname
	bad := ""
	for fn, sts := range sites {
		if !allow[w.FuncName(fn)] {
			bad = fmt.Sprintf("field %s is stored by %s at %s; allowed writers: %s", key, w.FuncName(fn), w.InstrPos(sts[0]), strings.Join(allowed, ", "))
		}
	}
	if len(sites) == 0 {
		r.Unknown("R-WHO", key, "-", "no store to "+key+" found anywhere: the state anchor is missing")
		return
	}
	r.Check(bad == "", "R-WHO", key, "-", bad, "writers: "+strings.Join(names, ", "))
}

func runC15(c *Ctx, w *World, r *Report) {
	names := []string{"bitmap.NewTailBitmap", "bitmap.(*TailBitmap).Compact", "bitmap.(*TailBitmap).Set", "bitmap.(*TailBitmap).Get", "bitmap.(*TailBitmap).Get1"}
	fns, ok := requireFuncs(w, r, names...)
	ReportGrowZero(w, r, "Words", "bitmap.(*TailBitmap).Set")
	ReportTableWidth(w, r)
	ReportScale(w, r, names...)
	ReportPair(w, r, names...)
	refs := ReportBitRefs(w, r, names[2:]...)
	reportWho(w, r, "bitmap", "TailBitmap", "Offset", "bitmap.NewTailBitmap", "bitmap.(*TailBitmap).Compact")
	if !ok {
		return
	}
	// R-READONLY: a probe changes nothing: Get and Get1 write no memory reachable from the receiver (a read cache, a
	// probe counter, a lazily normalised field make the answer depend on earlier probes or race between readers)
	r.Rule("R-READONLY", "TailBitmap.Get and Get1 write no memory reachable from their receiver or from package variables (E1): what a probe returns depends on the Set/Compact history only, never on earlier probes")
	{
		e := RunEffects(w)
		for _, gn := range []string{"bitmap.(*TailBitmap).Get", "bitmap.(*TailBitmap).Get1"} {
			gf := fns[gn]
			var bad []string
			if sm := e.Sum[gf]; sm != nil {
				for _, ws := range sm.wsites {
					if ws.r.kind != rkFresh {
						bad = append(bad, fmt.Sprintf("may write %s at %s (%s)", ws.r, ws.pos, ws.what))
					}
				}
			}
			r.Check(len(bad) == 0, "R-READONLY", gn, w.Pos(gf.Pos()), strings.Join(bad, "; "), "no write to non-fresh memory")
		}
	}
	r.Rule("R-COMPACT", "Compact advances Offset by 64*c exactly when it drops the first c words (Words = Words[c:], same c, same block), and only under len(Words) > 0 and Words[0] == 2^64-1: Offset stays a multiple of 64, never decreases, never passes a 0 bit")
	r.Rule("R-SPLIT", "Get/Get1/Set: the stored words are accessed only on the edge idx - Offset >= 0 (exactly: position Offset is a stored bit); on the complementary edge Get returns Bit[idx&63], Get1 returns 1, Set returns without storing")
	r.Rule("R-REBASE", "the stored bit accessed for idx is bit idx - Offset of Words")
	r.Rule("R-GROW", "Set stores into Words[k] only after growing Words until k < len(Words)")
	r.Rule("R-TRIGGER", "Set calls Compact whenever the word it stored into is the first stored word (k == 0)")

	// ---- R-COMPACT
	{
		n := "bitmap.(*TailBitmap).Compact"
		fn := fns[n]
		fa := w.FA(fn)
		nAdv := 0
		bad := ""
		var facts []string
		eachInstr(fn, func(ins ssa.Instruction) {
			st, ok := ins.(*ssa.Store)
			if !ok {
				return
			}
			fad, ok := st.Addr.(*ssa.FieldAddr)
			if !ok {
				return
			}
			switch fieldName(fad) {
			case "Offset":
				nAdv++
				// value = load(Offset) + 64*c
				L := fa.Lin(st.Val)
				var cAdv int64 = -1
				if len(L.T) == 1 {
					for atom, coef := range L.T {
						if _, f, ok := asFieldLoad(fa.AtomValue(atom)); ok && f == "Offset" && coef == 1 && L.K > 0 && L.K%64 == 0 {
							cAdv = L.K / 64
						}
					}
				}
				if cAdv < 0 {
					// count form: n leading all-ones words are counted first, then Offset += 64*n and Words = Words[n:]
					if why, ok := compactCountForm(w, fa, st, L); ok {
						facts = append(facts, why)
					} else if why2, ok2 := compactLocalForm(w, fa, st); ok2 {
						facts = append(facts, why2)
					} else {
						if why == "" {
							why = why2
						}
						bad = fmt.Sprintf("Offset is set to %s at %s: not Offset + 64*c (c >= 1)", L, w.InstrPos(st))
						if why != "" {
							bad = why
						}
					}
					return
				}
				// paired Words store in the same block
				paired := false
				for _, i2 := range st.Block().Instrs {
					s2, ok := i2.(*ssa.Store)
					if !ok {
						continue
					}
					f2, ok := s2.Addr.(*ssa.FieldAddr)
					if !ok || fieldName(f2) != "Words" {
						continue
					}
					sl, ok := s2.Val.(*ssa.Slice)
					if !ok {
						bad = "Words is replaced by something other than a re-slice in the advancing block"
						continue
					}
					_, f3, ok := asFieldLoad(sl.X)
					lo, okc := constInt64(sl.Low)
					if !ok || f3 != "Words" || sl.Low == nil || !okc || sl.High != nil {
						bad = "Words is not re-sliced as Words[c:]"
						continue
					}
					if lo != cAdv {
						bad = fmt.Sprintf("Offset advances by 64*%d but %d word(s) are dropped at %s", cAdv, lo, w.InstrPos(s2))
						continue
					}
					paired = true
				}
				if !paired && bad == "" {
					bad = "Offset advances without dropping the same number of words in the same block"
				}
				// guards
				gLen, gOnes := false, false
				extraGuard := ""
				for _, cd := range fa.Conds(st.Block()) {
					recognised := false
					D, op, ok := fa.CondRel(cd)
					if ok {
						// len(Words) > 0
						if len(D.T) == 1 {
							for atom, coef := range D.T {
								if cl, ok := asCall(fa.AtomValue(atom), "builtin len"); ok {
									if _, f, ok := asFieldLoad(cl.Common().Args[0]); ok && f == "Words" {
										// len > 0, len >= 1, or len != 0 (a length is never negative)
										bd := fa.boundsFrom([]Cond{cd}, linAtom(atom))
										_ = op
										if (coef == 1 || coef == -1) && bd.HasLo && bd.Lo >= 1 {
											gLen = true
											recognised = true
										}
									}
								}
							}
						}
					}
					if bo, ok := cd.V.(*ssa.BinOp); ok && (bo.Op == token.EQL && cd.Pol || bo.Op == token.NEQ && !cd.Pol) {
						for _, side := range [2][2]ssa.Value{{bo.X, bo.Y}, {bo.Y, bo.X}} {
							cont, idx, ok := asElemLoad(side[0])
							if !ok {
								continue
							}
							if _, f, ok := asFieldLoad(cont); !ok || f != "Words" {
								continue
							}
							i0, okI := constInt64(stripConv(idx))
							cv, okC := constUint64(stripConv(side[1]))
							if okI && okC {
								if i0 != 0 {
									bad = fmt.Sprintf("the all-ones test examines Words[%d], not the word that is dropped first", i0)
								} else if cv != ^uint64(0) {
									bad = fmt.Sprintf("a word is dropped when it equals %#x, not 2^64-1: a 0 bit can be passed", cv)
								} else {
									gOnes = true
									recognised = true
								}
							}
						}
					}
					if !recognised {
						extraGuard = fmt.Sprintf("the branch at %s", w.InstrPos(cd.If))
					}
				}
				if bad == "" && extraGuard != "" {
					bad = "dropping a leading all-ones word additionally depends on " + extraGuard + ": Compact can stop while the first stored word is still all-ones (Offset then lags behind the first 0 bit)"
				}
				if bad == "" && !gLen {
					bad = "advancing block is not guarded by len(Words) > 0"
				}
				if bad == "" && !gOnes {
					bad = "advancing block is not guarded by Words[0] == all-ones"
				}
				facts = append(facts, fmt.Sprintf("Offset += 64*%d paired with Words = Words[%d:], guarded by len(Words)>0 and Words[0]==2^64-1", cAdv, cAdv))
			case "Words":
				// a Words store outside an advancing block?
				hasOff := false
				if p, ok := st.Val.(*ssa.Phi); ok && isLoopHeaderPhi(p) {
					for _, i2 := range st.Block().Instrs {
						if s2, ok := i2.(*ssa.Store); ok {
							if f2, ok := s2.Addr.(*ssa.FieldAddr); ok && fieldName(f2) == "Offset" {
								if q, ok := s2.Val.(*ssa.Phi); ok && q.Block() == p.Block() {
									return // the local-copies form: checked together with its Offset store
								}
							}
						}
					}
				}
				if sl, ok := st.Val.(*ssa.Slice); ok && sl.Low != nil {
					if p, ok := stripConv(sl.Low).(*ssa.Phi); ok && isLoopHeaderPhi(p) {
						return // the count form: checked together with its Offset store
					}
				}
				for _, i2 := range st.Block().Instrs {
					if s2, ok := i2.(*ssa.Store); ok {
						if f2, ok := s2.Addr.(*ssa.FieldAddr); ok && fieldName(f2) == "Offset" {
							hasOff = true
						}
					}
				}
				if !hasOff {
					// reallocation is allowed only if it keeps all words: value must be a fresh copy target of equal length
					if mk, ok := st.Val.(*ssa.MakeSlice); ok {
						if cl, ok := asCall(mk.Len, "builtin len"); ok {
							if _, f, ok := asFieldLoad(cl.Common().Args[0]); ok && f == "Words" {
								return
							}
						}
					}
					bad = fmt.Sprintf("Words is replaced at %s without a matching Offset advance", w.InstrPos(st))
				}
			}
		})
		if nAdv == 0 && bad == "" {
			bad = "Compact never advances Offset"
		}
		// the tail may be empty (fresh bitmap, everything compacted away): every Words[k] Compact touches is guarded
		eachInstr(fn, func(ins ssa.Instruction) {
			ia, ok := ins.(*ssa.IndexAddr)
			if !ok || containerRole(ia.X) != ".Words" || bad != "" {
				return
			}
			var lenL Lin
			found := false
			eachInstr(fn, func(i2 ssa.Instruction) {
				if cl, ok := i2.(*ssa.Call); ok {
					if b, ok := cl.Common().Value.(*ssa.Builtin); ok && b.Name() == "len" && containerRole(cl.Common().Args[0]) == ".Words" {
						L := fa.Lin(cl)
						bd := fa.BoundsAt(ia.Block(), fa.Lin(ia.Index).Sub(L))
						if bd.HasHi && bd.Hi <= -1 {
							found = true
						}
						lenL = L
					}
				}
			})
			_ = lenL
			if !found {
				bad = "Words[" + fa.Lin(ia.Index).String() + "] is read at " + w.InstrPos(ia) + " without len(Words) > index being established: Compact on an empty tail (a fresh bitmap, or after everything was compacted away) panics"
			}
		})
		r.Check(bad == "", "R-COMPACT", n, w.Pos(fn.Pos()), bad, facts...)
	}
	// ---- R-SPLIT / R-REBASE per accessor
	for _, n := range names[2:] {
		fn := fns[n]
		fa := w.FA(fn)
		idx := ssa.Value(fn.Params[1])
		var offLoad ssa.Value
		eachInstr(fn, func(ins ssa.Instruction) {
			if v, ok := ins.(ssa.Value); ok {
				if b, f, ok := asFieldLoad(v); ok && f == "Offset" && b == ssa.Value(fn.Params[0]) && offLoad == nil {
					offLoad = v
				}
			}
		})
		if offLoad == nil && strings.HasSuffix(n, ".Get1") {
			// Get1 answered through Get: `if tb.Get(idx) != 0 { return 1 }; return 0` - Get yields 0 or the one bit of the
			// position, so the split and the rebasing are Get's, decided above
			if why, ok := get1ViaGet(fn, fns["bitmap.(*TailBitmap).Get"], fa); ok {
				r.OK("R-SPLIT", n, w.Pos(fn.Pos()), why)
				r.OK("R-REBASE", n, w.Pos(fn.Pos()), why)
				continue
			} else if why != "" {
				r.Bad("R-SPLIT", n, w.Pos(fn.Pos()), why)
				continue
			}
		}
		if offLoad == nil {
			r.Bad("R-SPLIT", n, w.Pos(fn.Pos()), "the function never reads Offset")
			continue
		}
		rel := fa.Lin(idx).Sub(fa.Lin(offLoad)) // idx - Offset
		nacc := 0
		bad, badR := "", ""
		for _, br := range refs[n] {
			if br.Role != ".Words" {
				continue
			}
			nacc++
			bd := fa.BoundsAt(br.Ins.Block(), rel)
			if !(bd.HasLo && bd.Lo == 0) {
				bad = fmt.Sprintf("Words accessed at %s with idx - Offset in %s: the split must be exactly idx - Offset >= 0", w.InstrPos(br.Ins), bd)
			}
			if !br.PosLin.Eq(rel) {
				badR = fmt.Sprintf("stored bit accessed is %s, expected idx - Offset = %s (at %s)", br.PosLin, rel, w.InstrPos(br.Ins))
			}
		}
		if nacc == 0 {
			bad = "no access to Words found"
		}
		// complementary edge
		for _, ret := range returnsOf(fn) {
			bd := fa.BoundsAt(ret.Block(), rel)
			if !(bd.HasHi && bd.Hi <= -1) {
				// a stored position: the answer comes from Words, unless the position is established to lie beyond the stored words
				if !strings.HasSuffix(n, ".Set") && len(ret.Results) > 0 {
					if _, isConst := constInt64(stripConv(ret.Results[0])); isConst {
						beyond := false
						for _, cd := range fa.Conds(ret.Block()) {
							D, _, ok := fa.CondRel(cd)
							if !ok {
								continue
							}
							for atom := range D.T {
								if cl, ok := asCall(fa.AtomValue(atom), "builtin len"); ok {
									if _, f, ok := asFieldLoad(cl.Common().Args[0]); ok && f == "Words" {
										b2 := fa.BoundsAt(ret.Block(), rel.Sub(linConst(0).addScaled(linAtom(atom), 64)))
										if b2.HasLo && b2.Lo >= 0 {
											beyond = true
										}
									}
								}
							}
						}
						// 0/1 answered from a test of the stored bit itself: `if Words[k>>6]&Bit[k&63] != 0 { return 1 }; return 0`
						if kc, _ := constInt64(stripConv(ret.Results[0])); !beyond && strings.HasSuffix(n, ".Get1") && (kc == 0 || kc == 1) {
							conds := fa.Conds(ret.Block())
							neg := make([]Cond, len(conds))
							for i, cd := range conds {
								neg[i] = Cond{V: cd.V, Pol: !cd.Pol, If: cd.If}
							}
							for i := range refs[n] {
								br := &refs[n][i]
								if br.Role != ".Words" || br.Write || !br.PosLin.Eq(rel) || !br.Ins.Block().Dominates(ret.Block()) {
									continue
								}
								if kc == 1 && bitKnownSet(conds, br) || kc == 0 && bitKnownSet(neg, br) {
									beyond = true // not beyond: read
								}
							}
						}
						if !beyond {
							bad = fmt.Sprintf("a constant is returned at %s for a position at or above Offset that is not established to lie beyond the stored words (idx - Offset >= 64*len(Words)): a stored bit is answered without being read", w.InstrPos(ret))
						}
					}
				}
				continue
			}
			if bd.Hi != -1 {
				bad = fmt.Sprintf("implicit-ones edge at %s covers idx - Offset <= %d, must be <= -1", w.InstrPos(ret), bd.Hi)
			}
			switch {
			case strings.HasSuffix(n, ".Get1"):
				if k, ok := constInt64(stripConv(ret.Results[0])); !ok || k != 1 {
					bad = "Get1 must return 1 for a position below Offset"
				}
			case strings.HasSuffix(n, ".Get"):
				ms, ok := fa.MaskOf(ret.Results[0])
				var ox ssa.Value
				oj, ok2 := 0, false
				if ok && ms.Kind == "bit" {
					if ti := fa.AtomValueOfLin(ms.N); ti != nil {
						ox, oj, ok2 = asLowMask(ti)
					}
				}
				if !ok || !ok2 || oj != 6 || stripConv(ox) != idx {
					bad = "Get must return the single bit idx&63 (Bit[idx&63] or 1<<(idx&63)) for a position below Offset"
				}
			case strings.HasSuffix(n, ".Set"):
				// no store on this edge: the return block is reached directly from the split
				for _, i2 := range ret.Block().Instrs {
					if _, ok := i2.(*ssa.Store); ok {
						bad = "Set stores on the idx < Offset edge"
					}
				}
			}
		}
		r.Check(bad == "", "R-SPLIT", n, w.Pos(fn.Pos()), bad, fmt.Sprintf("%d accesses to Words, all on the edge idx - Offset >= 0", nacc))
		r.Check(badR == "", "R-REBASE", n, w.Pos(fn.Pos()), badR, "bit accessed = "+rel.String())
	}
	// ---- R-GROW / R-TRIGGER in Set
	{
		n := "bitmap.(*TailBitmap).Set"
		fn := fns[n]
		fa := w.FA(fn)
		var wr *BitRef
		for i := range refs[n] {
			if refs[n][i].Role == ".Words" && refs[n][i].Write {
				wr = &refs[n][i]
			}
		}
		if wr == nil {
			r.Bad("R-GROW", n, w.Pos(fn.Pos()), "no single-bit store into Words found")
			r.Bad("R-TRIGGER", n, w.Pos(fn.Pos()), "no single-bit store into Words found")
		} else {
			ia := wr.Ins.(*ssa.IndexAddr)
			// k - len(cont) <= -1
			var lenL Lin
			found := false
			for _, cd := range fa.Conds(ia.Block()) {
				D, _, ok := fa.CondRel(cd)
				if !ok {
					continue
				}
				for atom := range D.T {
					if cl, ok := asCall(fa.AtomValue(atom), "builtin len"); ok {
						if _, f, ok := asFieldLoad(cl.Common().Args[0]); ok && f == "Words" {
							lenL = linAtom(atom)
							found = true
						} else if containerRole(cl.Common().Args[0]) == ".Words" && stripConv(cl.Common().Args[0]) == stripConv(ia.X) {
							// the field grown through a local copy of its slice header (words := tb.Words; grow; tb.Words =
							// words): the length compared is that of the very value stored into
							lenL = linAtom(atom)
							found = true
							// ... and that copy is what the field holds when the bit goes in (else a re-allocating append
							// leaves the bit in a slice nobody keeps)
							back := false
							eachInstr(fn, func(i2 ssa.Instruction) {
								if st, ok := i2.(*ssa.Store); ok {
									if fad, ok := st.Addr.(*ssa.FieldAddr); ok && fieldName(fad) == "Words" && stripConv(st.Val) == stripConv(ia.X) &&
										(st.Block() == ia.Block() || st.Block().Dominates(ia.Block())) {
										back = true
									}
								}
							})
							if !back {
								found = false
							}
						}
					}
				}
			}
			if !found {
				r.Bad("R-GROW", n, w.InstrPos(ia), "the store is not dominated by any comparison with len(Words)")
			} else {
				bd := fa.BoundsAt(ia.Block(), fa.Lin(ia.Index).Sub(lenL))
				r.Check(bd.HasHi && bd.Hi == -1, "R-GROW", n, w.InstrPos(ia), "store index k is not established to be < len(Words): k - len(Words) in "+bd.String(), "k - len(Words) <= -1 on the storing edge")
			}
			// trigger
			trig := false
			eachInstr(fn, func(ins ssa.Instruction) {
				call, ok := ins.(*ssa.Call)
				if !ok || call.Common().StaticCallee() != fns["bitmap.(*TailBitmap).Compact"] {
					return
				}
				if !instrDominates(wr.Ins, call) {
					return
				}
				conds := fa.Conds(call.Block())
				if len(conds) == 0 || ia.Block() == call.Block() {
					trig = true // unconditional
				}
				kl := fa.Lin(ia.Index)
				for _, cd := range conds {
					if cd.If.Block() != ia.Block() && !ia.Block().Dominates(cd.If.Block()) {
						continue
					}
					D, op, ok := fa.CondRel(cd)
					if ok && op == opEQ && (D.Eq(kl) || D.Eq(kl.Neg())) {
						trig = true
					}
				}
			})
			r.Check(trig, "R-TRIGGER", n, w.InstrPos(wr.Ins), "no call to Compact that runs whenever the stored word index is 0", "Compact is called on the edge k == 0 after the store")
		}
	}
}

// compactCountForm: Offset = Offset + 64*n with n a counter of leading all-ones words:
//
//	n := 0; for n < len(Words) && Words[n] == 2^64-1 { n++ }; Offset += 64*n; Words = Words[n:]
//
// ok=false with a non-empty reason when the shape is this one but a clause fails.
func compactCountForm(w *World, fa *FA, st *ssa.Store, L Lin) (string, bool) {
	var cnt *ssa.Phi
	okForm := L.K == 0 && len(L.T) == 2
	for atom, coef := range L.T {
		v := fa.AtomValue(atom)
		if _, f, ok := asFieldLoad(v); ok && f == "Offset" && coef == 1 {
			continue
		}
		if p, ok := v.(*ssa.Phi); ok && coef == 64 && isLoopHeaderPhi(p) {
			cnt = p
			continue
		}
		okForm = false
	}
	if !okForm || cnt == nil {
		return "", false
	}
	cl := fa.Lin(cnt)
	// counter: 0, +1
	for i, e := range cnt.Edges {
		el := fa.Lin(e)
		if cnt.Block().Dominates(cnt.Block().Preds[i]) {
			if d := el.Sub(cl); !(d.IsConst() && d.K == 1) {
				return "the count of leading all-ones words is not advanced by 1 per word", false
			}
			continue
		}
		if !(el.IsConst() && el.K == 0) {
			return "the count of leading all-ones words does not start at 0", false
		}
	}
	// the same count re-slices Words, in the block of the Offset store
	paired := false
	for _, i2 := range st.Block().Instrs {
		s2, ok := i2.(*ssa.Store)
		if !ok {
			continue
		}
		f2, ok := s2.Addr.(*ssa.FieldAddr)
		if !ok || fieldName(f2) != "Words" {
			continue
		}
		sl, ok := s2.Val.(*ssa.Slice)
		if !ok || sl.Low == nil || sl.High != nil {
			return "Words is not re-sliced as Words[n:] in the advancing block", false
		}
		if _, f3, ok := asFieldLoad(sl.X); !ok || f3 != "Words" || !fa.Lin(sl.Low).Eq(cl) {
			return fmt.Sprintf("Offset advances by 64*n but Words is re-sliced from %s at %s", fa.Lin(sl.Low), w.InstrPos(s2)), false
		}
		paired = true
	}
	if !paired {
		return "Offset advances without dropping the same number of words in the same block", false
	}
	// the loop is left exactly when n reaches len(Words) or Words[n] is not all-ones
	isLenTest := func(cond ssa.Value, pol bool) (bool, Bounds) { // (is a test n ? len(Words), what it says about n - len(Words))
		var bd Bounds
		D, op, ok := fa.CondRel(Cond{V: cond, Pol: pol})
		if !ok || len(D.T) != 2 {
			return false, bd
		}
		var cn, cw int64
		for atom, coef := range D.T {
			if fa.AtomValue(atom) == ssa.Value(cnt) {
				cn = coef
			} else if c, ok := asCall(fa.AtomValue(atom), "builtin len"); ok {
				if _, f, ok := asFieldLoad(c.Common().Args[0]); ok && f == "Words" {
					cw = coef
				}
			}
		}
		if cn == 0 || cw == 0 || cn != -cw || (cn != 1 && cn != -1) {
			return false, bd
		}
		if cn < 0 {
			D, op = D.Neg(), flipOp(op)
		}
		applyRel(&bd, D.K, op, "") // (n - len) + K op 0  ->  bounds on n - len
		return true, bd
	}
	isOnesTest := func(cond ssa.Value, pol bool) (bool, bool, string) { // (is Words[n] ? all-ones, exit edge means different)
		bo, ok := cond.(*ssa.BinOp)
		if !ok || (bo.Op != token.EQL && bo.Op != token.NEQ) {
			return false, false, ""
		}
		for _, side := range [2][2]ssa.Value{{bo.X, bo.Y}, {bo.Y, bo.X}} {
			cont, idx, ok := asElemLoad(side[0])
			if !ok {
				continue
			}
			if _, f, ok := asFieldLoad(cont); !ok || f != "Words" {
				continue
			}
			cv, okC := constUint64(stripConv(side[1]))
			if !okC {
				continue
			}
			if !fa.Lin(idx).Eq(cl) {
				return true, false, "the all-ones test examines Words[" + fa.Lin(idx).String() + "], not the word being counted"
			}
			if cv != ^uint64(0) {
				return true, false, fmt.Sprintf("a word is counted when it equals %#x, not 2^64-1: a 0 bit can be passed", cv)
			}
			return true, (bo.Op == token.EQL) != pol, ""
		}
		return false, false, ""
	}
	sawLen, sawOnes := false, false
	for _, ex := range fa.loopExits(cnt.Block()) {
		if ex.If == nil {
			return "the counting loop is left unconditionally at " + w.InstrPos(ex.From.Instrs[len(ex.From.Instrs)-1]), false
		}
		if is, bd := isLenTest(ex.Cond, ex.Pol); is {
			if !(bd.HasLo && bd.Lo >= 0) {
				return "the counting loop is left on a length test other than n >= len(Words)", false
			}
			sawLen = true
			continue
		}
		if is, good, why := isOnesTest(ex.Cond, ex.Pol); is {
			if why != "" {
				return why, false
			}
			if !good {
				return "the counting loop is left while Words[n] is all-ones", false
			}
			sawOnes = true
			continue
		}
		return "counting leading all-ones words additionally stops on the branch at " + w.InstrPos(ex.If) + ": Compact can stop while the first stored word is still all-ones (Offset then lags behind the first 0 bit)", false
	}
	if !sawLen || !sawOnes {
		return "the counting loop must stop exactly on n >= len(Words) or Words[n] != 2^64-1", false
	}
	// and n advances only past an all-ones word inside Words: the increment is dominated by both tests
	for i, e := range cnt.Edges {
		if !cnt.Block().Dominates(cnt.Block().Preds[i]) {
			continue
		}
		blk := cnt.Block().Preds[i]
		if ins, ok := e.(ssa.Instruction); ok {
			blk = ins.Block()
		}
		gl, gones := false, false
		for _, cd := range fa.Conds(blk) {
			if is, bd := isLenTest(cd.V, cd.Pol); is && bd.HasHi && bd.Hi <= -1 {
				gl = true
			}
			if is, exitGood, why := isOnesTest(cd.V, cd.Pol); is && why == "" && !exitGood {
				gones = true
			}
		}
		if !gl || !gones {
			return "a word is counted without n < len(Words) and Words[n] == 2^64-1 both established", false
		}
	}
	return "count form: n leading all-ones words counted (n < len(Words) && Words[n] == 2^64-1), then Offset += 64*n with Words = Words[n:]", true
}

func init() {
	register(&Prop{
		ID: "C15", Level: "other",
		Explain: "Per-method preservation conditions of the TailBitmap invariant (DESIGN.md 5/C15): single writer of Offset; Compact advances Offset by 64 per dropped all-ones word under len>0; Get/Get1/Set split exactly at idx < Offset with the right implicit value; rebased bit index idx-Offset with paired >>6 / &63; Set grows before storing and triggers Compact when the first word was touched. Induction over call histories then gives the property; the induction itself is the stated argument, each step is decided on all paths.",
		NotDec:  []string{"the history-level induction is an argument over the decided per-method conditions, not a machine-checked proof", "Bit table contents"},
		Trusted: []string{"go/ssa construction", "field Offset/Words are modified only through the methods (exported fields could be written by clients)"},
		Quick:   []Config{cfgDefault, cfg386}, Thorough: []Config{cfgDefault, cfg386},
		Run: runC15,
	})
}

// compactLocalForm: Compact works on local copies and stores them back once:
//
//	offset, words := tb.Offset, tb.Words
//	for len(words) > 0 && words[0] == allOnes { offset += 64*c; words = words[c:] }
//	tb.Offset, tb.Words = offset, words
//
// Both stored values are loop-carried variables of one loop, started from the fields; every round advances the offset
// by 64*c and drops c words, and is taken only under len(words) > 0 and words[0] == 2^64-1 and nothing else.
func compactLocalForm(w *World, fa *FA, st *ssa.Store) (string, bool) {
	po, ok := st.Val.(*ssa.Phi)
	if !ok || !isLoopHeaderPhi(po) {
		return "", false
	}
	var pw *ssa.Phi
	for _, i2 := range st.Block().Instrs {
		s2, ok := i2.(*ssa.Store)
		if !ok {
			continue
		}
		if f2, ok := s2.Addr.(*ssa.FieldAddr); ok && fieldName(f2) == "Words" {
			q, ok := s2.Val.(*ssa.Phi)
			if !ok || q.Block() != po.Block() {
				return "Offset is stored back from a local copy but Words is not stored back from the copy advanced with it", false
			}
			pw = q
		}
	}
	if pw == nil {
		return "Offset is stored back from a local copy without storing the re-sliced Words in the same block", false
	}
	hb := po.Block()
	if !hb.Dominates(st.Block()) {
		return "", false
	}
	nround := 0
	for i, pred := range hb.Preds {
		eo, ew := po.Edges[i], pw.Edges[i]
		if !hb.Dominates(pred) {
			if _, f, ok := asFieldLoad(eo); !ok || f != "Offset" {
				return "the local offset does not start from Offset", false
			}
			if _, f, ok := asFieldLoad(ew); !ok || f != "Words" {
				return "the local words do not start from Words", false
			}
			continue
		}
		nround++
		d := fa.Lin(eo).Sub(fa.Lin(po))
		if !d.IsConst() || d.K <= 0 || d.K%64 != 0 {
			return fmt.Sprintf("a round changes the local offset by %s: not +64*c (c >= 1)", d), false
		}
		c := d.K / 64
		sl, ok := ew.(*ssa.Slice)
		if !ok || sl.X != ssa.Value(pw) || sl.Low == nil || sl.High != nil {
			return "a round does not re-slice the local words as words[c:]", false
		}
		if lo, okc := constInt64(sl.Low); !okc || lo != c {
			return fmt.Sprintf("a round advances the offset by 64*%d but does not drop %d word(s) at %s", c, c, w.InstrPos(sl)), false
		}
		// guards of the round, relative to the loop header
		gLen, gOnes := false, false
		for _, cd := range fa.Conds(pred) {
			if cd.If == nil || !hb.Dominates(cd.If.Block()) {
				continue // established before the loop
			}
			recognised := false
			if D, _, ok := fa.CondRel(cd); ok && len(D.T) == 1 {
				for atom, coef := range D.T {
					if cl, ok := asCall(fa.AtomValue(atom), "builtin len"); ok && cl.Common().Args[0] == ssa.Value(pw) {
						bd := fa.boundsFrom([]Cond{cd}, linAtom(atom))
						if (coef == 1 || coef == -1) && bd.HasLo && bd.Lo >= 1 {
							gLen, recognised = true, true
						}
					}
				}
			}
			if bo, ok := cd.V.(*ssa.BinOp); ok && (bo.Op == token.EQL && cd.Pol || bo.Op == token.NEQ && !cd.Pol) {
				for _, side := range [2][2]ssa.Value{{bo.X, bo.Y}, {bo.Y, bo.X}} {
					cont, idx, ok := asElemLoad(side[0])
					if !ok || cont != ssa.Value(pw) {
						continue
					}
					i0, okI := constInt64(stripConv(idx))
					cv, okC := constUint64(stripConv(side[1]))
					if okI && okC && i0 == 0 && cv == ^uint64(0) {
						gOnes, recognised = true, true
					}
				}
			}
			if !recognised {
				return "dropping a leading all-ones word additionally depends on the branch at " + w.InstrPos(cd.If) + ": Compact can stop while the first stored word is still all-ones", false
			}
		}
		if !gLen {
			return "a round is not guarded by len(words) > 0", false
		}
		if !gOnes {
			return "a round is not guarded by words[0] == all-ones", false
		}
	}
	if nround == 0 {
		return "", false
	}
	// nothing else writes the fields between the copies and the store back
	bad := ""
	eachInstr(st.Parent(), func(ins ssa.Instruction) {
		s2, ok := ins.(*ssa.Store)
		if !ok || s2 == st || s2.Block() == st.Block() {
			return
		}
		if f2, ok := s2.Addr.(*ssa.FieldAddr); ok && (fieldName(f2) == "Offset" || fieldName(f2) == "Words") && hb.Dominates(s2.Block()) && !st.Block().Dominates(s2.Block()) {
			bad = "a field is written at " + w.InstrPos(s2) + " while Compact works on local copies of Offset and Words"
		}
	})
	if bad != "" {
		return bad, false
	}
	return "local copies of Offset and Words advanced together (+64*c, words[c:]) under len(words)>0 and words[0]==2^64-1, stored back once", true
}

// get1ViaGet: every return of Get1 is the constant 1 on the edge Get(idx) != 0 and the constant 0 on the edge
// Get(idx) == 0, Get being called on the same receiver with the same position, and Get1 touches nothing else.
func get1ViaGet(fn, get *ssa.Function, fa *FA) (string, bool) {
	if get == nil {
		return "", false
	}
	var call *ssa.Call
	other := ""
	eachInstr(fn, func(ins ssa.Instruction) {
		switch x := ins.(type) {
		case *ssa.Call:
			if x.Common().StaticCallee() == get && call == nil {
				call = x
			} else {
				other = "Get1 calls something besides Get"
			}
		case *ssa.Store, *ssa.FieldAddr, *ssa.IndexAddr:
			other = "Get1 reads or writes the bitmap besides calling Get"
		}
	})
	if call == nil {
		return "", false
	}
	if other != "" {
		return other, false
	}
	args := call.Common().Args
	if len(args) != 2 || args[0] != ssa.Value(fn.Params[0]) || args[1] != ssa.Value(fn.Params[1]) {
		return "Get1 asks Get about another bitmap or another position", false
	}
	nret := 0
	for _, ret := range returnsOf(fn) {
		for _, lf := range fa.leavesOf(ret.Results[0], ret.Block(), 0) {
			k, ok := constInt64(stripConv(lf.V))
			if !ok || (k != 0 && k != 1) {
				return "Get1 returns something other than the constants 0 and 1", false
			}
			known := false
			for _, cd := range lf.Conds {
				bo, ok := cd.V.(*ssa.BinOp)
				if !ok || (bo.Op != token.NEQ && bo.Op != token.EQL) {
					continue
				}
				var z ssa.Value
				switch {
				case stripConv(bo.X) == ssa.Value(call):
					z = bo.Y
				case stripConv(bo.Y) == ssa.Value(call):
					z = bo.X
				default:
					continue
				}
				if c, ok := constUint64(stripConv(z)); !ok || c != 0 {
					continue
				}
				nonzero := (bo.Op == token.NEQ) == cd.Pol
				if nonzero == (k == 1) {
					known = true
				} else {
					return "Get1 answers 1 where Get found 0 (or 0 where Get found the bit)", false
				}
			}
			if !known {
				return "Get1 returns a constant on an edge that does not test Get(idx) against 0", false
			}
			nret++
		}
	}
	if nret < 2 {
		return "Get1 does not distinguish the two answers of Get", false
	}
	return "Get1 = 1 on the edge Get(idx) != 0, 0 on the edge Get(idx) == 0 (same receiver, same position)", true
}
