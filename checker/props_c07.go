package main

import (
	"fmt"
	"go/constant"
	"go/token"
	"go/types"
	"strings"

	"golang.org/x/tools/go/ssa"
)

var pbcmplFuncs = []string{"pbcmpl.Marshal", "pbcmpl.marshal", "pbcmpl.ReadHeader", "pbcmpl.Unmarshal", "pbcmpl.(*header).Marshal", "pbcmpl.(*header).Unmarshal"}

var pbcmplErrExceptions = []errException{
	{"pbcmpl.marshal", "github.com/golang/protobuf/proto.Marshal", "*github.com/openacid/low/pbcmpl.header", "fixed-size struct -> encoding/binary.Write into a bytes.Buffer cannot fail (stated belief in the source: 'should never encounter error')"},
	{"pbcmpl.ReadHeader", "github.com/golang/protobuf/proto.Unmarshal", "*github.com/openacid/low/pbcmpl.header", "exactly fixedSize bytes -> encoding/binary.Read of a fixed-size struct cannot fail (buffer length is fixedSize by R-HDRREAD)"},
	{"pbcmpl.ReadHeader", "(*github.com/openacid/low/pbcmpl.header).Unmarshal", "*github.com/openacid/low/pbcmpl.header", "the same decode reached without the proto.Unmarshal indirection (proto.Unmarshal of a header calls exactly this method): exactly fixedSize bytes -> encoding/binary.Read cannot fail"},
	{"pbcmpl.marshal", "(*github.com/openacid/low/pbcmpl.header).Marshal", "*github.com/openacid/low/pbcmpl.header", "the same encode reached without the proto.Marshal indirection: fixed-size struct -> encoding/binary.Write into a bytes.Buffer cannot fail"},
	{"pbcmpl.Marshal", "github.com/golang/protobuf/proto.Marshal", "*github.com/openacid/low/pbcmpl.header", "the same belief site when the helper marshal is dissolved into Marshal"},
	{"pbcmpl.Marshal", "(*github.com/openacid/low/pbcmpl.header).Marshal", "*github.com/openacid/low/pbcmpl.header", "the same belief site when the helper marshal is dissolved into Marshal"},
}

func isParamStream(fn *ssa.Function, idx int) func(ssa.Value) bool {
	return func(v ssa.Value) bool { return idx < len(fn.Params) && v == ssa.Value(fn.Params[idx]) }
}

// sizeSource: integer values that come from the header fields of the input.
func pbSizeSource(v ssa.Value) (string, bool) {
	if c, ok := v.(*ssa.Call); ok {
		com := c.Common()
		if com.IsInvoke() && (com.Method.Name() == "GetBodySize" || com.Method.Name() == "GetHeaderSize") {
			return com.Method.Name(), true
		}
		if f := com.StaticCallee(); f != nil && (f.Name() == "GetBodySize" || f.Name() == "GetHeaderSize") && strings.HasSuffix(fnPkg(f).Path(), "/pbcmpl") {
			return f.Name(), true
		}
	}
	if _, f, ok := asFieldLoad(v); ok && (f == "BodySize" || f == "HeaderSize") {
		if u, ok := v.(*ssa.UnOp); ok {
			if fa, ok := u.X.(*ssa.FieldAddr); ok && strings.HasSuffix(fa.X.Type().String(), "pbcmpl.header") {
				return f, true
			}
		}
	}
	return "", false
}

// derivesFromGlobal: v is a load of package variable pkg.name - or, when the package declares name as a constant
// instead (a maintainer may turn `var fixedSize = binary.Size(&header{})` into `const fixedSize = 32`), a constant of
// that value: agreement of writer and reader is then agreement of values.
func derivesFromGlobal(w *World, v ssa.Value, pkg, name string) bool {
	kv, isConst := int64(0), false
	if p := w.Pkg(pkg); p != nil {
		if nc, ok := p.Members[name].(*ssa.NamedConst); ok && nc.Value != nil && nc.Value.Value != nil {
			if k, exact := constant.Int64Val(constant.ToInt(nc.Value.Value)); exact {
				kv, isConst = k, true
			}
		}
	}
	for _, s := range resolvePhi(stripConv(v)) {
		s = stripConv(s)
		if isConst {
			if k, ok := constInt64(s); ok && k == kv {
				continue
			}
			return false
		}
		u, ok := s.(*ssa.UnOp)
		if !ok || u.Op != token.MUL || !isGlobal(u.X, pkg, name) {
			return false
		}
	}
	return true
}

func runC07(c *Ctx, w *World, r *Report) {
	pbNames := dropMissingHelpers(w, pbcmplFuncs, "pbcmpl.marshal")
	// what Unmarshal/ReadHeader hand arbitrary header bytes to: the accessors and the version decoder
	accNames := dropMissingHelpers(w, []string{"pbcmpl.(*headerInfo).GetVersion", "pbcmpl.(*headerInfo).GetHeaderSize", "pbcmpl.(*headerInfo).GetBodySize", "pbcmpl.verStr"}, "pbcmpl.verStr")
	fns, ok := requireFuncs(w, r, append(append([]string{}, pbNames...), accNames...)...)
	if g := w.Global("pbcmpl", "ErrInvalidHeaderSize"); g == nil {
		r.Unknown("R-ANCHOR", "pbcmpl.ErrInvalidHeaderSize", "-", "error variable named by the property is missing")
	}
	n := ReportErrProp(w, r, pbcmplErrExceptions, pbNames...)
	r.Units["error_returning_calls"] = n
	if n < 8 {
		r.Bad("R-ERRPROP", "floor", "-", fmt.Sprintf("only %d error-returning call sites found in the pbcmpl entry points (confirmed by hand: >= 8)", n))
	}
	if !ok {
		return
	}
	r.Rule("R-TAINT", "an integer taken from the input header (GetBodySize/GetHeaderSize, header.BodySize/HeaderSize) may reach an allocation size, slice bound or index only if on every path it is bounded below by 0 and above by a constant or an untainted value; io.CopyN/LimitReader, comparisons and arithmetic are not sinks")
	r.Rule("R-GATE", "Unmarshal reads the body only on the edge GetHeaderSize() == fixedSize; the other edge returns (an error derived from) ErrInvalidHeaderSize; the decode call is dominated by the success edges of both reads and decodes exactly the bytes the body read filled")
	r.Rule("R-FIELD", "the size accessors that the gates of Unmarshal consult return the header's own field, unchanged, on every path: GetHeaderSize the HeaderSize field, GetBodySize the BodySize field. A default, clamp or translation inside the accessor makes a corrupt field pass the header-size gate (no ErrInvalidHeaderSize) or changes how many bytes are taken for the body")
	for _, acc := range [][2]string{{"pbcmpl.(*headerInfo).GetHeaderSize", "HeaderSize"}, {"pbcmpl.(*headerInfo).GetBodySize", "BodySize"}} {
		fn := fns[acc[0]]
		if fn == nil {
			continue
		}
		okA := len(returnsOf(fn)) > 0
		for _, ret := range returnsOf(fn) {
			_, f, ok := asFieldLoad(ret.Results[0])
			if !ok || f != acc[1] {
				okA = false
			}
		}
		r.Check(okA, "R-FIELD", acc[0], w.Pos(fn.Pos()), acc[0]+" does not return the "+acc[1]+" field itself on every path", "returns int64(h."+acc[1]+")")
	}
	r.Rule("R-HDRREAD", "ReadHeader fills a buffer of exactly fixedSize bytes with io.ReadFull from its reader and returns its count and error")

	// ---- R-TAINT
	for _, fname := range []string{"pbcmpl.Unmarshal", "pbcmpl.ReadHeader"} {
		fn := fns[fname]
		fa := w.FA(fn)
		nsrc := 0
		tainted, sinks := taintedSinks(fn, func(v ssa.Value) bool {
			_, ok := pbSizeSource(v)
			if ok {
				nsrc++
			}
			return ok
		})
		r.Units["taint_sources_"+fname] = nsrc
		if fname == "pbcmpl.Unmarshal" && nsrc == 0 {
			r.Bad("R-TAINT", fname+"|sources", w.Pos(fn.Pos()), "no use of the header's size fields found: the size source anchor is missing")
		}
		// io.CopyN / io.LimitReader with a header-derived count: a NEGATIVE count silently copies nothing
		// and reports success, so the count must be proven >= 0 on the calling edge (no upper bound needed)
		eachInstr(fn, func(ins ssa.Instruction) {
			call, ok := ins.(*ssa.Call)
			if !ok {
				return
			}
			name := calleeName(call.Common())
			var cnt ssa.Value
			switch name {
			case "io.CopyN":
				cnt = call.Common().Args[2]
			case "io.LimitReader":
				cnt = call.Common().Args[1]
			default:
				return
			}
			if !tainted[cnt] && !tainted[stripConv(cnt)] {
				return
			}
			key := fname + "|" + name + ".count<-header"
			bd := fa.BoundsAt(call.Block(), fa.Lin(cnt))
			if bd.HasLo && bd.Lo >= 0 {
				r.OK("R-TAINT", key, w.InstrPos(call), "header-derived count of "+name+" is proven >= 0: "+bd.String())
			} else {
				r.Bad("R-TAINT", key, w.InstrPos(call), "a size read from the input header is passed to "+name+" without being proven >= 0 (known bounds "+bd.String()+"): for a negative count it copies nothing and returns nil, so a corrupt header (body size >= 2^63) is reported as a successfully read frame")
			}
		})
		if len(sinks) == 0 {
			r.OK("R-TAINT", fname, w.Pos(fn.Pos()), fmt.Sprintf("%d size values read from the input header, %d derived values, none reaches an allocation size, slice bound or index", nsrc, len(tainted)))
		}
		for i, sk := range sinks {
			key := fmt.Sprintf("%s|%s<-header#%d", fname, strings.ReplaceAll(sk.What, " ", "."), i+1)
			L := fa.Lin(sk.Val)
			// expand clamps (phis) into leaves, each with the conditions of its edge
			allOK := true
			var bd Bounds
			upper := true
			for _, leaf := range fa.leavesOf(stripConv(sk.Val), sk.Ins.Block(), 0) {
				lv := stripConv(leaf.V)
				if k, ok := constInt64(lv); ok {
					if k < 0 {
						allOK = false
					}
					continue
				}
				if !tainted[lv] && !tainted[leaf.V] {
					continue
				}
				LL := fa.Lin(lv)
				b := fa.boundsFrom(leaf.Conds, LL)
				up := b.HasHi
				if !up {
					for _, cd := range leaf.Conds {
						D, op, ok := fa.CondRel(cd)
						if !ok {
							continue
						}
						E := D.Sub(LL)
						if op == opLT || op == opLE {
							okU := len(E.T) > 0
							for atom := range E.T {
								if v := fa.AtomValue(atom); v == nil || tainted[v] {
									okU = false
								}
							}
							if okU {
								up = true
							}
						}
					}
				}
				if !(b.HasLo && b.Lo >= 0 && up) {
					allOK = false
					bd = b
					upper = up
				} else if allOK {
					bd = b
				}
			}
			if allOK {
				bd.HasLo, bd.Lo = true, 0
			} else {
				upper = false
			}
			if bd.HasLo && bd.Lo >= 0 && upper {
				r.OK("R-TAINT", key, w.InstrPos(sk.Ins), "header-derived "+sk.What+" is bounded: "+bd.String())
			} else {
				r.Bad("R-TAINT", key, w.InstrPos(sk.Ins), fmt.Sprintf("a size read from the input header reaches a %s unchecked (known bounds %s): a corrupt or hostile header (e.g. body size >= 2^63 or larger than memory) makes this panic instead of returning an error", sk.What, bd),
					"value: "+L.String())
			}
		}
	}
	// ---- R-HDRREAD
	{
		fname := "pbcmpl.ReadHeader"
		fn := fns[fname]
		bad := ""
		ios := streamCalls(fn, isParamStream(fn, 0))
		if len(ios) != 1 || ios[0].Name != "io.ReadFull" {
			bad = fmt.Sprintf("expected exactly one io.ReadFull on the reader, found %d stream calls", len(ios))
		} else {
			buf := ios[0].Call.Common().Args[1]
			mk, ok := buf.(*ssa.MakeSlice)
			okBuf := ok && derivesFromGlobal(w, mk.Len, "pbcmpl", "fixedSize")
			// make([]byte, K) with a constant K is an array allocation sliced whole in go/ssa
			if sl, isSl := buf.(*ssa.Slice); isSl && sl.Low == nil && sl.Max == nil {
				if al, isAl := sl.X.(*ssa.Alloc); isAl {
					if pt, isP := al.Type().Underlying().(*types.Pointer); isP {
						if at, isA := pt.Elem().Underlying().(*types.Array); isA {
							hi := at.Len()
							if sl.High != nil {
								hi = -1
								if k, isC := constInt64(sl.High); isC {
									hi = k
								}
							}
							if kf, isK := w.NamedConstInt("pbcmpl", "fixedSize"); isK && at.Len() == kf && hi == kf {
								okBuf = true
							}
						}
					}
				}
			}
			if !okBuf {
				bad = "the header buffer is not make([]byte, fixedSize)"
			}
			// the error ReadHeader hands back is the read's own error: io.ReadFull already says io.EOF for "nothing was
			// there" and io.ErrUnexpectedEOF for a partial header; re-labelling one as the other here (for padding,
			// for convenience) turns a truncated frame into a clean end of stream or the reverse
			if bad == "" {
				errV := ssa.Value(nil)
				if ios[0].Call.Referrers() != nil {
					for _, ref := range *ios[0].Call.Referrers() {
						if ex, ok := ref.(*ssa.Extract); ok && ex.Index == 1 {
							errV = ex
						}
					}
				}
				for _, ret := range returnsOf(fn) {
					if len(ret.Results) < 3 {
						continue
					}
					for _, lf := range w.FA(fn).leavesOf(ret.Results[2], ret.Block(), 0) {
						v := unwrapErr(lf.V)
						if c, isC := v.(*ssa.Const); isC && c.IsNil() {
							continue
						}
						if errV != nil && v == errV {
							continue
						}
						if _, isG := isGlobalErrVarLoad(v); isG {
							bad = "ReadHeader returns a package-level error variable in place of the error of its read at " + w.InstrPos(ret) + ": the io.EOF / io.ErrUnexpectedEOF distinction of io.ReadFull (nothing there / a cut header) is re-labelled"
						}
					}
				}
			}
		}
		r.Check(bad == "", "R-HDRREAD", fname, w.Pos(fn.Pos()), bad, "io.ReadFull(r, make([]byte, fixedSize))")
	}
	// ---- R-GATE
	{
		fname := "pbcmpl.Unmarshal"
		fn := fns[fname]
		fa := w.FA(fn)
		ios := streamCalls(fn, isParamStream(fn, 0))
		var hdrCall *ioCall
		var bodyCalls []ioCall
		for i := range ios {
			if strings.HasSuffix(ios[i].Name, "pbcmpl.ReadHeader") {
				hdrCall = &ios[i]
			} else {
				bodyCalls = append(bodyCalls, ios[i])
			}
		}
		if hdrCall == nil {
			r.Bad("R-GATE", fname+"|header", w.Pos(fn.Pos()), "Unmarshal does not read the header through ReadHeader")
		}
		if len(bodyCalls) == 0 {
			r.Bad("R-GATE", fname+"|body", w.Pos(fn.Pos()), "no body read on the reader found")
		}
		// the gate condition
		isGate := func(cd Cond) (bool, bool) { // (isGate, equalEdge)
			bo, ok := cd.V.(*ssa.BinOp)
			if !ok || (bo.Op != token.EQL && bo.Op != token.NEQ) {
				return false, false
			}
			for _, side := range [2][2]ssa.Value{{bo.X, bo.Y}, {bo.Y, bo.X}} {
				src, ok := pbSizeSource(stripConv(side[0]))
				if !ok || src != "GetHeaderSize" && src != "HeaderSize" {
					continue
				}
				if !derivesFromGlobal(w, side[1], "pbcmpl", "fixedSize") {
					continue
				}
				return true, (bo.Op == token.EQL) == cd.Pol
			}
			return false, false
		}
		for i, bc := range bodyCalls {
			gated := false
			for _, cd := range fa.Conds(bc.Call.Block()) {
				if g, eq := isGate(cd); g && eq {
					gated = true
				}
			}
			r.Check(gated, "R-GATE", fmt.Sprintf("%s|body-read#%d", fname, i+1), w.InstrPos(bc.Call), "the body is read without the header size having been validated (GetHeaderSize() == fixedSize does not dominate this read)", "dominated by the GetHeaderSize()==fixedSize edge")
			if hdrCall != nil && !instrDominates(hdrCall.Call, bc.Call) {
				r.Bad("R-GATE", fmt.Sprintf("%s|order#%d", fname, i+1), w.InstrPos(bc.Call), "body read is not preceded by the header read")
			}
		}
		// failing edge
		nfail := 0
		for _, ret := range returnsOf(fn) {
			for _, cd := range fa.Conds(ret.Block()) {
				if g, eq := isGate(cd); g && !eq {
					nfail++
					src := unwrapErr(ret.Results[2])
					name, ok := isGlobalErrVarLoad(src)
					r.Check(ok && name == "pbcmpl.ErrInvalidHeaderSize", "R-GATE", fname+"|mismatch-return", w.InstrPos(ret), "on a header-size mismatch Unmarshal returns "+fmtVal(w, ret.Results[2])+" instead of ErrInvalidHeaderSize", "returns (wrapped) ErrInvalidHeaderSize")
				}
			}
		}
		if nfail == 0 {
			r.Bad("R-GATE", fname+"|mismatch-return", w.Pos(fn.Pos()), "no return on the header-size mismatch edge: a corrupt header size is not rejected")
		}
		// the header-size test is the first decision taken on a header that was read: no return lies between the
		// successful header read and the gate (a header corrupt in several fields still yields ErrInvalidHeaderSize)
		if hdrCall != nil {
			var gateBlocks []*ssa.BasicBlock
			for _, b := range fn.Blocks {
				if ifi, ok := b.Instrs[len(b.Instrs)-1].(*ssa.If); ok {
					if g, _ := isGate(Cond{V: stripNot(ifi.Cond), Pol: true, If: ifi}); g {
						gateBlocks = append(gateBlocks, b)
					}
				}
			}
			hdrErr := map[ssa.Value]bool{}
			if hdrCall.Call.Referrers() != nil {
				for _, ref := range *hdrCall.Call.Referrers() {
					if ex, ok := ref.(*ssa.Extract); ok && isErrorType(ex.Type()) {
						hdrErr[ex] = true
					}
				}
			}
			badFirst := ""
			nbefore := 0
			for _, ret := range returnsOf(fn) {
				if !instrDominates(hdrCall.Call, ret) {
					continue
				}
				afterGate := false
				for _, gb := range gateBlocks {
					if gb.Dominates(ret.Block()) {
						afterGate = true
					}
				}
				if afterGate {
					continue
				}
				failed := false
				for _, cd := range fa.Conds(ret.Block()) {
					if bo, ok := cd.V.(*ssa.BinOp); ok && (bo.Op == token.NEQ && cd.Pol || bo.Op == token.EQL && !cd.Pol) {
						if hdrErr[bo.X] && isNilConst(bo.Y) || hdrErr[bo.Y] && isNilConst(bo.X) {
							failed = true
						}
					}
				}
				if failed {
					nbefore++
					continue
				}
				badFirst = "Unmarshal can return at " + w.InstrPos(ret) + " after the header was read but before its header-size field was tested: a header whose size field is not " + "fixedSize must yield ErrInvalidHeaderSize whatever else is wrong with it"
			}
			r.Check(badFirst == "", "R-GATE", fname+"|first-decision", w.Pos(fn.Pos()), badFirst, fmt.Sprintf("%d return(s) before the gate, all on the failed-header-read edge", nbefore))
		}
		// decode call
		var decode *ssa.Call
		eachInstr(fn, func(ins ssa.Instruction) {
			if call, ok := ins.(*ssa.Call); ok && strings.HasSuffix(calleeName(call.Common()), "proto.Unmarshal") {
				decode = call
			}
		})
		if decode == nil {
			r.Bad("R-GATE", fname+"|decode", w.Pos(fn.Pos()), "no proto.Unmarshal of the body found")
		} else {
			bad := ""
			errs := map[ssa.CallInstruction]ssa.Value{}
			for _, es := range errorCalls(fn) {
				errs[es.Call] = es.Err
			}
			conds := fa.Conds(decode.Block())
			check := func(ic *ioCall, what string) {
				if ic == nil {
					return
				}
				e := errs[ic.Call]
				if e == nil || nilnessUnder(conds, e) != -1 {
					bad = "the body is decoded (and success can be reported) although the " + what + " read may have failed or been short"
				}
			}
			check(hdrCall, "header")
			for i := range bodyCalls {
				check(&bodyCalls[i], "body")
			}
			if decode.Common().Args[1] != ssa.Value(fn.Params[1]) {
				bad = "decode target is not the msg argument"
			}
			// decoded bytes = body sink
			if bad == "" && len(bodyCalls) > 0 {
				okBuf := false
				in := decode.Common().Args[0]
				for _, bc := range bodyCalls {
					args := bc.Call.Common().Args
					switch bc.Name {
					case "io.ReadFull", "io.ReadAtLeast":
						if in == args[1] {
							okBuf = true
						}
					case "io.CopyN", "io.Copy":
						dst := args[0]
						if mi, ok := dst.(*ssa.MakeInterface); ok {
							dst = mi.X
						}
						if bcall, ok := in.(*ssa.Call); ok && calleeName(bcall.Common()) == "(*bytes.Buffer).Bytes" && bcall.Common().Args[0] == dst {
							okBuf = true
						}
					}
				}
				if !okBuf {
					bad = "the bytes decoded are not the bytes the body read filled"
				}
			}
			r.Check(bad == "", "R-GATE", fname+"|decode", w.InstrPos(decode), bad, "proto.Unmarshal(body, msg) dominated by err==nil of header and body reads")
		}
		reportSuccessViaDecode(w, r, fn)
		ReportEOFSource(w, r, "pbcmpl.Unmarshal", isParamStream(fn, 0))
		// EOF kind: a body read that can report io.EOF after body bytes were consumed must convert it
		r.Rule("R-EOFKIND", "a body read whose error can be io.EOF although bytes of the frame were already consumed by it or by an earlier body read (io.CopyN/io.Copy/Read, or any read inside a loop) returns that error unconverted only on an edge where err == io.EOF is false or no body byte was read; io.ReadFull called once converts by itself")
		for i, bc := range bodyCalls {
			inLoop := fa.Reaches(bc.Call.Block(), bc.Call.Block()) && func() bool {
				for _, s := range bc.Call.Block().Succs {
					if fa.Reaches(s, bc.Call.Block()) {
						return true
					}
				}
				return false
			}()
			needs := inLoop || bc.Name == "io.CopyN" || bc.Name == "io.Copy" || strings.HasPrefix(bc.Name, "invoke ")
			for j, other := range bodyCalls {
				if j != i && instrDominates(other.Call, bc.Call) {
					needs = true
				}
			}
			key := fmt.Sprintf("%s|body-read#%d", fname, i+1)
			if !needs {
				r.OK("R-EOFKIND", key, w.InstrPos(bc.Call), "single io.ReadFull: EOF only when nothing was read, ErrUnexpectedEOF otherwise (library contract)")
				continue
			}
			var e ssa.Value
			for _, es := range errorCalls(fn) {
				if es.Call == ssa.CallInstruction(bc.Call) {
					e = es.Err
				}
			}
			badK := ""
			if e == nil {
				badK = "error not extracted"
			}
			for _, ret := range returnsOf(fn) {
				if e == nil || !instrDominates(bc.Call, ret) && !fa.Reaches(bc.Call.Block(), ret.Block()) {
					continue
				}
				for _, leaf := range fa.leavesOf(ret.Results[2], ret.Block(), 0) {
					if unwrapErr(leaf.V) != e {
						continue
					}
					if nilnessUnder(leaf.Conds, e) != 1 {
						continue
					}
					// need: (e == io.EOF) false, or count == 0 / <= 0
					okK := false
					for _, cd := range leaf.Conds {
						if bo, ok := cd.V.(*ssa.BinOp); ok && (bo.Op == token.EQL || bo.Op == token.NEQ) {
							var other ssa.Value
							if bo.X == e {
								other = bo.Y
							} else if bo.Y == e {
								other = bo.X
							}
							if other != nil {
								if g, ok := isGlobalErrVarLoad(other); ok && g == "io.EOF" {
									isEOF := (bo.Op == token.EQL) == cd.Pol
									if !isEOF {
										okK = true
									}
								}
							}
						}
					}
					if bc.Count != nil {
						bd := fa.boundsFrom(leaf.Conds, fa.Lin(bc.Count))
						if bd.HasHi && bd.Hi <= 0 && !inLoop {
							okK = true
						}
					}
					if !okK {
						badK = fmt.Sprintf("the error of %s is returned unconverted at %s although it can be io.EOF after part of the frame was consumed: a truncated frame would look like a clean end of stream", bc.Name, w.InstrPos(ret))
					}
				}
			}
			r.Check(badK == "", "R-EOFKIND", key, w.InstrPos(bc.Call), badK, "io.EOF after partial progress is converted to io.ErrUnexpectedEOF before being returned")
		}
		// version returned is the header's
		for i, ret := range returnsOf(fn) {
			v := ret.Results[1]
			if cst, ok := v.(*ssa.Const); ok {
				_ = cst
				continue
			}
			if call, ok := v.(*ssa.Call); ok && call.Common().IsInvoke() && call.Common().Method.Name() == "GetVersion" {
				continue
			}
			r.Bad("R-GATE", fmt.Sprintf("%s|version#%d", fname, i+1), w.InstrPos(ret), "version result is neither empty nor the header's GetVersion()")
		}
	}
	// ---- R-COUNT
	ReportCount(w, r, "pbcmpl.Marshal", 0, isParamStream(fns["pbcmpl.Marshal"], 0))
	ReportCount(w, r, "pbcmpl.ReadHeader", 0, isParamStream(fns["pbcmpl.ReadHeader"], 0))
	// R-WRITERERR: Marshal hands back the writer's own error
	r.Rule("R-WRITERERR", "when a write of Marshal fails, the error Marshal returns is the very value the writer returned - not a wrapped copy (errors.WithStack and the like keep the text but not the identity: a caller comparing with io.ErrShortWrite or io.ErrClosedPipe no longer recognises it)")
	if mf := fns["pbcmpl.Marshal"]; mf != nil {
		fa := w.FA(mf)
		werrs := map[ssa.Value]bool{}
		for _, ic := range streamCalls(mf, isParamStream(mf, 0)) {
			if refs := ic.Call.Referrers(); refs != nil {
				for _, u := range *refs {
					if ex, ok := u.(*ssa.Extract); ok && isErrorType(ex.Type()) {
						for a := range errAliases(ex) {
							werrs[a] = true
						}
					}
				}
			}
		}
		bad := ""
		nret := 0
		for _, ret := range returnsOf(mf) {
			if len(ret.Results) == 0 {
				continue
			}
			nret++
			for _, lf := range fa.leavesOf(ret.Results[len(ret.Results)-1], ret.Block(), 0) {
				call, ok := lf.V.(*ssa.Call)
				if !ok || !nilPreservingWrappers[calleeName(call.Common())] || len(call.Common().Args) == 0 {
					continue
				}
				if werrs[call.Common().Args[0]] {
					bad = "the return at " + w.InstrPos(ret) + " hands back " + calleeName(call.Common()) + "(err) for the error of a write: the writer's own error value is replaced by a wrapped copy"
				}
			}
		}
		r.Check(bad == "" && len(werrs) > 0, "R-WRITERERR", "pbcmpl.Marshal", w.Pos(mf.Pos()), firstNonEmpty(bad, "no write error found in Marshal"), fmt.Sprintf("%d returns, %d write-error values, none wrapped", nret, len(werrs)))
	}
	// a cut of a frame the library wrote is an unexpected EOF, not an invalid size: Unmarshal refuses on its own account
	// only sizes Marshal cannot record (shared with C06)
	reportAccept(w, r, "pbcmpl.Unmarshal")
	ReportCount(w, r, "pbcmpl.Unmarshal", 0, isParamStream(fns["pbcmpl.Unmarshal"], 0))
	reportWriteOrder(w, r, fns["pbcmpl.Marshal"])
	_ = types.Typ
}

func stripNot(v ssa.Value) ssa.Value {
	for {
		u, ok := v.(*ssa.UnOp)
		if !ok || u.Op != token.NOT {
			return v
		}
		v = u.X
	}
}

func isNilConst(v ssa.Value) bool {
	c, ok := v.(*ssa.Const)
	return ok && c.Value == nil
}

func init() {
	register(&Prop{
		ID: "C07", Level: "other",
		Explain: "E3 I/O discipline for pbcmpl (DESIGN.md 5/C07): taint of the header's size fields to allocation sinks (found defect D3), error propagation at every error-returning call of the six entry points, the header-size gate and its failing edge, decode only after both reads succeeded and on the bytes read, byte accounting at every return, write order. Decided on all paths, hence for every cut point / failing write offset / header content; which io error value ReadFull/CopyN produce for which cut is their documented contract (trusted).",
		NotDec:  []string{"which io error (EOF vs ErrUnexpectedEOF) the io helpers return for which cut point (library contract)", "that the partial bytes actually reached the writer (writer contract)"},
		Trusted: []string{"go/ssa construction", "io.ReadFull / io.CopyN / io.Writer contracts", "github.com/openacid/errors.WithStack is nil-preserving and keeps the cause"},
		Quick:   []Config{cfgDefault, cfg386}, Thorough: []Config{cfgDefault, cfg386},
		Run: runC07,
	})
}

// reportSuccessViaDecode: Unmarshal reports success only through the decode of the body.
func reportSuccessViaDecode(w *World, r *Report, fn *ssa.Function) {
	fa := w.FA(fn)
	fname := "pbcmpl.Unmarshal"
	r.Rule("R-SUCCESS", "Unmarshal reports success only through the decode of the body: every return whose error can be nil is dominated by proto.Unmarshal(body, msg) and lies on its err == nil edge or returns its error (an early `return n, ver, nil`, e.g. for an empty body, would leave msg undecoded / not reset)")
	var decode *ssa.Call
	eachInstr(fn, func(ins ssa.Instruction) {
		if call, ok := ins.(*ssa.Call); ok && strings.HasSuffix(calleeName(call.Common()), "proto.Unmarshal") {
			decode = call
		}
	})
	badS := ""
	var decErr ssa.Value
	for _, es := range errorCalls(fn) {
		if decode != nil && es.Call == ssa.CallInstruction(decode) {
			decErr = es.Err
		}
	}
	for _, ret := range returnsOf(fn) {
		for _, leaf := range fa.leavesOf(ret.Results[2], ret.Block(), 0) {
			cst, ok := unwrapErr(leaf.V).(*ssa.Const)
			if !ok || !cst.IsNil() {
				continue
			}
			if decode == nil || !instrDominates(decode, ret) || decErr == nil || nilnessUnder(leaf.Conds, decErr) != -1 {
				badS = fmt.Sprintf("success (nil error) is returned at %s on a path that does not go through a successful decode of the body", w.InstrPos(ret))
			}
		}
	}
	if decode == nil {
		badS = "the body is never decoded into msg"
	}
	r.Check(badS == "", "R-SUCCESS", fname, w.Pos(fn.Pos()), badS, "the only nil-able error returned is the decode's own")
}

// reportWriteOrder (shared by C06 "one frame per call" and C07 "the first k bytes of the frame"): the only bytes Marshal
// writes are the two results of marshal(), header first.
func reportWriteOrder(w *World, r *Report, fn *ssa.Function) {
	fname := "pbcmpl.Marshal"
	r.Rule("R-ORDER", "Marshal writes the header bytes first and the body bytes second, to the same writer, the second write being dominated by the success edge of the first")
	ios := streamCalls(fn, isParamStream(fn, 0))
	bad := ""
	if len(ios) != 2 {
		bad = fmt.Sprintf("expected two writes (header, body), found %d", len(ios))
	} else {
		a0, a1 := ios[0].Call.Common().Args[0], ios[1].Call.Common().Args[0]
		e0, ok0 := a0.(*ssa.Extract)
		e1, ok1 := a1.(*ssa.Extract)
		// with the helper marshal dissolved into Marshal the two buffers are the results of two proto.Marshal calls: the
		// one of the header (argument built by newHeader) and the one of the message (R-DECL decides which is which)
		dissolved := false
		if ok0 && ok1 && e0.Tuple != e1.Tuple {
			isHdr := func(t ssa.Value) bool {
				c, ok := t.(*ssa.Call)
				if !ok || !strings.HasSuffix(calleeName(c.Common()), "proto.Marshal") {
					return false
				}
				mi, ok := c.Common().Args[0].(*ssa.MakeInterface)
				if !ok {
					return false
				}
				nh, ok := mi.X.(*ssa.Call)
				return ok && nh.Common().StaticCallee() != nil && nh.Common().StaticCallee().Name() == "newHeader"
			}
			isMsg := func(t ssa.Value) bool {
				c, ok := t.(*ssa.Call)
				return ok && strings.HasSuffix(calleeName(c.Common()), "proto.Marshal") && len(fn.Params) > 1 && c.Common().Args[0] == ssa.Value(fn.Params[1])
			}
			first, second := ios[0], ios[1]
			f0, f1 := e0, e1
			if !instrDominates(first.Call, second.Call) {
				first, second = second, first
				f0, f1 = f1, f0
			}
			if f0.Index == 0 && f1.Index == 0 && isHdr(f0.Tuple) && isMsg(f1.Tuple) {
				dissolved = true
				errs := map[ssa.CallInstruction]ssa.Value{}
				for _, es := range errorCalls(fn) {
					errs[es.Call] = es.Err
				}
				if e := errs[first.Call]; e == nil || nilnessUnder(w.FA(fn).Conds(second.Call.Block()), e) != -1 {
					bad = "the body is written even if the header write failed"
				}
			}
		}
		if dissolved {
			// checked above
		} else if !ok0 || !ok1 || e0.Tuple != e1.Tuple {
			bad = "the two writes do not emit the two results of one marshal() call"
		} else {
			first, second := ios[0], ios[1]
			if !instrDominates(first.Call, second.Call) {
				first, second = second, first
				e0, e1 = e1, e0
			}
			if e0.Index != 0 || e1.Index != 1 {
				bad = fmt.Sprintf("write order is result #%d then #%d of marshal(); the frame is header (#0) then body (#1)", e0.Index, e1.Index)
			}
			errs := map[ssa.CallInstruction]ssa.Value{}
			for _, es := range errorCalls(fn) {
				errs[es.Call] = es.Err
			}
			if e := errs[first.Call]; e == nil || nilnessUnder(w.FA(fn).Conds(second.Call.Block()), e) != -1 {
				bad = "the body is written even if the header write failed"
			}
		}
	}
	r.Check(bad == "", "R-ORDER", fname, w.Pos(fn.Pos()), bad, "w.Write(header) dominates w.Write(body) on its err==nil edge")
}

// reportMsgFinal: after the body has been decoded into msg, Unmarshal hands msg to nobody else.
func reportMsgFinal(w *World, r *Report, fn *ssa.Function) {
	r.Rule("R-MSGFINAL", "the message Unmarshal returns is exactly what the decode of the body produced: after proto.Unmarshal(body, msg) the destination message is not passed to any other call (a normalising / discarding / resetting call afterwards makes the result differ from the message that was marshalled)")
	var decode *ssa.Call
	eachInstr(fn, func(ins ssa.Instruction) {
		if call, ok := ins.(*ssa.Call); ok && strings.HasSuffix(calleeName(call.Common()), "proto.Unmarshal") {
			decode = call
		}
	})
	if decode == nil || len(fn.Params) < 2 {
		r.Unknown("R-MSGFINAL", "pbcmpl.Unmarshal", w.Pos(fn.Pos()), "no proto.Unmarshal call found")
		return
	}
	fa := w.FA(fn)
	bad := ""
	msg := ssa.Value(fn.Params[1])
	eachInstr(fn, func(ins ssa.Instruction) {
		call, ok := ins.(ssa.CallInstruction)
		if !ok || ins == ssa.Instruction(decode) {
			return
		}
		if !(instrDominates(decode, ins) || fa.Reaches(decode.Block(), ins.Block()) && decode.Block() != ins.Block()) {
			return
		}
		uses := false
		for _, a := range allArgs(call.Common()) {
			for _, v := range []ssa.Value{a} {
				if v == msg {
					uses = true
				}
				if mi, ok := v.(*ssa.MakeInterface); ok && mi.X == msg {
					uses = true
				}
				if ci, ok := v.(*ssa.ChangeInterface); ok && ci.X == msg {
					uses = true
				}
				if ta, ok := v.(*ssa.TypeAssert); ok && ta.X == msg {
					uses = true
				}
			}
		}
		if call.Common().IsInvoke() && call.Common().Value == msg {
			uses = true
		}
		if uses {
			bad = fmt.Sprintf("%s receives the decoded message at %s, after the decode", calleeName(call.Common()), w.InstrPos(ins))
		}
	})
	r.Check(bad == "", "R-MSGFINAL", "pbcmpl.Unmarshal", w.Pos(fn.Pos()), bad, "no call takes msg after proto.Unmarshal")
}

func firstNonEmpty(a, b string) string {
	if a != "" {
		return a
	}
	return b
}
