package main

import (
	"fmt"
	"go/token"
	"go/types"
	"sort"
	"strings"

	"golang.org/x/tools/go/ssa"
)

// runningMin: phi is a loop-carried minimum: edges are the initial value, the phi itself, or a
// candidate c that is taken exactly on the edge c < phi. Returns the candidates and the initial values.
func runningMin(fa *FA, phi *ssa.Phi) (cands []ssa.Value, inits []ssa.Value, bad string) {
	pl := fa.Lin(phi)
	seen := map[ssa.Value]bool{}
	for i, e := range phi.Edges {
		if e == ssa.Value(phi) {
			continue
		}
		pred := phi.Block().Preds[i]
		if !phi.Block().Dominates(pred) {
			inits = append(inits, e)
			continue
		}
		// back edge: expand inner phis into (candidate, conditions) leaves
		leaves := fa.leavesOf(e, pred, 0)
		sc := selfCond(pred, phi.Block())
		for _, lf := range leaves {
			if lf.V == ssa.Value(phi) {
				continue
			}
			conds := append(append([]Cond{}, lf.Conds...), sc...)
			d := pl.Sub(fa.Lin(lf.V))
			bd := fa.boundsFrom(conds, d)
			if !(bd.HasLo && bd.Lo >= 0) {
				bad = fmt.Sprintf("candidate %s replaces the minimum on the edge (min - candidate) in %s; a minimum needs min >= candidate there", fa.Lin(lf.V), bd)
			}
			if !seen[lf.V] {
				seen[lf.V] = true
				cands = append(cands, lf.V)
			}
		}
	}
	if len(cands) == 0 {
		bad = "no candidate ever replaces the running minimum"
	}
	return
}

func checkGather(w *World, fn *ssa.Function, role string, n int, top int64) string {
	return checkGatherTerms(w.FA(fn), gatherTerms(fn, role), role, n, top)
}

func checkGatherTerms(fa *FA, terms []gatherTerm, role string, n int, top int64) string {
	js := map[int64]int64{}
	for _, t := range terms {
		L := fa.Lin(t.Idx)
		if !L.IsConst() {
			return "gathered byte index " + L.String() + " is not a constant offset"
		}
		if old, dup := js[L.K]; dup && old != t.Shift {
			return fmt.Sprintf("byte %d gathered at two shifts", L.K)
		}
		js[L.K] = t.Shift
	}
	if len(js) != n {
		return fmt.Sprintf("expected %d gathered bytes of %s, found %d", n, role, len(js))
	}
	for j := int64(0); j < int64(n); j++ {
		sh, ok := js[j]
		if !ok {
			return fmt.Sprintf("byte %d is not gathered", j)
		}
		if sh != top-8*j {
			return fmt.Sprintf("byte %d is shifted by %d, big-endian order needs %d", j, sh, top-8*j)
		}
	}
	return ""
}

func runC16(c *Ctx, w *World, r *Report) {
	names := []string{"sigbits.sFirstDiffBit", "sigbits.FirstDiffBits", "sigbits.get64Bits", "sigbits.countPrefixes", "sigbits.(*SigBits).CountPrefixes", "sigbits.New"}
	fns, ok := requireFuncs(w, r, names...)
	ReportScale(w, r, names...)
	ReportPair(w, r, names...)
	reportFresh(w, r, "sigbits.FirstDiffBits", "sigbits.countPrefixes")
	if !ok {
		return
	}
	r.Rule("R-GATHER", "get64Bits loads 8 bytes big-endian (byte j at shift 56-8j) from the string when it has >= 8 bytes, else from a zeroed 8-byte copy (zero padding), or uses binary.BigEndian.Uint64")
	r.Rule("R-CHUNK", "sFirstDiffBit compares a[i:] and b[i:] in chunks of 8 bytes for i = 0,8,16,... while i < len(a) and i < len(b): stride 8 bytes * 8 = 64 = width of LeadingZeros64 of the xor; a difference is reported at bit 8*i + lz only when lz < 64, clipped: returned exactly when < min(8*len(a), 8*len(b)), else that minimum")
	r.Rule("R-PAIRS", "FirstDiffBits stores sFirstDiffBit(keys[i], keys[i+1]) at index i for i = 0 .. len(keys)-2 into a slice of len(keys)-1 entries")
	r.Rule("R-PREFIXCOUNT", "countPrefixes: running minimum over every difference (replaced exactly when larger); histogram slot d-min incremented exactly when d-min < m-1; result[0] = 1 and result[i+1] = result[i] + histogram[i] for i = 0 .. m-2; CountPrefixes passes differences [s, e-1) and m unchanged")

	reportFirstDiff(w, r, fns)
	{ // R-PREFIXCOUNT
		n := "sigbits.countPrefixes"
		fn := fns[n]
		fa := w.FA(fn)
		bad := ""
		m1 := fa.Lin(fn.Params[1]).Add(linConst(-1))
		rets := returnsOf(fn)
		if len(rets) != 1 {
			bad = "expected a single return"
		} else {
			minPhi, ok := stripConv(rets[0].Results[0]).(*ssa.Phi)
			if !ok {
				bad = "first result is not a running minimum"
			} else {
				cands, inits, e := runningMin(fa, minPhi)
				if e != "" {
					bad = e
				}
				for _, cv := range cands {
					if role, ok, why := fullRangeElem(fa, cv); !ok || role != "firstdiffs" {
						bad = "minimum candidate is not every element of the differences: " + why
					}
				}
				for _, iv := range inits {
					if k, ok := constInt64(stripConv(iv)); !ok || k < 0x7fffffff {
						bad = "minimum does not start at the largest int32"
					}
				}
				// histogram and prefix sums
				var hist, res *ssa.MakeSlice
				eachInstr(fn, func(ins ssa.Instruction) {
					if mk, ok := ins.(*ssa.MakeSlice); ok {
						if fa.Lin(mk.Len).Eq(m1) {
							hist = mk
						} else if fa.Lin(mk.Len).Eq(fa.Lin(fn.Params[1])) {
							res = mk
						}
					}
				})
				if hist == nil || res == nil {
					bad = "histogram (m-1 slots) and result (m slots) allocations not found"
				} else {
					if rets[0].Results[1] != ssa.Value(res) {
						bad = "second result is not the m-slot slice"
					}
					nh, n0, nsum := 0, 0, 0
					eachInstr(fn, func(ins ssa.Instruction) {
						st, ok := ins.(*ssa.Store)
						if !ok {
							return
						}
						ia, ok := st.Addr.(*ssa.IndexAddr)
						if !ok {
							return
						}
						il := fa.Lin(ia.Index)
						switch ia.X {
						case ssa.Value(hist):
							nh++
							// index = d - min, d full range; value = old + 1; guarded by idx - (m-1) <= -1
							d := il.Add(fa.Lin(minPhi))
							okD := false
							if len(d.T) == 1 && d.K == 0 {
								for atom, coef := range d.T {
									if role, ok, _ := fullRangeElem(fa, fa.AtomValue(atom)); ok && role == "firstdiffs" && coef == 1 {
										okD = true
									}
								}
							}
							if !okD {
								bad = "histogram slot is " + il.String() + ", expected d - min over every difference d"
							}
							bd := fa.BoundsAt(st.Block(), il.Sub(m1))
							if !(bd.HasHi && bd.Hi == -1) {
								bad = "histogram increment is not guarded by d-min < m-1 exactly: " + bd.String()
							}
							vl := fa.Lin(st.Val)
							if vl.K != 1 || len(vl.T) != 1 {
								bad = "histogram slot is not incremented by 1"
							}
						case ssa.Value(res):
							if il.IsConst() && il.K == 0 {
								n0++
								if k, ok := constInt64(stripConv(st.Val)); !ok || k != 1 {
									bad = "result[0] is not 1 (there is exactly one 0-bit-extension prefix)"
								}
								return
							}
							nsum++
							iv, ok := fa.InductionOf(ia.Index, st.Block())
							if !ok || !iv.FirstConst || iv.First != 1 || iv.Step != 1 || !iv.HasN || !iv.N.Eq(fa.Lin(fn.Params[1])) {
								bad = "prefix sums are not written for slots 1 .. m-1"
							}
							vl := fa.Lin(st.Val)
							nr, nhh := 0, 0
							for atom, coef := range vl.T {
								// a running total carried round the loop instead of reading result[i] back: it starts at 1
								// (the value of result[0]) and its next value is the very value stored
								if tp, isPhi := fa.AtomValue(atom).(*ssa.Phi); isPhi && coef == 1 && isLoopHeaderPhi(tp) {
									okT := true
									for k, e := range tp.Edges {
										if tp.Block().Dominates(tp.Block().Preds[k]) {
											if stripConv(e) != stripConv(st.Val) {
												okT = false
											}
										} else if c, isC := constInt64(stripConv(e)); !isC || c != 1 {
											okT = false
										}
									}
									if okT {
										nr++
										continue
									}
								}
								cont, idx, ok := asElemLoad(fa.AtomValue(atom))
								if !ok || coef != 1 || !fa.Lin(idx).Eq(il.Add(linConst(-1))) {
									bad = "result[i+1] is not result[i] + histogram[i]"
									continue
								}
								if cont == ssa.Value(res) {
									nr++
								} else if cont == ssa.Value(hist) {
									nhh++
								}
							}
							if nr != 1 || nhh != 1 || vl.K != 0 {
								bad = "result[i+1] is not result[i] + histogram[i]"
							}
						}
					})
					if (nh != 1 || n0 != 1 || nsum != 1) && bad == "" {
						bad = fmt.Sprintf("expected one histogram increment, one result[0] store and one prefix-sum store; found %d/%d/%d", nh, n0, nsum)
					}
				}
			}
		}
		r.Check(bad == "", "R-PREFIXCOUNT", n, w.Pos(fn.Pos()), bad, "min over all d; hist[d-min]++ iff d-min < m-1; res[0]=1; res[i+1]=res[i]+hist[i]")

		// CountPrefixes wiring
		cp := fns["sigbits.(*SigBits).CountPrefixes"]
		fcp := w.FA(cp)
		badW := "CountPrefixes does not call countPrefixes"
		eachInstr(cp, func(ins ssa.Instruction) {
			call, ok := ins.(*ssa.Call)
			if !ok || call.Common().StaticCallee() != fn {
				return
			}
			badW = ""
			sl, ok := call.Common().Args[0].(*ssa.Slice)
			if !ok || sl.Low == nil || sl.High == nil {
				badW = "differences are not sliced [keyStart : keyEnd-1]"
				return
			}
			if _, f, ok := asFieldLoad(sl.X); !ok || f != "sigbits" {
				badW = "the slice is not the precomputed differences"
			}
			if !fcp.Lin(sl.Low).Eq(fcp.Lin(cp.Params[1])) || !fcp.Lin(sl.High).Eq(fcp.Lin(cp.Params[2]).Add(linConst(-1))) {
				badW = "differences are sliced [" + fcp.Lin(sl.Low).String() + " : " + fcp.Lin(sl.High).String() + "], expected [keyStart : keyEnd-1] (n keys have n-1 adjacent differences)"
			}
			if call.Common().Args[1] != ssa.Value(cp.Params[3]) {
				badW = "maxitem is not passed unchanged"
			}
		})
		r.Check(badW == "", "R-PREFIXCOUNT", "sigbits.(*SigBits).CountPrefixes", w.Pos(cp.Pos()), badW, "countPrefixes(sb.sigbits[keyStart:keyEnd-1], maxitem)")
		// New stores FirstDiffBits(keys)
		nw := fns["sigbits.New"]
		badN := "New does not precompute FirstDiffBits(keys)"
		eachInstr(nw, func(ins ssa.Instruction) {
			if call, ok := ins.(*ssa.Call); ok && call.Common().StaticCallee() == fns["sigbits.FirstDiffBits"] && call.Common().Args[0] == ssa.Value(nw.Params[0]) {
				badN = ""
			}
		})
		r.Check(badN == "", "R-PREFIXCOUNT", "sigbits.New", w.Pos(nw.Pos()), badN, "sigbits = FirstDiffBits(keys)")
	}
	_ = sort.Ints
}

func init() {
	register(&Prop{
		ID: "C16", Level: "other",
		Explain: "Structural necessary conditions of sigbits (DESIGN.md 5/C16): bit/byte units (E4); get64Bits' big-endian gather constants and zero padding; chunk agreement in sFirstDiffBit (stride 8 bytes = 64-bit intrinsic, same offset for both keys, loop guards, position 8*i+lz under lz<64, exact clip against min(8*len)); FirstDiffBits' adjacent-pair wiring and length; countPrefixes' running minimum, histogram guard and prefix sums; CountPrefixes' sub-range slice.",
		NotDec:  []string{"that the histogram/prefix-sum construction equals the number of distinct prefixes for strictly ascending keys (combinatorial argument)"},
		Trusted: []string{"go/ssa construction", "math/bits.LeadingZeros64"},
		Quick:   []Config{cfgDefault, cfg386}, Thorough: []Config{cfgDefault, cfg386},
		Run: runC16,
	})
}

// freshSliceLen: constant length of a freshly made slice (make([]T, k) is compiled to new [k]T + slice for constant k).
func freshSliceLen(v ssa.Value) (int64, bool) {
	switch x := v.(type) {
	case *ssa.MakeSlice:
		return constInt64(x.Len)
	case *ssa.Slice:
		al, ok := x.X.(*ssa.Alloc)
		if !ok || x.Low != nil {
			return 0, false
		}
		if x.High != nil {
			return constInt64(x.High)
		}
		if pt, ok := al.Type().Underlying().(*types.Pointer); ok {
			if at, ok := pt.Elem().Underlying().(*types.Array); ok {
				return at.Len(), true
			}
		}
	}
	return 0, false
}

// reportFirstDiff: the rules on get64Bits / sFirstDiffBit / FirstDiffBits, shared by C16 and C17
// (ShardByPrefix's prefix lengths are computed from FirstDiffBits).
func reportFirstDiff(w *World, r *Report, fns map[string]*ssa.Function) {
	r.Rule("R-GATHER", "get64Bits loads 8 bytes big-endian (byte j at shift 56-8j) from the string when it has >= 8 bytes, else from a zeroed 8-byte copy (zero padding), or uses binary.BigEndian.Uint64")
	r.Rule("R-CHUNK", "sFirstDiffBit compares a[i:] and b[i:] in chunks of 8 bytes for i = 0,8,16,... while i < len(a) and i < len(b): stride within the chunk, same offset for both keys, LeadingZeros64 of the xor; a difference is reported at bit 8*i + lz only when lz < 64, clipped against min(8*len(a), 8*len(b))")
	r.Rule("R-PAIRS", "FirstDiffBits stores sFirstDiffBit(keys[i], keys[i+1]) at index i for i = 0 .. len(keys)-2 into a slice of len(keys)-1 entries")
	{ // R-GATHER
		n := "sigbits.get64Bits"
		fn := fns[n]
		bad := ""
		usesBE := false
		eachInstr(fn, func(ins ssa.Instruction) {
			if call, ok := ins.(*ssa.Call); ok && strings.Contains(calleeName(call.Common()), "binary.bigEndian).Uint64") {
				usesBE = true
			}
		})
		// alternative short path: a loop over the bytes that exist, byte i at shift 56-8i, accumulated from 0 (the
		// missing bytes stay 0): no padded copy needed
		var loopS []gatherTerm
		if !usesBE {
			fa := w.FA(fn)
			for _, t := range gatherTerms(fn, "s") {
				if !fa.Lin(t.Idx).IsConst() {
					loopS = append(loopS, t)
				}
			}
		}
		if len(loopS) > 0 {
			fa := w.FA(fn)
			lenS := linAtom("call:builtin len(p0)")
			var constS []gatherTerm
			for _, t := range gatherTerms(fn, "s") {
				if fa.Lin(t.Idx).IsConst() {
					constS = append(constS, t)
				}
			}
			if len(constS) > 0 {
				if e := checkGatherTerms(fa, constS, "s", 8, 56); e != "" {
					bad = "direct branch: " + e
				}
				for _, t := range constS {
					bd := fa.BoundsAt(t.Ins.Block(), lenS)
					if !(bd.HasLo && bd.Lo >= 8) {
						bad = "bytes of s are read directly on an edge where len(s) may be < 8"
					}
				}
			}
			for _, t := range loopS {
				iv, ok := fa.InductionOf(t.Idx, t.Ins.Block())
				switch {
				case !ok || !iv.FirstConst || iv.First != 0 || iv.Step != 1 || !fa.Lin(t.Idx).Eq(linAtom(fa.VN(iv.Phi))):
					bad = "the byte loop does not visit s[0], s[1], ..."
				case !iv.HasN || !(iv.N.Eq(lenS) || iv.N.Eq(fa.lenOf(t.Cont, 0)) && first8View(fa, fn, t.Cont)):
					bad = "the byte loop does not stop at len(s) exactly"
				case t.ShiftVal == nil || !fa.Lin(t.ShiftVal).Eq(linConst(56).addScaled(fa.Lin(t.Idx), -8)):
					bad = "byte i of the byte loop is not shifted by 56-8i (big-endian)"
				case fa.earlyExit(iv) != "":
					bad = "the byte loop can be left before len(s): " + fa.earlyExit(iv)
				default:
					if !isUnsigned(t.ShiftVal.Type()) {
						if bs := fa.BoundsAt(t.Ins.Block(), fa.Lin(t.ShiftVal)); !(bs.HasLo && bs.Lo >= 0) {
							bad = "the signed shift 56-8i of the byte loop is not bounded below by 0 (a negative shift count panics)"
						}
					}
					// accumulated: acc = acc | term with acc a loop-carried word starting at 0 that is what get64Bits returns
					okAcc := false
					if cv, ok := t.Ins.(*ssa.Convert); ok && cv.Referrers() != nil {
						for _, u := range *cv.Referrers() {
							sh, ok := u.(*ssa.BinOp)
							if !ok || sh.Op != token.SHL || sh.Referrers() == nil {
								continue
							}
							for _, u2 := range *sh.Referrers() {
								acc, ok := u2.(*ssa.BinOp)
								if !ok || (acc.Op != token.OR && acc.Op != token.ADD && acc.Op != token.XOR) {
									continue
								}
								other := acc.X
								if other == ssa.Value(sh) {
									other = acc.Y
								}
								ph, ok := other.(*ssa.Phi)
								if !ok || ph.Block() != iv.Phi.Block() {
									continue
								}
								good := true
								for ei, e := range ph.Edges {
									if ph.Block().Dominates(ph.Block().Preds[ei]) {
										good = good && e == ssa.Value(acc)
									} else if k, isK := constUint64(e); !isK || k != 0 {
										good = false
									}
								}
								returned := false
								for _, ret := range returnsOf(fn) {
									if len(ret.Results) == 1 && stripConv(ret.Results[0]) == ssa.Value(ph) {
										returned = true
									}
								}
								if good && returned {
									okAcc = true
								}
							}
						}
					}
					if !okAcc && bad == "" {
						bad = "the bytes of the byte loop are not accumulated (acc |= byte << shift, acc starting at 0) into the returned word"
					}
				}
			}
		} else if !usesBE {
			if e := checkGather(w, fn, "s", 8, 56); e != "" {
				bad = "direct branch: " + e
			}
			if e := checkGather(w, fn, "local", 8, 56); e != "" && bad == "" {
				bad = "padded branch: " + e
			}
			// padded copy: make([]byte, 8); copy(bs, s)
			okPad := false
			eachInstr(fn, func(ins ssa.Instruction) {
				if call, ok := ins.(*ssa.Call); ok && calleeName(call.Common()) == "builtin copy" {
					if k, ok := freshSliceLen(call.Common().Args[0]); ok && k >= 8 && call.Common().Args[1] == ssa.Value(fn.Params[0]) {
						okPad = true
					}
				}
			})
			if !okPad && bad == "" {
				bad = "short strings are not zero-padded through an 8-byte copy"
			}
			// direct branch guarded by len(s) >= 8
			fa := w.FA(fn)
			for _, t := range gatherTerms(fn, "s") {
				bd := fa.BoundsAt(t.Ins.Block(), linAtom("call:builtin len(p0)"))
				if !(bd.HasLo && bd.Lo >= 8) {
					bad = "bytes of s are read directly on an edge where len(s) may be < 8"
				}
			}
		}
		r.Check(bad == "", "R-GATHER", n, w.Pos(fn.Pos()), bad, "8 bytes at shifts 56-8j, zero padded copy for short strings")
	}
	{ // R-CHUNK
		n := "sigbits.sFirstDiffBit"
		fn := fns[n]
		fa := w.FA(fn)
		bad := ""
		var lz *ssa.Call
		eachInstr(fn, func(ins ssa.Instruction) {
			if call, ok := ins.(*ssa.Call); ok && strings.HasPrefix(calleeName(call.Common()), "math/bits.LeadingZeros") {
				lz = call
			}
		})
		la, lb := linAtom("call:builtin len(p0)"), linAtom("call:builtin len(p1)")
		minA, minB := linConst(0).addScaled(la, 8), linConst(0).addScaled(lb, 8)
		if lz == nil {
			bad = "no LeadingZeros of the xor"
		} else {
			if calleeName(lz.Common()) != "math/bits.LeadingZeros64" {
				bad = "chunks are 8 bytes = 64 bits but the intrinsic is " + calleeName(lz.Common())
			}
			x, y, ok := asBin(lz.Common().Args[0], token.XOR)
			var iv *LoopIV
			var offLin Lin
			if !ok {
				bad = "LeadingZeros argument is not au ^ bu"
			} else {
				var idxs []ssa.Value
				for k, side := range []ssa.Value{x, y} {
					call, ok := side.(*ssa.Call)
					if !ok || call.Common().StaticCallee() != fns["sigbits.get64Bits"] {
						bad = "xor operands are not get64Bits(...)"
						continue
					}
					sl, ok := call.Common().Args[0].(*ssa.Slice)
					if !ok || sl.Low == nil || sl.High != nil {
						bad = "get64Bits is not applied to a suffix x[i:]"
						continue
					}
					_ = k
					idxs = append(idxs, sl.Low)
					if paramIndex(sl.X) < 0 {
						bad = "chunk source is not a parameter"
					}
				}
				if len(idxs) == 2 {
					if fa.VN(idxs[0]) != fa.VN(idxs[1]) {
						bad = "the two keys are chunked at different offsets"
					}
					v, ok := fa.InductionOf(idxs[0], lz.Block())
					if !ok {
						// the offset as a multiple of a chunk counter: a[w*8:] for w = 0, 1, 2, ...
						if ol := fa.Lin(idxs[0]); len(ol.T) == 1 && ol.K == 0 {
							for atom, coef := range ol.T {
								if p, isPhi := fa.AtomValue(atom).(*ssa.Phi); isPhi && coef >= 1 {
									if v2, ok2 := fa.InductionOf(p, lz.Block()); ok2 {
										cp := *v2
										cp.Step, cp.First = v2.Step*coef, v2.First*coef
										v, ok = &cp, true
									}
								}
							}
						}
					}
					if !ok || !v.FirstConst || v.First != 0 {
						bad = "chunk offset does not start at 0"
					} else {
						iv = v
						offLin = fa.Lin(idxs[0])
						if v.Step < 1 || v.Step > 8 {
							bad = fmt.Sprintf("chunk offset advances by %d bytes but a chunk holds 8: bytes between chunks are never compared", v.Step)
						}
						// loop guards i < len(a) and i < len(b)
						il := fa.Lin(idxs[0])
						b1 := fa.BoundsAt(lz.Block(), il.Sub(la))
						b2 := fa.BoundsAt(lz.Block(), il.Sub(lb))
						okBoth := b1.HasHi && b1.Hi <= 0 && b2.HasHi && b2.Hi <= 0
						if !okBoth {
							// one guard i < n with n = min(len(a), len(b)) computed beforehand
							for _, cd := range fa.Conds(lz.Block()) {
								D, op, ok := fa.CondRel(cd)
								if !ok || (op != opLT && op != opLE) {
									continue
								}
								nl := il.Sub(D) // D = i - n  =>  n = i - D
								if len(nl.T) != 1 || nl.K != 0 {
									continue
								}
								for atom, cf := range nl.T {
									np, isPhi := fa.AtomValue(atom).(*ssa.Phi)
									if !isPhi || cf != 1 || isLoopHeaderPhi(np) {
										continue
									}
									okN := true
									for _, lf := range fa.leavesOf(np, np.Block(), 0) {
										ba := fa.boundsFrom(lf.Conds, fa.Lin(lf.V).Sub(la))
										bb := fa.boundsFrom(lf.Conds, fa.Lin(lf.V).Sub(lb))
										if fa.Lin(lf.V).Eq(la) {
											ba = Bounds{Hi: 0, HasHi: true}
										}
										if fa.Lin(lf.V).Eq(lb) {
											bb = Bounds{Hi: 0, HasHi: true}
										}
										if !(ba.HasHi && ba.Hi <= 0 && bb.HasHi && bb.Hi <= 0) {
											okN = false
										}
									}
									if okN {
										okBoth = true
									}
								}
							}
						}
						if !okBoth {
							bad = "suffixes a[i:], b[i:] are taken without i <= len(a) && i <= len(b): a chunk offset past the shorter key panics"
						}
					}
				}
			}
			// returns
			lzAtom := fa.VN(lz)
			nPos := 0
			for _, ret := range returnsOf(fn) {
				for _, leaf := range fa.leavesOf(stripConv(ret.Results[0]), ret.Block(), 0) {
					L := fa.Lin(leaf.V)
					if L.T[lzAtom] != 0 {
						nPos++
						// 8*i + lz
						rest := L.clone()
						delete(rest.T, lzAtom)
						if L.T[lzAtom] != 1 || iv == nil || !rest.Eq(linConst(0).addScaled(offLin, 8)) {
							bad = "difference position is " + L.String() + ", expected 8*i + LeadingZeros"
						}
						// guarded by lz < 64 and pos < minl
						bz := fa.boundsFrom(leaf.Conds, linAtom(lzAtom))
						if !(bz.HasHi && bz.Hi == 63) {
							bad = "a position is reported without lz < 64 (equal chunks have lz == 64)"
						}
						// pos < min: need both pos - 8la <= -1 ... only known via minl phi; check against the phi
						okClip := false
						for _, cd := range leaf.Conds {
							D, op, ok := fa.CondRel(cd)
							if !ok {
								continue
							}
							E := D.Sub(L) // = -minl (+k)
							if !(len(E.T) == 1 && (op == opLT || op == opLE)) {
								// the same test written the other way round: minl - pos > 0
								if E2 := D.Add(L); len(E2.T) == 1 && (op == opGT || op == opGE) {
									E, op = E2.Neg(), flipOp(op)
								}
							}
							if len(E.T) == 1 && (op == opLT || op == opLE) && E.K == 0 {
								for atom, coef := range E.T {
									if p, ok := fa.AtomValue(atom).(*ssa.Phi); ok && coef == -8 {
										// minl = 8 * min(len(a), len(b)) with the minimum taken in bytes
										okm := len(p.Edges) == 2
										for _, e := range p.Edges {
											el := fa.Lin(e)
											if !el.Eq(la) && !el.Eq(lb) {
												okm = false
											}
										}
										okClip = okm
									}
									if p, ok := fa.AtomValue(atom).(*ssa.Phi); ok && coef == -1 {
										// minl = min(8la, 8lb)
										okm := len(p.Edges) == 2
										for _, e := range p.Edges {
											el := fa.Lin(e)
											if !el.Eq(minA) && !el.Eq(minB) {
												okm = false
											}
										}
										okClip = okm
									}
								}
							}
						}
						if !okClip {
							bad = "a difference position is returned without the clip pos <= min(8*len(a), 8*len(b)) (both sides return the same value at equality)"
						}
						continue
					}
					// must be 8*len(a) or 8*len(b), chosen as the minimum
					switch {
					case L.Eq(minA):
						bd := fa.boundsFrom(leaf.Conds, minA.Sub(minB))
						if !(bd.HasHi && bd.Hi <= 0) {
							bad = "8*len(a) is returned on an edge where 8*len(b) may be smaller"
						}
					case L.Eq(minB):
						bd := fa.boundsFrom(leaf.Conds, minA.Sub(minB))
						if !(bd.HasLo && bd.Lo >= 0) {
							bad = "8*len(b) is returned on an edge where 8*len(a) may be smaller"
						}
					default:
						// 8*n with n = min(len(a), len(b)) taken first (in bytes): every alternative of n on its own edge
						okMin := false
						if len(L.T) == 1 && L.K == 0 {
							for atom, coef := range L.T {
								np, isPhi := fa.AtomValue(atom).(*ssa.Phi)
								if !isPhi || coef != 8 || isLoopHeaderPhi(np) {
									continue
								}
								okMin = true
								for _, nl := range fa.leavesOf(np, np.Block(), 0) {
									NL := fa.Lin(nl.V)
									switch {
									case NL.Eq(la):
										if bd := fa.boundsFrom(nl.Conds, la.Sub(lb)); !(bd.HasHi && bd.Hi <= 0) {
											okMin = false
										}
									case NL.Eq(lb):
										if bd := fa.boundsFrom(nl.Conds, la.Sub(lb)); !(bd.HasLo && bd.Lo >= 0) {
											okMin = false
										}
									default:
										okMin = false
									}
								}
							}
						}
						if okMin {
							break
						}
						bad = "returned value " + L.String() + " is neither a difference position nor 8*min(len)"
					}
				}
			}
			if nPos == 0 && bad == "" {
				bad = "no difference position is ever returned"
			}
		}
		r.Check(bad == "", "R-CHUNK", n, w.Pos(fn.Pos()), bad, "i = 0,8,..; lz = LeadingZeros64(get64Bits(a[i:]) ^ get64Bits(b[i:])); lz<64: 8i+lz if < min else min; end: min")
	}
	{ // R-PAIRS
		n := "sigbits.FirstDiffBits"
		fn := fns[n]
		fa := w.FA(fn)
		bad := ""
		lk := linAtom("call:builtin len(p0)")
		var mk *ssa.MakeSlice
		eachInstr(fn, func(ins ssa.Instruction) {
			if m, ok := ins.(*ssa.MakeSlice); ok {
				mk = m
			}
		})
		if mk == nil || !fa.Lin(mk.Len).Eq(lk.Add(linConst(-1))) {
			bad = "result does not have len(keys)-1 entries"
		}
		nst := 0
		eachInstr(fn, func(ins ssa.Instruction) {
			st, ok := ins.(*ssa.Store)
			if !ok {
				return
			}
			ia, ok := st.Addr.(*ssa.IndexAddr)
			if !ok || mk == nil || ia.X != ssa.Value(mk) {
				return
			}
			nst++
			iv, ok := fa.InductionOf(ia.Index, st.Block())
			if !ok || !iv.FirstConst || iv.First != 0 || iv.Step != 1 || !iv.HasN || !iv.N.Eq(lk.Add(linConst(-1))) {
				bad = "entries are not written for i = 0 .. len(keys)-2"
				return
			}
			call, ok := st.Val.(*ssa.Call)
			if !ok || call.Common().StaticCallee() != fns["sigbits.sFirstDiffBit"] {
				bad = "entry is not sFirstDiffBit(...)"
				return
			}
			c0, i0, ok0 := fa.elemLoadLin(call.Common().Args[0])
			c1, i1, ok1 := fa.elemLoadLin(call.Common().Args[1])
			il := fa.Lin(ia.Index)
			if !ok0 || !ok1 || c0 != ssa.Value(fn.Params[0]) || c1 != ssa.Value(fn.Params[0]) || !i0.Eq(il) || !i1.Eq(il.Add(linConst(1))) {
				bad = "entry i is not the difference of keys[i] and keys[i+1]"
			}
		})
		if nst != 1 && bad == "" {
			bad = "expected one entry store"
		}
		r.Check(bad == "", "R-PAIRS", n, w.Pos(fn.Pos()), bad, "ds[i] = sFirstDiffBit(keys[i], keys[i+1]), i in [0, len(keys)-1)")
	}
}

// first8View: v is the string parameter itself where it is known to have at most 8 bytes, or its prefix s[:k] with a
// constant k <= 8 (or a merge of such alternatives): the bytes get64Bits has to look at, and few enough for the shift
// 56-8i to stay in range.
func first8View(fa *FA, fn *ssa.Function, v ssa.Value) bool {
	lenS := linAtom("call:builtin len(p0)")
	var ok1 func(x ssa.Value, at *ssa.BasicBlock, self []Cond, depth int) bool
	ok1 = func(x ssa.Value, at *ssa.BasicBlock, self []Cond, depth int) bool {
		if depth > 3 {
			return false
		}
		switch y := x.(type) {
		case *ssa.Parameter:
			if len(fn.Params) == 0 || y != fn.Params[0] {
				return false
			}
			bd := fa.BoundsAt(at, lenS)
			if b2 := fa.boundsFrom(self, lenS); b2.HasHi {
				bd.upper(b2.Hi, "")
			}
			return bd.HasHi && bd.Hi <= 8
		case *ssa.Slice:
			if y.Low != nil || y.High == nil {
				return false
			}
			k, isK := constInt64(y.High)
			return isK && k <= 8 && y.X == ssa.Value(fn.Params[0])
		case *ssa.Phi:
			if isLoopHeaderPhi(y) {
				return false
			}
			for i, e := range y.Edges {
				pred := y.Block().Preds[i]
				if !ok1(e, pred, selfCond(pred, y.Block()), depth+1) {
					return false
				}
			}
			return true
		}
		return false
	}
	blk := fn.Blocks[0]
	if ins, ok := v.(ssa.Instruction); ok {
		blk = ins.Block()
	}
	return ok1(v, blk, nil, 0)
}
