package main

import (
	"fmt"
	"go/token"
	"strings"

	"golang.org/x/tools/go/ssa"
)

// popcountTerm describes one "+ popcount(words[iv+d])" term of an accumulator update.
type popTerm struct {
	root string
	d    int64
	ok   bool
}

// accumInfo analyses a counting loop "n += popcount(words[i+d])".
type accumInfo struct {
	IVPhi   *ssa.Phi
	Step    int64
	Acc     *ssa.Phi
	Offsets map[int64]bool // union over all back-edge paths
	Always  map[int64]bool // offsets present on every path
	Bad     string
	Facts   []string
}

// analyseAccum: acc is a loop-header phi [0, acc + sum popcount(words[iv+d])].
func analyseAccum(w *World, fn *ssa.Function, acc *ssa.Phi, container string) *accumInfo {
	fa := w.FA(fn)
	ai := &accumInfo{Acc: acc, Offsets: map[int64]bool{}, Always: map[int64]bool{}}
	accAtom := fa.VN(acc)
	first := true
	var backEdges []ssa.Value
	zeroInit := false
	for _, e := range acc.Edges {
		if k, ok := constInt64(stripConv(e)); ok {
			if k == 0 {
				zeroInit = true
			} else {
				ai.Bad = fmt.Sprintf("accumulator starts at %d, not 0", k)
			}
			continue
		}
		backEdges = append(backEdges, e)
	}
	if !zeroInit {
		ai.Bad = "accumulator is not initialised to 0"
	}
	for _, be := range backEdges {
		for _, src := range resolvePhi(be) {
			if src == ssa.Value(acc) {
				continue
			}
			L := fa.Lin(src)
			if L.T[accAtom] != 1 || L.K != 0 {
				ai.Bad = fmt.Sprintf("accumulator update %s is not acc + popcounts", L)
				continue
			}
			this := map[int64]bool{}
			for atom, coef := range L.T {
				if atom == accAtom {
					continue
				}
				call, ok := fa.AtomValue(atom).(*ssa.Call)
				if !ok || coef != 1 || !strings.HasPrefix(calleeName(call.Common()), "math/bits.OnesCount") {
					ai.Bad = fmt.Sprintf("accumulator update adds %d * %s, which is not the popcount of a word", coef, atom)
					continue
				}
				x, idx, ok := asElemLoad(call.Common().Args[0])
				if !ok || containerRole(x) != container {
					ai.Bad = "popcount argument is not an element of " + container
					continue
				}
				iv, ok := fa.InductionOf(idx, call.Block())
				if !ok {
					ai.Bad = "popcount index is not loop-variable + constant"
					continue
				}
				if ai.IVPhi == nil {
					ai.IVPhi, ai.Step = iv.Phi, iv.Step
				} else if ai.IVPhi != iv.Phi {
					ai.Bad = "popcount indexes use different loop variables"
				}
				// offset relative to the canonical counter 0, step, 2*step, ...: the
				// value of the index in the first iteration
				if !iv.FirstConst {
					ai.Bad = "loop does not start at a constant word index"
					continue
				}
				d := iv.First
				this[d] = true
				ai.Offsets[d] = true
			}
			if first {
				for d := range this {
					ai.Always[d] = true
				}
				first = false
			} else {
				for d := range ai.Always {
					if !this[d] {
						delete(ai.Always, d)
					}
				}
			}
		}
	}
	return ai
}

func isLoopHeaderPhi(p *ssa.Phi) bool {
	b := p.Block()
	for _, pr := range b.Preds {
		if b.Dominates(pr) {
			return true
		}
	}
	return false
}

// readerShift: the shift c of every index into parameter pname of fn (x>>c).
func readerShifts(fn *ssa.Function, pname string) []int {
	var out []int
	for _, s := range elemSites(fn, pname) {
		if _, c, ok := asShiftRight(s.Index); ok {
			out = append(out, c)
		} else {
			out = append(out, -1)
		}
	}
	return out
}

func parityEven(fa *FA, c Cond, container string) (isParity, even bool) {
	bo, ok := c.V.(*ssa.BinOp)
	if !ok || (bo.Op != token.EQL && bo.Op != token.NEQ) {
		return false, false
	}
	for _, side := range [2][2]ssa.Value{{bo.X, bo.Y}, {bo.Y, bo.X}} {
		x, j, ok := asLowMask(side[0])
		if !ok || j != 1 {
			continue
		}
		call, ok := asCall(x, "builtin len")
		if !ok || containerRole(call.Common().Args[0]) != container {
			continue
		}
		k, ok := constInt64(stripConv(side[1]))
		if !ok || (k != 0 && k != 1) {
			continue
		}
		ev := (bo.Op == token.EQL) == (k == 0)
		return true, ev == c.Pol
	}
	return false, false
}

// rankRecurrence recognises the store idx[i] = idx[i-1] + popcount(words[i-1]) (see reportRankBuilders). isRec is
// false when the store has a different shape altogether; why is empty when the recurrence is the right one.
func rankRecurrence(fa *FA, fn *ssa.Function, ins ssa.Instruction) (why string, isRec bool) {
	st, ok := ins.(*ssa.Store)
	if !ok {
		return "", false
	}
	ia, ok := st.Addr.(*ssa.IndexAddr)
	if !ok {
		return "", false
	}
	mk, ok := ia.X.(*ssa.MakeSlice)
	if !ok {
		return "", false
	}
	L := fa.Lin(st.Val)
	il := fa.Lin(ia.Index)
	nPrev, nPop := 0, 0
	for atom, coef := range L.T {
		v := fa.AtomValue(atom)
		if c, i, ok := asElemLoad(v); ok && c == ssa.Value(mk) {
			if coef != 1 || !fa.Lin(i).Eq(il.Add(linConst(-1))) {
				return "the entry is built from idx[" + fa.Lin(i).String() + "], not from the entry in front of it", true
			}
			nPrev++
			continue
		}
		if call, ok := v.(*ssa.Call); ok && strings.HasPrefix(calleeName(call.Common()), "math/bits.OnesCount") {
			x, i, ok := asElemLoad(call.Common().Args[0])
			if !ok || containerRole(x) != "words" {
				return "the popcount added is not that of a word of the bitmap", true
			}
			if calleeName(call.Common()) != "math/bits.OnesCount64" {
				return "the popcount of a 64-bit word is taken with " + calleeName(call.Common()), true
			}
			if coef != 1 || !fa.Lin(i).Eq(il.Add(linConst(-1))) {
				return "entry i adds words[" + fa.Lin(i).String() + "], the word in front of entry i is words[i-1]", true
			}
			nPop++
			continue
		}
		return "", false
	}
	if nPrev != 1 || nPop != 1 {
		return "", false
	}
	if L.K != 0 {
		return "the recurrence adds a constant", true
	}
	iv, ok := fa.InductionOf(ia.Index, st.Block())
	if !ok || !iv.FirstConst || iv.First != 1 || iv.Step != 1 || !iv.HasN {
		return "the recurrence does not run over i = 1, 2, ...", true
	}
	if !iv.N.Eq(fa.Lin(mk.Len)) {
		okN := false
		for _, alt := range fa.LinAlts(mk.Len, 4) {
			if iv.N.Eq(alt) {
				okN = true
			}
		}
		if !okN && fa.VN(stripConv(mk.Len)) != fa.VN(fa.AtomValueOfLin(iv.N)) {
			return "the recurrence stops at " + iv.N.String() + ", not at the length of the index", true
		}
	}
	if ee := fa.earlyExit(iv); ee != "" {
		return "the recurrence can be left early: " + ee, true
	}
	lw := linAtom("call:builtin len(p0)")
	for _, src := range resolvePhi(mk.Len) {
		if sl := fa.Lin(src); !sl.Eq(lw) && !sl.Eq(lw.Add(linConst(1))) {
			return "index length must be len(words) or len(words)+1, found " + sl.String(), true
		}
	}
	for _, ret := range returnsOf(fn) {
		for _, src := range resolvePhi(ret.Results[0]) {
			if src != ssa.Value(mk) {
				return "the return hands back something other than the index that was built", true
			}
		}
	}
	return "", true
}

// flowsFromMake: v is the slice allocated by mk, possibly re-sliced or merged.
func flowsFromMake(v ssa.Value, mk *ssa.MakeSlice) bool {
	for _, s := range resolvePhi(v) {
		for depth := 0; depth < 6; depth++ {
			if sl, ok := s.(*ssa.Slice); ok {
				s = sl.X
				continue
			}
			break
		}
		if s != ssa.Value(mk) {
			return false
		}
	}
	return true
}

// reportRankBuilders files R-EXCL and R-TRAIL for the listed rank-index builders and returns their strides.
func reportRankBuilders(w *World, r *Report, fns map[string]*ssa.Function, builders ...string) map[string]int64 {
	r.Rule("R-EXCL", "the value recorded as index entry k is the loop-carried count at the head of iteration k (exclusive prefix: ones before the block), initialised to 0 and updated by adding popcount(words[i+d]) for exactly the offsets 0..stride-1 of the block")
	r.Rule("R-TRAIL", "IndexRank64: the index has len(words) entries, or len(words)+1 with the trailing option, the extra entry being stored at index len(words) and holding the final count; IndexRank128 appends the final count exactly when len(words) is even")
	strideOf := map[string]int64{}
	for _, bn := range builders {
		fn := fns[bn]
		fa := w.FA(fn)
		// entries written: Store to a fresh []int32 element, or append of one element
		type entry struct {
			val ssa.Value
			ins ssa.Instruction
		}
		var entries []entry
		eachInstr(fn, func(ins ssa.Instruction) {
			switch x := ins.(type) {
			case *ssa.Store:
				if ia, ok := x.Addr.(*ssa.IndexAddr); ok {
					if _, isMake := addrBase(ia.X).(*ssa.MakeSlice); isMake || containerRole(ia.X) == "local" {
						if al, isAl := addrBase(ia.X).(*ssa.Alloc); isAl && strings.Contains(al.Comment, "varargs") {
							return
						}
						entries = append(entries, entry{x.Val, ins})
					}
				}
			case *ssa.Call:
				for _, v := range appendedValues(x) {
					entries = append(entries, entry{v, ins})
				}
			}
		})
		// recurrence form: idx[i] = idx[i-1] + popcount(words[i-1]) for i = 1 .. len(idx)-1 over a zeroed index: entry 0
		// is 0 and every entry adds the word in front of it - the exclusive prefix, the trailing total included
		if bn == "bitmap.IndexRank64" && len(entries) == 1 {
			if why, isRec := rankRecurrence(fa, fn, entries[0].ins); isRec {
				if why != "" {
					r.Bad("R-EXCL", bn, w.Pos(fn.Pos()), why)
				} else {
					r.OK("R-EXCL", bn, w.Pos(fn.Pos()), "recurrence idx[i] = idx[i-1] + popcount(words[i-1]), i = 1 .. len(idx)-1, over a zeroed index of len(words) or len(words)+1 entries")
					r.OK("R-TRAIL", bn+"|len", w.Pos(fn.Pos()), "recurrence form: the length decides whether the grand total is there")
					r.OK("R-TRAIL", bn+"|total", w.Pos(fn.Pos()), "recurrence form: entry len(words) is entry len(words)-1 plus the last word")
					strideOf[bn] = 1
				}
				continue
			}
		}
		var acc *ssa.Phi
		bad := ""
		for _, e := range entries {
			p, ok := stripConv(e.val).(*ssa.Phi)
			if !ok || !isLoopHeaderPhi(p) {
				bad = fmt.Sprintf("index entry written at %s is %s, not the count carried into the iteration (exclusive prefix)", w.InstrPos(e.ins), fmtVal(w, e.val))
				continue
			}
			if acc == nil {
				acc = p
			} else if acc != p {
				bad = "index entries come from different accumulators"
			}
		}
		if len(entries) == 0 || acc == nil {
			if bad == "" {
				bad = "no index entry store/append found"
			}
			r.Bad("R-EXCL", bn, w.Pos(fn.Pos()), bad)
			continue
		}
		ai := analyseAccum(w, fn, acc, "words")
		if ai.Bad != "" && bad == "" {
			bad = ai.Bad
		}
		if bad == "" {
			if ai.IVPhi == nil {
				bad = "accumulator is not updated from words[i]"
			} else {
				for d := int64(0); d < ai.Step; d++ {
					if !ai.Offsets[d] {
						bad = fmt.Sprintf("block of %d words per entry but words[i+%d] is never counted", ai.Step, d)
					}
				}
				for d := range ai.Offsets {
					if d < 0 || d >= ai.Step {
						bad = fmt.Sprintf("words[i%+d] is counted although an entry covers words[i..i+%d)", d, ai.Step)
					}
				}
				if !ai.Always[0] {
					bad = "words[i] is not counted on every path"
				}
			}
		}
		// every exit hands back the index that was built: an early `return nil` for an absent (nil) bitmap drops the
		// entries the property fixes also for the empty bitmap (the first entry, the grand total)
		if bad == "" {
			for _, ret := range returnsOf(fn) {
				for _, src := range resolvePhi(ret.Results[0]) {
					switch x := src.(type) {
					case *ssa.MakeSlice:
					case *ssa.Call:
						if b, ok := x.Common().Value.(*ssa.Builtin); !ok || b.Name() != "append" {
							bad = "the return at " + w.InstrPos(ret) + " hands back " + fmtVal(w, src) + ", not the index that was built"
						}
					case *ssa.Slice:
					default:
						bad = "the return at " + w.InstrPos(ret) + " hands back " + fmtVal(w, src) + ", not the index that was built: the empty bitmap (nil included) has an index too (entry 0, the grand total)"
					}
				}
			}
		}
		facts := []string{fmt.Sprintf("%d entry writes, all of the loop-head accumulator; stride %d words; offsets counted %v", len(entries), ai.Step, keysOf(ai.Offsets))}
		if bad != "" {
			r.Bad("R-EXCL", bn, w.Pos(fn.Pos()), bad, facts...)
		} else {
			r.OK("R-EXCL", bn, w.Pos(fn.Pos()), facts...)
			strideOf[bn] = ai.Step
			// a per-word loop that writes its entry only when the word index is a multiple of m (i&1 == 0): one
			// entry per m words, the words in between are counted by the rounds that write nothing
			if ai.IVPhi != nil && ai.Step == 1 {
				for _, e := range entries {
					if !loopBody(ai.IVPhi.Block())[e.ins.Block()] {
						continue
					}
					for _, cd := range fa.Conds(e.ins.Block()) {
						bo, ok := cd.V.(*ssa.BinOp)
						if !ok || !(bo.Op == token.EQL && cd.Pol || bo.Op == token.NEQ && !cd.Pol) {
							continue
						}
						for _, side := range [2][2]ssa.Value{{bo.X, bo.Y}, {bo.Y, bo.X}} {
							x, j, okM := asLowMask(side[0])
							k, okK := constInt64(stripConv(side[1]))
							if !okM || !okK || k != 0 || j < 1 || j > 6 {
								continue
							}
							if iv, okI := fa.InductionOf(x, e.ins.Block()); okI && iv.Phi == ai.IVPhi && iv.FirstConst && iv.First%(1<<uint(j)) == 0 && iv.Step == 1 {
								strideOf[bn] = int64(1) << uint(j)
							}
						}
					}
				}
			}
		}
		// the entry for block k must be written once per iteration: the in-loop write is in a block
		// that dominates the back edge (not conditional)
		// R-TRAIL
		switch bn {
		case "bitmap.IndexRank64":
			var mk *ssa.MakeSlice
			eachInstr(fn, func(ins ssa.Instruction) {
				if m, ok := ins.(*ssa.MakeSlice); ok {
					if _, ok := m.Type().Underlying().(interface{ Elem() interface{} }); !ok {
						mk = m
					}
				}
			})
			if mk == nil {
				r.Bad("R-TRAIL", bn+"|len", w.Pos(fn.Pos()), "no make of the index slice found")
				break
			}
			lw := linAtom("call:builtin len(p0)")
			if k, isK := constInt64(mk.Len); isK && k == 0 {
				// append form: the index starts empty; one entry is appended in every iteration of the full-range loop over
				// the words and the grand total is appended after the loop under the trailing option
				inLoop, after, badA := 0, 0, ""
				var loopBlk *ssa.BasicBlock
				for _, e := range entries {
					call, ok := e.ins.(*ssa.Call)
					if !ok {
						badA = "the index starts empty but an entry is stored by position at " + w.InstrPos(e.ins)
						continue
					}
					if ai.IVPhi != nil && loopBody(ai.IVPhi.Block())[call.Block()] {
						inLoop++
						loopBlk = call.Block()
						for _, pr := range ai.IVPhi.Block().Preds {
							if ai.IVPhi.Block().Dominates(pr) && !call.Block().Dominates(pr) {
								badA = "the per-word entry is not appended in every iteration"
							}
						}
						continue
					}
					after++
					if stripConv(e.val) != ssa.Value(acc) {
						badA = "trailing entry is not the final count"
					}
					if len(fa.Conds(call.Block())) == 0 {
						badA = "trailing entry is appended unconditionally"
					}
				}
				if badA == "" && (inLoop != 1 || after != 1) {
					badA = fmt.Sprintf("expected one append per word and one for the grand total, found %d in the loop and %d after it", inLoop, after)
				}
				if badA == "" && ai.IVPhi != nil && loopBlk != nil {
					if iv, ok := fa.InductionOf(ai.IVPhi, loopBlk); !ok || !iv.FirstConst || iv.First != 0 || iv.Step != 1 || !iv.HasN || !iv.N.Eq(lw) {
						badA = "the appending loop does not run over every word 0 .. len(words)-1"
					} else if ee := fa.earlyExit(iv); ee != "" {
						badA = "the appending loop can be left early: " + ee
					}
				}
				r.Check(badA == "", "R-TRAIL", bn+"|len", w.InstrPos(mk), badA, "append form: one entry per word, grand total appended under the trailing option")
				r.Check(badA == "", "R-TRAIL", bn+"|total", w.Pos(fn.Pos()), badA, "grand total appended after the loop under the trailing option")
				break
			}
			var forms []string
			okLen := true
			n0, n1 := false, false
			for _, src := range resolvePhi(mk.Len) {
				L := fa.Lin(src)
				forms = append(forms, L.String())
				if L.Eq(lw) {
					n0 = true
				} else if L.Eq(lw.Add(linConst(1))) {
					n1 = true
				} else {
					okLen = false
				}
			}
			if okLen && n0 && !n1 {
				// one entry per word is allocated (any capacity) and the grand total is appended under the trailing option
				nApp, badA := 0, ""
				for _, e := range entries {
					call, ok := e.ins.(*ssa.Call)
					if !ok {
						continue
					}
					if ai.IVPhi != nil && loopBody(ai.IVPhi.Block())[call.Block()] {
						badA = "an entry is appended inside the loop to an index that already has one entry per word"
						continue
					}
					nApp++
					if stripConv(e.val) != ssa.Value(acc) {
						badA = "trailing entry is not the final count"
					}
					if len(fa.Conds(call.Block())) == 0 {
						badA = "trailing entry is appended unconditionally"
					}
					if args := call.Common().Args; len(args) == 0 || !flowsFromMake(args[0], mk) {
						badA = "the grand total is not appended to the index that was built"
					}
				}
				if badA == "" && nApp != 1 {
					badA = fmt.Sprintf("the index has len(words) entries and the grand total must be appended once under the trailing option, found %d appends", nApp)
				}
				r.Check(badA == "", "R-TRAIL", bn+"|len", w.InstrPos(mk), badA, "make length len(words); grand total appended under the trailing option")
				r.Check(badA == "", "R-TRAIL", bn+"|total", w.Pos(fn.Pos()), badA, "grand total appended after the loop under the trailing option")
				break
			}
			r.Check(okLen && n0 && n1, "R-TRAIL", bn+"|len", w.InstrPos(mk), "index length must be len(words) or len(words)+1, found "+strings.Join(forms, " | "), "make length forms: "+strings.Join(forms, " | "))
			// trailing store
			found, badT := false, ""
			for _, e := range entries {
				st, ok := e.ins.(*ssa.Store)
				if !ok {
					continue
				}
				ia := st.Addr.(*ssa.IndexAddr)
				if fa.Lin(ia.Index).Eq(lw) {
					found = true
					if stripConv(st.Val) != ssa.Value(acc) {
						badT = "trailing entry is not the final count"
					}
					if len(fa.Conds(st.Block())) == 0 {
						badT = "trailing entry is written unconditionally"
					}
				}
			}
			if !found {
				badT = "no store of the grand total at index len(words)"
			}
			r.Check(badT == "", "R-TRAIL", bn+"|total", w.Pos(fn.Pos()), badT, "grand total stored at index len(words) under the trailing option")
		case "bitmap.IndexRank128":
			found, badP := false, ""
			for _, e := range entries {
				// the final entry is appended, or stored at index len(words)/2 of a pre-sized index
				switch x := e.ins.(type) {
				case *ssa.Call:
				case *ssa.Store:
					if ai.IVPhi != nil && loopBody(ai.IVPhi.Block())[x.Block()] {
						// the in-loop store: entry k of block k, i.e. index i>>1 for the word counter i (step 2)
						if ia, ok := x.Addr.(*ssa.IndexAddr); ok {
							if ix, c, ok := asShiftRight(ia.Index); !ok || c != 1 || stripConv(ix) != ssa.Value(ai.IVPhi) || ai.Step != 2 {
								badP = "the entry of a block is stored at index " + fa.Lin(ia.Index).String() + ", expected (word index)>>1"
							}
						}
						continue
					}
					ia, _ := x.Addr.(*ssa.IndexAddr)
					lw := linAtom("call:builtin len(p0)")
					okIdx := false
					if ia != nil {
						if ix, c, ok := asShiftRight(ia.Index); ok && c == 1 && fa.Lin(ix).Eq(lw) {
							okIdx = true
						}
					}
					if !okIdx {
						badP = "the final entry is not stored at index len(words)/2"
					}
				default:
					continue
				}
				call := e.ins
				if ai.IVPhi != nil && loopBody(ai.IVPhi.Block())[call.Block()] {
					continue // in-loop append
				}
				found = true
				par := false
				for _, cd := range fa.Conds(call.Block()) {
					if isP, even := parityEven(fa, cd, "words"); isP {
						par = true
						if !even {
							badP = "the final entry is appended when len(words) is odd instead of even"
						}
					}
				}
				// a loop over complete pairs only (i+1 < len(words)) leaves the entry of an unpaired last word to the
				// final write as well: then the final entry is written for either parity
				pairsOnly := false
				if ai.IVPhi != nil && ai.Step == 2 {
					for b := range loopBody(ai.IVPhi.Block()) {
						if iv, ok := fa.InductionOf(ai.IVPhi, b); ok && iv.HasN && iv.FirstConst && iv.First == 0 && iv.Step == 2 &&
							iv.N.Eq(linAtom("call:builtin len(p0)").Add(linConst(-1))) {
							pairsOnly = true
						}
					}
				}
				if pairsOnly {
					otherCond := false
					for _, cd := range fa.Conds(call.Block()) {
						if cd.If == nil || cd.If.Block() != ai.IVPhi.Block() {
							otherCond = true // anything but the loop's own exit test
						}
					}
					if par || otherCond {
						badP = "the loop covers complete pairs of words only, so the final entry (the entry of an unpaired last word, or the total) has to be written unconditionally"
					} else if !ai.Always[0] || !ai.Always[1] {
						badP = "the loop covers complete pairs of words but does not count both words of a pair on every path"
					}
				} else if !par {
					badP = "the final entry is not conditional on the parity of len(words)"
				}
			}
			if !found {
				badP = "no final entry appended after the loop"
			}
			r.Check(badP == "", "R-TRAIL", bn+"|even", w.Pos(fn.Pos()), badP, "final count appended exactly on the len(words)&1 == 0 edge")
		}
	}
	return strideOf
}

func runC01(c *Ctx, w *World, r *Report) {
	names := []string{"bitmap.IndexRank64", "bitmap.IndexRank128", "bitmap.Rank64", "bitmap.Rank128"}
	fns, ok := requireFuncs(w, r, names...)
	ReportMaskWord(w, r, names...)
	ReportScale(w, r, names...)
	ReportPair(w, r, names...)
	ReportRound(w, r, names...)
	ReportTableWidth(w, r)
	reportFresh(w, r, "bitmap.IndexRank64", "bitmap.IndexRank128")
	if !ok {
		return
	}
	r.Rule("R-EXCL", "the value recorded as index entry k is the loop-carried count at the head of iteration k (exclusive prefix: ones before the block), initialised to 0 and updated by adding popcount(words[i+d]) for exactly the offsets 0..stride-1 of the block")
	r.Rule("R-STRIDE", "writer/reader agreement: a builder that advances s words per entry (s = 1, 2) is read with index shift 6+log2(s)")
	r.Rule("R-TRAIL", "IndexRank64: the index has len(words) entries, or len(words)+1 with the trailing option, the extra entry being stored at index len(words) and holding the final count; IndexRank128 appends the final count exactly when len(words) is even")
	r.Rule("R-RANKWORD", "Rank64/Rank128: the word counted is words[i>>6] masked with the low (i&63) bits (bitmap.Mask), and the returned bit is that same word shifted by i&63 and masked with 1")

	strideOf := reportRankBuilders(w, r, fns, "bitmap.IndexRank64", "bitmap.IndexRank128")
	// R-STRIDE
	for _, pr := range [][3]string{{"bitmap.IndexRank64", "bitmap.Rank64", "rindex"}, {"bitmap.IndexRank128", "bitmap.Rank128", "rindex"}} {
		s, ok := strideOf[pr[0]]
		if !ok {
			continue
		}
		ls, _ := log2(uint64(s))
		shifts := readerShifts(fns[pr[1]], pr[2])
		bad := ""
		if len(shifts) == 0 {
			bad = "reader never indexes " + pr[2]
		}
		for _, c := range shifts {
			if c != 6+ls {
				bad = fmt.Sprintf("builder %s writes one entry per %d word(s) but %s indexes %s with shift %d (expected %d)", pr[0], s, pr[1], pr[2], c, 6+ls)
			}
		}
		r.Check(bad == "", "R-STRIDE", pr[0]+"~"+pr[1], w.Pos(fns[pr[1]].Pos()), bad, fmt.Sprintf("builder stride %d word(s), reader shifts %v", s, shifts))
	}
	// R-RANKWORD
	for _, rn := range []string{"bitmap.Rank64", "bitmap.Rank128"} {
		fn := fns[rn]
		fa := w.FA(fn)
		if len(fn.Params) < 3 {
			r.Unknown("R-RANKWORD", rn, w.Pos(fn.Pos()), "unexpected signature")
			continue
		}
		iParam := ssa.Value(fn.Params[2])
		bad := ""
		var facts []string
		for _, ret := range returnsOf(fn) {
			if len(ret.Results) != 2 {
				bad = "unexpected result count"
				continue
			}
			// bit result: (w >> (i&63)) & 1
			x, j, ok := asLowMask(ret.Results[1])
			if !ok || j != 1 {
				bad = "second result is not a single bit (x & 1)"
				continue
			}
			wv, sh, ok := asBin(x, token.SHR)
			if !ok {
				bad = "second result is not a shifted word"
				continue
			}
			sx, sj, ok := asLowMask(sh)
			if !ok || sj != 6 || stripConv(sx) != iParam {
				bad = "the returned bit is not shifted by i&63"
				continue
			}
			cont, widx, ok := asElemLoad(wv)
			if !ok || containerRole(cont) != "words" {
				bad = "the returned bit does not come from words[...]"
				continue
			}
			if t := narrowedTo(w, wv); t != "" {
				bad = "the word is narrowed to " + t + " before it is shifted by i&63: offsets beyond that width read the wrong bit"
				continue
			}
			wx, wc, ok := asShiftRight(widx)
			if !ok || wc != 6 || stripConv(wx) != iParam {
				bad = "the word examined is not words[i>>6]"
				continue
			}
			wordVN := fa.VN(stripConv(wv))
			// count result: contains popcount(w & Mask[i&63])
			// the count may be merged from alternatives (conditional subtraction of the right word): every alternative adds the masked popcount
			foundMasked := true
			for _, leaf := range resolvePhi(stripConv(ret.Results[0])) {
				L := fa.Lin(leaf)
				foundLeaf := false
				for atom, coef := range L.T {
					call, ok := fa.AtomValue(atom).(*ssa.Call)
					if !ok || !strings.HasPrefix(calleeName(call.Common()), "math/bits.OnesCount") {
						continue
					}
					a0, a1, ok := asBin(call.Common().Args[0], token.AND)
					if !ok {
						continue
					}
					for _, side := range [2][2]ssa.Value{{a0, a1}, {a1, a0}} {
						if fa.VN(stripConv(side[0])) != wordVN {
							continue
						}
						ms, ok := fa.MaskOf(side[1])
						if !ok {
							continue
						}
						if ms.Kind != "low" {
							bad = fmt.Sprintf("the counted word is masked with a %s-bits mask (%s), not with the low j bits (bitmap.Mask[j] or (1<<j)-1)", ms.Kind, ms.Via)
							continue
						}
						jv := fa.AtomValueOfLin(ms.N)
						tx, tj, ok := asLowMask(jv)
						if jv == nil || !ok || tj != 6 || stripConv(tx) != iParam {
							bad = "the mask width is not i&63"
							continue
						}
						if coef != 1 {
							bad = "the masked popcount is not added exactly once"
							continue
						}
						foundLeaf = true
					}
				}
				// -popcount(w & high j) on the right word equals -popcount(w) + popcount(w & low j)
				for atom, coef := range L.T {
					call, ok := fa.AtomValue(atom).(*ssa.Call)
					if !ok || coef != -1 || !strings.HasPrefix(calleeName(call.Common()), "math/bits.OnesCount") {
						continue
					}
					a0, a1, ok := asBin(call.Common().Args[0], token.AND)
					if !ok {
						continue
					}
					for _, side := range [2][2]ssa.Value{{a0, a1}, {a1, a0}} {
						if fa.VN(stripConv(side[0])) != wordVN {
							continue
						}
						if ms, ok := fa.MaskOf(side[1]); ok && ms.Kind == "high" {
							if jv := fa.AtomValueOfLin(ms.N); jv != nil {
								if tx, tj, ok := asLowMask(jv); ok && tj == 6 && stripConv(tx) == iParam {
									foundLeaf = true
									if strings.HasPrefix(bad, "the counted word is masked with a high") {
										bad = ""
									}
								}
							}
						}
					}
				}
				if !foundLeaf {
					foundMasked = false
				}
			}
			if !foundMasked && bad == "" {
				bad = "the count result does not add popcount(words[i>>6] & Mask[i&63])"
			}
			facts = append(facts, "count = ... + popcount(words[i>>6] & Mask[i&63]); bit = (words[i>>6] >> (i&63)) & 1")
		}
		r.Check(bad == "", "R-RANKWORD", rn, w.Pos(fn.Pos()), bad, facts...)
	}
}

func keysOf(m map[int64]bool) []int64 {
	var out []int64
	for k := range m {
		out = append(out, k)
	}
	for i := range out {
		for j := i + 1; j < len(out); j++ {
			if out[j] < out[i] {
				out[i], out[j] = out[j], out[i]
			}
		}
	}
	return out
}

func init() {
	register(&Prop{
		ID: "C01", Level: "other",
		Explain: "Structural necessary conditions of exact rank (DESIGN.md 5/C01): unit consistency of every index (E4), shift/mask pairing, rounding constants, exclusive-prefix accumulation over exactly the words of a block, builder stride vs reader shift, trailing/even-length entry, and the identity of the word/mask/offset used by Rank64/Rank128.",
		NotDec:  []string{"that checkpoint + popcount(w & Mask[j]) - atRight*popcount(w) equals the rank (arithmetic identity)", "contents of the Mask table (built by an init loop)"},
		Trusted: []string{"go/ssa construction", "math/bits.OnesCount64 is popcount"},
		Quick:   []Config{cfgDefault, cfg386}, Thorough: []Config{cfgDefault, cfg386},
		Run: runC01,
	})
}

// narrowedTo: v is a chain of integer conversions over some value; returns the narrowest type (< 64 bits) on the chain, or "".
func narrowedTo(w *World, v ssa.Value) string {
	out := ""
	for {
		cv, ok := v.(*ssa.Convert)
		if !ok || !isIntType(cv.Type()) || !isIntType(cv.X.Type()) {
			return out
		}
		if w.Sizes.Sizeof(cv.Type()) < 8 {
			out = cv.Type().String()
		}
		v = cv.X
	}
}
