package main

import (
	"fmt"
	"go/ast"
	"go/constant"
	"go/token"
	"sort"
	"strings"

	"golang.org/x/tools/go/ssa"
)

// fieldAtom returns the linear atom of (a load of) receiver field name in fn.
func fieldAtom(w *World, fn *ssa.Function, name string) (Lin, ssa.Value, bool) {
	fa := w.FA(fn)
	var v ssa.Value
	eachInstr(fn, func(ins ssa.Instruction) {
		if x, ok := ins.(ssa.Value); ok && v == nil {
			if b, f, ok := asFieldLoad(x); ok && f == name && b == ssa.Value(fn.Params[0]) {
				v = x
			}
		}
	})
	if v == nil {
		return Lin{}, nil, false
	}
	return fa.Lin(v), v, true
}

// isProductOf: v = a*b where {VN(a),VN(b)} == {x,y} (atoms given as linear forms of single atoms).
func isProductOf(fa *FA, v ssa.Value, x, y Lin) bool {
	a, b, ok := asProduct(v)
	if !ok {
		return false
	}
	la, lb := fa.Lin(a), fa.Lin(b)
	return la.Eq(x) && lb.Eq(y) || la.Eq(y) && lb.Eq(x)
}

// linIsProduct: L is exactly one atom with coefficient 1 that is the product x*y (+k).
func linProductPlus(fa *FA, L Lin, x, y Lin) (Lin, bool) {
	// a product that came out of a distributed multiplication carries the canonical name of its two atoms
	single := func(l Lin) (string, bool) {
		if len(l.T) != 1 || l.K != 0 {
			return "", false
		}
		for a, c := range l.T {
			if c == 1 {
				return a, true
			}
		}
		return "", false
	}
	_, sx := single(x)
	_, sy := single(y)
	if !(sx && sy) {
		// one factor is itself a sum (the counter of a range loop is phi+1): subtract the distributed product
		if prod, ok := linMul(x, y); ok {
			rest := L.Sub(prod)
			okAll := true
			for atom := range prod.T {
				if strings.HasPrefix(atom, "(* ") && rest.T[atom] != 0 {
					okAll = false
				}
			}
			if okAll {
				return rest, true
			}
		}
	}
	if ax, ok := single(x); ok {
		if ay, ok := single(y); ok {
			if ay < ax {
				ax, ay = ay, ax
			}
			name := "(* " + ax + " " + ay + ")"
			if L.T[name] == 1 {
				rest := L.clone()
				delete(rest.T, name)
				return rest, true
			}
		}
	}
	for atom, coef := range L.T {
		if coef == 1 && isProductOf(fa, fa.AtomValue(atom), x, y) {
			rest := L.clone()
			delete(rest.T, atom)
			return rest, true
		}
	}
	return Lin{}, false
}

func runC08(c *Ctx, w *World, r *Report) {
	names := []string{"bitword.newBW", "bitword.(*bitWord).FromStr", "bitword.(*bitWord).ToStr", "bitword.(*bitWord).Get", "bitword.(*bitWord).FirstDiff",
		"bitword.(*bitWord).FromStrs", "bitword.(*bitWord).ToStrs"}
	fns, ok := requireFuncs(w, r, names...)
	ReportScale(w, r, names...)
	ReportPair(w, r, names...)
	reportFresh(w, r, "bitword.(*bitWord).FromStr", "bitword.(*bitWord).FromStrs", "bitword.(*bitWord).ToStrs")
	if !ok {
		return
	}
	r.Rule("R-TABLE", "BitWord has exactly the keys {1,2,4,8} and the entry for k is newBW(k) with that same k; newBW(n) sets width = n, byteCap = 8/n, wordMask = (1<<n)-1")
	r.Rule("R-GET", "Get(s, ith): bit position p = width*ith, byte s[p>>3], shifted right by 7 - ((p+width-1)&7) and masked with wordMask (MSB-first word inside the byte)")
	r.Rule("R-FROMSTR", "FromStr allocates len(s)*byteCap words and stores at index i*byteCap+j the byte s[i] >> (8 - width*j - width) & wordMask for every i in [0,len(s)) and j in [0,byteCap)")
	r.Rule("R-TOSTR", "ToStr allocates (len(bs)+byteCap-1)/byteCap bytes; byte i accumulates, for j = 0..byteCap-1, b = b<<width + bs[i*byteCap+j] when that index is < len(bs) and b<<width otherwise (zero padding), starting from 0")
	r.Rule("R-FIRSTDIFF", "FirstDiff: word counts are len*byteCap; end = -1 selects words(a); end is clamped by `if end > L then end = L` for both word counts; the scan runs i = from, from+1, ... while i < end and returns the first i with Get(a,i) != Get(b,i), else the clamped end")
	r.Rule("R-ELEMWISE", "FromStrs/ToStrs apply FromStr/ToStr to element i of the input and store at index i of a result of equal length, for every i")

	// ---- R-TABLE (AST)
	{
		bad := ""
		var keys []int64
		found := false
		for _, p := range w.Pkgs {
			if w.Short(p.Types) != "bitword" {
				continue
			}
			for _, f := range p.Syntax {
				ast.Inspect(f, func(n ast.Node) bool {
					vs, ok := n.(*ast.ValueSpec)
					if !ok {
						return true
					}
					for i, id := range vs.Names {
						if id.Name != "BitWord" || i >= len(vs.Values) {
							continue
						}
						found = true
						cl, ok := vs.Values[i].(*ast.CompositeLit)
						if !ok {
							// built by a helper from the list of widths: BitWord = newBWs(1, 2, 4, 8), the helper storing
							// m[n] = newBW(n) for every n of its list
							if ce, isCall := vs.Values[i].(*ast.CallExpr); isCall {
								if fid, isId := ce.Fun.(*ast.Ident); isId && tableBuilderForm(w, fns["bitword.newBW"], fid.Name) {
									for _, a := range ce.Args {
										at := p.TypesInfo.Types[a]
										if at.Value == nil || ce.Ellipsis.IsValid() {
											bad = "BitWord is built from a width that is not a constant"
											continue
										}
										k, _ := constant.Int64Val(at.Value)
										keys = append(keys, k)
									}
									return false
								}
							}
							bad = "BitWord is not a map literal"
							return false
						}
						for _, el := range cl.Elts {
							kv, ok := el.(*ast.KeyValueExpr)
							if !ok {
								bad = "entry without key"
								continue
							}
							kt := p.TypesInfo.Types[kv.Key]
							if kt.Value == nil {
								bad = "non-constant key"
								continue
							}
							k, _ := constant.Int64Val(kt.Value)
							keys = append(keys, k)
							call, ok := kv.Value.(*ast.CallExpr)
							if !ok || len(call.Args) != 1 {
								bad = fmt.Sprintf("entry %d is not newBW(k)", k)
								continue
							}
							if fid, ok := call.Fun.(*ast.Ident); !ok || fid.Name != "newBW" {
								bad = fmt.Sprintf("entry %d is not built by newBW", k)
							}
							at := p.TypesInfo.Types[call.Args[0]]
							if at.Value == nil {
								bad = fmt.Sprintf("entry %d: non-constant width", k)
								continue
							}
							a, _ := constant.Int64Val(at.Value)
							if a != k {
								bad = fmt.Sprintf("BitWord[%d] is built for width %d", k, a)
							}
						}
					}
					return true
				})
			}
		}
		sort.Slice(keys, func(i, j int) bool { return keys[i] < keys[j] })
		if !found {
			r.Unknown("R-TABLE", "bitword.BitWord", "-", "variable BitWord not found")
		} else {
			if bad == "" && fmt.Sprint(keys) != "[1 2 4 8]" {
				bad = fmt.Sprintf("BitWord keys are %v, expected [1 2 4 8]", keys)
			}
			r.Check(bad == "", "R-TABLE", "bitword.BitWord", "-", bad, "keys [1 2 4 8], each newBW(k)")
		}
		// newBW
		fn := fns["bitword.newBW"]
		fa := w.FA(fn)
		badN := ""
		got := map[string]bool{}
		eachInstr(fn, func(ins ssa.Instruction) {
			st, ok := ins.(*ssa.Store)
			if !ok {
				return
			}
			fad, ok := st.Addr.(*ssa.FieldAddr)
			if !ok {
				return
			}
			f := fieldName(fad)
			got[f] = true
			switch f {
			case "width":
				if stripConv(st.Val) != ssa.Value(fn.Params[0]) {
					badN = "width is not n"
				}
			case "byteCap":
				x, y, ok := asBin(st.Val, token.QUO)
				k, okk := constInt64(stripConv(x))
				if !ok || !okk || k != 8 || stripConv(y) != ssa.Value(fn.Params[0]) {
					badN = "byteCap is not 8/n"
				}
			case "wordMask":
				L := fa.Lin(st.Val)
				okM := L.K == -1 && len(L.T) == 1
				for atom, coef := range L.T {
					x, y, ok := asBin(fa.AtomValue(atom), token.SHL)
					k, okk := constInt64(stripConv(x))
					if !ok || !okk || k != 1 || coef != 1 || stripConv(y) != ssa.Value(fn.Params[0]) {
						okM = false
					}
				}
				if ms, isMask := fa.MaskOf(st.Val); isMask && ms.Kind == "low" && ms.N.Eq(fa.Lin(fn.Params[0])) {
					okM = true // any spelling of "the n low bits": ^(0xff << n), 0xff >> (8-n), ...
				}
				if !okM {
					badN = "wordMask is not (1<<n)-1"
				}
			}
		})
		for _, f := range []string{"width", "byteCap", "wordMask"} {
			if !got[f] && badN == "" {
				badN = "field " + f + " is not set"
			}
		}
		r.Check(badN == "", "R-TABLE", "bitword.newBW", w.Pos(fn.Pos()), badN, "width=n, byteCap=8/n, wordMask=(1<<n)-1")
	}
	// ---- R-GET
	{
		n := "bitword.(*bitWord).Get"
		fn := fns[n]
		fa := w.FA(fn)
		bad := ""
		W, _, okW := fieldAtom(w, fn, "width")
		if !okW {
			bad = "width is never read"
		}
		ith := fa.Lin(fn.Params[2])
		for _, ret := range returnsOf(fn) {
			if bad != "" {
				break
			}
			bad = wordExtractForm(fa, ret.Results[0], fn.Params[1], W, ith)
		}
		r.Check(bad == "", "R-GET", n, w.Pos(fn.Pos()), bad, "(s[(w*i)>>3] >> (7 - ((w*i+w-1)&7))) & wordMask")
	}
	// ---- R-FROMSTR
	{
		n := "bitword.(*bitWord).FromStr"
		fn := fns[n]
		fa := w.FA(fn)
		bad := ""
		W, _, okW := fieldAtom(w, fn, "width")
		M, _, okM := fieldAtom(w, fn, "byteCap")
		lenS := linAtom("call:builtin len(p1)")
		var mk *ssa.MakeSlice
		eachInstr(fn, func(ins ssa.Instruction) {
			if m, ok := ins.(*ssa.MakeSlice); ok {
				mk = m
			}
		})
		if !okW || !okM || mk == nil {
			bad = "width/byteCap/result allocation not found"
		} else {
			// append form: the result starts empty and one word is appended in every iteration of the full inner loop
			// j in [0, byteCap) of the full outer loop i in [0, len(s)): word i*byteCap+j by construction
			appendForm := false
			if k, isK := constInt64(mk.Len); isK && k == 0 {
				appendForm = true
			} else if !isProductOf(fa, stripConv(mk.Len), lenS, M) {
				bad = "result length is " + fa.Lin(mk.Len).String() + ", expected len(s)*byteCap"
			}
			nst := 0
			eachInstr(fn, func(ins ssa.Instruction) {
				var stVal ssa.Value
				var stBlk *ssa.BasicBlock
				var ia *ssa.IndexAddr
				if appendForm {
					call, ok := ins.(*ssa.Call)
					if !ok {
						return
					}
					vals := appendedValues(call)
					if len(vals) == 0 {
						return
					}
					if len(vals) != 1 {
						bad = "several words appended at once"
						return
					}
					stVal, stBlk = vals[0], call.Block()
				} else {
					st0, ok := ins.(*ssa.Store)
					if !ok {
						return
					}
					ia0, ok := st0.Addr.(*ssa.IndexAddr)
					if !ok || ia0.X != ssa.Value(mk) {
						return
					}
					stVal, stBlk, ia = st0.Val, st0.Block(), ia0
				}
				st := struct {
					Val   ssa.Value
					Block func() *ssa.BasicBlock
				}{stVal, func() *ssa.BasicBlock { return stBlk }}
				nst++
				// value = (s[i] >> amt) & wordMask
				a, b, ok := asBin(st.Val, token.AND)
				if !ok {
					bad = "stored word is not masked"
					return
				}
				var sh ssa.Value
				okMask := false
				for _, s := range []ssa.Value{a, b} {
					if _, f, ok := asFieldLoad(s); ok && f == "wordMask" {
						okMask = true
					} else {
						sh = s
					}
				}
				if !okMask || sh == nil {
					bad = "stored word is not masked with wordMask"
					return
				}
				by, amt, ok := asBin(sh, token.SHR)
				if !ok {
					bad = "stored word is not a shifted byte"
					return
				}
				cont, bi, ok := asElemLoad(by)
				if !ok || cont != ssa.Value(fn.Params[1]) {
					bad = "source byte is not s[i]"
					return
				}
				ivI, ok := fa.InductionOf(bi, st.Block())
				if !ok || !ivI.FirstConst || ivI.First != 0 || ivI.Step != 1 {
					bad = "byte index does not run 0,1,2,..."
					return
				}
				iL := fa.Lin(bi)
				bdI := fa.BoundsAt(st.Block(), iL.Sub(lenS))
				if !(bdI.HasHi && bdI.Hi == -1) {
					bad = "byte index is not bounded by i < len(s)"
				}
				var jL Lin
				if appendForm {
					// the counters are the loops themselves: inner j over [0, byteCap), outer i over [0, len(s)), both complete,
					// the append executed once per inner iteration, the inner loop once per outer iteration
					inner := innermostLoop(stBlk)
					var jPhi *ssa.Phi
					if inner != nil {
						for _, pi := range inner.Instrs {
							q, isPhi := pi.(*ssa.Phi)
							if !isPhi {
								break
							}
							if af := fa.affineOf(q); af != nil && af.ok && af.step == 1 && af.init.Eq(linConst(0)) && isIntType(q.Type()) {
								jPhi = q
							}
						}
					}
					if jPhi == nil || ivI.Phi.Block() == inner || !loopBody(ivI.Phi.Block())[inner] {
						bad = "the appending loop nest is not `for i over s { for j in [0, byteCap) { append } }`"
						return
					}
					ivJ, ok := fa.InductionOf(jPhi, stBlk)
					switch {
					case !ok || !ivJ.FirstConst || ivJ.First != 0 || ivJ.Step != 1 || !ivJ.HasN || !ivJ.N.Eq(M):
						bad = "word-in-byte index does not run over [0, byteCap)"
					case fa.earlyExit(ivJ) != "":
						bad = "the inner appending loop can be left early: " + fa.earlyExit(ivJ)
					case !ivI.HasN || !ivI.N.Eq(lenS) || fa.earlyExit(ivI) != "":
						bad = "the outer appending loop does not run over every byte of s"
					}
					for _, pr := range inner.Preds {
						if inner.Dominates(pr) && !stBlk.Dominates(pr) {
							bad = "a word is not appended in every iteration of the inner loop"
						}
					}
					for _, pr := range ivI.Phi.Block().Preds {
						if ivI.Phi.Block().Dominates(pr) && !inner.Dominates(pr) {
							bad = "the inner loop does not run in every iteration of the outer loop"
						}
					}
					if bad != "" {
						return
					}
					jL = linAtom(fa.VN(jPhi))
				} else {
					// index = i*m + j
					rest, ok := linProductPlus(fa, fa.Lin(ia.Index), iL, M)
					if !ok || len(rest.T) != 1 || rest.K != 0 {
						bad = "destination index is " + fa.Lin(ia.Index).String() + ", expected i*byteCap + j"
						return
					}
					for atom := range rest.T {
						jv := fa.AtomValue(atom)
						ivJ, ok := fa.InductionOf(jv, st.Block())
						if !ok || !ivJ.FirstConst || ivJ.First != 0 || ivJ.Step != 1 || !ivJ.HasN || !ivJ.N.Eq(M) {
							bad = "word-in-byte index does not run over [0, byteCap)"
						}
						jL = linAtom(atom)
					}
				}
				// amt = 8 - W*j - W
				AL := fa.Lin(amt)
				r2, ok := linProductPlus(fa, AL.Neg(), W, jL) // -(amt) = W*j + W - 8
				if !ok || !r2.Eq(W.Add(linConst(-8))) {
					bad = "shift amount is " + AL.String() + ", expected 8 - width*j - width"
				}
			})
			if nst != 1 && bad == "" {
				bad = fmt.Sprintf("expected one store into the result, found %d", nst)
			}
		}
		r.Check(bad == "", "R-FROMSTR", n, w.Pos(fn.Pos()), bad, "words[i*m+j] = (s[i] >> (8-w*j-w)) & mask, i<len(s), j<m")
	}
	// ---- R-TOSTR
	{
		n := "bitword.(*bitWord).ToStr"
		fn := fns[n]
		fa := w.FA(fn)
		bad := ""
		W, _, okW := fieldAtom(w, fn, "width")
		M, mv, okM := fieldAtom(w, fn, "byteCap")
		lenB := linAtom("call:builtin len(p1)")
		var mk *ssa.MakeSlice
		eachInstr(fn, func(ins ssa.Instruction) {
			if m, ok := ins.(*ssa.MakeSlice); ok {
				mk = m
			}
		})
		if !okW || !okM || mk == nil {
			bad = "width/byteCap/result allocation not found"
		} else {
			x, y, ok := asBin(mk.Len, token.QUO)
			if !ok || fa.VN(stripConv(y)) != fa.VN(mv) || !fa.Lin(x).Eq(lenB.Add(M).Add(linConst(-1))) {
				bad = "result length is not (len(bs)+byteCap-1)/byteCap"
			}
			// the stored byte is a loop-carried accumulator
			nst := 0
			eachInstr(fn, func(ins ssa.Instruction) {
				st, ok := ins.(*ssa.Store)
				if !ok {
					return
				}
				ia, ok := st.Addr.(*ssa.IndexAddr)
				if !ok || ia.X != ssa.Value(mk) {
					return
				}
				nst++
				acc, ok := stripConv(st.Val).(*ssa.Phi)
				if !ok {
					// scatter form: one pass over the words, word k is added into byte k/byteCap at its final place,
					// strbs[k/m] += bs[k] << (8 - width*(k%m) - width); the places of missing words stay zero
					if why := toStrScatter(fa, fn, mk, st, ia, W, M, mv); why != "" {
						bad = "stored byte is not the accumulated value (and not the scatter form: " + why + ")"
					}
					return
				}
				iIV, ok := fa.InductionOf(ia.Index, st.Block())
				if !ok || !iIV.FirstConst || iIV.First != 0 || iIV.Step != 1 {
					bad = "byte index does not run 0,1,2,..."
					return
				}
				iL := fa.Lin(ia.Index)
				accAtom := fa.VN(acc)
				has0, hasAdd, hasPad := false, false, false
				for k, e := range acc.Edges {
					pred := acc.Block().Preds[k]
					for _, leaf := range fa.leavesOf(e, pred, 0) {
						if kk, ok := constInt64(stripConv(leaf.V)); ok {
							if kk == 0 {
								has0 = true
							} else {
								bad = "accumulator starts at a non-zero constant"
							}
							continue
						}
						if _, isPhi := stripConv(leaf.V).(*ssa.Phi); isPhi {
							// carried over from the previous byte: byteCap*width = 8 shifts push it out of the byte
							has0 = true
							continue
						}
						L := fa.Lin(leaf.V)
						// expect shl(acc, W) [+ bs[i*m+j]]
						var shlAtom string
						for atom, coef := range L.T {
							if x, y, ok := asBin(fa.AtomValue(atom), token.SHL); ok && coef == 1 && fa.VN(stripConv(x)) == accAtom && fa.Lin(y).Eq(W) {
								shlAtom = atom
							}
						}
						if shlAtom == "" {
							bad = "accumulator update " + L.String() + " is not b<<width (+ word)"
							continue
						}
						rest := L.clone()
						delete(rest.T, shlAtom)
						if len(rest.T) == 0 && rest.K == 0 {
							hasPad = true
							continue
						}
						okW := len(rest.T) == 1 && rest.K == 0
						for atom, coef := range rest.T {
							cont, idx, ok := asElemLoad(fa.AtomValue(atom))
							if !ok || coef != 1 || cont != ssa.Value(fn.Params[1]) {
								okW = false
								continue
							}
							r2, ok := linProductPlus(fa, fa.Lin(idx), iL, M)
							if !ok || len(r2.T) != 1 || r2.K != 0 {
								okW = false
								continue
							}
							for jatom := range r2.T {
								var blk *ssa.BasicBlock
								if ins, ok := fa.AtomValue(atom).(ssa.Instruction); ok {
									blk = ins.Block()
								}
								jIV, ok := fa.InductionOf(fa.AtomValue(jatom), blk)
								if !ok || !jIV.FirstConst || jIV.First != 0 || jIV.Step != 1 || !jIV.HasN || !jIV.N.Eq(M) {
									okW = false
								}
							}
							// guard idx < len(bs)
							bd := fa.boundsFrom(leaf.Conds, fa.Lin(idx).Sub(lenB))
							if !(bd.HasHi && bd.Hi == -1) {
								bad = "a word is read without the guard i*byteCap+j < len(bs)"
							}
						}
						if !okW && bad == "" {
							bad = "accumulator update adds " + rest.String() + ", expected bs[i*byteCap+j]"
						}
						if okW {
							hasAdd = true
						}
					}
				}
				if bad == "" && !(has0 && hasAdd && hasPad) {
					bad = fmt.Sprintf("accumulator must start at 0, add words MSB-first and pad with zeros: start=%v add=%v pad=%v", has0, hasAdd, hasPad)
				}
			})
			if nst != 1 && bad == "" {
				bad = fmt.Sprintf("expected one store into the result, found %d", nst)
			}
			for _, ret := range returnsOf(fn) {
				cv, ok := ret.Results[0].(*ssa.Convert)
				if !ok || cv.X != ssa.Value(mk) {
					bad = "result is not string(result bytes)"
				}
			}
		}
		r.Check(bad == "", "R-TOSTR", n, w.Pos(fn.Pos()), bad, "b = 0; b = b<<w + bs[i*m+j] | b<<w; len = (len(bs)+m-1)/m")
	}
	// ---- R-FIRSTDIFF
	{
		n := "bitword.(*bitWord).FirstDiff"
		fn := fns[n]
		fa := w.FA(fn)
		bad := ""
		M, _, okM := fieldAtom(w, fn, "byteCap")
		if !okM {
			bad = "byteCap never read"
		}
		lenA, lenB := linAtom("call:builtin len(p1)"), linAtom("call:builtin len(p2)")
		isWords := func(L Lin, ln Lin) bool {
			rest, ok := linProductPlus(fa, L, ln, M)
			return ok && len(rest.T) == 0 && rest.K == 0
		}
		var endFinal ssa.Value
		nPos := 0
		type fdLeaf struct {
			v     ssa.Value
			blk   *ssa.BasicBlock
			conds []Cond
		}
		var fdLeaves []fdLeaf
		// the scan bound: the value the counter of the Get(a,i) != Get(b,i) loop is compared with - the clamped end.
		// Merges are expanded only down to it: an earlier, not yet clamped version of `end` is a different value.
		var scanBound ssa.Value
		// an operand of the difference test: the word of a (or b) at the scan position - a call of Get on the receiver,
		// or Get's expression spelled out (checked against the same formula as Get itself)
		Wfd, _, okWfd := fieldAtom(w, fn, "width")
		fdOperand := func(v ssa.Value) (str ssa.Value, idx ssa.Value, ok bool) {
			if c, isCall := v.(*ssa.Call); isCall {
				if c.Common().StaticCallee() == fns["bitword.(*bitWord).Get"] && c.Common().Args[0] == ssa.Value(fn.Params[0]) {
					return c.Common().Args[1], c.Common().Args[2], true
				}
				return nil, nil, false
			}
			if !okWfd {
				return nil, nil, false
			}
			for _, b := range fn.Blocks {
				for _, ins := range b.Instrs {
					p, isPhi := ins.(*ssa.Phi)
					if !isPhi {
						break
					}
					if !isLoopHeaderPhi(p) {
						continue
					}
					for _, sp := range []ssa.Value{fn.Params[1], fn.Params[2]} {
						if wordExtractForm(fa, v, sp, Wfd, fa.Lin(p)) == "" {
							return sp, p, true
						}
					}
				}
			}
			return nil, nil, false
		}
		eachInstr(fn, func(ins ssa.Instruction) {
			bo, ok := ins.(*ssa.BinOp)
			if !ok || (bo.Op != token.NEQ && bo.Op != token.EQL) || scanBound != nil {
				return
			}
			_, ia, ok1 := fdOperand(bo.X)
			_, _, ok2 := fdOperand(bo.Y)
			if !ok1 || !ok2 {
				return
			}
			if iv, ok := fa.InductionOf(ia, bo.Block()); ok && iv.HasN && len(iv.N.T) == 1 && iv.N.K == 0 {
				for atom := range iv.N.T {
					scanBound = fa.AtomValue(atom)
				}
			}
		})
		var expand func(v ssa.Value, blk *ssa.BasicBlock, conds []Cond, depth int)
		expand = func(v ssa.Value, blk *ssa.BasicBlock, conds []Cond, depth int) {
			v = stripConv(v)
			p, isPhi := v.(*ssa.Phi)
			if !isPhi || isLoopHeaderPhi(p) || v == scanBound || depth > 4 {
				fdLeaves = append(fdLeaves, fdLeaf{v, blk, conds})
				return
			}
			// a single exit through a result variable (diff := end; ...; diff = i; break): one alternative per edge
			for i, e := range p.Edges {
				pred := p.Block().Preds[i]
				for _, cs := range fa.CondsDNF(pred, 0) {
					cs2 := append(append(append([]Cond{}, cs...), selfCond(pred, p.Block())...), conds...)
					expand(e, pred, cs2, depth+1)
				}
			}
		}
		for _, ret := range returnsOf(fn) {
			for _, cs := range fa.CondsDNF(ret.Block(), 0) {
				expand(ret.Results[0], ret.Block(), cs, 0)
			}
		}
		seenPos := map[ssa.Value]bool{}
		for _, lf := range fdLeaves {
			v := lf.v
			if iv, ok := fa.InductionOf(v, lf.blk); ok && iv.Step == 1 {
				if !iv.HasN && iv.Phi != nil {
					// returned after the loop (`for i < end && same(i) { i++ }; return i`): the bound is the one that guards the body
					for _, sb := range iv.Phi.Block().Succs {
						if iv2, ok := fa.InductionOf(v, sb); ok && iv2.HasN && iv2.Phi == iv.Phi && len(sb.Preds) == 1 {
							iv = iv2
							break
						}
					}
				}
				if !seenPos[v] {
					nPos++
				}
				seenPos[v] = true
				if !iv.FirstLin.Eq(fa.Lin(fn.Params[3])) {
					bad = "the scan does not start at `from`"
				}
				if !iv.HasN {
					bad = "the scan has no upper bound"
				} else {
					for atom := range iv.N.T {
						endFinal = fa.AtomValue(atom)
					}
					if len(iv.N.T) != 1 || iv.N.K != 0 {
						bad = "the scan bound is " + iv.N.String()
					}
				}
				// returned under Get(a,i) != Get(b,i)
				okC := false
				for _, cd := range lf.conds {
					bo, ok := cd.V.(*ssa.BinOp)
					if !ok || !(bo.Op == token.NEQ && cd.Pol || bo.Op == token.EQL && !cd.Pol) {
						continue
					}
					sa, ia, ok1 := fdOperand(bo.X)
					sb, ib, ok2 := fdOperand(bo.Y)
					if !ok1 || !ok2 {
						continue
					}
					if (sa == ssa.Value(fn.Params[1]) && sb == ssa.Value(fn.Params[2]) || sa == ssa.Value(fn.Params[2]) && sb == ssa.Value(fn.Params[1])) &&
						fa.VN(ia) == fa.VN(v) && fa.VN(ib) == fa.VN(v) {
						okC = true
					}
				}
				if !okC && iv.HasN && fdScanEnded(fa, iv, v, lf.conds) {
					// the scan ran to its bound (i < end failed, and the loop was entered with from <= end): i == end here,
					// the no-difference result
					okC = true
				}
				if !okC {
					bad = "a position is returned on an edge other than Get(a,i) != Get(b,i)"
				}
				continue
			}
		}
		// every other result is the clamped end (one of the alternatives the clamps merge)
		if endFinal != nil {
			for _, lf := range fdLeaves {
				if seenPos[lf.v] {
					continue
				}
				if lf.v != endFinal {
					bad = "the no-difference result is not the clamped end"
				}
			}
		}
		if nPos != 1 && bad == "" {
			bad = fmt.Sprintf("expected one position return, found %d", nPos)
		}
		// clamps
		if endFinal != nil && bad == "" {
			clampA, clampB, dflt := false, false, false
			var walk func(v ssa.Value, depth int)
			walk = func(v ssa.Value, depth int) {
				p, ok := stripConv(v).(*ssa.Phi)
				if !ok || depth > 6 {
					if stripConv(v) != ssa.Value(fn.Params[4]) && !isWords(fa.Lin(v), lenA) {
						bad = "end candidate " + fa.Lin(v).String() + " is neither the end argument nor a word count"
					}
					return
				}
				if len(p.Edges) != 2 {
					bad = "unexpected merge of end candidates"
					return
				}
				// one edge is the previous value, the other the clamp
				for k, e := range p.Edges {
					o := p.Edges[1-k]
					L := fa.Lin(e)
					pred := p.Block().Preds[k]
					isA, isB := isWords(L, lenA), isWords(L, lenB)
					if !isA && !isB {
						// min(la, lb) computed first (end = min(end, min(la, lb))): a merge of the two word counts, each
						// taken on the edge where it is the smaller one, clamps against both at once
						if ip, ok := stripConv(e).(*ssa.Phi); ok && len(ip.Edges) == 2 && !isLoopHeaderPhi(ip) {
							okMin := true
							sawA, sawB := false, false
							for kk, ie := range ip.Edges {
								IL, OL := fa.Lin(ie), fa.Lin(ip.Edges[1-kk])
								a1, b1 := isWords(IL, lenA), isWords(IL, lenB)
								a2, b2 := isWords(OL, lenA), isWords(OL, lenB)
								if !(a1 && b2 || b1 && a2) {
									okMin = false
									break
								}
								sawA, sawB = sawA || a1, sawB || b1
								ipred := ip.Block().Preds[kk]
								for _, cs := range fa.CondsDNF(ipred, 0) {
									cs2 := append(append([]Cond{}, cs...), selfCond(ipred, ip.Block())...)
									if bd := fa.boundsFrom(cs2, IL.Sub(OL)); !(bd.HasHi && bd.Hi <= 0) {
										okMin = false
									}
								}
							}
							if okMin && sawA && sawB {
								isA, isB = true, true
							}
						}
					}
					if !isA && !isB {
						continue
					}
					d := fa.Lin(o).Sub(L) // prev - clamp
					// the clamping block may be entered on several conditions (`end == -1 || end > count`): every way in
					// must be one of the two reasons
					allClamp, allOK, anyDflt, anyClamp := true, true, false, false
					paths := fa.CondsDNF(pred, 0)
					for _, cs := range paths {
						cs2 := append(append([]Cond{}, cs...), selfCond(pred, p.Block())...)
						bd := fa.boundsFrom(cs2, d)
						eb := fa.boundsFrom(cs2, fa.Lin(fn.Params[4]))
						switch {
						case bd.HasLo && bd.Lo >= 0:
							anyClamp = true
						case isA && eb.HasLo && eb.HasHi && eb.Lo == -1 && eb.Hi == -1:
							anyDflt = true
							allClamp = false
						default:
							allOK, allClamp = false, false
						}
					}
					if len(paths) > 0 && allOK {
						if anyClamp || allClamp {
							if isA {
								clampA = true
							}
							if isB {
								clampB = true
							}
						}
						if anyDflt {
							dflt = true
						}
						walk(o, depth+1)
						return
					}
					bad = "a word count replaces end on an edge that is neither (end > count) nor (end == -1)"
					return
				}
				bad = "end merge without a word-count candidate"
			}
			walk(endFinal, 0)
			if bad == "" && !(clampA && clampB && dflt) {
				bad = fmt.Sprintf("end must be clamped to both word counts and default to words(a) for -1: clampA=%v clampB=%v default=%v", clampA, clampB, dflt)
			}
		}
		r.Check(bad == "", "R-FIRSTDIFF", n, w.Pos(fn.Pos()), bad, "end=-1 -> la; end=min(end,la,lb); first i in [from,end) with Get(a,i)!=Get(b,i) else end")
	}
	// ---- R-ELEMWISE
	for _, pr := range [][2]string{{"bitword.(*bitWord).FromStrs", "bitword.(*bitWord).FromStr"}, {"bitword.(*bitWord).ToStrs", "bitword.(*bitWord).ToStr"}} {
		fn := fns[pr[0]]
		fa := w.FA(fn)
		bad := ""
		var mk *ssa.MakeSlice
		eachInstr(fn, func(ins ssa.Instruction) {
			if m, ok := ins.(*ssa.MakeSlice); ok {
				mk = m
			}
		})
		appendForm := false
		if mk != nil {
			if k, ok := constInt64(stripConv(mk.Len)); ok && k == 0 {
				appendForm = true // make(.., 0, n) filled by append: one entry per iteration, in iteration order
			}
		}
		if mk == nil || !appendForm && !fa.Lin(mk.Len).Eq(linAtom("call:builtin len(p1)")) {
			bad = "result does not have len(input) entries"
		}
		nst := 0
		if appendForm {
			eachInstr(fn, func(ins ssa.Instruction) {
				ac, ok := ins.(*ssa.Call)
				if !ok {
					return
				}
				vals := appendedValues(ac)
				if len(vals) == 0 {
					return
				}
				nst++
				call, ok := vals[0].(*ssa.Call)
				if len(vals) != 1 || !ok || call.Common().StaticCallee() != fns[pr[1]] || call.Common().Args[0] != ssa.Value(fn.Params[0]) {
					bad = "element is not converted with the receiver's own " + pr[1]
					return
				}
				role, ok, why := fullRangeElem(fa, call.Common().Args[1])
				if !ok || role != canonParam(fn.Params[1]) {
					bad = "conversion is not applied to every input element: " + why
					return
				}
				// appended on every iteration: nothing but the loop guard decides it
				_, idx, _ := asElemLoad(call.Common().Args[1])
				iv, okIV := fa.InductionOf(idx, ac.Block())
				for _, cd := range fa.Conds(ac.Block()) {
					if !okIV || cd.If.Block() != iv.Phi.Block() {
						bad = "an element is appended only on the branch at " + w.InstrPos(cd.If) + ": the result then has fewer entries than the input and the indexes shift"
					}
				}
				// and the list appended to is the result list
				base := ac.Common().Args[0]
				okBase := false
				for _, src := range resolvePhi(base) {
					if src == ssa.Value(mk) {
						okBase = true
					}
				}
				if !okBase {
					bad = "the converted element is not appended to the result list"
				}
			})
		}
		eachInstr(fn, func(ins ssa.Instruction) {
			st, ok := ins.(*ssa.Store)
			if !ok {
				return
			}
			ia, ok := st.Addr.(*ssa.IndexAddr)
			if !ok || mk == nil || ia.X != ssa.Value(mk) {
				return
			}
			nst++
			call, ok := st.Val.(*ssa.Call)
			if !ok || call.Common().StaticCallee() != fns[pr[1]] || call.Common().Args[0] != ssa.Value(fn.Params[0]) {
				bad = "element is not converted with the receiver's own " + pr[1]
				return
			}
			role, ok, why := fullRangeElem(fa, call.Common().Args[1])
			if !ok || role != canonParam(fn.Params[1]) {
				bad = "conversion is not applied to every input element: " + why
				return
			}
			_, idx, _ := asElemLoad(call.Common().Args[1])
			if !fa.Lin(idx).Eq(fa.Lin(ia.Index)) {
				bad = "result index differs from the input index"
			}
		})
		if nst != 1 && bad == "" {
			bad = "expected one store"
		}
		r.Check(bad == "", "R-ELEMWISE", pr[0], w.Pos(fn.Pos()), bad, "rst[i] = conv(in[i]) for all i")
	}
}

func init() {
	register(&Prop{
		ID: "C08", Level: "other",
		Explain: "Structural necessary conditions of the n-bit word codec (DESIGN.md 5/C08), strengthened beyond the table clause: BitWord[k] is built for width k and newBW derives byteCap/wordMask from that one width; Get's byte index, MSB-first shift and mask; FromStr's allocation, destination index and shift for every (i,j); ToStr's allocation, accumulate/pad structure and guard; FirstDiff's word counts, clamps, scan range and difference test; element-wise FromStrs/ToStrs; results fresh (E1).",
		NotDec:  []string{"that Get and FromStr agree numerically for every width (follows from the two decided formulas but the algebra is not machine-checked)", "behaviour for widths not dividing 8 (outside the property)"},
		Trusted: []string{"go/ssa construction", "go/types constant folding for the BitWord literal"},
		Quick:   []Config{cfgDefault, cfg386}, Thorough: []Config{cfgDefault, cfg386},
		Run: runC08,
	})
}

// wordExtractForm: v is the ith word of string str in bitword's layout - (str[(W*ith)>>3] >> (7 - ((W*ith+W-1)&7))) & wordMask
// (W the width field's atom). Returns "" or what is wrong. This is the body of Get; FirstDiff may spell it out.
func wordExtractForm(fa *FA, v ssa.Value, str ssa.Value, W Lin, ith Lin) string {
	bad := ""
	for once := true; once; once = false {
		a, b, ok := asBin(v, token.AND)
		if !ok {
			bad = "result is not (byte >> k) & wordMask"
			continue
		}
		var sh ssa.Value
		for _, s := range []ssa.Value{a, b} {
			if _, f, ok := asFieldLoad(s); ok && f == "wordMask" {
				continue
			}
			sh = s
		}
		if sh == nil || sh == a && func() bool { _, f, ok := asFieldLoad(b); return !ok || f != "wordMask" }() {
			bad = "result is not masked with wordMask"
			continue
		}
		by, amt, ok := asBin(sh, token.SHR)
		if !ok {
			bad = "result is not a shifted byte"
			continue
		}
		cont, idx, ok := asElemLoad(by)
		if !ok || cont != str {
			bad = "byte is not s[...]"
			continue
		}
		px, cc, ok := asShiftRight(idx)
		if !ok || cc != 3 || !isProductOf(fa, px, W, ith) {
			bad = "byte index is not (width*ith)>>3"
			continue
		}
		L := fa.Lin(amt)
		okA := L.K == 7 && len(L.T) == 1
		for atom, coef := range L.T {
			x, j, ok := asLowMask(fa.AtomValue(atom))
			if !ok || j != 3 || coef != -1 {
				okA = false
				continue
			}
			rest, ok := linProductPlus(fa, fa.Lin(x), W, ith)
			if !ok || !rest.Eq(W.Add(linConst(-1))) {
				okA = false
			}
		}
		if !okA {
			// the same amount counted from the other side: 8 - width - ((width*ith) & 7) (a word never crosses a
			// byte boundary because width divides 8, so (p+width-1)&7 = (p&7)+width-1)
			okB := L.K == 8 && len(L.T) == 2
			for atom, coef := range L.T {
				if coef != -1 {
					okB = false
					continue
				}
				if linAtom(atom).Eq(W) {
					continue
				}
				x, j, ok := asLowMask(fa.AtomValue(atom))
				if !ok || j != 3 {
					okB = false
					continue
				}
				if rest, ok := linProductPlus(fa, fa.Lin(x), W, ith); !ok || !rest.Eq(linConst(0)) {
					okB = false
				}
			}
			okA = okB
		}
		if !okA {
			bad = "shift amount is " + L.String() + ", expected 7 - ((width*ith + width - 1) & 7)"
		}
	}
	return bad
}

// toStrScatter: the store st into result byte ia of ToStr has the scatter form (see R-TOSTR). Returns "" when it does.
func toStrScatter(fa *FA, fn *ssa.Function, mk *ssa.MakeSlice, st *ssa.Store, ia *ssa.IndexAddr, W, M Lin, mv ssa.Value) string {
	bo, ok := stripConv(st.Val).(*ssa.BinOp)
	if !ok || (bo.Op != token.ADD && bo.Op != token.OR) {
		return "the stored value is not old | (word << k)"
	}
	var old, sh ssa.Value
	for _, side := range [2][2]ssa.Value{{bo.X, bo.Y}, {bo.Y, bo.X}} {
		if c, i, ok := asElemLoad(side[0]); ok && c == ssa.Value(mk) && fa.Lin(i).Eq(fa.Lin(ia.Index)) {
			old, sh = side[0], side[1]
		}
	}
	if old == nil {
		return "the byte is not updated from its own previous value"
	}
	// destination k / byteCap
	kq, d, ok := asBin(ia.Index, token.QUO)
	if !ok || fa.VN(stripConv(d)) != fa.VN(mv) {
		return "the destination is not byte k/byteCap"
	}
	wv, amt, ok := asBin(sh, token.SHL)
	if !ok {
		return "the word is not shifted to its place"
	}
	cont, ki, ok := asElemLoad(wv)
	if !ok || cont != ssa.Value(fn.Params[1]) || !fa.Lin(ki).Eq(fa.Lin(kq)) {
		return "the word added is not bs[k] for the k that selects the byte"
	}
	if _, okR, why := fullRangeElem(fa, wv); !okR {
		return "the pass over the words is not complete: " + why
	}
	// amount = 8 - width - width*(k % byteCap)
	L := fa.Lin(amt).Add(W)
	if L.K != 8 || len(L.T) != 1 {
		return "shift amount is " + fa.Lin(amt).String() + ", expected 8 - width*(k%byteCap) - width"
	}
	for atom, coef := range L.T {
		x, y, ok := asProduct(fa.AtomValue(atom))
		if !ok || coef != -1 {
			return "shift amount is " + fa.Lin(amt).String() + ", expected 8 - width*(k%byteCap) - width"
		}
		okP := false
		for _, pr := range [2][2]ssa.Value{{x, y}, {y, x}} {
			if !fa.Lin(pr[0]).Eq(W) {
				continue
			}
			if kr, dm, ok := asBin(pr[1], token.REM); ok && fa.VN(stripConv(dm)) == fa.VN(mv) && fa.Lin(kr).Eq(fa.Lin(kq)) {
				okP = true
			}
		}
		if !okP {
			return "shift amount is " + fa.Lin(amt).String() + ", expected 8 - width*(k%byteCap) - width"
		}
	}
	_ = M
	return ""
}

// fdScanEnded: on this alternative the counter v (step 1, bound N) has left the loop through its own bound test and the
// loop was entered with first <= N: v == N.
func fdScanEnded(fa *FA, iv *LoopIV, v ssa.Value, conds []Cond) bool {
	failed := false
	for _, cd := range conds {
		L, op, ok := fa.CondRel(cd)
		if !ok {
			continue
		}
		// L op 0 with L = v - N (or N - v)
		d := fa.Lin(v).Sub(iv.N)
		switch {
		case L.Eq(d) && (op == opGE || op == opEQ):
			failed = true
		case L.Eq(d.Neg()) && (op == opLE || op == opEQ):
			failed = true
		}
	}
	if !failed || iv.Phi == nil {
		return false
	}
	hb := iv.Phi.Block()
	for i, pred := range hb.Preds {
		if hb.Dominates(pred) {
			continue
		}
		cs := append(append([]Cond{}, fa.Conds(pred)...), selfCond(pred, hb)...)
		bd := fa.boundsFrom(cs, iv.N.Sub(fa.Lin(iv.Phi.Edges[i])))
		if !bd.HasLo || bd.Lo < 0 {
			return false
		}
	}
	return true
}

// tableBuilderForm: the package function `name` returns a fresh map into which it stores, for every element n of its
// one (variadic or slice) parameter and for nothing else, m[n] = newBW(n).
func tableBuilderForm(w *World, newBW *ssa.Function, name string) bool {
	if newBW == nil {
		return false
	}
	f := newBW.Pkg.Func(name)
	if f == nil || len(f.Params) != 1 || f.Blocks == nil {
		return false
	}
	fa := w.FA(f)
	var mk *ssa.MakeMap
	nup := 0
	ok := true
	eachInstr(f, func(ins ssa.Instruction) {
		switch x := ins.(type) {
		case *ssa.MakeMap:
			if mk != nil {
				ok = false
			}
			mk = x
		case *ssa.MapUpdate:
			nup++
			cont, idx, isLoad := asElemLoad(x.Key)
			if !isLoad || cont != ssa.Value(f.Params[0]) || x.Map != ssa.Value(mk) {
				ok = false
				return
			}
			iv, isIV := fa.InductionOf(idx, x.Block())
			if !isIV || !iv.FirstConst || iv.First != 0 || iv.Step != 1 || !iv.HasN || !iv.N.Eq(fa.lenOf(f.Params[0], 0)) || fa.earlyExit(iv) != "" {
				ok = false
				return
			}
			call, isCall := stripConv(x.Value).(*ssa.Call)
			if mi, isMI := x.Value.(*ssa.MakeInterface); isMI {
				call, isCall = mi.X.(*ssa.Call)
			}
			if !isCall || call.Common().StaticCallee() != newBW || len(call.Common().Args) != 1 || call.Common().Args[0] != x.Key {
				ok = false
			}
		case *ssa.Store, *ssa.Call:
			if c, isCall := ins.(*ssa.Call); isCall {
				if c.Common().StaticCallee() == newBW {
					return
				}
				if b, isB := c.Common().Value.(*ssa.Builtin); isB && b.Name() == "len" {
					return
				}
			}
			ok = false
		}
	})
	if !ok || mk == nil || nup != 1 {
		return false
	}
	for _, ret := range returnsOf(f) {
		if len(ret.Results) != 1 || ret.Results[0] != ssa.Value(mk) {
			return false
		}
	}
	return true
}
