package main

// Statement-level AST pre-inlining of same-package helpers (second stage after inline.go).
//
// A call f(a1..an) / recv.m(a1..an) to an unexported, non-recursive function or method of the same
// package that the rules are not anchored at is dissolved into its caller when it stands
//   - as the operand of a return statement with identical result types (tail form: the helper's
//     returns become the caller's returns),
//   - or as an operand evaluated once and unconditionally at the start of an assignment, expression
//     statement, return, if/switch header or var declaration (hoisted form: results go through
//     fresh variables, the helper's returns become assignments + goto).
// The package is re-type-checked afterwards; identifiers copied from the helper must still resolve
// to the same package-level objects. On any doubt nothing is rewritten at that call site, and if the
// re-check fails the loader falls back to the previous inlining level (load.go).

import (
	"fmt"
	"go/ast"
	"go/token"
	"go/types"
	"reflect"
)

// inlineKeep: functions the rules are anchored at by name (they are obligations' subjects, so they
// stay functions). Everything else that is unexported and simple enough is dissolved.
var inlineKeep = map[string]bool{
	"sigbits.countPrefixes": true, "sigbits.sFirstDiffBit": true, "sigbits.get64Bits": true,
	"bitmap.intFmt": true, "bitmap.intSize": true, "bitmap.initSelectLookup": true, "bitmap.select32single": true,
	"bitmap.indexSelectU64": true, "bitmap.selectU64Indexed": true, "bitmap.initMasks": true,
	"bmtree.bitmapSizeCheck": true, "bmtree.bitmapMustHaveLevel": true, "bmtree.shiftMulti": true, "bmtree.pathCheck": true,
	"bmtree.bitmapPathMustHaveEqualHeight": true,
	"size.stat":                            true, "size.sizeof": true,
	"bitword.newBW": true, "bitstr.cmpBytes": true,
	"pbcmpl.newHeader": true, "pbcmpl.marshal": true, "pbcmpl.verStr": true,
}

type stmtCand struct {
	decl    *ast.FuncDecl
	obj     *types.Func
	names   []string   // parameter names, receiver first when method
	ptypes  []ast.Expr // parameter type expressions (in the helper's file)
	pvars   []*types.Var
	rtypes  []ast.Expr
	file    *ast.File
	isMeth  bool
	nstmts  int
	hasCall map[*types.Func]bool
}

var inlUID int

// cloneAST deep-copies an AST subtree; identifiers go through hook (which may rename them).
func cloneAST(n ast.Node, hook func(orig, cp *ast.Ident)) ast.Node {
	var cl func(v reflect.Value) reflect.Value
	cl = func(v reflect.Value) reflect.Value {
		switch v.Kind() {
		case reflect.Interface:
			if v.IsNil() {
				return v
			}
			r := reflect.New(v.Type()).Elem()
			r.Set(cl(v.Elem()))
			return r
		case reflect.Ptr:
			if v.IsNil() {
				return v
			}
			switch x := v.Interface().(type) {
			case *ast.Object, *ast.Scope, *ast.CommentGroup:
				return reflect.Zero(v.Type())
			case *ast.Ident:
				cp := &ast.Ident{NamePos: x.NamePos, Name: x.Name}
				if hook != nil {
					hook(x, cp)
				}
				return reflect.ValueOf(cp)
			}
			if v.Elem().Kind() != reflect.Struct {
				return v
			}
			r := reflect.New(v.Elem().Type())
			for i := 0; i < v.Elem().NumField(); i++ {
				f := v.Elem().Field(i)
				if !r.Elem().Field(i).CanSet() {
					continue
				}
				r.Elem().Field(i).Set(cl(f))
			}
			return r
		case reflect.Slice:
			if v.IsNil() {
				return v
			}
			r := reflect.MakeSlice(v.Type(), v.Len(), v.Len())
			for i := 0; i < v.Len(); i++ {
				r.Index(i).Set(cl(v.Index(i)))
			}
			return r
		}
		return v
	}
	return cl(reflect.ValueOf(n)).Interface().(ast.Node)
}

func noPosIdent(name string) *ast.Ident { return &ast.Ident{Name: name} }

// stripPos sets every position inside a (cloned) type expression to NoPos so that variables declared
// with it are visible to identifiers at any position (go/types compares declaration and use positions).
func stripPos(n ast.Node) {
	ast.Inspect(n, func(m ast.Node) bool {
		if m == nil {
			return false
		}
		v := reflect.ValueOf(m)
		if v.Kind() != reflect.Ptr || v.Elem().Kind() != reflect.Struct {
			return true
		}
		for i := 0; i < v.Elem().NumField(); i++ {
			f := v.Elem().Field(i)
			if f.Type() == reflect.TypeOf(token.NoPos) && f.CanSet() {
				f.SetInt(0)
			}
		}
		return true
	})
}

func stmtCandidates(pkgName string, files []*ast.File, info *types.Info) map[*types.Func]*stmtCand {
	cands := map[*types.Func]*stmtCand{}
	for _, f := range files {
		for _, d := range f.Decls {
			fd, ok := d.(*ast.FuncDecl)
			if !ok || fd.Body == nil || fd.Type.TypeParams != nil || fd.Name.Name == "init" || fd.Name.Name == "main" {
				continue
			}
			obj, ok := info.Defs[fd.Name].(*types.Func)
			if !ok || obj.Exported() || inlineKeep[pkgName+"."+obj.Name()] {
				continue
			}
			sig := obj.Type().(*types.Signature)
			if sig.Variadic() {
				continue
			}
			c := &stmtCand{decl: fd, obj: obj, file: f, hasCall: map[*types.Func]bool{}}
			okc := true
			addParam := func(fl *ast.FieldList) {
				if fl == nil {
					return
				}
				for _, fld := range fl.List {
					if len(fld.Names) == 0 {
						okc = false
					}
					for _, nm := range fld.Names {
						if nm.Name == "_" {
							okc = false
						}
						v, _ := info.Defs[nm].(*types.Var)
						if v == nil {
							okc = false
						}
						c.names = append(c.names, nm.Name)
						c.ptypes = append(c.ptypes, fld.Type)
						c.pvars = append(c.pvars, v)
					}
				}
			}
			if fd.Recv != nil {
				c.isMeth = true
				addParam(fd.Recv)
			}
			addParam(fd.Type.Params)
			if fd.Type.Results != nil {
				for _, fld := range fd.Type.Results.List {
					if len(fld.Names) > 0 {
						okc = false // named results: the zero-value/naked-return semantics are not reproduced
					}
					c.rtypes = append(c.rtypes, fld.Type)
				}
			}
			ast.Inspect(fd.Body, func(n ast.Node) bool {
				switch x := n.(type) {
				case *ast.FuncLit, *ast.DeferStmt, *ast.GoStmt, *ast.SelectStmt:
					okc = false
				case *ast.Ident:
					if fo, ok := info.Uses[x].(*types.Func); ok {
						if fo == obj {
							okc = false // direct recursion
						}
						c.hasCall[fo] = true
					}
					if b, ok := info.Uses[x].(*types.Builtin); ok && b.Name() == "recover" {
						okc = false
					}
				case ast.Stmt:
					c.nstmts++
				}
				return okc
			})
			if okc && c.nstmts <= 60 {
				cands[obj] = c
			}
		}
	}
	return cands
}

// callIsCheap: conversions, builtins without effects and math/bits calls do not constrain hoisting order.
func callIsCheap(info *types.Info, call *ast.CallExpr) bool {
	if tv, ok := info.Types[call.Fun]; ok && tv.IsType() {
		return true
	}
	switch f := call.Fun.(type) {
	case *ast.Ident:
		if b, ok := info.Uses[f].(*types.Builtin); ok {
			switch b.Name() {
			case "len", "cap", "min", "max":
				return true
			}
		}
	case *ast.SelectorExpr:
		if fo, ok := info.Uses[f.Sel].(*types.Func); ok && fo.Pkg() != nil && fo.Pkg().Path() == "math/bits" {
			return true
		}
	}
	return false
}

func exprIsCheap(info *types.Info, e ast.Expr) bool {
	ok := true
	ast.Inspect(e, func(n ast.Node) bool {
		switch x := n.(type) {
		case *ast.CallExpr:
			if !callIsCheap(info, x) {
				ok = false
			}
		case *ast.UnaryExpr:
			if x.Op == token.ARROW {
				ok = false
			}
		case *ast.FuncLit:
			ok = false
		}
		return ok
	})
	return ok
}

type stmtInliner struct {
	pkgName string
	info    *types.Info
	cands   map[*types.Func]*stmtCand
	file    *ast.File
	checks  []hygCheck
	n       int
	curFunc *types.Func
	touched map[*types.Func]bool // bodies rewritten in this round: not cloned before the next re-check
}

type hygCheck struct {
	id   *ast.Ident
	name string
	pkg  *types.Package // nil: imported package name, name = import path
}

// candOf resolves a call to a candidate; returns the receiver expression for methods.
func (si *stmtInliner) candOf(call *ast.CallExpr) (*stmtCand, ast.Expr) {
	if call.Ellipsis.IsValid() {
		return nil, nil
	}
	switch f := call.Fun.(type) {
	case *ast.Ident:
		fo, _ := si.info.Uses[f].(*types.Func)
		c := si.cands[fo]
		if c == nil || c.isMeth || len(call.Args) != len(c.names) || fo == si.curFunc || si.touched[fo] {
			return nil, nil
		}
		return c, nil
	case *ast.SelectorExpr:
		sel := si.info.Selections[f]
		if sel == nil || sel.Kind() != types.MethodVal || len(sel.Index()) != 1 {
			return nil, nil
		}
		fo, _ := sel.Obj().(*types.Func)
		c := si.cands[fo]
		if c == nil || !c.isMeth || len(call.Args)+1 != len(c.names) || fo == si.curFunc || si.touched[fo] {
			return nil, nil
		}
		tv, ok := si.info.Types[f.X]
		if !ok || !types.Identical(tv.Type, c.pvars[0].Type()) {
			return nil, nil // implicit & or * on the receiver: not reproduced
		}
		return c, f.X
	}
	return nil, nil
}

// findSlot finds a candidate call evaluated once, unconditionally and before anything with effects in expression slot e.
func (si *stmtInliner) findSlot(e *ast.Expr) *ast.Expr {
	switch x := (*e).(type) {
	case *ast.CallExpr:
		if c, _ := si.candOf(x); c != nil {
			// the arguments are bound to fresh variables in order before the body, which is the order
			// the call itself evaluates them in: they need not be cheap
			return e
		}
		// any other call runs after its operands: a helper call among its arguments can be hoisted in front of the
		// statement when everything evaluated before it (the function expression, the other arguments) is cheap
		if tv, isT := si.info.Types[x.Fun]; callIsCheap(si.info, x) || (isT && !tv.IsType() && exprIsCheap(si.info, x.Fun) && !x.Ellipsis.IsValid()) {
			for i := range x.Args {
				if r := si.findSlot(&x.Args[i]); r != nil {
					for j := range x.Args {
						if j != i && !exprIsCheap(si.info, x.Args[j]) {
							return nil
						}
					}
					return r
				}
			}
		}
	case *ast.ParenExpr:
		return si.findSlot(&x.X)
	case *ast.UnaryExpr:
		if x.Op != token.AND && x.Op != token.ARROW {
			return si.findSlot(&x.X)
		}
	case *ast.BinaryExpr:
		if x.Op == token.LAND || x.Op == token.LOR {
			return si.findSlot(&x.X) // only the left operand is evaluated unconditionally
		}
		if r := si.findSlot(&x.X); r != nil {
			if exprIsCheap(si.info, x.Y) {
				return r
			}
			return nil
		}
		if r := si.findSlot(&x.Y); r != nil && exprIsCheap(si.info, x.X) {
			return r
		}
	}
	return nil
}

// importsAgree: every imported-package name used in the helper material means the same package in the caller's file.
func (si *stmtInliner) importsAgree(c *stmtCand) bool {
	if c.file == si.file {
		return true
	}
	fs := si.info.Scopes[si.file]
	if fs == nil {
		return false
	}
	ok := true
	chk := func(n ast.Node) {
		ast.Inspect(n, func(m ast.Node) bool {
			if id, isId := m.(*ast.Ident); isId {
				if pn, isPn := si.info.Uses[id].(*types.PkgName); isPn {
					o, _ := fs.Lookup(id.Name).(*types.PkgName)
					if o == nil || o.Imported().Path() != pn.Imported().Path() {
						ok = false
					}
				}
			}
			return ok
		})
	}
	chk(c.decl.Type)
	if c.decl.Recv != nil {
		chk(c.decl.Recv)
	}
	chk(c.decl.Body)
	return ok
}

// expand builds the statements replacing stmt (which contains call at *slot). tail: stmt is `return call`.
// bindCall clones the helper called by call: returns the candidate, the unique prefix, the statements that
// declare and bind the parameters (in argument order), the cloned body and a type-expression cloner.
func (si *stmtInliner) bindCall(call *ast.CallExpr) (c *stmtCand, uid string, inner []ast.Stmt, body *ast.BlockStmt, varDecl func(name string, t ast.Expr) ast.Stmt) {
	c, recv := si.candOf(call)
	if c == nil || !si.importsAgree(c) {
		return nil, "", nil, nil, nil
	}
	inlUID++
	uid = fmt.Sprintf("inl%d_", inlUID)
	args := call.Args
	if c.isMeth {
		args = append([]ast.Expr{recv}, call.Args...)
	}
	hook := func(orig, cp *ast.Ident) {
		o := si.info.Uses[orig]
		if o == nil {
			o = si.info.Defs[orig]
		}
		if v, ok := o.(*types.Var); ok {
			for i, pv := range c.pvars {
				if pv == v {
					cp.Name = uid + c.names[i]
					return
				}
			}
		}
		if o == nil {
			return
		}
		if _, ok := o.(*types.Label); ok {
			cp.Name = uid + cp.Name // labels are function-scoped: keep copies apart
			return
		}
		if pn, ok := o.(*types.PkgName); ok {
			si.checks = append(si.checks, hygCheck{cp, pn.Imported().Path(), nil})
			return
		}
		if o.Pkg() != nil && o.Parent() == o.Pkg().Scope() {
			si.checks = append(si.checks, hygCheck{cp, o.Name(), o.Pkg()})
		}
	}
	cloneType := func(t ast.Expr) ast.Expr {
		ct := cloneAST(t, hook).(ast.Expr)
		stripPos(ct)
		return ct
	}
	varDecl = func(name string, t ast.Expr) ast.Stmt {
		return &ast.DeclStmt{Decl: &ast.GenDecl{Tok: token.VAR, Specs: []ast.Spec{&ast.ValueSpec{Names: []*ast.Ident{noPosIdent(name)}, Type: cloneType(t)}}}}
	}
	for i, nm := range c.names {
		inner = append(inner, varDecl(uid+nm, c.ptypes[i]))
	}
	for i, nm := range c.names {
		inner = append(inner, &ast.AssignStmt{Lhs: []ast.Expr{noPosIdent(uid + nm)}, Tok: token.ASSIGN, Rhs: []ast.Expr{args[i]}})
		inner = append(inner, &ast.AssignStmt{Lhs: []ast.Expr{noPosIdent("_")}, Tok: token.ASSIGN, Rhs: []ast.Expr{noPosIdent(uid + nm)}})
	}
	body = cloneAST(c.decl.Body, hook).(*ast.BlockStmt)
	return c, uid, inner, body, varDecl
}

// rewriteReturns replaces every return statement of a cloned helper body by f(results, last); last says that the
// return is the final statement of the body (control would fall out of the block anyway).
func rewriteReturns(body *ast.BlockStmt, f func(results []ast.Expr, last bool) ast.Stmt) {
	var rewriteList func(list []ast.Stmt, last bool) []ast.Stmt
	var rewriteStmt func(s ast.Stmt, last bool) ast.Stmt
	rewriteStmt = func(s ast.Stmt, last bool) ast.Stmt {
		switch x := s.(type) {
		case *ast.ReturnStmt:
			return f(x.Results, last)
		case *ast.BlockStmt:
			x.List = rewriteList(x.List, last)
		case *ast.IfStmt:
			x.Body.List = rewriteList(x.Body.List, last)
			if x.Else != nil {
				x.Else = rewriteStmt(x.Else, last)
			}
		case *ast.ForStmt:
			x.Body.List = rewriteList(x.Body.List, false)
		case *ast.RangeStmt:
			x.Body.List = rewriteList(x.Body.List, false)
		case *ast.SwitchStmt:
			for _, cc := range x.Body.List {
				cl := cc.(*ast.CaseClause)
				cl.Body = rewriteList(cl.Body, false)
			}
		case *ast.TypeSwitchStmt:
			for _, cc := range x.Body.List {
				cl := cc.(*ast.CaseClause)
				cl.Body = rewriteList(cl.Body, false)
			}
		case *ast.LabeledStmt:
			x.Stmt = rewriteStmt(x.Stmt, last)
		}
		return s
	}
	rewriteList = func(list []ast.Stmt, last bool) []ast.Stmt {
		for i, s := range list {
			list[i] = rewriteStmt(s, last && i == len(list)-1)
		}
		return list
	}
	body.List = rewriteList(body.List, true)
}

// splitAnd flattens a && b && c (parentheses removed) into its conjuncts, in evaluation order.
func splitAnd(e ast.Expr) []ast.Expr {
	for {
		p, ok := e.(*ast.ParenExpr)
		if !ok {
			break
		}
		e = p.X
	}
	if b, ok := e.(*ast.BinaryExpr); ok && b.Op == token.LAND {
		return append(splitAnd(b.X), splitAnd(b.Y)...)
	}
	return []ast.Expr{e}
}

// predCall: e is [!]f(...) with f a dissolvable helper that returns exactly one boolean.
func (si *stmtInliner) predCall(e ast.Expr) (*ast.CallExpr, bool) {
	neg := false
	for {
		switch x := e.(type) {
		case *ast.ParenExpr:
			e = x.X
			continue
		case *ast.UnaryExpr:
			if x.Op == token.NOT {
				e, neg = x.X, !neg
				continue
			}
		}
		break
	}
	call, ok := e.(*ast.CallExpr)
	if !ok {
		return nil, false
	}
	c, _ := si.candOf(call)
	if c == nil || len(c.rtypes) != 1 {
		return nil, false
	}
	rt := c.obj.Type().(*types.Signature).Results().At(0).Type()
	if b, ok := rt.Underlying().(*types.Basic); !ok || b.Info()&types.IsBoolean == 0 {
		return nil, false
	}
	return call, neg
}

// expandIf dissolves boolean helpers that stand as conjuncts of an if condition by threading their returns to
// the branches (`return E` becomes `if E { goto next }; goto else`), so that the branch a rule looks at is
// still controlled directly by the comparisons the helper makes, not by a merged boolean.
//
//	if c1 && f(a) && c3 { A } else { B }
//
// becomes
//
//	if !(c1) { goto F }; { params := a; body(f) with threaded returns }; N: if !(c3) { goto F }; { A }; goto E; F: { B }; E: ;
func (si *stmtInliner) expandIf(is *ast.IfStmt) []ast.Stmt {
	if is.Init != nil {
		return nil
	}
	conj := splitAnd(is.Cond)
	any := false
	for _, cj := range conj {
		if call, _ := si.predCall(cj); call != nil {
			any = true
		}
	}
	if !any {
		return nil
	}
	if is.Else != nil {
		if _, ok := is.Else.(*ast.BlockStmt); !ok {
			return nil // else-if chains stay as they are
		}
	}
	inlUID++
	base := fmt.Sprintf("inl%d_", inlUID)
	lblF, lblE := base+"else", base+"endif"
	usedF := 0
	gotoS := func(l string) ast.Stmt { return &ast.BranchStmt{Tok: token.GOTO, Label: noPosIdent(l)} }
	// the cloned body carries no type information: `true`/`false` are read by name, which is safe when neither
	// the package nor the helper declares such a name (checked on the original declaration)
	shadowed := func(c *stmtCand) bool {
		if c.obj.Pkg().Scope().Lookup("true") != nil || c.obj.Pkg().Scope().Lookup("false") != nil {
			return true
		}
		sh := false
		ast.Inspect(c.decl, func(n ast.Node) bool {
			if id, ok := n.(*ast.Ident); ok && (id.Name == "true" || id.Name == "false") && si.info.Defs[id] != nil {
				sh = true
			}
			return !sh
		})
		return sh
	}
	isLit := func(e ast.Expr, name string) bool {
		for {
			p, ok := e.(*ast.ParenExpr)
			if !ok {
				break
			}
			e = p.X
		}
		id, ok := e.(*ast.Ident)
		return ok && id.Name == name
	}
	var out []ast.Stmt
	n0 := si.n
	for i, cj := range conj {
		call, neg := si.predCall(cj)
		if call == nil {
			usedF++
			out = append(out, &ast.IfStmt{Cond: &ast.UnaryExpr{Op: token.NOT, X: &ast.ParenExpr{X: cj}}, Body: &ast.BlockStmt{List: []ast.Stmt{gotoS(lblF)}}})
			continue
		}
		c, _, inner, body, _ := si.bindCall(call)
		if c == nil {
			si.n = n0
			return nil
		}
		lblN := fmt.Sprintf("%snext%d", base, i)
		usedN := 0
		rewriteReturns(body, func(res []ast.Expr, last bool) ast.Stmt {
			if len(res) != 1 {
				return &ast.ReturnStmt{} // cannot happen for a one-result function; fails the re-check
			}
			e := res[0]
			tr, fl := false, false
			if !shadowed(c) {
				tr, fl = isLit(e, "true"), isLit(e, "false")
			}
			if neg {
				tr, fl = fl, tr
			}
			switch {
			case tr:
				usedN++
				return gotoS(lblN)
			case fl:
				usedF++
				return gotoS(lblF)
			}
			usedN++
			usedF++
			t, f := lblN, lblF
			if neg {
				t, f = f, t
			}
			return &ast.BlockStmt{List: []ast.Stmt{
				&ast.IfStmt{Cond: e, Body: &ast.BlockStmt{List: []ast.Stmt{gotoS(t)}}},
				gotoS(f)}}
		})
		inner = append(inner, body.List...)
		out = append(out, &ast.BlockStmt{List: inner})
		if usedN > 0 {
			out = append(out, &ast.LabeledStmt{Label: noPosIdent(lblN), Stmt: &ast.EmptyStmt{}})
		}
		si.n++
	}
	out = append(out, is.Body)
	if is.Else != nil {
		out = append(out, gotoS(lblE))
		var els ast.Stmt = is.Else
		if usedF > 0 {
			els = &ast.LabeledStmt{Label: noPosIdent(lblF), Stmt: is.Else}
		}
		out = append(out, els, &ast.LabeledStmt{Label: noPosIdent(lblE), Stmt: &ast.EmptyStmt{}})
	} else if usedF > 0 {
		out = append(out, &ast.LabeledStmt{Label: noPosIdent(lblF), Stmt: &ast.EmptyStmt{}})
	}
	// labels are function scoped but a goto may not jump over a variable declaration of its own block:
	// everything goes into one block that declares nothing at its top level
	return []ast.Stmt{&ast.BlockStmt{List: out}}
}

func (si *stmtInliner) expand(stmt ast.Stmt, slot *ast.Expr, tail bool) []ast.Stmt {
	call := (*slot).(*ast.CallExpr)
	c, uid, inner, body, varDecl := si.bindCall(call)
	if c == nil {
		return nil
	}
	label := uid + "end"
	usedGoto := false
	var out []ast.Stmt
	if !tail {
		var rnames []ast.Expr
		for i := range c.rtypes {
			out = append(out, varDecl(fmt.Sprintf("%sr%d", uid, i), c.rtypes[i]))
			rnames = append(rnames, noPosIdent(fmt.Sprintf("%sr%d", uid, i)))
		}
		// returns -> assignments (+ goto unless it is the last statement of the body)
		var rewriteList func(list []ast.Stmt, last bool) []ast.Stmt
		var rewriteStmt func(s ast.Stmt, last bool) ast.Stmt
		rewriteStmt = func(s ast.Stmt, last bool) ast.Stmt {
			switch x := s.(type) {
			case *ast.ReturnStmt:
				var ss []ast.Stmt
				if len(x.Results) > 0 {
					var lhs []ast.Expr
					for i := range c.rtypes {
						lhs = append(lhs, noPosIdent(fmt.Sprintf("%sr%d", uid, i)))
					}
					ss = append(ss, &ast.AssignStmt{Lhs: lhs, Tok: token.ASSIGN, Rhs: x.Results})
				}
				if !last {
					usedGoto = true
					ss = append(ss, &ast.BranchStmt{Tok: token.GOTO, Label: noPosIdent(label)})
				}
				return &ast.BlockStmt{List: ss}
			case *ast.BlockStmt:
				x.List = rewriteList(x.List, last)
			case *ast.IfStmt:
				x.Body.List = rewriteList(x.Body.List, last)
				if x.Else != nil {
					x.Else = rewriteStmt(x.Else, last)
				}
			case *ast.ForStmt:
				x.Body.List = rewriteList(x.Body.List, false)
			case *ast.RangeStmt:
				x.Body.List = rewriteList(x.Body.List, false)
			case *ast.SwitchStmt:
				for _, cc := range x.Body.List {
					cl := cc.(*ast.CaseClause)
					cl.Body = rewriteList(cl.Body, false)
				}
			case *ast.TypeSwitchStmt:
				for _, cc := range x.Body.List {
					cl := cc.(*ast.CaseClause)
					cl.Body = rewriteList(cl.Body, false)
				}
			}
			return s
		}
		rewriteList = func(list []ast.Stmt, last bool) []ast.Stmt {
			for i, s := range list {
				list[i] = rewriteStmt(s, last && i == len(list)-1)
			}
			return list
		}
		body.List = rewriteList(body.List, true)
		_ = rnames
	}
	inner = append(inner, body.List...)
	out = append(out, &ast.BlockStmt{List: inner})
	if tail {
		si.n++
		return out
	}
	// the original statement with the call replaced by the result variable(s)
	switch len(c.rtypes) {
	case 0:
		// expression statement: nothing remains
		if _, ok := stmt.(*ast.ExprStmt); !ok {
			return nil
		}
		stmt = &ast.EmptyStmt{Implicit: false}
	case 1:
		if es, ok := stmt.(*ast.ExprStmt); ok && es.X == ast.Expr(call) {
			stmt = &ast.AssignStmt{Lhs: []ast.Expr{noPosIdent("_")}, Tok: token.ASSIGN, Rhs: []ast.Expr{noPosIdent(uid + "r0")}}
		} else {
			*slot = noPosIdent(uid + "r0")
		}
	default:
		as, ok := stmt.(*ast.AssignStmt)
		if !ok || len(as.Rhs) != 1 || as.Rhs[0] != ast.Expr(call) || len(as.Lhs) != len(c.rtypes) {
			return nil
		}
		var rhs []ast.Expr
		for i := range c.rtypes {
			rhs = append(rhs, noPosIdent(fmt.Sprintf("%sr%d", uid, i)))
		}
		as.Rhs = rhs
	}
	if usedGoto {
		out = append(out, &ast.LabeledStmt{Label: noPosIdent(label), Stmt: stmt})
	} else if _, isEmpty := stmt.(*ast.EmptyStmt); !isEmpty {
		out = append(out, stmt)
	}
	si.n++
	return out
}

// slotsOf: the expression slots of s evaluated once when s starts.
func slotsOf(s ast.Stmt) []*ast.Expr {
	var out []*ast.Expr
	switch x := s.(type) {
	case *ast.ExprStmt:
		out = append(out, &x.X)
	case *ast.AssignStmt:
		if len(x.Rhs) == 1 {
			cheapL := true
			for _, l := range x.Lhs {
				for {
					if se, ok := l.(*ast.SelectorExpr); ok {
						l = se.X
						continue
					}
					break
				}
				if _, ok := l.(*ast.Ident); !ok {
					cheapL = false
				}
			}
			if cheapL || x.Tok == token.DEFINE {
				out = append(out, &x.Rhs[0])
			}
		}
	case *ast.ReturnStmt:
		for i := range x.Results {
			out = append(out, &x.Results[i])
		}
	case *ast.IfStmt:
		if x.Init == nil {
			out = append(out, &x.Cond)
		}
	case *ast.SwitchStmt:
		if x.Init == nil && x.Tag != nil {
			out = append(out, &x.Tag)
		}
	case *ast.DeclStmt:
		if gd, ok := x.Decl.(*ast.GenDecl); ok && gd.Tok == token.VAR && len(gd.Specs) == 1 {
			if vs, ok := gd.Specs[0].(*ast.ValueSpec); ok && len(vs.Values) == 1 {
				out = append(out, &vs.Values[0])
			}
		}
	}
	return out
}

// processFuncLits dissolves helper calls inside the bodies of the function literals that occur in the expressions of s
// (not in its nested statements, which processNested visits): a closure's returns are its own, so its body is a
// statement list with the literal's result types.
func (si *stmtInliner) processFuncLits(s ast.Stmt) {
	var exprs []ast.Expr
	switch x := s.(type) {
	case *ast.ExprStmt:
		exprs = append(exprs, x.X)
	case *ast.AssignStmt:
		exprs = append(exprs, x.Rhs...)
	case *ast.ReturnStmt:
		exprs = append(exprs, x.Results...)
	case *ast.DeclStmt:
		if gd, ok := x.Decl.(*ast.GenDecl); ok {
			for _, sp := range gd.Specs {
				if vs, ok := sp.(*ast.ValueSpec); ok {
					exprs = append(exprs, vs.Values...)
				}
			}
		}
	case *ast.DeferStmt:
		exprs = append(exprs, x.Call)
	case *ast.GoStmt:
		exprs = append(exprs, x.Call)
	}
	for _, e := range exprs {
		ast.Inspect(e, func(n ast.Node) bool {
			fl, ok := n.(*ast.FuncLit)
			if !ok {
				return true
			}
			var res *types.Tuple
			haveSig := false
			if tv, ok := si.info.Types[fl]; ok {
				if sig, ok := tv.Type.(*types.Signature); ok {
					res, haveSig = sig.Results(), true
				}
			}
			named := false
			if fl.Type.Results != nil {
				for _, f := range fl.Type.Results.List {
					if len(f.Names) > 0 {
						named = true
					}
				}
			}
			if haveSig && !named {
				fl.Body.List = si.processList(fl.Body.List, res)
			}
			return false
		})
	}
}

func (si *stmtInliner) processList(list []ast.Stmt, results *types.Tuple) []ast.Stmt {
	var out []ast.Stmt
	for _, s := range list {
		si.processFuncLits(s)
		// `if v := f(x); cond {` -> `{ v := f(x); if cond { } }`
		if is, ok := s.(*ast.IfStmt); ok && is.Init != nil {
			found := false
			for _, sl := range slotsOf(is.Init) {
				if si.findSlot(sl) != nil {
					found = true
				}
			}
			if found {
				init := is.Init
				is.Init = nil
				blk := &ast.BlockStmt{Lbrace: is.Pos(), List: []ast.Stmt{init, is}, Rbrace: is.End()}
				s = blk
			}
		}
		si.processNested(s, results)
		if is, ok := s.(*ast.IfStmt); ok {
			if ex := si.expandIf(is); ex != nil {
				out = append(out, ex...)
				si.touched[si.curFunc] = true
				continue
			}
		}
		replaced := false
		slots := slotsOf(s)
		for k, sl := range slots {
			slot := si.findSlot(sl)
			if slot == nil {
				continue
			}
			othersCheap := true
			for k2, sl2 := range slots {
				if k2 != k && !exprIsCheap(si.info, *sl2) {
					othersCheap = false
				}
			}
			if !othersCheap {
				break
			}
			tail := false
			if rs, ok := s.(*ast.ReturnStmt); ok && len(rs.Results) == 1 && slot == &rs.Results[0] {
				if _, isCall := rs.Results[0].(*ast.CallExpr); isCall {
					c, _ := si.candOf(rs.Results[0].(*ast.CallExpr))
					rt := c.obj.Type().(*types.Signature).Results()
					if results != nil && rt.Len() == results.Len() {
						tail = true
						for i := 0; i < rt.Len(); i++ {
							if !types.Identical(rt.At(i).Type(), results.At(i).Type()) {
								tail = false
							}
						}
					}
					if !tail && rt.Len() != 1 {
						break
					}
				}
			}
			if ex := si.expand(s, slot, tail); ex != nil {
				out = append(out, ex...)
				replaced = true
				si.touched[si.curFunc] = true
			}
			break
		}
		if !replaced {
			out = append(out, s)
		}
	}
	return out
}

func (si *stmtInliner) processNested(s ast.Stmt, results *types.Tuple) {
	switch x := s.(type) {
	case *ast.BlockStmt:
		x.List = si.processList(x.List, results)
	case *ast.IfStmt:
		x.Body.List = si.processList(x.Body.List, results)
		switch e := x.Else.(type) {
		case *ast.BlockStmt:
			e.List = si.processList(e.List, results)
		case *ast.IfStmt:
			si.processNested(e, results)
		}
	case *ast.ForStmt:
		x.Body.List = si.processList(x.Body.List, results)
	case *ast.RangeStmt:
		x.Body.List = si.processList(x.Body.List, results)
	case *ast.SwitchStmt:
		for _, cc := range x.Body.List {
			cl := cc.(*ast.CaseClause)
			cl.Body = si.processList(cl.Body, results)
		}
	case *ast.TypeSwitchStmt:
		for _, cc := range x.Body.List {
			cl := cc.(*ast.CaseClause)
			cl.Body = si.processList(cl.Body, results)
		}
	case *ast.LabeledStmt:
		si.processNested(x.Stmt, results)
	}
}

// inlineStmtRound performs one round over all function bodies of the package; returns the number of calls dissolved and the hygiene checks.
func inlineStmtRound(pkgName string, files []*ast.File, info *types.Info) (int, []hygCheck) {
	cands := stmtCandidates(pkgName, files, info)
	if len(cands) == 0 {
		return 0, nil
	}
	si := &stmtInliner{pkgName: pkgName, info: info, cands: cands, touched: map[*types.Func]bool{}}
	for _, f := range files {
		si.file = f
		for _, d := range f.Decls {
			fd, ok := d.(*ast.FuncDecl)
			if !ok || fd.Body == nil {
				continue
			}
			obj, _ := info.Defs[fd.Name].(*types.Func)
			if obj == nil {
				continue
			}
			si.curFunc = obj
			// function literals inside are left alone (their returns are their own)
			fd.Body.List = si.processList(fd.Body.List, obj.Type().(*types.Signature).Results())
		}
	}
	return si.n, si.checks
}
