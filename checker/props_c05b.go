package main

// C05, second part: necessary conditions of the two arithmetic stages of IndexToPath (the bit-by-bit descent and the
// common-prefix shortcut). The stages themselves are arithmetic (declared not decided); what is decided here is
//
//   R-ROWINDEX  the remaining index that finally selects the table entry cannot be negative (a negative row index
//               is an out-of-range panic, for whatever input produces it);
//   R-PREFIX    the three places of the shortcut that speak about the same number of bits agree with each other, and
//               the number of low bits left open is, on every path, at least the length of (index-W) ^ index, W >= h.

import (
	"fmt"
	"go/ast"
	"go/constant"
	"go/token"
	"sort"
	"strings"

	"golang.org/x/tools/go/ssa"
)

// subBitsOf: v is (a subset of the bits of root) << off, plus bits strictly below off. For off == 0 and root >= 0
// this means 0 <= v <= root.
func subBitsOf(v ssa.Value, depth int) (root ssa.Value, off int64, ok bool) {
	if v == nil || depth > 12 {
		return nil, 0, false
	}
	switch x := v.(type) {
	case *ssa.Convert:
		if !isIntType(x.X.Type()) || !isIntType(x.Type()) {
			return nil, 0, false
		}
		if r, o, ok := subBitsOf(x.X, depth+1); ok {
			return r, o, true // widening a non-negative value, or truncating: still a subset of the bits
		}
		return x.X, 0, true
	case *ssa.BinOp:
		switch x.Op {
		case token.SHL:
			if k, isK := constInt64(stripConv(x.Y)); isK && k >= 0 && k < 64 {
				if r, o, ok := subBitsOf(x.X, depth+1); ok {
					return r, o + k, true
				}
			}
		case token.SHR:
			if k, isK := constInt64(stripConv(x.Y)); isK && k >= 0 && k < 64 {
				if r, o, ok := subBitsOf(x.X, depth+1); ok {
					if k >= o {
						return r, 0, true
					}
					return r, o - k, true
				}
			}
		case token.OR:
			for _, side := range [2][2]ssa.Value{{x.X, x.Y}, {x.Y, x.X}} {
				c, isK := constUint64(stripConv(side[1]))
				if !isK {
					continue
				}
				if r, o, ok := subBitsOf(side[0], depth+1); ok && o > 0 && o < 64 && c>>uint(o) == 0 {
					return r, o, true
				}
			}
		case token.AND:
			for _, side := range [2]ssa.Value{x.X, x.Y} {
				if r, o, ok := subBitsOf(side, depth+1); ok {
					return r, o, true
				}
			}
			return nil, 0, false
		}
	}
	return nil, 0, false
}

// containsOnesCount: the expression (sums, differences, conversions) has a math/bits.OnesCount term.
func containsOnesCount(v ssa.Value, depth int) bool {
	if v == nil || depth > 8 {
		return false
	}
	switch x := v.(type) {
	case *ssa.Convert:
		return containsOnesCount(x.X, depth+1)
	case *ssa.BinOp:
		if x.Op == token.ADD || x.Op == token.SUB {
			return containsOnesCount(x.X, depth+1) || containsOnesCount(x.Y, depth+1)
		}
	case *ssa.Call:
		return strings.HasPrefix(calleeName(x.Common()), "math/bits.OnesCount")
	}
	return false
}

type rowIdxProof struct {
	w        *World
	fa       *FA
	fn       *ssa.Function
	idxParam ssa.Value
	inProg   map[*ssa.Phi]bool
	done     map[ssa.Value]bool
	belief   []ssa.Value // popcount-corrected remainders (the prefix shortcut's rank0 argument)
	steps    int
	calls    int
	bad      string
}

// nonNeg: v >= 0 whenever it is computed (blk: the block on whose entry conditions a non-instruction value is judged).
func (p *rowIdxProof) nonNeg(v ssa.Value, blk *ssa.BasicBlock, depth int) bool {
	if v == nil || depth > 30 {
		return false
	}
	if p.done[v] {
		return true
	}
	ok := p.nonNeg1(v, blk, depth)
	if ok {
		p.done[v] = true
	}
	return ok
}

func (p *rowIdxProof) fail(v ssa.Value, why string) bool {
	if p.bad == "" {
		pos := ""
		if ins, ok := v.(ssa.Instruction); ok {
			pos = p.w.InstrPos(ins)
		} else {
			pos = p.w.Pos(v.Pos())
		}
		p.bad = fmt.Sprintf("the remaining index computed at %s %s", pos, why)
	}
	return false
}

func (p *rowIdxProof) nonNeg1(v ssa.Value, blk *ssa.BasicBlock, depth int) bool {
	p.steps++
	if k, ok := constInt64(v); ok {
		if k >= 0 {
			return true
		}
		return p.fail(v, "is the negative constant "+fmt.Sprint(k))
	}
	if v == p.idxParam {
		return true // the domain: 0 <= index < number of nodes
	}
	if ins, ok := v.(ssa.Instruction); ok && ins.Block() != nil {
		blk = ins.Block()
	}
	switch x := v.(type) {
	case *ssa.Phi:
		if p.inProg[x] {
			return true
		}
		p.inProg[x] = true
		defer delete(p.inProg, x)
		for i, e := range x.Edges {
			if e == ssa.Value(x) {
				continue
			}
			if !p.nonNeg(e, x.Block().Preds[i], depth+1) {
				return false
			}
		}
		return true
	case *ssa.Convert:
		if isIntType(x.X.Type()) && isIntType(x.Type()) {
			if r, off, ok := subBitsOf(x, 0); ok && off == 0 && r != x.X {
				return p.nonNeg(r, blk, depth+1)
			}
			// a plain conversion keeps a non-negative value non-negative unless it narrows it (or reinterprets the top bit)
			if intWidth(x.Type()) > intWidth(x.X.Type()) || intWidth(x.Type()) == intWidth(x.X.Type()) && !isUnsigned(x.X.Type()) {
				return p.nonNeg(x.X, blk, depth+1)
			}
			if smallBounded(x.X, 0) {
				return p.nonNeg(x.X, blk, depth+1)
			}
		}
	case *ssa.Extract:
		if call, ok := x.Tuple.(*ssa.Call); ok && p.tupleResultNonNeg(call, x.Index, depth) {
			return true
		}
	case *ssa.Call:
		if bitsCountWidth(calleeName(x.Common())) > 0 {
			return true
		}
		if x.Common().StaticCallee() != nil && p.tupleResultNonNeg(x, 0, depth) {
			return true
		}
		if b, ok := x.Common().Value.(*ssa.Builtin); ok && (b.Name() == "len" || b.Name() == "cap") {
			return true
		}
	}
	// proven by the conditions that dominate the computation
	if blk != nil {
		if bd := p.fa.BoundsAt(blk, p.fa.Lin(v)); bd.HasLo && bd.Lo >= 0 {
			return true
		}
	}
	if bo, ok := v.(*ssa.BinOp); ok {
		switch bo.Op {
		case token.ADD:
			if p.nonNeg(bo.X, blk, depth+1) && p.nonNeg(bo.Y, blk, depth+1) {
				return true
			}
		case token.AND:
			if p.nonNeg(bo.X, blk, depth+1) || p.nonNeg(bo.Y, blk, depth+1) {
				return true
			}
		case token.SHR, token.QUO, token.REM:
			return p.nonNeg(bo.X, blk, depth+1)
		case token.SUB:
			if p.subOK(bo.X, bo.Y, blk, depth+1) {
				return true
			}
		}
		if (bo.Op == token.ADD || bo.Op == token.SUB) && containsOnesCount(bo, 0) {
			// the remainder after the prefix shortcut: index&^m - fixed + popcount(index&m) >= 0 by the rank0 argument in
			// the function's comment (index - width <= 2*path <= index). Confirmed by reading; R-PREFIX checks its parts.
			p.belief = append(p.belief, v)
			return true
		}
		if bo.Op == token.SUB {
			return p.fail(v, "subtracts an amount that no dominating test bounds by the index itself (accepted: index-c under index >= c, index minus some of its own bits, the popcount-corrected remainder of the prefix shortcut): for the inputs where the amount is larger the table is read at a negative position and the call panics")
		}
	}
	return p.fail(v, "is not provably non-negative")
}

// subOK: x - y >= 0 in blk. y may be a merge of alternatives (step = bit; if step == 0 { step = 1 }), each judged alone.
func (p *rowIdxProof) subOK(x, y ssa.Value, blk *ssa.BasicBlock, depth int) bool {
	if depth > 30 {
		return false
	}
	// x - (some of the bits of x), x >= 0
	if r, off, ok := subBitsOf(y, 0); ok && off == 0 && p.fa.VN(stripConv(r)) == p.fa.VN(stripConv(x)) {
		return p.nonNeg(x, blk, depth+1)
	}
	if blk != nil {
		if bd := p.fa.BoundsAt(blk, p.fa.Lin(x).Sub(p.fa.Lin(y))); bd.HasLo && bd.Lo >= 0 {
			return true
		}
	}
	if ph, ok := stripConv(y).(*ssa.Phi); ok && !isLoopHeaderPhi(ph) {
		for _, e := range ph.Edges {
			if !p.subOK(x, e, blk, depth+1) {
				return false
			}
		}
		return true
	}
	return false
}

// tupleResultNonNeg: result k of a call of a function of this module is non-negative when every return of the callee
// yields a non-negative value there, its parameters standing for the call's arguments (the index parameter for an
// argument already shown non-negative).
func (p *rowIdxProof) tupleResultNonNeg(call *ssa.Call, k int, depth int) bool {
	callee := call.Common().StaticCallee()
	if callee == nil || callee.Blocks == nil || !p.w.InModule(callee) || depth > 20 || p.calls > 3 {
		return false
	}
	var idx ssa.Value
	for i, a := range call.Common().Args {
		if i < len(callee.Params) && isIntType(a.Type()) && !isUnsigned(a.Type()) && intWidth(a.Type()) == 32 {
			if p.fa.VN(stripConv(a)) == p.fa.VN(p.idxParam) || p.nonNegQuiet(a, call.Block(), depth+1) {
				if p.fa.VN(stripConv(a)) == p.fa.VN(p.idxParam) {
					idx = callee.Params[i]
				} else if idx == nil {
					idx = callee.Params[i]
				}
			}
		}
	}
	if idx == nil {
		return false
	}
	q := &rowIdxProof{w: p.w, fa: p.w.FA(callee), fn: callee, idxParam: idx, inProg: map[*ssa.Phi]bool{}, done: map[ssa.Value]bool{}, calls: p.calls + 1}
	for _, ret := range returnsOf(callee) {
		if k >= len(ret.Results) {
			return false
		}
		if !q.nonNeg(ret.Results[k], ret.Block(), 0) {
			if p.bad == "" {
				p.bad = q.bad
			}
			return false
		}
	}
	p.belief = append(p.belief, q.belief...)
	p.steps += q.steps
	return true
}

// nonNegQuiet: nonNeg without recording a failure reason.
func (p *rowIdxProof) nonNegQuiet(v ssa.Value, blk *ssa.BasicBlock, depth int) bool {
	saved := p.bad
	ok := p.nonNeg(v, blk, depth)
	p.bad = saved
	return ok
}

func reportRowIndex(w *World, r *Report, fn *ssa.Function, rowIdx ssa.Value) {
	r.Rule("R-ROWINDEX", "the remaining index with which IndexToPath finally reads the table row is never negative: every value that can reach it is the index parameter (the domain), a remaining index decreased by an amount the dominating tests bound by it (index-- under index > 0) or by some of its own bits (index - (index<<32|fill)&mask>>32), or the popcount-corrected remainder of the prefix shortcut (one site, confirmed by reading: the rank0 argument). A new stage that subtracts without such a bound (entering a subtree directly and forgetting the nodes above it) panics exactly on the inputs it forgot")
	if rowIdx == nil {
		r.Check(false, "R-ROWINDEX", "bmtree.IndexToPath", w.Pos(fn.Pos()), "no table row read found", "")
		return
	}
	if len(fn.Params) < 2 {
		r.Check(false, "R-ROWINDEX", "bmtree.IndexToPath", w.Pos(fn.Pos()), "IndexToPath has no index parameter", "")
		return
	}
	p := &rowIdxProof{w: w, fa: w.FA(fn), fn: fn, idxParam: fn.Params[1], inProg: map[*ssa.Phi]bool{}, done: map[ssa.Value]bool{}}
	ok := p.nonNeg(rowIdx, nil, 0)
	if ok && len(p.belief) > 1 {
		ok = false
		p.bad = fmt.Sprintf("%d popcount-corrected remainders feed the row index; one (the prefix shortcut) was confirmed", len(p.belief))
	}
	r.Check(ok, "R-ROWINDEX", "bmtree.IndexToPath", w.Pos(fn.Pos()), p.bad, fmt.Sprintf("%d values reach the row index, each non-negative (%d popcount-corrected remainder)", len(p.done), len(p.belief)))
}

// shiftOfPair: v is the constant 0x0100000001 shifted left by a total of L bits (L as a linear form).
func shiftOfPair(fa *FA, v ssa.Value, depth int) (Lin, bool) {
	if depth > 6 {
		return Lin{}, false
	}
	if c, ok := constUint64(v); ok && c == 0x0100000001 {
		return linConst(0), true
	}
	if bo, ok := v.(*ssa.BinOp); ok && bo.Op == token.SHL {
		if L, ok := shiftOfPair(fa, bo.X, depth+1); ok {
			return L.Add(fa.Lin(bo.Y)), true
		}
	}
	// tabulated: T[i] with T a package-level array whose literal holds 0x0100000001<<i at every index i
	if tab, idx, ok := asElemLoad(v); ok {
		if g, ok := tab.(*ssa.Global); ok && pairTable(fa.W, g) {
			return fa.Lin(idx), true
		}
	}
	return Lin{}, false
}

// pairTable: the package-level array g is initialised by a literal whose i-th element is the constant 0x0100000001<<i,
// for every i, and is stored to nowhere else.
func pairTable(w *World, g *ssa.Global) bool {
	for _, p := range w.Pkgs {
		if p.Types != g.Pkg.Pkg {
			continue
		}
		for _, f := range p.Syntax {
			found, good := false, true
			ast.Inspect(f, func(n ast.Node) bool {
				vs, ok := n.(*ast.ValueSpec)
				if !ok {
					return true
				}
				for i, id := range vs.Names {
					if p.TypesInfo.Defs[id] != g.Object() || i >= len(vs.Values) {
						continue
					}
					found = true
					cl, ok := vs.Values[i].(*ast.CompositeLit)
					if !ok || len(cl.Elts) == 0 {
						good = false
						continue
					}
					for k, el := range cl.Elts {
						if _, keyed := el.(*ast.KeyValueExpr); keyed {
							good = false
							continue
						}
						tv := p.TypesInfo.Types[el]
						if tv.Value == nil {
							good = false
							continue
						}
						u, exact := constant.Uint64Val(constant.ToInt(tv.Value))
						if !exact || k > 31 || u != uint64(0x0100000001)<<uint(k) {
							good = false
						}
					}
				}
				return true
			})
			if found {
				if !good {
					return false
				}
				// no other store
				stores := 0
				for _, m := range g.Pkg.Members {
					if fn, ok := m.(*ssa.Function); ok && fn.Blocks != nil && fn.Name() != "init" {
						eachInstr(fn, func(ins ssa.Instruction) {
							if st, ok := ins.(*ssa.Store); ok {
								if ia, ok := st.Addr.(*ssa.IndexAddr); ok && ia.X == ssa.Value(g) {
									stores++
								}
								if st.Addr == ssa.Value(g) {
									stores++
								}
							}
						})
					}
				}
				return stores == 0
			}
		}
	}
	return false
}

// shiftOfPow2: v is 2^k << s (k a constant, possibly 0): returns the exponent s + k.
func shiftOfPow2(fa *FA, v ssa.Value) (Lin, bool) {
	if c, ok := constUint64(v); ok {
		if k, isP := log2(c); isP {
			return linConst(int64(k)), true
		}
		return Lin{}, false
	}
	if bo, ok := v.(*ssa.BinOp); ok && bo.Op == token.SHL {
		if c, ok := constUint64(stripConv(bo.X)); ok {
			if k, isP := log2(c); isP {
				return fa.Lin(bo.Y).Add(linConst(int64(k))), true
			}
		}
	}
	return Lin{}, false
}

func reportPrefix(w *World, r *Report, fn *ssa.Function) {
	// R-WIDTH32: the index is a 32-bit quantity; every bit count taken of it (the highest differing bit of index-W and
	// index, the rank of the fixed prefix bits) looks at all 32 bits
	r.Rule("R-WIDTH32", "every math/bits count in IndexToPath (LeadingZeros of the xor that finds the common prefix, OnesCount of the fixed bits) is taken at a width of at least 32 bits: the index of a tree of height >= 8 / >= 16 has bits above a narrower window - a borrow that crosses bit 8, a fixed prefix bit at position 16 or higher - and the narrower count silently ignores them")
	{
		bad := ""
		ncnt := 0
		eachInstr(fn, func(ins ssa.Instruction) {
			call, ok := ins.(*ssa.Call)
			if !ok {
				return
			}
			nm := calleeName(call.Common())
			if !strings.HasPrefix(nm, "math/bits.") {
				return
			}
			ncnt++
			for _, suf := range []string{"8", "16"} {
				if strings.HasSuffix(nm, suf) && !strings.HasSuffix(nm, "64") {
					if len(call.Common().Args) == 1 {
						if cv, isCv := call.Common().Args[0].(*ssa.Convert); isCv && intWidth(cv.X.Type()) > intWidth(cv.Type()) {
							bad = fmt.Sprintf("%s at %s looks at the low %s bits of a %d-bit quantity derived from the index", nm, w.InstrPos(ins), suf, intWidth(cv.X.Type()))
						}
					}
				}
			}
		})
		r.Check(bad == "", "R-WIDTH32", w.FuncName(fn), w.Pos(fn.Pos()), bad, fmt.Sprintf("%d math/bits counts, none on a value narrowed below 32 bits", ncnt))
	}
	r.Rule("R-PREFIX", "the common-prefix shortcut of IndexToPath, when present, is consistent with itself: with the level mask 0x0100000001<<h, the fixed-bits mask (pair<<hi) - (pair<<d) and the mask after the shortcut pair<<(h-F), hi = h+1 and h-F = d-1 (the descent continues with the level just below the fixed bits, none skipped, none done twice); the remaining index is corrected by exactly -F besides its masked and popcount terms; and on every path d >= Len32((index-W) ^ index) with W >= h (the bits above d are common to index-W and index, hence to 2*path). A d that is too small on some path (a constant for a 'common case') fixes bits that are not common")
	fa := w.FA(fn)
	if len(fn.Params) < 2 {
		return
	}
	hParam, iParam := fn.Params[0], fn.Params[1]
	{
		r.Rule("R-LEVELMASK", "IndexToPath starts from the level mask 0x0100000001 << treeheight (one bit in the mask half, one in the path half, at the root level of this tree), computed from the height parameter or read from a table whose every entry i is verified to be 0x0100000001 << i: a level mask from anywhere else (a hand-written table with one wrong literal) sends one height astray")
		nlm := 0
		eachInstr(fn, func(ins ssa.Instruction) {
			v, ok := ins.(ssa.Value)
			if !ok {
				return
			}
			if L, ok := shiftOfPair(fa, v, 0); ok && L.Eq(fa.Lin(hParam)) {
				nlm++
			}
		})
		r.Check(nlm >= 1, "R-LEVELMASK", "bmtree.IndexToPath", w.Pos(fn.Pos()), "no value of IndexToPath is 0x0100000001 << treeheight (computed, or read from a verified table)", fmt.Sprintf("%d level-mask site(s)", nlm))
	}
	// the fixed-bits masks: uint64 differences of two shifted pairs
	type fixedMask struct {
		ins   *ssa.BinOp
		hi, d Lin
		dv    ssa.Value
	}
	var ms []fixedMask
	var after []*ssa.BinOp // pair<<h >> F with non-constant F
	eachInstr(fn, func(ins ssa.Instruction) {
		bo, ok := ins.(*ssa.BinOp)
		if !ok {
			return
		}
		switch bo.Op {
		case token.ADD, token.OR:
			// the mask of one 32-bit half replicated into both: half + half<<32 with half = 2^hi - 2^d, which is
			// (pair<<hi) - (pair<<d) term by term
			for _, pr := range [2][2]ssa.Value{{bo.X, bo.Y}, {bo.Y, bo.X}} {
				hx, k, okS := asBinConst(pr[1], token.SHL)
				if !okS || k != 32 || fa.VN(hx) != fa.VN(pr[0]) {
					continue
				}
				hb, okH := pr[0].(*ssa.BinOp)
				if !okH || hb.Op != token.SUB {
					continue
				}
				hi, ok1 := shiftOfPow2(fa, hb.X)
				d, ok2 := shiftOfPow2(fa, hb.Y)
				if ok1 && ok2 {
					var dv ssa.Value
					if sh, ok := hb.Y.(*ssa.BinOp); ok {
						dv = sh.Y
					}
					ms = append(ms, fixedMask{bo, hi, d, dv})
				}
			}
		case token.SUB:
			hi, ok1 := shiftOfPair(fa, bo.X, 0)
			d, ok2 := shiftOfPair(fa, bo.Y, 0)
			if ok1 && ok2 {
				var dv ssa.Value
				if sh, ok := bo.Y.(*ssa.BinOp); ok {
					dv = sh.Y
				}
				ms = append(ms, fixedMask{bo, hi, d, dv})
			}
		case token.SHR:
			if _, isK := constInt64(stripConv(bo.Y)); isK {
				return
			}
			if _, ok := shiftOfPair(fa, bo.X, 0); ok {
				after = append(after, bo)
			}
		}
	})
	if len(ms) == 0 && len(after) == 0 {
		r.Check(true, "R-PREFIX", "bmtree.IndexToPath", w.Pos(fn.Pos()), "", "no prefix shortcut (the descent alone answers every height)")
		return
	}
	bad := ""
	if len(ms) != 1 || len(after) != 1 {
		bad = fmt.Sprintf("%d fixed-bits masks and %d mask advances by a computed amount: the shortcut is not of the confirmed single-stage form", len(ms), len(after))
		r.Check(false, "R-PREFIX", "bmtree.IndexToPath", w.Pos(fn.Pos()), bad, "")
		return
	}
	m, adv := ms[0], after[0]
	h, _ := shiftOfPair(fa, adv.X, 0)
	F := fa.Lin(adv.Y)
	// F and d may be variables preset to 0 and computed in an earlier branch (`fixed, d := 0, 0; if h > 4 { .. };
	// if fixed > 0 { shortcut }`): inside the shortcut they are the computed values
	var guardRes map[*ssa.Phi]ssa.Value
	if res := fa.GuardResolved(adv.Block()); len(res) > 0 && adv.Block() == m.ins.Block() {
		guardRes = res
		F, h = fa.SubstResolved(F, res), fa.SubstResolved(h, res)
		m.hi, m.d = fa.SubstResolved(m.hi, res), fa.SubstResolved(m.d, res)
		if p, ok := stripConv(m.dv).(*ssa.Phi); ok && res[p] != nil {
			m.dv = res[p]
		}
	}
	if !m.hi.Eq(h.Add(linConst(1))) {
		bad = fmt.Sprintf("the fixed-bits mask at %s ends at bit %s but the level mask sits at bit %s: it must cover exactly the bits up to the level mask (h+1)", w.InstrPos(m.ins), m.hi, h)
	} else if !h.Sub(F).Eq(m.d.Sub(linConst(1))) {
		bad = fmt.Sprintf("after the shortcut the level mask sits at bit %s but the fixed bits end above bit %s: the next level to resolve must be the one just below them (h-F = d-1)", h.Sub(F), m.d)
	}
	// the remaining index is corrected by exactly -F
	nrem := 0
	if bad == "" {
		eachInstr(fn, func(ins ssa.Instruction) {
			bo, ok := ins.(*ssa.BinOp)
			if !ok || (bo.Op != token.ADD && bo.Op != token.SUB) || !containsOnesCount(bo, 0) {
				return
			}
			// outermost sum only
			if refs := bo.Referrers(); refs != nil {
				for _, u := range *refs {
					if ub, ok := stripConvUser(u).(*ssa.BinOp); ok && (ub.Op == token.ADD || ub.Op == token.SUB) {
						return
					}
				}
			}
			nrem++
			boL := fa.Lin(bo)
			if guardRes != nil && bo.Block() == adv.Block() {
				boL = fa.SubstResolved(boL, guardRes)
			}
			res := boL.Add(F)
			// what remains must be free of h, of the leading-zero count and of constants: masked index + popcount only
			var left []string
			for atom, cf := range res.T {
				av := fa.AtomValue(atom)
				if c, ok := av.(*ssa.Call); ok && bitsCountWidth(calleeName(c.Common())) > 0 && strings.Contains(calleeName(c.Common()), "OnesCount") && cf == 1 {
					continue
				}
				if b, ok := av.(*ssa.BinOp); ok && (b.Op == token.AND || b.Op == token.AND_NOT) && cf == 1 {
					continue
				}
				if av == iParam && cf == 1 {
					continue
				}
				left = append(left, fmt.Sprintf("%+d*%s", cf, atom))
			}
			sort.Strings(left)
			if res.K != 0 || len(left) > 0 {
				bad = fmt.Sprintf("the remaining index at %s is not (masked index) - F + popcount(fixed bits of index) with the F = %s by which the level mask advances: off by %+d %s", w.InstrPos(ins), F, res.K, strings.Join(left, " "))
			}
		})
	}
	// d >= Len32((index - W) ^ index), W >= h, on every path
	nalt := 0
	if bad == "" && m.dv != nil {
		for _, L := range fa.LinAlts(m.dv, 16) {
			nalt++
			if L.IsConst() && L.K >= 32 {
				continue
			}
			// L = width - LZ(x) + k, k >= 0
			okAlt := false
			for atom, cf := range L.T {
				c, isCall := fa.AtomValue(atom).(*ssa.Call)
				if !isCall || cf != -1 || len(L.T) != 1 {
					continue
				}
				name := calleeName(c.Common())
				if !strings.HasPrefix(name, "math/bits.LeadingZeros") {
					continue
				}
				wd := bitsCountWidth(name)
				if L.K < wd {
					continue
				}
				x, ok := stripConv(c.Common().Args[0]).(*ssa.BinOp)
				if !ok || x.Op != token.XOR {
					continue
				}
				a, b := stripConv(x.X), stripConv(x.Y)
				if b != ssa.Value(iParam) && fa.VN(b) != fa.VN(iParam) {
					a, b = b, a
				}
				if b != ssa.Value(iParam) && fa.VN(b) != fa.VN(iParam) {
					continue
				}
				// a = index - W
				W := fa.Lin(b).Sub(fa.Lin(a))
				if dW := W.Sub(h); dW.IsConst() && dW.K >= 0 {
					okAlt = true
				}
			}
			if !okAlt {
				bad = fmt.Sprintf("on one path the number of low bits left open by the shortcut (shift of the fixed-bits mask at %s) is %s, which is not width - LeadingZeros((index-W) ^ index) (+k, k >= 0) with W >= h: bits that differ between index-h and index would be copied as fixed", w.InstrPos(m.ins), L)
			}
		}
	}
	_ = hParam
	r.Check(bad == "", "R-PREFIX", "bmtree.IndexToPath", w.Pos(fn.Pos()), bad, fmt.Sprintf("1 fixed-bits mask [d, h+1), mask advance F with h-F = d-1, %d remaining-index correction by -F, %d alternatives of d each >= Len((index-W)^index)", nrem, nalt))
}

// stripConvUser: the instruction that uses a value, looking through conversions of it.
func stripConvUser(u ssa.Instruction) ssa.Instruction {
	for depth := 0; depth < 4; depth++ {
		c, ok := u.(*ssa.Convert)
		if !ok {
			return u
		}
		refs := c.Referrers()
		if refs == nil || len(*refs) != 1 {
			return u
		}
		u = (*refs)[0]
	}
	return u
}
