package main

import (
	"fmt"
	"go/token"
	"strings"

	"golang.org/x/tools/go/ssa"
)

// fullRangeElem: v is container[iv] with iv enumerating 0..len(container)-1; returns container role.
func fullRangeElem(fa *FA, v ssa.Value) (string, bool, string) {
	cont, idx, ok := asElemLoad(v)
	if !ok {
		return "", false, "not an element load"
	}
	var blk *ssa.BasicBlock
	if ins, ok := stripConv(v).(ssa.Instruction); ok {
		blk = ins.Block()
	}
	iv, ok := fa.InductionOf(idx, blk)
	if !ok {
		return "", false, "index is not a loop counter"
	}
	if !iv.FirstConst || iv.First != 0 || iv.Step != 1 {
		return "", false, fmt.Sprintf("enumeration starts at %s with step %d", iv.FirstLin, iv.Step)
	}
	if !iv.HasN {
		return "", false, "no loop guard"
	}
	// N must be len(cont)
	if len(iv.N.T) != 1 || iv.N.K != 0 {
		return "", false, "loop bound is " + iv.N.String() + ", not len(container)"
	}
	for atom, coef := range iv.N.T {
		cl, ok := asCall(fa.AtomValue(atom), "builtin len")
		if !ok || coef != 1 || fa.VN(cl.Common().Args[0]) != fa.VN(cont) {
			return "", false, "loop bound is " + iv.N.String() + ", not len(container)"
		}
	}
	if why := fa.earlyExit(iv); why != "" {
		return "", false, why
	}
	// a sub-slice of a parameter (keys[1:]) is not the whole parameter
	if sl, ok := cont.(*ssa.Slice); ok && (sl.Low != nil || sl.High != nil) {
		return "", false, "the container enumerated is a sub-slice, not the whole list"
	}
	return containerRole(cont), true, ""
}

// fullRangeElemFrom: like fullRangeElem for the elements of cont[k:] (k a constant, no upper bound): v is element
// k, k+1, ... of the container, every one of them.
func fullRangeElemFrom(fa *FA, v ssa.Value) (string, int64, bool, string) {
	cont, _, ok := asElemLoad(v)
	if !ok {
		return "", 0, false, "not an element load"
	}
	sl, isSl := cont.(*ssa.Slice)
	if !isSl || sl.High != nil || sl.Max != nil || sl.Low == nil {
		role, ok, why := fullRangeElem(fa, v)
		return role, 0, ok, why
	}
	k, isK := constInt64(sl.Low)
	if !isK || k < 0 {
		return "", 0, false, "the sub-slice enumerated does not start at a constant"
	}
	var blk *ssa.BasicBlock
	if ins, ok := stripConv(v).(ssa.Instruction); ok {
		blk = ins.Block()
	}
	_, idx, _ := asElemLoad(v)
	iv, ok := fa.InductionOf(idx, blk)
	if !ok || !iv.FirstConst || iv.First != 0 || iv.Step != 1 || !iv.HasN {
		return "", 0, false, "the sub-slice is not enumerated from its first element with step 1 under a guard"
	}
	// N = len(cont[k:]) = len(cont) - k
	want := fa.lenOf(sl.X, 0).Add(linConst(-k))
	lenSl := linAtom(fa.VN(sl))
	_ = lenSl
	if !iv.N.Eq(want) {
		okN := false
		if len(iv.N.T) == 1 && iv.N.K == 0 {
			for atom, coef := range iv.N.T {
				if cl, ok := asCall(fa.AtomValue(atom), "builtin len"); ok && coef == 1 && fa.VN(cl.Common().Args[0]) == fa.VN(cont) {
					okN = true
				}
			}
		}
		if !okN {
			return "", 0, false, "loop bound is " + iv.N.String() + ", not the length of the sub-slice"
		}
	}
	if why := fa.earlyExit(iv); why != "" {
		return "", 0, false, why
	}
	return containerRole(sl.X), k, true, ""
}

func runC12(c *Ctx, w *World, r *Report) {
	names := []string{"bitmap.Of", "bitmap.OfMany", "bitmap.NewBuilder", "bitmap.(*Builder).Extend", "bitmap.(*Builder).Set", "bitmap.ToArray",
		"bitmap.Get", "bitmap.Get1", "bitmap.SafeGet", "bitmap.SafeGet1"}
	fns, ok := requireFuncs(w, r, names...)
	ReportGrowZero(w, r, "Words", "bitmap.(*Builder).Extend", "bitmap.(*Builder).Set")
	ReportScale(w, r, names...)
	ReportPair(w, r, names...)
	ReportRound(w, r, names...)
	refs := ReportBitRefs(w, r, names...)
	reportFresh(w, r, "bitmap.Of", "bitmap.OfMany", "bitmap.ToArray")
	reportWho(w, r, "bitmap", "Builder", "Offset", "bitmap.NewBuilder", "bitmap.(*Builder).Extend", "bitmap.(*Builder).Set")
	if !ok {
		return
	}
	r.Rule("R-ALLOC", "Of sizes its result as (n+63)>>6 words where n is the maximum of the requested size, last position + 1 (chosen exactly when larger) and 0")
	r.Rule("R-FILL", "Of sets bit p for every element p of the position list (full-range loop), nothing else")
	r.Rule("R-TOARRAY", "ToArray tests bit i for i = 0,1,... while i < 64*len(words) exactly and appends exactly that i under bit != 0")
	r.Rule("R-GETFORM", "Get returns the word masked with Bit[i&63] (bit in place); Get1 returns (word >> (i&63)) & 1")
	r.Rule("R-SAFE", "SafeGet/SafeGet1 read bm[k] only on the edge 0 <= k and k - len(bm) <= -1 exactly, and return the constant 0 otherwise")
	r.Rule("R-SIB", "sibling congruence: the in-range result expression of SafeGet equals Get's, SafeGet1's equals Get1's (value numbers over parameters by position)")
	r.Rule("R-EXTEND", "Builder.Extend: end = Offset+size or Offset+last+1 (when last >= size); Words grows until end <= 64*len(Words) before any bit is written; bit written = Offset + p for every listed p; Offset advances by exactly size")
	r.Rule("R-SETBIT", "Builder.Set: grows until (pos>>6) < len(Words), ORs (value&1) << (pos&63) into Words[pos>>6], and moves Offset to pos+1 exactly when Offset <= pos")
	r.Rule("R-LASTPOS", "Of and Builder.Extend read the last listed position (positions[len-1]) only on a path where the list is known to be non-empty: the empty list is a valid input (no bit set), reading its last element panics")
	for _, ln := range []string{"bitmap.Of", "bitmap.(*Builder).Extend"} {
		lf := fns[ln]
		lfa := w.FA(lf)
		badL := ""
		nlast := 0
		eachInstr(lf, func(ins ssa.Instruction) {
			v, ok := ins.(ssa.Value)
			if !ok {
				return
			}
			cont, idx, ok := asElemLoad(v)
			if !ok {
				return
			}
			if _, isParam := cont.(*ssa.Parameter); !isParam {
				return
			}
			lenL := lfa.lenOf(cont, 0)
			d := lenL.Sub(lfa.Lin(idx))
			if !d.IsConst() || d.K < 1 {
				return
			}
			nlast++
			if bd := lfa.BoundsAt(ins.Block(), lenL); !(bd.HasLo && bd.Lo >= d.K) {
				badL = fmt.Sprintf("element len-%d of the position list is read at %s where the list is only known to have %s elements: the empty list panics", d.K, w.InstrPos(ins), bd)
			}
		})
		r.Check(badL == "", "R-LASTPOS", ln, w.Pos(lf.Pos()), badL, fmt.Sprintf("%d reads of the last position, each under len >= 1", nlast))
	}
	r.Rule("R-REBASE", "OfMany: element p of sub-list i is rebased to base_i + p with base_0 = 0 and base_{i+1} = base_i + sizes[i]")
	r.Rule("R-COVER", "OfMany: the bit count handed to Of is, on every path, at least the sum of all sizes and larger than every rebased position (a position may be >= the size of its own sub-bitmap, so the rebased list need not be ascending and Of's own last+1 does not bound it): a loop-carried maximum that is only ever replaced by a value not smaller, and that after every stored position p is >= p+1. Otherwise Of allocates too few words and its fill loop indexes past them")

	// ---------- Of
	{
		n := "bitmap.Of"
		fn := fns[n]
		fa := w.FA(fn)
		var mk *ssa.MakeSlice
		eachInstr(fn, func(ins ssa.Instruction) {
			if m, ok := ins.(*ssa.MakeSlice); ok && isWordSlice(m.Type()) {
				mk = m
			}
		})
		bad := ""
		var facts []string
		if mk == nil {
			bad = "no allocation of the result"
		} else {
			x, cc, ok := asShiftRight(mk.Len)
			if !ok || cc != 6 {
				bad = "result length is not a bit count >> 6"
			} else {
				nv, a, ok := asBinConst(x, token.ADD)
				if !ok || a != 63 {
					bad = "result length is not (n+63)>>6: " + fa.Lin(x).String()
				} else {
					srcs := resolvePhi(stripConv(nv))
					has0, hasOpt, hasLast := false, false, false
					for _, s := range srcs {
						if k, ok := constInt64(stripConv(s)); ok {
							if k == 0 {
								has0 = true
							} else {
								bad = fmt.Sprintf("size candidate constant %d", k)
							}
							continue
						}
						L := fa.Lin(s)
						if len(L.T) != 1 {
							bad = "size candidate " + L.String() + " is neither the requested size nor last+1"
							continue
						}
						for atom := range L.T {
							cont, idx, ok := asElemLoad(fa.AtomValue(atom))
							if !ok {
								bad = "size candidate " + L.String()
								continue
							}
							switch paramIndex(cont) {
							case 1: // opts[0]
								if L.K != 0 {
									bad = "requested size is adjusted by a constant"
								}
								hasOpt = true
							case 0:
								il := fa.Lin(idx)
								want := linAtom("call:builtin len(p0)").Add(linConst(-1))
								if !il.Eq(want) {
									bad = "size derives from bitPositions[" + il.String() + "], not the last position"
								} else if L.K != 1 {
									bad = fmt.Sprintf("size from the last position is last%+d, must be last+1", L.K)
								} else {
									hasLast = true
									// chosen exactly when larger: find the phi edge
									if p, ok := stripConv(nv).(*ssa.Phi); ok {
										bad2 := maxEdgeCheck(fa, p, s)
										if bad2 != "" {
											bad = bad2
										}
									}
								}
							}
						}
					}
					// clamp: the size that reaches make is non-negative on every incoming edge
					if p, ok := stripConv(nv).(*ssa.Phi); ok {
						for i, e := range p.Edges {
							if k, ok := constInt64(stripConv(e)); ok {
								if k < 0 {
									bad = "negative constant size"
								}
								continue
							}
							pred := p.Block().Preds[i]
							bd := fa.BoundsAt(pred, fa.Lin(e))
							fa.boundsIncludingSelf(pred, p.Block(), fa.Lin(e), &bd)
							if !(bd.HasLo && bd.Lo >= 0) {
								bad = "a negative requested size is not clamped to 0 before sizing the result (size in " + bd.String() + " on one edge)"
							}
						}
					} else {
						bad = "size is not clamped to 0"
					}
					if bad == "" && !(has0 && hasOpt && hasLast) {
						bad = fmt.Sprintf("size must be max(requested, last+1, 0); candidates found: zero=%v requested=%v last+1=%v", has0, hasOpt, hasLast)
					}
					facts = append(facts, "make length = (max(opts[0], last+1, 0) + 63) >> 6")
				}
			}
		}
		r.Check(bad == "", "R-ALLOC", n, w.Pos(fn.Pos()), bad, facts...)
		// R-FILL
		badF := ""
		nW := 0
		for _, br := range refs[n] {
			if !br.Write {
				continue
			}
			nW++
			role, ok, why := fullRangeElem(fa, br.Pos)
			if !ok || role != "bitPositions" {
				badF = "bit written is not an element of the full position list: " + why
			}
		}
		if nW == 0 {
			badF = "no bit write found"
		}
		// a result word is only ever OR-ed into: OfMany hands Of a list that need not be ascending (a position may lie
		// beyond the size of its sub-bitmap), so a later position can fall into a word that already holds bits; a plain
		// assignment of a word (bits collected in a register, stored once per run) loses them
		eachInstr(fn, func(ins ssa.Instruction) {
			st, ok := ins.(*ssa.Store)
			if !ok {
				return
			}
			ia, ok := st.Addr.(*ssa.IndexAddr)
			if !ok || !isWordSlice(ia.X.Type()) || containerRole(ia.X) != "local" {
				return
			}
			if al, isAl := addrBase(ia.X).(*ssa.Alloc); isAl && strings.Contains(al.Comment, "varargs") {
				return
			}
			a, b, isOr := asBin(st.Val, token.OR)
			okRMW := false
			if isOr {
				for _, o := range []ssa.Value{a, b} {
					if c, i, isLd := asElemLoad(o); isLd && fa.VN(c) == fa.VN(ia.X) && fa.Lin(i).Eq(fa.Lin(ia.Index)) {
						okRMW = true
					}
				}
			}
			if !okRMW && badF == "" {
				badF = "the result word stored at " + w.InstrPos(st) + " is assigned, not OR-ed into (words[k] |= ..): bits that an earlier position put into the same word are lost when the positions are not ascending, which the list OfMany builds need not be"
			}
		})
		r.Check(badF == "", "R-FILL", n, w.Pos(fn.Pos()), badF, fmt.Sprintf("%d write site: words[p>>6] |= 1<<(p&63) for p = bitPositions[0..len)", nW))
	}
	// ---------- ToArray
	{
		n := "bitmap.ToArray"
		fn := fns[n]
		fa := w.FA(fn)
		bad := ""
		var rd *BitRef
		for i := range refs[n] {
			if refs[n][i].Role == "words" && refs[n][i].Use != nil {
				rd = &refs[n][i]
			}
		}
		if rd == nil {
			bad = "no bit test on the input"
		} else {
			iv, ok := fa.InductionOf(rd.Pos, rd.Ins.Block())
			if rd.SplitOff != nil {
				// word-wise form: base = 0, 64, ... < 64*len(words) exactly, and every offset 0..63 of each word
				lim := linConst(0).addScaled(linAtom("call:builtin len(p0)"), 64)
				var ub *ssa.BasicBlock
				if ui, isI := rd.Use.(ssa.Instruction); isI {
					ub = ui.Block()
				}
				ivJ, okJ := fa.InductionOf(rd.SplitOff, ub)
				switch {
				case !ok || !iv.FirstConst || iv.First != 0 || iv.Step != 64 || !iv.HasN || !iv.N.Eq(lim):
					bad = "the word-wise scan does not visit the aligned positions 0, 64, ... below 64*len(words) exactly"
				case fa.earlyExit(iv) != "":
					bad = "the word-wise scan can be left early: " + fa.earlyExit(iv)
				case !okJ || !ivJ.FirstConst || ivJ.First != 0 || ivJ.Step != 1 || !ivJ.HasN || !ivJ.N.Eq(linConst(64)):
					bad = "the bits of a word are not tested for every offset 0..63"
				case fa.earlyExit(ivJ) != "":
					bad = "the scan of a word's bits can be left early: " + fa.earlyExit(ivJ)
				}
			} else if !ok || !iv.FirstConst || iv.First != 0 || iv.Step != 1 {
				bad = "tested position does not run 0,1,2,..."
			} else {
				lim := linConst(0).addScaled(linAtom("call:builtin len(p0)"), 64)
				bd := fa.BoundsAt(rd.Ins.Block(), rd.PosLin.Sub(lim))
				if !(bd.HasHi && bd.Hi == -1) {
					bad = "tested position is not bounded by i < 64*len(words) exactly: i - 64*len in " + bd.String()
				}
			}
			napp := 0
			eachInstr(fn, func(ins ssa.Instruction) {
				call, ok := ins.(*ssa.Call)
				if !ok {
					return
				}
				for _, v := range appendedValues(call) {
					napp++
					if !fa.Lin(v).Eq(rd.PosLin) {
						bad = "appended value " + fa.Lin(v).String() + " is not the tested position " + rd.PosLin.String()
					}
					guarded := false
					if bitKnownSet(fa.Conds(call.Block()), rd) {
						guarded = true
					}
					if !guarded {
						bad = "append is not guarded by (bit != 0)"
					}
				}
			})
			if napp == 0 {
				bad = "nothing is appended"
			}
		}
		r.Check(bad == "", "R-TOARRAY", n, w.Pos(fn.Pos()), bad, "appends i under words[i>>6]&(1<<(i&63)) != 0 for i in [0, 64*len(words))")
	}
	// ---------- Get / Get1 / SafeGet / SafeGet1
	retExpr := map[string]ssa.Value{}
	delegated := map[string]*ssa.Call{}
	for _, n := range []string{"bitmap.Get", "bitmap.Get1", "bitmap.SafeGet", "bitmap.SafeGet1"} {
		fn := fns[n]
		fa := w.FA(fn)
		bad := ""
		for _, ret := range returnsOf(fn) {
			v := ret.Results[0]
			if k, ok := constInt64(stripConv(v)); ok {
				if !strings.Contains(n, "Safe") || k != 0 {
					bad = fmt.Sprintf("constant result %d", k)
				}
				continue
			}
			retExpr[n] = v
			one := strings.HasSuffix(n, "1")
			// the Safe variant may hand the in-range case to its sibling: Get(bm, i) / Get1(bm, i) of the same arguments
			if strings.Contains(n, "Safe") {
				sib := fns[strings.Replace(n, "Safe", "", 1)]
				if call, ok := stripConv(v).(*ssa.Call); ok && sib != nil && call.Common().StaticCallee() == sib {
					if call.Common().Args[0] == ssa.Value(fn.Params[0]) && call.Common().Args[1] == ssa.Value(fn.Params[1]) {
						delegated[n] = call
						continue
					}
					bad = "the sibling is not called with (bm, i)"
					continue
				}
			}
			a, b, ok := asBin(v, token.AND)
			if !ok {
				bad = "result is not a masked word"
				continue
			}
			if one {
				var sh ssa.Value
				if k, ok := constInt64(stripConv(b)); ok && k == 1 {
					sh = a
				} else if k, ok := constInt64(stripConv(a)); ok && k == 1 {
					sh = b
				}
				if sh == nil {
					bad = "Get1 form must be (word >> off) & 1"
					continue
				}
				if _, _, ok := asBin(sh, token.SHR); !ok {
					bad = "Get1 form must be (word >> off) & 1"
				}
			} else {
				okForm := false
				for _, s := range []ssa.Value{a, b} {
					if ms, ok := fa.MaskOf(s); ok && ms.Kind == "bit" {
						okForm = true
					}
				}
				if !okForm {
					bad = "Get form must be word & Bit[i&63]"
				}
			}
			// the bit position is the parameter i
			for _, br := range refs[n] {
				if br.Role == "bm" && !br.PosLin.Eq(fa.Lin(fn.Params[1])) {
					bad = "bit examined is " + br.PosLin.String() + ", not i"
				}
			}
		}
		if retExpr[n] == nil {
			bad = "no non-constant result"
		}
		r.Check(bad == "", "R-GETFORM", n, w.Pos(fn.Pos()), bad)
		if strings.Contains(n, "Safe") {
			badS := ""
			nacc := 0
			if call := delegated[n]; call != nil {
				// the guarded access is the sibling's bm[i>>6]
				nacc++
				var k Lin
				haveK := false
				eachInstr(fn, func(ins ssa.Instruction) {
					if v, ok := ins.(ssa.Value); ok && !haveK {
						if x, c, ok := asShiftRight(v); ok && c == 6 && stripConv(x) == ssa.Value(fn.Params[1]) {
							k, haveK = fa.Lin(v), true
						}
					}
				})
				if !haveK {
					badS = "the word index i>>6 is never computed, so it cannot have been tested"
				} else {
					b1 := fa.BoundsAt(call.Block(), k)
					b2 := fa.BoundsAt(call.Block(), k.Sub(linAtom("call:builtin len(p0)")))
					if !(b1.HasLo && b1.Lo == 0) {
						badS = "the sibling is called with i>>6 in " + b1.String() + ": the lower guard must be exactly >= 0"
					}
					if !(b2.HasHi && b2.Hi == -1) {
						badS = "the sibling is called with i>>6 - len(bm) in " + b2.String() + ": the upper guard must be exactly < len(bm)"
					}
				}
			}
			for _, s := range elemSites(fn, "bm") {
				nacc++
				k := fa.Lin(s.Index)
				b1 := fa.BoundsAt(s.Ins.Block(), k)
				b2 := fa.BoundsAt(s.Ins.Block(), k.Sub(linAtom("call:builtin len(p0)")))
				if !(b1.HasLo && b1.Lo == 0 && b2.HasHi && b2.Hi == -1) {
					// the guard as one boolean (a dissolved helper `0 <= k && k < len(bm)`, possibly negated): every way
					// into the access, with the merged boolean threaded back to the comparisons that set it
					alts := fa.CondsDNF(s.Ins.Block(), 0)
					if len(alts) > 0 {
						w1, w2 := Bounds{}, Bounds{}
						for ai, cs := range alts {
							for _, cs2 := range fa.expandBoolPhis([][]Cond{cs}) {
								a1 := fa.boundsFrom(cs2, k)
								a2 := fa.boundsFrom(cs2, k.Sub(linAtom("call:builtin len(p0)")))
								if ai == 0 && !w1.HasLo && !w2.HasHi {
									w1, w2 = a1, a2
									continue
								}
								if !a1.HasLo || a1.Lo < w1.Lo || !w1.HasLo {
									w1.HasLo, w1.Lo = a1.HasLo && w1.HasLo, a1.Lo
								}
								if !a2.HasHi || a2.Hi > w2.Hi || !w2.HasHi {
									w2.HasHi, w2.Hi = a2.HasHi && w2.HasHi, a2.Hi
								}
							}
						}
						if w1.HasLo && w1.Lo == 0 && w2.HasHi && w2.Hi == -1 {
							b1, b2 = w1, w2
						}
					}
				}
				if !(b1.HasLo && b1.Lo == 0) {
					badS = "bm[k] read with k in " + b1.String() + ": the lower guard must be exactly k >= 0"
				}
				if !(b2.HasHi && b2.Hi == -1) {
					badS = "bm[k] read with k - len(bm) in " + b2.String() + ": the upper guard must be exactly k < len(bm)"
				}
			}
			if nacc == 0 {
				badS = "no read of bm"
			}
			r.Check(badS == "", "R-SAFE", n, w.Pos(fn.Pos()), badS, fmt.Sprintf("%d read(s) of bm[k], each dominated by 0 <= k < len(bm)", nacc))
		}
	}
	for _, pr := range [][2]string{{"bitmap.Get", "bitmap.SafeGet"}, {"bitmap.Get1", "bitmap.SafeGet1"}} {
		a, b := retExpr[pr[0]], retExpr[pr[1]]
		if a == nil || b == nil {
			r.Bad("R-SIB", pr[0]+"~"+pr[1], "-", "missing result expression")
			continue
		}
		if delegated[pr[1]] != nil {
			r.OK("R-SIB", pr[0]+"~"+pr[1], w.Pos(fns[pr[1]].Pos()), "the in-range result IS the sibling's: "+pr[1]+" calls "+pr[0]+"(bm, i)")
			continue
		}
		va, vb := w.FA(fns[pr[0]]).VN(stripConv(a)), w.FA(fns[pr[1]]).VN(stripConv(b))
		r.Check(va == vb, "R-SIB", pr[0]+"~"+pr[1], w.Pos(fns[pr[1]].Pos()), "in-range results differ: "+va+" vs "+vb, "both: "+va)
	}
	// ---------- Builder.Extend
	{
		n := "bitmap.(*Builder).Extend"
		fn := fns[n]
		fa := w.FA(fn)
		bad := ""
		var offLoad ssa.Value
		eachInstr(fn, func(ins ssa.Instruction) {
			if v, ok := ins.(ssa.Value); ok && offLoad == nil {
				if _, f, ok := asFieldLoad(v); ok && f == "Offset" {
					offLoad = v
				}
			}
		})
		if offLoad == nil {
			bad = "Offset never read"
		} else {
			off := fa.Lin(offLoad)
			size := fa.Lin(fn.Params[2])
			// Offset store
			nst := 0
			eachInstr(fn, func(ins ssa.Instruction) {
				st, ok := ins.(*ssa.Store)
				if !ok {
					return
				}
				if fad, ok := st.Addr.(*ssa.FieldAddr); ok && fieldName(fad) == "Offset" {
					nst++
					L := fa.Lin(st.Val)
					// the load feeding the store has its own epoch but the same reaching writes (none before): compare modulo atoms
					if !(len(L.T) == 2 && L.K == 0 && L.T["p2"] == 1) {
						bad = "Offset is set to " + L.String() + ", expected Offset + size"
					} else {
						for atom, coef := range L.T {
							if atom == "p2" {
								continue
							}
							if _, f, ok := asFieldLoad(fa.AtomValue(atom)); !ok || f != "Offset" || coef != 1 {
								bad = "Offset is set to " + L.String() + ", expected Offset + size"
							}
						}
					}
					for _, ret := range returnsOf(fn) {
						if !st.Block().Dominates(ret.Block()) {
							bad = "Offset advance is conditional: a return is reachable without it"
						}
					}
				}
			})
			if nst != 1 && bad == "" {
				bad = fmt.Sprintf("expected exactly one store to Offset, found %d", nst)
			}
			// bit writes
			nW := 0
			var endPhi ssa.Value
			var endL Lin
			haveEndL := false
			for _, br := range refs[n] {
				if !br.Write || br.Role != ".Words" {
					continue
				}
				nW++
				rest := br.PosLin.Sub(off)
				if len(rest.T) != 1 || rest.K != 0 {
					bad = "bit written is " + br.PosLin.String() + ", expected Offset + p"
					continue
				}
				for atom, coef := range rest.T {
					role, ok, why := fullRangeElem(fa, fa.AtomValue(atom))
					if coef != 1 || !ok || role != "bitPositions" {
						bad = "bit written is not Offset + (element of the full position list): " + why
					}
				}
				// growth guard: some dominating condition end - 64*len(Words) <= 0
				okGrow := false
				for _, cd := range fa.Conds(br.Ins.Block()) {
					D, op, ok := fa.CondRel(cd)
					if !ok {
						continue
					}
					var lenAtom string
					for atom, coef := range D.T {
						if cl, ok := asCall(fa.AtomValue(atom), "builtin len"); ok && (coef == 64 || coef == -64) {
							if _, f, ok := asFieldLoad(cl.Common().Args[0]); ok && f == "Words" {
								lenAtom = atom
							}
						}
					}
					if lenAtom == "" {
						continue
					}
					if D.T[lenAtom] == 64 { // 64*len - end op 0  -> flip
						D, op = D.Neg(), flipOp(op)
					}
					// D = end - 64*len (+k) op 0
					E := D.clone()
					delete(E.T, lenAtom)
					var bd Bounds
					applyRel(&bd, E.K, op, "")
					E.K = 0
					if bd.HasHi && bd.Hi <= 0 && len(E.T) == 1 {
						for atom, coef := range E.T {
							if coef == 1 {
								okGrow = true
								endPhi = fa.AtomValue(atom)
							}
						}
					} else if bd.HasHi && bd.Hi <= 0 && len(E.T) > 1 {
						// end written as a sum (Offset + span, span = size or last+1): its alternatives are examined below
						okGrow, haveEndL, endL = true, true, E
					}
				}
				if !okGrow {
					bad = "bit write is not dominated by end <= 64*len(Words)"
				}
			}
			if nW == 0 && bad == "" {
				bad = "no bit write into Words"
			}
			// Words is touched only to set the listed bits: any other element access (a bounds-check hint, a peek at the
			// last word) indexes a word that need not exist when there is nothing to write (size 0, empty list)
			var okIdx []Lin
			for _, br := range refs[n] {
				if br.Role == ".Words" && br.Write {
					switch x := br.Ins.(type) {
					case *ssa.IndexAddr:
						okIdx = append(okIdx, fa.Lin(x.Index))
					case *ssa.Index:
						okIdx = append(okIdx, fa.Lin(x.Index))
					}
				}
			}
			eachInstr(fn, func(ins ssa.Instruction) {
				var cont, idx ssa.Value
				switch x := ins.(type) {
				case *ssa.IndexAddr:
					cont, idx = x.X, x.Index
				case *ssa.Index:
					cont, idx = x.X, x.Index
				default:
					return
				}
				same := false
				for _, L := range okIdx {
					if L.Eq(fa.Lin(idx)) {
						same = true
					}
				}
				if containerRole(cont) == ".Words" && !same && bad == "" {
					bad = "Words[" + fa.Lin(idx).String() + "] is accessed at " + w.InstrPos(ins) + " outside the single-bit writes at Offset+p: with nothing to write (size 0 and no positions) that word need not exist"
				}
			})
			// end candidates
			type endAlt struct {
				L   Lin
				blk *ssa.BasicBlock
			}
			var alts []endAlt
			if endPhi != nil {
				for _, s := range resolvePhi(endPhi) {
					var blk *ssa.BasicBlock
					if ins, ok := stripConv(s).(ssa.Instruction); ok {
						blk = ins.Block()
					}
					alts = append(alts, endAlt{fa.Lin(s), blk})
				}
			} else if haveEndL {
				alts = []endAlt{{endL, nil}}
				for round := 0; round < 3; round++ {
					var next []endAlt
					changed := false
					for _, al := range alts {
						expanded := false
						for atom, cf := range al.L.T {
							p, ok := fa.AtomValue(atom).(*ssa.Phi)
							if !ok || isLoopHeaderPhi(p) {
								continue
							}
							rest := al.L.clone()
							delete(rest.T, atom)
							for i, e := range p.Edges {
								blk := p.Block().Preds[i]
								if ins, ok := stripConv(e).(ssa.Instruction); ok {
									if _, isPhi := ins.(*ssa.Phi); !isPhi {
										blk = ins.Block()
									}
								}
								next = append(next, endAlt{rest.addScaled(fa.Lin(e), cf), blk})
							}
							expanded, changed = true, true
							break
						}
						if !expanded {
							next = append(next, al)
						}
					}
					alts = next
					if !changed || len(alts) > 16 {
						break
					}
				}
			}
			{
				for _, al := range alts {
					L := al.L.Sub(off)
					if L.Eq(size) {
						continue
					}
					okLast := false
					if L.K == 1 && len(L.T) == 1 {
						for atom, coef := range L.T {
							cont, idx, ok := asElemLoad(fa.AtomValue(atom))
							if ok && coef == 1 && paramIndex(cont) == 1 && fa.Lin(idx).Eq(linAtom("call:builtin len(p1)").Add(linConst(-1))) {
								okLast = true
								// chosen when last >= size
								if al.blk != nil {
									bd := fa.BoundsAt(al.blk, linAtom(atom).Sub(size))
									if !(bd.HasLo && bd.Lo == 0) {
										bad = "end = Offset+last+1 is chosen on last - size in " + bd.String() + ", must be exactly last >= size"
									}
								}
							}
						}
					}
					if !okLast {
						bad = "end candidate Offset + (" + L.String() + ") is neither Offset+size nor Offset+last+1"
					}
				}
			}
		}
		r.Check(bad == "", "R-EXTEND", n, w.Pos(fn.Pos()), bad, "end in {Offset+size, Offset+last+1 | last>=size}; grow until end <= 64*len(Words); write Offset+p for all p; Offset += size")
	}
	// ---------- Builder.Set
	{
		n := "bitmap.(*Builder).Set"
		fn := fns[n]
		fa := w.FA(fn)
		bad := ""
		pos := fa.Lin(fn.Params[1])
		nW := 0
		for _, br := range refs[n] {
			if !br.Write {
				continue
			}
			nW++
			if !br.PosLin.Eq(pos) {
				bad = "bit written is " + br.PosLin.String() + ", not bitPosition"
			}
			ia := br.Ins.(*ssa.IndexAddr)
			var lenAtom string
			for _, cd := range fa.Conds(ia.Block()) {
				if D, _, ok := fa.CondRel(cd); ok {
					for atom := range D.T {
						if cl, ok := asCall(fa.AtomValue(atom), "builtin len"); ok {
							if _, f, ok := asFieldLoad(cl.Common().Args[0]); ok && f == "Words" {
								lenAtom = atom
							}
						}
					}
				}
			}
			if lenAtom == "" {
				bad = "store is not dominated by a comparison with len(Words)"
			} else {
				bd := fa.BoundsAt(ia.Block(), fa.Lin(ia.Index).Sub(linAtom(lenAtom)))
				if !(bd.HasHi && bd.Hi == -1) {
					bad = "store index k - len(Words) in " + bd.String() + ", must be <= -1"
				}
			}
			// stored value: old | (value&1) << off
			for _, ref := range *ia.Referrers() {
				if st, ok := ref.(*ssa.Store); ok {
					a, b, ok := asBin(st.Val, token.OR)
					if !ok {
						bad = "bit is not OR-ed in"
						continue
					}
					found := false
					for _, s := range []ssa.Value{a, b} {
						if x, _, ok := asBin(s, token.SHL); ok {
							vx, j, ok := asLowMask(x)
							if ok && j == 1 && paramIndex(stripConv(vx)) == 2 {
								found = true
							}
						}
					}
					if !found {
						bad = "value shifted in is not (value & 1)"
					}
				}
			}
		}
		if nW == 0 {
			bad = "no bit write"
		}
		// Offset update
		nst := 0
		eachInstr(fn, func(ins ssa.Instruction) {
			st, ok := ins.(*ssa.Store)
			if !ok {
				return
			}
			if fad, ok := st.Addr.(*ssa.FieldAddr); ok && fieldName(fad) == "Offset" {
				nst++
				if !fa.Lin(st.Val).Eq(pos.Add(linConst(1))) {
					bad = "Offset is moved to " + fa.Lin(st.Val).String() + ", expected bitPosition+1"
				}
				okc := false
				for _, cd := range fa.Conds(st.Block()) {
					D, op, ok := fa.CondRel(cd)
					if !ok || len(D.T) != 2 {
						continue
					}
					// Offset - pos <= 0
					E := D.Add(pos)
					if len(E.T) == 1 {
						for atom, coef := range E.T {
							if _, f, ok := asFieldLoad(fa.AtomValue(atom)); ok && f == "Offset" && coef == 1 {
								var bd Bounds
								applyRel(&bd, E.K, op, "")
								if bd.HasHi && bd.Hi == 0 {
									okc = true
								}
							}
						}
					}
					E = D.Sub(pos)
					if len(E.T) == 1 {
						for atom, coef := range E.T {
							if _, f, ok := asFieldLoad(fa.AtomValue(atom)); ok && f == "Offset" && coef == -1 {
								var bd Bounds
								applyRel(&bd, E.K, op, "")
								if bd.HasLo && bd.Lo == 0 {
									okc = true
								}
							}
						}
					}
				}
				if !okc {
					bad = "Offset is moved on a condition other than Offset <= bitPosition"
				}
			}
		})
		if nst == 0 && bad == "" {
			bad = "Offset is never moved"
		}
		r.Check(bad == "", "R-SETBIT", n, w.Pos(fn.Pos()), bad, "Words[p>>6] |= (value&1)<<(p&63) after growing to p>>6 < len(Words); Offset = p+1 iff Offset <= p")
	}
	// ---------- OfMany
	{
		n := "bitmap.OfMany"
		fn := fns[n]
		fa := w.FA(fn)
		bad := ""
		var base *ssa.Phi
		nst := 0
		badCover := ""
		var stored []storedPos
		checkVal := func(val ssa.Value) {
			nst++
			L := fa.Lin(val)
			if len(L.T) != 2 || L.K != 0 {
				bad = "rebased position is " + L.String() + ", expected base + p"
				return
			}
			for atom, coef := range L.T {
				v := fa.AtomValue(atom)
				if p, ok := v.(*ssa.Phi); ok && coef == 1 {
					base = p
					continue
				}
				cont, _, ok := asElemLoad(v)
				if !ok || coef != 1 {
					bad = "rebased position is " + L.String() + ", expected base + p"
					continue
				}
				// cont must be subs[i]
				if c2, _, ok := asElemLoad(cont); !ok || paramIndex(c2) != 0 {
					bad = "p is not an element of subs[i]"
				}
				if _, ok, why := fullRangeElem(fa, v); !ok {
					bad = "inner enumeration incomplete: " + why
				}
			}
		}
		// the rebased positions are collected either by an indexed store into the list or by appending to it
		eachInstr(fn, func(ins ssa.Instruction) {
			switch x := ins.(type) {
			case *ssa.Store:
				ia, ok := x.Addr.(*ssa.IndexAddr)
				if !ok || containerRole(ia.X) != "local" {
					return
				}
				if al, isAl := addrBase(ia.X).(*ssa.Alloc); isAl && strings.Contains(al.Comment, "varargs") {
					return
				}
				checkVal(x.Val)
				stored = append(stored, newStoredPos(fa, x.Val, x, ia))
			case *ssa.Call:
				if vals := appendedValues(x); len(vals) > 0 && containerRole(x.Common().Args[0]) == "local" {
					for _, v := range vals {
						checkVal(v)
						stored = append(stored, newStoredPos(fa, v, x, nil))
					}
				}
			}
		})
		if nst == 0 {
			bad = "no rebased position stored"
		}
		if base == nil && bad == "" {
			bad = "no running base"
		}
		if base != nil {
			baseAtom := fa.VN(base)
			zero := false
			for _, e := range base.Edges {
				if k, ok := constInt64(stripConv(e)); ok {
					if k == 0 {
						zero = true
					} else {
						bad = "base starts at a non-zero constant"
					}
					continue
				}
				for _, s := range resolvePhi(e) {
					if s == ssa.Value(base) {
						continue
					}
					L := fa.Lin(s)
					if L.T[baseAtom] != 1 || L.K != 0 || len(L.T) != 2 {
						bad = "base update is " + L.String() + ", expected base + sizes[i]"
						continue
					}
					for atom, coef := range L.T {
						if atom == baseAtom {
							continue
						}
						role, ok, why := fullRangeElem(fa, fa.AtomValue(atom))
						if coef != 1 || !ok || role != "sizes" {
							// sizes is indexed by the subs loop counter: bound is len(subs)
							cont, idx, ok2 := asElemLoad(fa.AtomValue(atom))
							okAlt := false
							if ok2 && paramIndex(cont) == 1 && coef == 1 {
								var blk *ssa.BasicBlock
								if ins, ok := fa.AtomValue(atom).(ssa.Instruction); ok {
									blk = ins.Block()
								}
								if iv, ok := fa.InductionOf(idx, blk); ok && iv.FirstConst && iv.First == 0 && iv.Step == 1 {
									okAlt = true
								}
							}
							if !okAlt {
								bad = "base update does not add sizes[i] for i = 0,1,2,...: " + why
							}
						}
					}
				}
			}
			if !zero {
				bad = "base does not start at 0"
			}
			// final call to Of with base as the size
			found := false
			eachInstr(fn, func(ins ssa.Instruction) {
				call, ok := ins.(*ssa.Call)
				if !ok || call.Common().StaticCallee() != fns["bitmap.Of"] {
					return
				}
				found = true
				args := sprintfArgs(call)
				if len(args) != 1 {
					bad = "Of is not called with a requested size"
					return
				}
				badCover = ofManyCover(fa, call, args[0], base, stored)
			})
			if !found {
				bad = "OfMany does not delegate to Of"
			}
		}
		r.Check(bad == "", "R-REBASE", n, w.Pos(fn.Pos()), bad, "r[k] = base + subs[i][j]; base: 0, +sizes[i]")
		if bad == "" {
			r.Check(badCover == "", "R-COVER", n, w.Pos(fn.Pos()), badCover, fmt.Sprintf("Of(r, n): n >= final base and n >= p+1 for each of the %d stored rebased positions p (running maximum, monotone)", len(stored)))
		}
	}
}

// storedPos: one rebased position written into the list OfMany hands to Of.
type storedPos struct {
	Val  ssa.Value
	Blk  *ssa.BasicBlock
	Reps []Lin // linear forms standing for the stored value: itself and loads of the element just stored
}

func newStoredPos(fa *FA, val ssa.Value, at ssa.Instruction, ia *ssa.IndexAddr) storedPos {
	sp := storedPos{Val: val, Blk: at.Block(), Reps: []Lin{fa.Lin(val)}}
	if ia == nil {
		return sp
	}
	il := fa.Lin(ia.Index)
	eachInstr(at.Parent(), func(ins ssa.Instruction) {
		u, ok := ins.(*ssa.UnOp)
		if !ok || u.Op != token.MUL {
			return
		}
		ia2, ok := u.X.(*ssa.IndexAddr)
		if !ok || fa.VN(ia2.X) != fa.VN(ia.X) || !fa.Lin(ia2.Index).Eq(il) {
			return
		}
		if u.Block() == at.Block() {
			after := false
			for _, x := range u.Block().Instrs {
				if x == at {
					after = true
				}
				if x == ssa.Instruction(u) && !after {
					return
				}
			}
		} else if !at.Block().Dominates(u.Block()) {
			return
		}
		L := fa.Lin(u)
		for _, have := range sp.Reps {
			if have.Eq(L) {
				return
			}
		}
		sp.Reps = append(sp.Reps, L)
	})
	return sp
}

// ofManyCover: the size A handed to Of bounds the final base and every stored rebased position (see R-COVER).
func ofManyCover(fa *FA, call *ssa.Call, A ssa.Value, base *ssa.Phi, stored []storedPos) string {
	A = stripConv(A)
	if A == ssa.Value(base) {
		return "the size handed to Of is the sum of the sizes alone; a position >= the size of its own sub-bitmap (allowed, Builder.Extend handles it) in a sub-bitmap that is not the last is rebased beyond every later position, so Of - which sizes its result from the last element only - allocates too few words and indexes past them"
	}
	leaves := fa.leavesOf1(A, call.Block(), 1)
	var M *ssa.Phi
	for _, lf := range leaves {
		if p, ok := stripConv(lf.V).(*ssa.Phi); ok && isLoopHeaderPhi(p) && p != base {
			if M != nil && M != p {
				return "the size handed to Of merges two different loop-carried values"
			}
			M = p
		}
	}
	if M == nil {
		return "the size handed to Of is not a loop-carried maximum over the rebased positions"
	}
	bl, ml := fa.Lin(base), fa.Lin(M)
	for _, lf := range leaves {
		v := stripConv(lf.V)
		L := fa.Lin(v)
		if v != ssa.Value(base) {
			if bd := fa.boundsFrom(lf.Conds, L.Sub(bl)); !(bd.HasLo && bd.Lo >= 0) {
				return fmt.Sprintf("the size handed to Of may be smaller than the sum of the sizes: (size - total) in %s on one path", bd)
			}
		}
		if v != ssa.Value(M) {
			if bd := fa.boundsFrom(lf.Conds, L.Sub(ml)); !(bd.HasLo && bd.Lo >= 0) {
				return fmt.Sprintf("the size handed to Of may be smaller than the running maximum of the positions: (size - maximum) in %s on one path", bd)
			}
		}
	}
	type keepLeaf struct {
		L     Lin
		Conds []Cond
	}
	type cand struct {
		V    ssa.Value
		H    *ssa.Phi
		Pred *ssa.BasicBlock
		Keep []keepLeaf
	}
	var cands []cand
	H := map[*ssa.Phi]bool{M: true}
	order := []*ssa.Phi{M}
	for k := 0; k < len(order); k++ {
		h := order[k]
		hl := fa.Lin(h)
		for i, e := range h.Edges {
			pred := h.Block().Preds[i]
			back := h.Block().Dominates(pred)
			sc := selfCond(pred, h.Block())
			var keeps []keepLeaf
			var cs []cand
			for _, lf := range fa.leavesOf1(e, pred, 1) {
				conds := append(append([]Cond{}, lf.Conds...), sc...)
				v := stripConv(lf.V)
				if p, ok := v.(*ssa.Phi); ok && isLoopHeaderPhi(p) {
					if !H[p] {
						H[p] = true
						order = append(order, p)
					}
					if back {
						keeps = append(keeps, keepLeaf{fa.Lin(p), conds})
					}
					continue
				}
				if !back {
					if h == M {
						continue // the initial value of the outermost accumulator
					}
					return "the running maximum is re-initialised inside the loop (" + fa.Lin(v).String() + "): what earlier sub-bitmaps needed is forgotten"
				}
				if bd := fa.boundsFrom(conds, fa.Lin(v).Sub(hl)); !(bd.HasLo && bd.Lo >= 0) {
					return fmt.Sprintf("%s replaces the running maximum on an edge where (new - old) is in %s; a maximum is only replaced by a value not smaller", fa.Lin(v), bd)
				}
				cs = append(cs, cand{V: v, H: h, Pred: pred})
			}
			for j := range cs {
				cs[j].Keep = keeps
			}
			cands = append(cands, cs...)
		}
	}
	for _, s := range stored {
		why := "no update of the running maximum follows the store"
		ok := false
		for _, c := range cands {
			if !c.H.Block().Dominates(s.Blk) || !s.Blk.Dominates(c.Pred) {
				continue
			}
			for _, rep := range s.Reps {
				d := fa.Lin(c.V).Sub(rep)
				if !d.IsConst() {
					continue
				}
				if d.K < 1 {
					why = fmt.Sprintf("the maximum is advanced to position%+d, it has to be at least position+1 (a bit count)", d.K)
					continue
				}
				good := true
				for _, kl := range c.Keep {
					if bd := fa.boundsFrom(kl.Conds, kl.L.Sub(rep)); !(bd.HasLo && bd.Lo >= 1) {
						good = false
						why = fmt.Sprintf("the maximum is kept on an edge where (maximum - position) is in %s; keeping it needs maximum >= position+1", bd)
					}
				}
				if good {
					ok = true
				}
			}
		}
		if !ok {
			return "rebased position " + fa.Lin(s.Val).String() + " is not bounded by the size handed to Of: " + why
		}
	}
	return ""
}

// maxEdgeCheck: phi p takes candidate src exactly on the edge other < src.
func maxEdgeCheck(fa *FA, top *ssa.Phi, src ssa.Value) string {
	// find the phi that directly has src as an edge
	var find func(p *ssa.Phi, seen map[*ssa.Phi]bool) (*ssa.Phi, int)
	find = func(p *ssa.Phi, seen map[*ssa.Phi]bool) (*ssa.Phi, int) {
		if seen[p] {
			return nil, -1
		}
		seen[p] = true
		for i, e := range p.Edges {
			if e == src {
				return p, i
			}
			if q, ok := e.(*ssa.Phi); ok {
				if r, j := find(q, seen); r != nil {
					return r, j
				}
			}
		}
		return nil, -1
	}
	p, i := find(top, map[*ssa.Phi]bool{})
	if p == nil {
		return ""
	}
	pred := p.Block().Preds[i]
	// other candidates of this phi
	for j, e := range p.Edges {
		if j == i {
			continue
		}
		d := fa.Lin(e).Sub(fa.Lin(src))
		bd := fa.BoundsAt(pred, d)
		if fa.boundsIncludingSelf(pred, p.Block(), d, &bd); !(bd.HasHi && bd.Hi <= 0) {
			return fmt.Sprintf("last+1 replaces the size on the edge (other - (last+1)) in %s; a maximum needs other <= last+1 there", bd)
		}
	}
	return ""
}

// boundsIncludingSelf adds the condition of pred's own terminator when pred->succ is one of its branch edges.
func (a *FA) boundsIncludingSelf(pred, succ *ssa.BasicBlock, L Lin, bd *Bounds) {
	ifi, ok := pred.Instrs[len(pred.Instrs)-1].(*ssa.If)
	if !ok || len(pred.Succs) != 2 || pred.Succs[0] == pred.Succs[1] {
		return
	}
	for k := 0; k < 2; k++ {
		if pred.Succs[k] == succ {
			c := Cond{V: ifi.Cond, Pol: k == 0, If: ifi}
			b2 := a.boundsFrom([]Cond{c}, L)
			if b2.HasHi {
				bd.upper(b2.Hi, "")
			}
			if b2.HasLo {
				bd.lower(b2.Lo, "")
			}
		}
	}
}

func init() {
	register(&Prop{
		ID: "C12", Level: "other",
		Explain: "Structural necessary conditions of bitmap construction/inspection (DESIGN.md 5/C12): unit consistency of all sizes and indexes (E4), rounding, same-position word/bit selection, Of's size = ceil(max(n,last+1,0)/64) and full fill, ToArray's exact scan range and appended value, Get/Get1 forms, SafeGet's exact two-sided guard and congruence with Get, Builder.Extend/Set growth, rebasing by Offset and Offset advance, OfMany's running base; E1: constructors return fresh memory and write no argument.",
		NotDec:  []string{"that positions are ascending (a precondition) so that the last one is the maximum", "arithmetic overflow of int32 positions"},
		Trusted: []string{"go/ssa construction"},
		Quick:   []Config{cfgDefault, cfg386}, Thorough: []Config{cfgDefault, cfg386},
		Run: runC12,
	})
}
