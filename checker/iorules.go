package main

// E3 — I/O discipline: error propagation, byte accounting, taint (DESIGN.md 3/E3).

import (
	"fmt"
	"go/constant"
	"go/token"
	"go/types"
	"strings"

	"golang.org/x/tools/go/ssa"
)

var errorType = types.Universe.Lookup("error").Type()

func isErrorType(t types.Type) bool { return types.Identical(t, errorType) }

// nil-preserving wrappers: f(nil) == nil, f(e) wraps e otherwise.
var nilPreservingWrappers = map[string]bool{
	"github.com/openacid/errors.WithStack":   true,
	"github.com/openacid/errors.Wrap":        true,
	"github.com/openacid/errors.Wrapf":       true,
	"github.com/openacid/errors.WithMessage": true,
	"github.com/pkg/errors.WithStack":        true,
	"github.com/pkg/errors.Wrap":             true,
	"github.com/pkg/errors.Wrapf":            true,
	"github.com/pkg/errors.WithMessage":      true,
}

type errSite struct {
	Call ssa.CallInstruction
	Err  ssa.Value // nil if the error result is not even extracted
	Name string
}

// errorCalls lists the calls in fn that return an error, with the SSA value holding it.
func errorCalls(fn *ssa.Function) []errSite {
	var out []errSite
	eachInstr(fn, func(ins ssa.Instruction) {
		call, ok := ins.(*ssa.Call)
		if !ok {
			return
		}
		sig := call.Common().Signature()
		if sig == nil {
			return
		}
		res := sig.Results()
		name := calleeName(call.Common())
		if nilPreservingWrappers[name] {
			return
		}
		for i := 0; i < res.Len(); i++ {
			if !isErrorType(res.At(i).Type()) {
				continue
			}
			es := errSite{Call: call, Name: name}
			if res.Len() == 1 {
				es.Err = call
			} else if call.Referrers() != nil {
				for _, ref := range *call.Referrers() {
					if ex, ok := ref.(*ssa.Extract); ok && ex.Index == i {
						es.Err = ex
					}
				}
			}
			out = append(out, es)
		}
	})
	return out
}

// unwrapErr strips nil-preserving wrappers.
func unwrapErr(v ssa.Value) ssa.Value {
	for {
		c, ok := v.(*ssa.Call)
		if !ok || !nilPreservingWrappers[calleeName(c.Common())] || len(c.Common().Args) == 0 {
			return v
		}
		v = c.Common().Args[0]
	}
}

// condLeaf: a value returned under a set of conditions.
type condLeaf struct {
	V     ssa.Value
	Conds []Cond
	At    *ssa.BasicBlock
	Via   *ssa.BasicBlock // predecessor of the outermost merge this alternative came in through (nil: no merge)
}

func selfCond(pred, succ *ssa.BasicBlock) []Cond {
	ifi, ok := pred.Instrs[len(pred.Instrs)-1].(*ssa.If)
	if !ok || len(pred.Succs) != 2 || pred.Succs[0] == pred.Succs[1] {
		return nil
	}
	for k := 0; k < 2; k++ {
		if pred.Succs[k] == succ {
			v, pol := ifi.Cond, k == 0
			for {
				if u, ok := v.(*ssa.UnOp); ok && u.Op == token.NOT {
					v, pol = u.X, !pol
					continue
				}
				break
			}
			return []Cond{{V: v, Pol: pol, If: ifi}}
		}
	}
	return nil
}

// leavesOf expands v (used in block blk) through phis into (value, conditions) leaves;
// wrappers are looked through so that phi(wrapper(x), y) is expanded too.
func (a *FA) leavesOf(v ssa.Value, blk *ssa.BasicBlock, depth int) []condLeaf {
	if depth == 0 {
		// conditions on boolean flags are threaded to the edges that set them
		var out []condLeaf
		for _, l := range a.leavesOf1(v, blk, 0) {
			for _, cs := range a.expandBoolPhis([][]Cond{l.Conds}) {
				out = append(out, condLeaf{V: l.V, Conds: cs, At: l.At, Via: l.Via})
			}
		}
		return out
	}
	return a.leavesOf1(v, blk, depth)
}

func (a *FA) leavesOf1(v ssa.Value, blk *ssa.BasicBlock, depth int) []condLeaf {
	base := unwrapErr(v)
	p, ok := base.(*ssa.Phi)
	if ok && depth > 0 {
		// a loop-header phi is "the variable at the loop head", not a merge of alternatives here
		for _, pr := range p.Block().Preds {
			if p.Block().Dominates(pr) {
				ok = false
			}
		}
	}
	if !ok || depth > 8 {
		var out []condLeaf
		for _, cs := range a.CondsDNF(blk, 0) {
			out = append(out, condLeaf{V: v, Conds: cs, At: blk})
		}
		return out
	}
	var out []condLeaf
	for i, e := range p.Edges {
		pred := p.Block().Preds[i]
		sub := a.leavesOf1(e, pred, depth+1)
		sc := selfCond(pred, p.Block())
		for _, l := range sub {
			l.Via = pred // the outermost merge overrides the inner ones as the recursion unwinds
			l.Conds = append(append([]Cond{}, l.Conds...), sc...)
			// plus the conditions of the using block (they hold at the return as well)
			l.Conds = append(l.Conds, a.Conds(blk)...)
			out = append(out, l)
		}
	}
	return out
}

// nilness of error e under conds: +1 non-nil, -1 nil, 0 unknown.
func nilnessUnder(conds []Cond, e ssa.Value) int {
	al := errAliases(e)
	for _, c := range conds {
		bo, ok := c.V.(*ssa.BinOp)
		if !ok || (bo.Op != token.EQL && bo.Op != token.NEQ) {
			continue
		}
		var other ssa.Value
		if al[bo.X] {
			other = bo.Y
		} else if al[bo.Y] {
			other = bo.X
		} else {
			continue
		}
		cst, ok := other.(*ssa.Const)
		if !ok || !cst.IsNil() {
			continue
		}
		nonNil := (bo.Op == token.NEQ) == c.Pol
		if nonNil {
			return 1
		}
		return -1
	}
	return 0
}

// errAliases: e itself and every merge phi all of whose edges are e, another alias, or a package-level error variable
// (non-nil by convention): such a phi is nil exactly when e is nil and it took the e edge, so a nil test on it is a
// nil test on e, and on its non-nil edge it stands for e or for the error e was translated into (io.EOF ->
// io.ErrUnexpectedEOF). This is what a helper that returns the translated error looks like after inlining.
func errAliases(e ssa.Value) map[ssa.Value]bool {
	al := map[ssa.Value]bool{e: true}
	if e == nil {
		return al
	}
	for changed := true; changed; {
		changed = false
		var cand []*ssa.Phi
		for v := range al {
			if v.Referrers() == nil {
				continue
			}
			for _, ref := range *v.Referrers() {
				if p, ok := ref.(*ssa.Phi); ok && !al[p] {
					cand = append(cand, p)
				}
			}
		}
		for _, p := range cand {
			ok := true
			for i, ed := range p.Edges {
				if al[ed] {
					continue
				}
				if _, isG := isGlobalErrVarLoad(ed); isG {
					continue
				}
				// the nil constant coming in from where the error is known to be nil (a result variable set to nil on
				// the success path of a dissolved helper): the merge is nil exactly when the error is
				if c, isC := ed.(*ssa.Const); isC && c.IsNil() && aliasKnownNilAt(al, p.Block().Preds[i]) {
					continue
				}
				ok = false
			}
			if ok && !al[p] {
				al[p] = true
				changed = true
			}
		}
	}
	return al
}

// aliasKnownNilAt: block b is reached only through the nil side of a test of one of the aliases against nil.
func aliasKnownNilAt(al map[ssa.Value]bool, b *ssa.BasicBlock) bool {
	for d := b; d != nil && d.Idom() != nil; d = d.Idom() {
		id := d.Idom()
		ifi, ok := id.Instrs[len(id.Instrs)-1].(*ssa.If)
		if !ok || len(d.Preds) != 1 || d.Preds[0] != id || len(id.Succs) != 2 || id.Succs[0] == id.Succs[1] {
			continue
		}
		bo, ok := ifi.Cond.(*ssa.BinOp)
		if !ok || (bo.Op != token.EQL && bo.Op != token.NEQ) {
			continue
		}
		var other ssa.Value
		switch {
		case al[bo.X]:
			other = bo.Y
		case al[bo.Y]:
			other = bo.X
		default:
			continue
		}
		if c, ok := other.(*ssa.Const); !ok || !c.IsNil() {
			continue
		}
		onTrue := id.Succs[0] == d
		if (bo.Op == token.EQL) == onTrue {
			return true
		}
	}
	return false
}

func isGlobalErrVarLoad(v ssa.Value) (string, bool) {
	u, ok := v.(*ssa.UnOp)
	if !ok || u.Op != token.MUL {
		return "", false
	}
	g, ok := u.X.(*ssa.Global)
	if !ok || !isErrorType(g.Type().(*types.Pointer).Elem()) {
		return "", false
	}
	return g.Pkg.Pkg.Name() + "." + g.Name(), true
}

type errException struct {
	fn, callee, argType, reason string
}

// ReportErrProp files R-ERRPROP obligations for the listed functions.
// errResult: index of the error result in each function's signature is found by type.
// errPropNoTranslation: functions in which an error of the callee must come back as it is: choosing a package-level
// error variable instead (a translation such as io.EOF -> io.ErrUnexpectedEOF, legitimate in pbcmpl) would hide the
// callee's failure. C18: "an error from the underlying writer is propagated" - it wins over io.ErrShortWrite.
var errPropNoTranslation = map[string]bool{}

func ReportErrProp(w *World, r *Report, exceptions []errException, fnNames ...string) int {
	r.Rule("R-ERRPROP", "every call that returns an error: on each return reachable from it either the error is known nil (dominating test), or it is known non-nil and the function returns it (identity, nil-preserving wrapper, or a package-level error variable chosen under a test), or it is returned unconditionally; it is never dropped. Listed belief sites are exceptions with a reason")
	total := 0
	for _, n := range fnNames {
		fn := findFunc(w, n)
		if fn == nil {
			r.Unknown("R-ERRPROP", n, "-", "function named by the property is missing")
			continue
		}
		fa := w.FA(fn)
		errIdx := -1
		res := fn.Signature.Results()
		for i := 0; i < res.Len(); i++ {
			if isErrorType(res.At(i).Type()) {
				errIdx = i
			}
		}
		seen := map[string]int{}
		for _, es := range errorCalls(fn) {
			total++
			seen[es.Name]++
			key := fmt.Sprintf("%s|%s#%d", n, es.Name, seen[es.Name])
			pos := w.InstrPos(es.Call)
			// exception?
			exc := ""
			for _, ex := range exceptions {
				if ex.fn != n || ex.callee != es.Name {
					continue
				}
				args := es.Call.Common().Args
				if ex.argType != "" {
					match := false
					for _, a := range args {
						if mi, ok := a.(*ssa.MakeInterface); ok && types.TypeString(mi.X.Type(), nil) == ex.argType {
							match = true
						}
						if types.TypeString(a.Type(), nil) == ex.argType {
							match = true
						}
					}
					if !match {
						continue
					}
				}
				exc = ex.reason
			}
			if exc != "" {
				r.OK("R-ERRPROP", key, pos, "listed belief site (exception): "+exc)
				continue
			}
			if errIdx < 0 {
				r.Bad("R-ERRPROP", key, pos, "the function has no error result but calls "+es.Name+" which can fail")
				continue
			}
			if es.Err == nil || es.Err.Referrers() == nil || len(*es.Err.Referrers()) == 0 {
				r.Bad("R-ERRPROP", key, pos, "the error returned by "+es.Name+" is discarded")
				continue
			}
			bad := ""
			nret := 0
			var facts []string
			for _, ret := range returnsOf(fn) {
				callIns := es.Call.(ssa.Instruction)
				if !(instrDominates(callIns, ret) || fa.Reaches(callIns.Block(), ret.Block()) && callIns.Block() != ret.Block()) {
					continue
				}
				for _, leaf := range fa.leavesOf(ret.Results[errIdx], ret.Block(), 0) {
					// an alternative of a merged result that comes in from a path the call is not on says nothing about it
					if leaf.Via != nil && leaf.Via != callIns.Block() && !fa.Reaches(callIns.Block(), leaf.Via) {
						continue
					}
					nret++
					nn := nilnessUnder(leaf.Conds, es.Err)
					src := unwrapErr(leaf.V)
					switch nn {
					case -1:
						facts = append(facts, fmt.Sprintf("return at %s: error known nil there", w.InstrPos(ret)))
					case 1:
						if errAliases(es.Err)[src] {
							facts = append(facts, fmt.Sprintf("return at %s: returns it (non-nil edge)", w.InstrPos(ret)))
						} else if g, ok := isGlobalErrVarLoad(src); ok && !errPropNoTranslation[n] {
							facts = append(facts, fmt.Sprintf("return at %s: returns %s on the non-nil edge", w.InstrPos(ret), g))
						} else if ok {
							bad = fmt.Sprintf("on the edge where the error of %s is non-nil the function returns %s at %s instead of that error: the callee's failure must take precedence", es.Name, g, w.InstrPos(ret))
						} else {
							bad = fmt.Sprintf("on the edge where the error of %s is non-nil the function returns %s at %s instead of that error", es.Name, fmtVal(w, leaf.V), w.InstrPos(ret))
						}
					default:
						if errAliases(es.Err)[src] {
							facts = append(facts, fmt.Sprintf("return at %s: returned unconditionally", w.InstrPos(ret)))
						} else {
							bad = fmt.Sprintf("a return at %s is reachable without the error of %s having been tested, and returns %s", w.InstrPos(ret), es.Name, fmtVal(w, leaf.V))
						}
					}
				}
			}
			if nret == 0 && bad == "" {
				bad = "no return is reachable after the call"
			}
			if bad != "" {
				r.Bad("R-ERRPROP", key, pos, bad, facts...)
			} else {
				r.OK("R-ERRPROP", key, pos, facts...)
			}
		}
	}
	return total
}

// ---------- byte accounting ----------

// ioCall describes a byte-count producing call on the function's stream.
type ioCall struct {
	Call  *ssa.Call
	Count ssa.Value
	Name  string
}

// streamCalls finds byte-count I/O calls in fn whose stream operand is isStream(v).
func streamCalls(fn *ssa.Function, isStream func(ssa.Value) bool) []ioCall {
	var out []ioCall
	eachInstr(fn, func(ins ssa.Instruction) {
		call, ok := ins.(*ssa.Call)
		if !ok {
			return
		}
		com := call.Common()
		name := calleeName(com)
		var stream ssa.Value
		switch {
		case com.IsInvoke() && (com.Method.Name() == "Write" || com.Method.Name() == "Read" || com.Method.Name() == "WriteAt" || com.Method.Name() == "ReadAt"):
			stream = com.Value
		case name == "io.ReadFull" || name == "io.ReadAtLeast":
			stream = com.Args[0]
		case name == "io.CopyN" || name == "io.Copy":
			stream = com.Args[1]
		case strings.HasSuffix(name, "/pbcmpl.ReadHeader"):
			stream = com.Args[0]
		default:
			return
		}
		if !isStream(stream) {
			return
		}
		ic := ioCall{Call: call, Name: name}
		if call.Referrers() != nil {
			for _, ref := range *call.Referrers() {
				if ex, ok := ref.(*ssa.Extract); ok && ex.Index == 0 {
					ic.Count = ex
				}
			}
		}
		out = append(out, ic)
	})
	return out
}

// ReportCount: at each return, the count result equals the sum of the byte counts of the stream calls that dominate it.
func ReportCount(w *World, r *Report, n string, countIdx int, isStream func(ssa.Value) bool) []ioCall {
	r.Rule("R-COUNT", "byte accounting: at every return the returned count, as a linear form, equals the sum of the byte counts returned by exactly the stream I/O calls that were executed (dominate that return)")
	fn := findFunc(w, n)
	if fn == nil {
		r.Unknown("R-COUNT", n, "-", "function missing")
		return nil
	}
	fa := w.FA(fn)
	ios := streamCalls(fn, isStream)
	for i, ret := range returnsOf(fn) {
		key := fmt.Sprintf("%s|return%d", n, i+1)
		want := linConst(0)
		var parts []string
		for _, ic := range ios {
			if !instrDominates(ic.Call, ret) {
				if fa.Reaches(ic.Call.Block(), ret.Block()) && ic.Call.Block() != ret.Block() {
					// executed on some but not all paths: the count must then come through a phi; handled by leaves below
					continue
				}
				continue
			}
			if ic.Count == nil {
				r.Bad("R-COUNT", key, w.InstrPos(ic.Call), "the byte count of "+ic.Name+" is discarded")
				continue
			}
			want = want.Add(fa.Lin(ic.Count))
			parts = append(parts, ic.Name+"@"+w.InstrPos(ic.Call))
		}
		got := fa.Lin(ret.Results[countIdx])
		if got.Eq(want) {
			r.OK("R-COUNT", key, w.InstrPos(ret), fmt.Sprintf("count = %s = sum over {%s}", got, strings.Join(parts, ", ")))
		} else {
			r.Bad("R-COUNT", key, w.InstrPos(ret), fmt.Sprintf("returned count is %s but the I/O calls executed on this path moved %s bytes", got, want), "executed: "+strings.Join(parts, ", "))
		}
	}
	return ios
}

// ---------- taint ----------

type taintSink struct {
	Ins  ssa.Instruction
	Val  ssa.Value
	What string
}

// taintedSinks: values derived from sources that reach allocation sizes, slice bounds or indexes.
func taintedSinks(fn *ssa.Function, isSource func(ssa.Value) bool) (map[ssa.Value]bool, []taintSink) {
	tainted := map[ssa.Value]bool{}
	changed := true
	for changed {
		changed = false
		eachInstr(fn, func(ins ssa.Instruction) {
			v, ok := ins.(ssa.Value)
			if !ok || tainted[v] {
				return
			}
			t := false
			if isSource(v) {
				t = true
			} else {
				switch x := v.(type) {
				case *ssa.Convert:
					t = tainted[x.X]
				case *ssa.ChangeType:
					t = tainted[x.X]
				case *ssa.BinOp:
					switch x.Op {
					case token.EQL, token.NEQ, token.LSS, token.LEQ, token.GTR, token.GEQ:
					default:
						t = tainted[x.X] || tainted[x.Y]
					}
				case *ssa.UnOp:
					if x.Op != token.MUL {
						t = tainted[x.X]
					}
				case *ssa.Phi:
					for _, e := range x.Edges {
						if tainted[e] {
							t = true
						}
					}
				case *ssa.Extract:
					t = tainted[x.Tuple]
				}
			}
			if t {
				tainted[v] = true
				changed = true
			}
		})
	}
	var sinks []taintSink
	eachInstr(fn, func(ins ssa.Instruction) {
		switch x := ins.(type) {
		case *ssa.MakeSlice:
			if tainted[x.Len] {
				sinks = append(sinks, taintSink{ins, x.Len, "make length"})
			}
			if tainted[x.Cap] && x.Cap != x.Len {
				sinks = append(sinks, taintSink{ins, x.Cap, "make capacity"})
			}
		case *ssa.MakeMap:
			if x.Reserve != nil && tainted[x.Reserve] {
				sinks = append(sinks, taintSink{ins, x.Reserve, "map size hint"})
			}
		case *ssa.Slice:
			for _, b := range []ssa.Value{x.Low, x.High, x.Max} {
				if b != nil && tainted[b] {
					sinks = append(sinks, taintSink{ins, b, "slice bound"})
				}
			}
		case *ssa.IndexAddr:
			if tainted[x.Index] {
				sinks = append(sinks, taintSink{ins, x.Index, "index"})
			}
		case *ssa.Index:
			if tainted[x.Index] {
				sinks = append(sinks, taintSink{ins, x.Index, "index"})
			}
		case *ssa.Convert:
			// a 64-bit size from the input squeezed into int / uint (32 bits on 386, arm) or a narrower type: the high
			// bits are dropped silently and a huge declared size turns into a small plausible one
			if tainted[x.X] {
				src, ok1 := x.X.Type().Underlying().(*types.Basic)
				dst, ok2 := x.Type().Underlying().(*types.Basic)
				if ok1 && ok2 && (src.Kind() == types.Int64 || src.Kind() == types.Uint64) {
					switch dst.Kind() {
					case types.Int, types.Uint, types.Uintptr, types.Int32, types.Uint32, types.Int16, types.Uint16, types.Int8, types.Uint8:
						sinks = append(sinks, taintSink{ins, x.X, "conversion to " + dst.Name()})
					}
				}
			}
		case *ssa.Call:
			name := calleeName(x.Common())
			if name == "(*bytes.Buffer).Grow" || name == "(*strings.Builder).Grow" || name == "bytes.Repeat" || name == "strings.Repeat" {
				for _, a := range x.Common().Args {
					if tainted[a] {
						sinks = append(sinks, taintSink{ins, a, "argument of " + name})
					}
				}
			}
		}
	})
	return tainted, sinks
}

// CondsDNF: the conditions holding on entry to blk as a disjunction over its
// incoming paths (merge blocks of `a || b` style tests have no single dominating edge).
func (a *FA) CondsDNF(blk *ssa.BasicBlock, depth int) [][]Cond {
	if depth == 0 {
		raw := a.condsDNF(blk, 0)
		if ex := a.expandBoolPhis(raw); len(ex) > 0 {
			return ex
		}
		return raw
	}
	return a.condsDNF(blk, depth)
}

// expandBoolPhis threads conditions on boolean flags: a condition "P is true" where P is a merge of boolean
// constants (flag := false; if c { flag = true }) holds exactly on the paths that came in through an edge
// carrying that constant, so it is replaced by the conditions of those edges (one alternative per edge).
func (a *FA) expandBoolPhis(dnf [][]Cond) [][]Cond {
	for round := 0; round < 4; round++ {
		changed := false
		var next [][]Cond
		for _, cs := range dnf {
			idx := -1
			for i, c := range cs {
				if p, ok := c.V.(*ssa.Phi); ok && !isLoopHeaderPhi(p) {
					if b, ok := p.Type().Underlying().(*types.Basic); ok && b.Info()&types.IsBoolean != 0 {
						idx = i
						break
					}
				}
			}
			if idx < 0 {
				next = append(next, cs)
				continue
			}
			c := cs[idx]
			p := c.V.(*ssa.Phi)
			rest := append(append([]Cond{}, cs[:idx]...), cs[idx+1:]...)
			for i, e := range p.Edges {
				pred := p.Block().Preds[i]
				var extra []Cond
				if k, ok := e.(*ssa.Const); ok && k.Value != nil && k.Value.Kind() == constant.Bool {
					if constant.BoolVal(k.Value) != c.Pol {
						continue // this edge cannot have been taken
					}
				} else {
					v, pol := e, c.Pol
					for {
						u, ok := v.(*ssa.UnOp)
						if !ok || u.Op != token.NOT {
							break
						}
						v, pol = u.X, !pol
					}
					extra = append(extra, Cond{V: v, Pol: pol, If: c.If})
				}
				alt := append(append(append([]Cond{}, rest...), a.Conds(pred)...), selfCond(pred, p.Block())...)
				alt = append(alt, extra...)
				next = append(next, alt)
			}
			changed = true
		}
		if len(next) > 48 {
			return dnf
		}
		dnf = next
		if !changed {
			break
		}
	}
	// alternatives that assume a condition both true and false describe no path
	var feasible [][]Cond
	for _, cs := range dnf {
		pol := map[ssa.Value]bool{}
		ok := true
		for _, c := range cs {
			if p, seen := pol[c.V]; seen && p != c.Pol {
				ok = false
				break
			}
			pol[c.V] = c.Pol
		}
		if ok && a.eqConstContradiction(cs) {
			ok = false
		}
		if ok {
			feasible = append(feasible, cs)
		}
	}
	return feasible
}

// eqConstContradiction: the conditions say x == k1 and x == k2 (k1 != k2), or x == k and x != k, for some value x
// compared with integer constants (switch cases after a guard on the same variable).
func (a *FA) eqConstContradiction(cs []Cond) bool {
	eq := map[string]int64{}
	hasEq := map[string]bool{}
	ne := map[string]map[int64]bool{}
	for _, c := range cs {
		bo, ok := c.V.(*ssa.BinOp)
		if !ok || (bo.Op != token.EQL && bo.Op != token.NEQ) {
			continue
		}
		var x ssa.Value
		var k int64
		found := false
		for _, side := range [2][2]ssa.Value{{bo.X, bo.Y}, {bo.Y, bo.X}} {
			if kk, isK := constInt64(stripConv(side[1])); isK {
				if _, isC := stripConv(side[0]).(*ssa.Const); !isC && isIntType(side[0].Type()) {
					x, k, found = side[0], kk, true
					break
				}
			}
		}
		if !found {
			continue
		}
		key := a.VN(x)
		isEq := (bo.Op == token.EQL) == c.Pol
		if isEq {
			if hasEq[key] && eq[key] != k {
				return true
			}
			hasEq[key], eq[key] = true, k
		} else {
			if ne[key] == nil {
				ne[key] = map[int64]bool{}
			}
			ne[key][k] = true
		}
	}
	for key, k := range eq {
		if hasEq[key] && ne[key][k] {
			return true
		}
	}
	return false
}

func (a *FA) condsDNF(blk *ssa.BasicBlock, depth int) [][]Cond {
	isHeader := false
	for _, p := range blk.Preds {
		if blk.Dominates(p) {
			isHeader = true
		}
	}
	if len(blk.Preds) == 1 && !isHeader && depth <= 4 {
		// a straight chain of tests (switch cases, guard clauses) leads up to a merge whose alternatives matter: the
		// chain's own conditions are added to each of them (`if w != A && w != B {return}; switch w {case A: .. case B: ..}`
		// leaves no way past the last case)
		var chain []Cond
		b := blk
		for steps := 0; len(b.Preds) == 1 && steps < 12; steps++ {
			hdr := false
			for _, p := range b.Preds {
				if b.Dominates(p) {
					hdr = true
				}
			}
			if hdr {
				break
			}
			chain = append(chain, selfCond(b.Preds[0], b)...)
			b = b.Preds[0]
		}
		if len(b.Preds) > 1 && b != blk {
			up := a.condsDNF(b, depth+1)
			if len(up) > 1 {
				var out [][]Cond
				for _, cs := range up {
					out = append(out, append(append([]Cond{}, cs...), chain...))
				}
				return out
			}
		}
		return [][]Cond{a.Conds(blk)}
	}
	if len(blk.Preds) <= 1 || depth > 4 || isHeader {
		return [][]Cond{a.Conds(blk)}
	}
	var out [][]Cond
	for _, p := range blk.Preds {
		for _, cs := range a.condsDNF(p, depth+1) {
			set := append(append([]Cond{}, cs...), selfCond(p, blk)...)
			out = append(out, set)
			if len(out) > 32 {
				return [][]Cond{a.Conds(blk)}
			}
		}
	}
	return out
}

// ReportEOFSource: an end-of-input error (io.EOF / io.ErrUnexpectedEOF written as a literal) may only be produced
// as the translation of what a read on the stream reported: on an edge where the error of a stream read is known
// non-nil (or equal to io.EOF), or where that read's own byte count was compared with the requested size. A
// function that *predicts* truncation (from Len(), Size(), a remembered offset) returns without draining the
// reader: the count it reports is not the number of bytes that were available.
func ReportEOFSource(w *World, r *Report, n string, isStream func(ssa.Value) bool) {
	r.Rule("R-EOFSOURCE", "a literal io.EOF / io.ErrUnexpectedEOF is returned only on an edge where a read on the input stream has failed (its error tested non-nil or == io.EOF) or delivered a short count (its own count compared with the size asked for): end of input is observed by reading, never predicted, so the returned count is the number of bytes that were available")
	fn := findFunc(w, n)
	if fn == nil {
		r.Unknown("R-EOFSOURCE", n, "-", "function missing")
		return
	}
	fa := w.FA(fn)
	errIdx := -1
	res := fn.Signature.Results()
	for i := 0; i < res.Len(); i++ {
		if isErrorType(res.At(i).Type()) {
			errIdx = i
		}
	}
	if errIdx < 0 {
		return
	}
	ios := streamCalls(fn, isStream)
	readErr := map[ssa.Value]bool{}
	readCnt := map[ssa.Value]bool{}
	for _, ic := range ios {
		if ic.Count != nil {
			readCnt[ic.Count] = true
		}
		for _, es := range errorCalls(fn) {
			if es.Call == ic.Call && es.Err != nil {
				readErr[es.Err] = true
			}
		}
	}
	bad := ""
	nlit := 0
	for _, ret := range returnsOf(fn) {
		for _, leaf := range fa.leavesOf(ret.Results[errIdx], ret.Block(), 0) {
			g, ok := isGlobalErrVarLoad(unwrapErr(leaf.V))
			if !ok || (g != "io.EOF" && g != "io.ErrUnexpectedEOF") {
				continue
			}
			nlit++
			justified := false
			for _, c := range leaf.Conds {
				bo, ok := c.V.(*ssa.BinOp)
				if !ok {
					continue
				}
				for _, side := range [2][2]ssa.Value{{bo.X, bo.Y}, {bo.Y, bo.X}} {
					a, b := side[0], side[1]
					if readErr[a] {
						if cst, ok := b.(*ssa.Const); ok && cst.IsNil() && (bo.Op == token.NEQ) == c.Pol {
							justified = true // err != nil
						}
						if gn, ok := isGlobalErrVarLoad(b); ok && (gn == "io.EOF" || gn == "io.ErrUnexpectedEOF") && (bo.Op == token.EQL) == c.Pol {
							justified = true // err == io.EOF
						}
					}
					if readCnt[stripConv(a)] || readCnt[a] {
						switch bo.Op {
						case token.LSS, token.GEQ, token.NEQ, token.EQL, token.GTR, token.LEQ:
							justified = true // the read's own count decides
						}
					}
				}
			}
			if !justified {
				bad = fmt.Sprintf("%s is returned at %s on an edge where no read on the input has failed or come up short: end of input is predicted, not observed, and the bytes still available are left unread", g, w.InstrPos(ret))
			}
		}
	}
	r.Check(bad == "", "R-EOFSOURCE", n, w.Pos(fn.Pos()), bad, fmt.Sprintf("%d literal end-of-input results, each on an edge of a failed or short read", nlit))
}
