package main

import (
	"fmt"
	"go/token"
	"os"
	"strings"

	"golang.org/x/tools/go/ssa"
)

// swField returns the linear atom of a load of SectionWriter field f in fn (first load found), or false.
func swFieldLoad(fn *ssa.Function, f string) (ssa.Value, bool) {
	var out ssa.Value
	eachInstr(fn, func(ins ssa.Instruction) {
		if v, ok := ins.(ssa.Value); ok && out == nil {
			if b, name, ok := asFieldLoad(v); ok && name == f && len(fn.Params) > 0 && b == ssa.Value(fn.Params[0]) {
				out = v
			}
		}
	})
	return out, out != nil
}

func runC18(c *Ctx, w *World, r *Report) {
	names := []string{"iohelper.NewSectionWriter", "iohelper.AtToWriter", "iohelper.(*SectionWriter).Write", "iohelper.(*SectionWriter).WriteAt",
		"iohelper.(*SectionWriter).Seek", "iohelper.(*SectionWriter).Size"}
	fns, ok := requireFuncs(w, r, names...)
	reportWho(w, r, "iohelper", "SectionWriter", "off", "iohelper.NewSectionWriter", "iohelper.(*SectionWriter).Write", "iohelper.(*SectionWriter).Seek")
	reportWho(w, r, "iohelper", "SectionWriter", "base", "iohelper.NewSectionWriter")
	reportWho(w, r, "iohelper", "SectionWriter", "limit", "iohelper.NewSectionWriter")
	reportWho(w, r, "iohelper", "SectionWriter", "w", "iohelper.NewSectionWriter")
	if !ok {
		return
	}
	r.Rule("R-WHOCALL", "the underlying io.WriterAt is invoked only from SectionWriter.Write and SectionWriter.WriteAt")
	r.Rule("R-CONTAIN", "at every underlying WriteAt(buf, X): X is the cursor (Write) or base+off with off >= 0 (WriteAt); X - limit <= -1 on the calling edge; buf is p on the edge len(p) <= limit-X and p[0:limit-X] on the other edge, so X+len(buf) <= limit")
	r.Rule("R-SHORT", "io.ErrShortWrite is returned exactly on the truncation edge and on the at/after-end (or negative offset) edge; nil is returned only when not truncated; a truncated request returns the underlying error only if it is non-nil")
	r.Rule("R-CURSOR", "Write advances the cursor by exactly the count the underlying writer returned, once, on every path through the call; WriteAt and Size never store state")
	r.Rule("R-SEEK", "Seek: per whence the new cursor is offset + base / cursor / limit (SeekStart/SeekCurrent/SeekEnd); an unknown whence returns errWhence and stores nothing; the cursor is stored only on the edge new-base >= 0 exactly, the other edge returns errOffset; the result is new-base")
	r.Rule("R-CTOR", "NewSectionWriter sets w, base=off, cursor=off, limit=off+n; AtToWriter is NewSectionWriter(w, offset, MaxInt64-offset); Size returns limit-base")

	// ---- R-WHOCALL
	{
		var callers []string
		for fn := range w.AllFns {
			if fn.Blocks == nil || w.FnShortPkg(fn) != "iohelper" {
				continue
			}
			eachInstr(fn, func(ins ssa.Instruction) {
				call, ok := ins.(*ssa.Call)
				if !ok || !call.Common().IsInvoke() || call.Common().Method.Name() != "WriteAt" {
					return
				}
				if _, f, ok := asFieldLoad(call.Common().Value); ok && f == "w" {
					callers = append(callers, w.FuncName(fn))
				}
			})
		}
		bad := ""
		for _, cname := range callers {
			if cname != "iohelper.(*SectionWriter).Write" && cname != "iohelper.(*SectionWriter).WriteAt" {
				bad = "underlying writer invoked from " + cname
			}
		}
		if len(callers) < 2 {
			bad = fmt.Sprintf("expected underlying WriteAt calls in Write and WriteAt, found %d", len(callers))
		}
		r.Check(bad == "", "R-WHOCALL", "iohelper.SectionWriter.w", "-", bad, "callers: "+strings.Join(callers, ", "))
	}

	isUnder := func(v ssa.Value) bool {
		_, f, ok := asFieldLoad(v)
		return ok && f == "w"
	}
	for _, n := range []string{"iohelper.(*SectionWriter).Write", "iohelper.(*SectionWriter).WriteAt"} {
		fn := fns[n]
		fa := w.FA(fn)
		isWrite := strings.HasSuffix(n, ".Write")
		limV, ok1 := swFieldLoad(fn, "limit")
		if !ok1 {
			r.Bad("R-CONTAIN", n, w.Pos(fn.Pos()), "limit is never consulted")
			continue
		}
		lim := fa.Lin(limV)
		pParam := ssa.Value(fn.Params[1])
		lenP := linAtom("call:builtin len(p1)")
		ios := ReportCount(w, r, n, 0, isUnder)
		if len(ios) == 0 {
			r.Bad("R-CONTAIN", n, w.Pos(fn.Pos()), "no underlying WriteAt call")
			continue
		}
		var X Lin
		for i, ic := range ios {
			key := fmt.Sprintf("%s|call%d", n, i+1)
			args := ic.Call.Common().Args
			X = fa.Lin(args[1])
			bad := ""
			// position form
			if isWrite {
				if _, f, ok := asFieldLoad(stripConv(args[1])); !ok || f != "off" {
					bad = "Write does not write at the cursor: position is " + X.String()
				}
			} else {
				baseV, okb := swFieldLoad(fn, "base")
				if !okb || !X.Eq(fa.Lin(fn.Params[2]).Add(fa.Lin(baseV))) {
					bad = "WriteAt position is " + X.String() + ", expected base + off"
				}
				bd := fa.BoundsAt(ic.Call.Block(), fa.Lin(fn.Params[2]))
				if !(bd.HasLo && bd.Lo == 0) {
					bad = "WriteAt reaches the underlying writer with off in " + bd.String() + ": a negative offset would write before the section"
				}
			}
			// X < limit
			bd := fa.BoundsAt(ic.Call.Block(), X.Sub(lim))
			if !(bd.HasHi && bd.Hi == -1) {
				bad = "underlying write position is not established to be < limit exactly: X - limit in " + bd.String()
			}
			// buffer
			T := lenP.Sub(lim).Add(X) // len(p) - (limit - X)
			for _, leaf := range fa.leavesOf(args[0], ic.Call.Block(), 0) {
				b := fa.boundsFrom(leaf.Conds, T)
				if leaf.V == pParam {
					if !(b.HasHi && b.Hi == 0) {
						bad = "the whole buffer p is passed on an edge where len(p) - (limit-X) is in " + b.String() + "; it must be <= 0 exactly"
					}
					continue
				}
				sl, ok := leaf.V.(*ssa.Slice)
				if !ok || sl.X != pParam {
					bad = "buffer passed to the underlying writer is neither p nor a prefix of p"
					continue
				}
				if sl.Low != nil {
					if k, ok := constInt64(sl.Low); !ok || k != 0 {
						bad = "truncated buffer does not start at p[0]"
					}
				}
				if sl.High == nil || !fa.Lin(sl.High).Eq(lim.Sub(X)) {
					bad = "truncated buffer is not p[0:limit-X]"
				}
				if !(b.HasLo && b.Lo == 1) {
					bad = "p is truncated on an edge where len(p) - (limit-X) is in " + b.String() + "; truncation must happen exactly when it is >= 1"
				}
			}
			r.Check(bad == "", "R-CONTAIN", key, w.InstrPos(ic.Call), bad, "X = "+X.String()+"; X - limit <= -1; buffer = p | p[0:limit-X] split exactly at len(p) <= limit-X")
		}
		// ---- R-NOOVERFLOW (WriteAt): the caller's offset is bounded before the section start is added to it
		if !isWrite {
			r.Rule("R-NOOVERFLOW", "WriteAt compares the caller's offset with the section length (limit-base) BEFORE adding base to it: adding first lets base+off wrap around for offsets above MaxInt64-base, the wrapped (negative) position then passes the end test and the write escapes the section")
			badO := ""
			nadd := 0
			offP := ssa.Value(fn.Params[2])
			eachInstr(fn, func(ins ssa.Instruction) {
				bo, ok := ins.(*ssa.BinOp)
				if !ok || bo.Op != token.ADD {
					return
				}
				var other ssa.Value
				if stripConv(bo.X) == offP {
					other = bo.Y
				} else if stripConv(bo.Y) == offP {
					other = bo.X
				} else {
					return
				}
				if _, isC := constInt64(stripConv(other)); isC {
					return
				}
				nadd++
				// upper bound for off alone (constant) or for off + other - limit
				b1 := fa.BoundsAt(bo.Block(), fa.Lin(offP))
				b2 := fa.BoundsAt(bo.Block(), fa.Lin(bo).Sub(lim))
				if !(b1.HasHi || b2.HasHi) {
					badO = fmt.Sprintf("off + %s at %s is computed while off has no upper bound: it can wrap around int64", fa.Lin(other), w.InstrPos(ins))
				}
			})
			r.Check(badO == "", "R-NOOVERFLOW", n, w.Pos(fn.Pos()), badO, fmt.Sprintf("%d additions to the caller's offset, each after off < limit-base was established", nadd))
		}
		// ---- R-SHORT
		{
			errs := map[ssa.CallInstruction]ssa.Value{}
			for _, es := range errorCalls(fn) {
				errs[es.Call] = es.Err
			}
			bad := ""
			nshort := 0
			for _, ret := range returnsOf(fn) {
				for _, leaf := range fa.leavesOf(ret.Results[1], ret.Block(), 0) {
					// position of the I/O on this path: use the call that dominates, else the entry form
					var Xl Lin
					havX := false
					var under ssa.Value
					for _, ic := range ios {
						if instrDominates(ic.Call, ret) {
							Xl, havX = fa.Lin(ic.Call.Common().Args[1]), true
							under = errs[ic.Call]
						}
					}
					if !havX {
						Xl = X
					}
					T := lenP.Sub(lim).Add(Xl)
					tb := fa.boundsFrom(leaf.Conds, T)
					trunc, notTrunc := tb.HasLo && tb.Lo >= 1, tb.HasHi && tb.Hi <= 0
					ob := fa.boundsFrom(leaf.Conds, Xl.Sub(lim))
					outOfRange := ob.HasLo && ob.Lo >= 0
					if !isWrite {
						nb := fa.boundsFrom(leaf.Conds, fa.Lin(fn.Params[2]))
						if nb.HasHi && nb.Hi <= -1 {
							outOfRange = true
						}
					}
					if name, ok := isGlobalErrVarLoad(leaf.V); ok {
						if name != "io.ErrShortWrite" {
							bad = "returns " + name
							continue
						}
						nshort++
						if !(trunc || outOfRange) {
							bad = fmt.Sprintf("io.ErrShortWrite is returned at %s on an edge that is neither the truncation nor the at/after-end edge", w.InstrPos(ret))
						}
						continue
					}
					if cst, ok := leaf.V.(*ssa.Const); ok && cst.IsNil() {
						if !notTrunc {
							bad = fmt.Sprintf("nil error is returned at %s on an edge where the request may have been truncated", w.InstrPos(ret))
						}
						continue
					}
					if os.Getenv("LOWCHECK_DBG18") != "" {
						var cs []string
						for _, c := range leaf.Conds {
							cs = append(cs, fmt.Sprintf("%v:%s", c.Pol, fmtVal(w, c.V)))
						}
						fmt.Fprintln(os.Stderr, "LEAF", fmtVal(w, leaf.V), "trunc", trunc, "notTrunc", notTrunc, "T", T, tb, strings.Join(cs, " ; "))
					}
					if under != nil && leaf.V == under {
						if trunc && nilnessUnder(leaf.Conds, under) != 1 {
							bad = fmt.Sprintf("a truncated request returns the underlying error at %s even when it is nil: io.ErrShortWrite is lost", w.InstrPos(ret))
						}
						if !trunc && !notTrunc && nilnessUnder(leaf.Conds, under) != 1 {
							bad = fmt.Sprintf("the underlying error is returned at %s on an edge where truncation is undetermined", w.InstrPos(ret))
						}
						continue
					}
					bad = "unexpected error value " + fmtVal(w, leaf.V)
				}
			}
			if nshort < 2 && bad == "" {
				bad = fmt.Sprintf("expected io.ErrShortWrite on both the truncation and the at/after-end edge, found %d sites", nshort)
			}
			r.Check(bad == "", "R-SHORT", n, w.Pos(fn.Pos()), bad, fmt.Sprintf("%d ErrShortWrite leaves, each on a truncation / out-of-range edge; nil only when not truncated", nshort))
		}
		// ---- R-CURSOR
		{
			bad := ""
			nst := 0
			eachInstr(fn, func(ins ssa.Instruction) {
				st, ok := ins.(*ssa.Store)
				if !ok {
					return
				}
				fad, ok := st.Addr.(*ssa.FieldAddr)
				if !ok || fad.X != ssa.Value(fn.Params[0]) {
					return
				}
				if !isWrite {
					bad = "WriteAt stores field " + fieldName(fad)
					return
				}
				if fieldName(fad) != "off" {
					bad = "Write stores field " + fieldName(fad)
					return
				}
				nst++
				L := fa.Lin(st.Val)
				okForm := false
				if len(ios) == 1 && ios[0].Count != nil {
					rest := L.Sub(fa.Lin(ios[0].Count))
					if len(rest.T) == 1 && rest.K == 0 {
						for atom, coef := range rest.T {
							if _, f, ok := asFieldLoad(fa.AtomValue(atom)); ok && f == "off" && coef == 1 {
								okForm = true
							}
						}
					}
					if !instrDominates(ios[0].Call, st) {
						okForm = false
					}
					for _, ret := range returnsOf(fn) {
						if instrDominates(ios[0].Call, ret) && !instrDominates(st, ret) {
							bad = "a return after the underlying write skips the cursor update"
						}
					}
				}
				if !okForm {
					bad = "cursor is set to " + L.String() + ", expected cursor + (count returned by the underlying writer)"
				}
			})
			if isWrite && nst != 1 && bad == "" {
				bad = fmt.Sprintf("expected exactly one cursor update, found %d", nst)
			}
			r.Check(bad == "", "R-CURSOR", n, w.Pos(fn.Pos()), bad)
		}
	}
	errPropNoTranslation["iohelper.(*SectionWriter).Write"], errPropNoTranslation["iohelper.(*SectionWriter).WriteAt"] = true, true
	ReportErrProp(w, r, nil, "iohelper.(*SectionWriter).Write", "iohelper.(*SectionWriter).WriteAt")

	// ---- R-SEEK
	{
		n := "iohelper.(*SectionWriter).Seek"
		fn := fns[n]
		fa := w.FA(fn)
		bad := ""
		var st *ssa.Store
		eachInstr(fn, func(ins ssa.Instruction) {
			s2, ok := ins.(*ssa.Store)
			if !ok {
				return
			}
			fad, ok := s2.Addr.(*ssa.FieldAddr)
			if !ok || fad.X != ssa.Value(fn.Params[0]) {
				return
			}
			if fieldName(fad) != "off" {
				bad = "Seek stores field " + fieldName(fad)
				return
			}
			if st != nil {
				bad = "more than one cursor store"
			}
			st = s2
		})
		if st == nil {
			bad = "Seek never stores the cursor"
		} else {
			baseV, _ := swFieldLoad(fn, "base")
			offset := fa.Lin(fn.Params[1])
			whence := ssa.Value(fn.Params[2])
			want := map[int64]string{0: "base", 1: "off", 2: "limit"}
			seen := map[int64]bool{}
			for _, leaf := range fa.leavesOf(st.Val, st.Block(), 0) {
				L := fa.Lin(leaf.V).Sub(offset)
				field := ""
				if len(L.T) == 1 && L.K == 0 {
					for atom, coef := range L.T {
						if _, f, ok := asFieldLoad(fa.AtomValue(atom)); ok && coef == 1 {
							field = f
						}
					}
				}
				if field == "" {
					bad = "new cursor candidate " + fa.Lin(leaf.V).String() + " is not offset + base/cursor/limit"
					continue
				}
				// which whence value holds on this leaf
				wv := int64(-1)
				for _, cd := range leaf.Conds {
					bo, ok := cd.V.(*ssa.BinOp)
					if !ok || bo.Op != token.EQL || !cd.Pol || stripConv(bo.X) != whence {
						continue
					}
					if k, ok := constInt64(bo.Y); ok {
						wv = k
					}
				}
				if wv < 0 {
					bad = "cursor candidate offset+" + field + " is not selected by a whence == constant test"
					continue
				}
				seen[wv] = true
				if want[wv] != field {
					bad = fmt.Sprintf("whence %d computes offset + %s, io.Seeker semantics need offset + %s", wv, field, want[wv])
				}
			}
			for k := range want {
				if !seen[k] && bad == "" {
					bad = fmt.Sprintf("whence %d is not handled", k)
				}
			}
			// store guarded by new - base >= 0 exactly
			if baseV != nil {
				nb := fa.Lin(st.Val).Sub(fa.Lin(baseV))
				bd := fa.BoundsAt(st.Block(), nb)
				if !(bd.HasLo && bd.Lo == 0) {
					bad = "the cursor is stored with new-base in " + bd.String() + ": positions before the section start must be rejected exactly (new-base >= 0)"
				}
				// the test must compare the new position with base directly: the difference new-base wraps around for a
				// position that itself overflowed (offset + base/cursor/limit beyond the int64 range), and the wrapped
				// difference passes a `>= 0` test although the position lies before the section
				direct := false
				newL, baseL := fa.Lin(st.Val), fa.Lin(baseV)
				for _, cd := range fa.Conds(st.Block()) {
					bo, ok := cd.V.(*ssa.BinOp)
					if !ok {
						continue
					}
					if _, isRel := tokOp(bo.Op); !isRel {
						continue
					}
					lx, ly := fa.Lin(bo.X), fa.Lin(bo.Y)
					if lx.Eq(newL) && ly.Eq(baseL) || lx.Eq(baseL) && ly.Eq(newL) {
						direct = true
					}
				}
				if !direct && bad == "" {
					bad = "the start-of-section test is not a direct comparison of the new position with base (it tests a computed difference): for a target that overflows int64 the difference wraps and a position before the section start is accepted"
				}
				// returns
				for _, ret := range returnsOf(fn) {
					if instrDominates(st, ret) {
						if !fa.Lin(ret.Results[0]).Eq(nb) {
							bad = "Seek returns " + fa.Lin(ret.Results[0]).String() + ", expected new cursor - base"
						}
						if cst, ok := ret.Results[1].(*ssa.Const); !ok || !cst.IsNil() {
							bad = "successful Seek returns a non-nil error"
						}
						continue
					}
					// failing returns: 0 and errWhence / errOffset
					name, ok := isGlobalErrVarLoad(ret.Results[1])
					if !ok {
						bad = "a Seek return without a cursor store has no error"
						continue
					}
					rb := fa.BoundsAt(ret.Block(), nb)
					switch name {
					case "iohelper.errOffset":
						if !(rb.HasHi && rb.Hi == -1) {
							bad = "errOffset is returned on an edge other than new-base <= -1"
						}
					case "iohelper.errWhence":
						// whence is excluded from each of the three valid values: `whence == k` false (switch default) or
						// `whence != k` true (an up-front guard), for three different k
						excluded := map[int64]bool{}
						for _, cd := range fa.Conds(ret.Block()) {
							bo, ok := cd.V.(*ssa.BinOp)
							if !ok || !(bo.Op == token.EQL && !cd.Pol || bo.Op == token.NEQ && cd.Pol) {
								continue
							}
							for _, side := range [2][2]ssa.Value{{bo.X, bo.Y}, {bo.Y, bo.X}} {
								if k, isK := constInt64(stripConv(side[1])); isK && stripConv(side[0]) == whence {
									excluded[k] = true
								}
							}
						}
						nfalse := len(excluded)
						if nfalse < 3 {
							bad = "errWhence is returned although whence may be one of the three valid values"
						}
					default:
						bad = "Seek returns " + name
					}
				}
			}
		}
		r.Check(bad == "", "R-SEEK", n, w.Pos(fn.Pos()), bad, "whence 0/1/2 -> offset+base/cursor/limit; store iff new-base >= 0; result new-base; errWhence/errOffset otherwise")
	}
	// ---- R-CTOR
	{
		fn := fns["iohelper.NewSectionWriter"]
		fa := w.FA(fn)
		bad := ""
		got := map[string]bool{}
		eachInstr(fn, func(ins ssa.Instruction) {
			st, ok := ins.(*ssa.Store)
			if !ok {
				return
			}
			fad, ok := st.Addr.(*ssa.FieldAddr)
			if !ok {
				return
			}
			f := fieldName(fad)
			got[f] = true
			switch f {
			case "w":
				if st.Val != ssa.Value(fn.Params[0]) {
					bad = "w is not the writer argument"
				}
			case "base", "off":
				if !fa.Lin(st.Val).Eq(fa.Lin(fn.Params[1])) {
					bad = f + " is " + fa.Lin(st.Val).String() + ", expected off"
				}
			case "limit":
				if !fa.Lin(st.Val).Eq(fa.Lin(fn.Params[1]).Add(fa.Lin(fn.Params[2]))) {
					bad = "limit is " + fa.Lin(st.Val).String() + ", expected off+n"
				}
			}
		})
		for _, f := range []string{"w", "base", "off", "limit"} {
			if !got[f] && bad == "" {
				bad = "field " + f + " is not initialised"
			}
		}
		r.Check(bad == "", "R-CTOR", "iohelper.NewSectionWriter", w.Pos(fn.Pos()), bad, "{w, off, off, off+n}")

		at := fns["iohelper.AtToWriter"]
		fat := w.FA(at)
		badA := ""
		nctor := 0
		eachInstr(at, func(ins ssa.Instruction) {
			call, ok := ins.(*ssa.Call)
			if !ok || call.Common().StaticCallee() != fn {
				return
			}
			nctor++
			a := call.Common().Args
			if a[0] != ssa.Value(at.Params[0]) || !fat.Lin(a[1]).Eq(fat.Lin(at.Params[1])) {
				badA = "AtToWriter does not pass (w, offset)"
			}
			wantN := linConst(0x7fffffffffffffff).Sub(fat.Lin(at.Params[1]))
			if !fat.Lin(a[2]).Eq(wantN) {
				badA = "section length is " + fat.Lin(a[2]).String() + ", expected MaxInt64 - offset (no practical end, no overflow of off+n)"
			}
		})
		if nctor == 0 {
			badA = "AtToWriter does not call NewSectionWriter"
		}
		// every result is such a section
		for _, ret := range returnsOf(at) {
			for _, src := range resolvePhi(ret.Results[0]) {
				v := src
				if mi, ok := v.(*ssa.MakeInterface); ok {
					v = mi.X
				}
				if call, ok := v.(*ssa.Call); !ok || call.Common().StaticCallee() != fn {
					badA = "AtToWriter returns " + fmtVal(w, src) + " at " + w.InstrPos(ret) + ", not a NewSectionWriter(w, offset, MaxInt64-offset)"
				}
			}
		}
		r.Check(badA == "", "R-CTOR", "iohelper.AtToWriter", w.Pos(at.Pos()), badA, "NewSectionWriter(w, offset, MaxInt64-offset)")

		sz := fns["iohelper.(*SectionWriter).Size"]
		fsz := w.FA(sz)
		badS := ""
		for _, ret := range returnsOf(sz) {
			L := fsz.Lin(ret.Results[0])
			okS := len(L.T) == 2 && L.K == 0
			for atom, coef := range L.T {
				_, f, ok := asFieldLoad(fsz.AtomValue(atom))
				if !ok || !(f == "limit" && coef == 1 || f == "base" && coef == -1) {
					okS = false
				}
			}
			if !okS {
				badS = "Size returns " + L.String() + ", expected limit - base"
			}
		}
		r.Check(badS == "", "R-CTOR", "iohelper.(*SectionWriter).Size", w.Pos(sz.Pos()), badS, "limit - base")
	}
}

func init() {
	register(&Prop{
		ID: "C18", Level: "other",
		Explain: "Containment and accounting of SectionWriter as per-call preservation conditions (DESIGN.md 5/C18), decided on all paths: who may write each state field and who may call the underlying writer; at every underlying WriteAt the position is the cursor / base+off, strictly below limit, and the buffer is p or exactly p[0:limit-X]; ErrShortWrite exactly on truncation / out-of-range edges, underlying errors propagated; returned count = underlying count; cursor += count exactly once; Seek arithmetic per whence with exact reject-before-start guard; constructors. With the cursor invariant base <= off (constructor, Seek guard, Write adds a non-negative count; no other writer) these give containment for every call sequence by induction.",
		NotDec:  []string{"behaviour of the underlying writer (its count is trusted to be 0 <= n <= len(buf))", "the induction over call sequences is the stated argument; its steps are decided"},
		Trusted: []string{"go/ssa construction", "io.WriterAt contract: 0 <= n <= len(p)"},
		Quick:   []Config{cfgDefault, cfg386}, Thorough: []Config{cfgDefault, cfg386},
		Run: runC18,
	})
}
