package main

import (
	"fmt"
	"go/constant"
	"go/token"
	"go/types"
	"strings"

	"golang.org/x/tools/go/ssa"
)

func runC06(c *Ctx, w *World, r *Report) {
	names := append(append([]string{}, pbcmplFuncs...), "pbcmpl.newHeader", "pbcmpl.HeaderSize", "pbcmpl.Size", "pbcmpl.verStr", "pbcmpl.(*headerInfo).GetVersion",
		"pbcmpl.(*headerInfo).GetHeaderSize", "pbcmpl.(*headerInfo).GetBodySize")
	names = dropMissingHelpers(w, names, "pbcmpl.marshal")
	fns, ok := requireFuncs(w, r, names...)
	if !ok {
		return
	}
	r.Rule("R-LAYOUT", "the header struct is {Version [16]byte, HeaderSize uint64, BodySize uint64} in this order, 32 bytes under the configuration's sizes; versionLen = 16; fixedSize is initialised as binary.Size of that struct")
	r.Rule("R-SAMECONST", "writer and reader use the same objects: one `endian` variable at binary.Write and binary.Read; `fixedSize` sizes ReadHeader's buffer, fills the HeaderSize field, is returned by HeaderSize() and is the value the Unmarshal gate compares with")
	r.Rule("R-DECL", "the body size recorded in the header is len(data) of the very data that Marshal writes second; the header bytes written first encode that header; Header accessors return the fields they are named after")
	r.Rule("R-EXACT", "Unmarshal reads exactly GetBodySize() body bytes (identity/conversion only) and ReadHeader exactly fixedSize header bytes: exactly one frame is consumed")
	r.Rule("R-SIZE", "Size(msg) = HeaderSize(msg) + proto.Size(msg); HeaderSize = fixedSize")
	r.Rule("R-VERSION", "Marshal uses DefaultVer unless the message is a VersionedMessage (then its GetVersion()); newHeader rejects versions longer than versionLen and copies the version into the Version field; GetVersion is verStr of the whole Version field; Unmarshal returns the header's GetVersion()")

	pk := w.Pkg("pbcmpl")
	reportAccept(w, r, "pbcmpl.Unmarshal")
	// ---- R-LAYOUT
	{
		bad := ""
		var facts []string
		ht := pk.Type("header")
		if ht == nil {
			r.Unknown("R-LAYOUT", "pbcmpl.header", "-", "type header missing")
		} else {
			st, ok := ht.Type().Underlying().(*types.Struct)
			if !ok || st.NumFields() != 3 {
				bad = "header is not a 3-field struct"
			} else {
				want := []struct{ name, typ string }{{"Version", "[16]byte"}, {"HeaderSize", "uint64"}, {"BodySize", "uint64"}}
				for i, wf := range want {
					f := st.Field(i)
					ts := types.TypeString(f.Type(), nil)
					if ts == "[16]uint8" {
						ts = "[16]byte"
					}
					if f.Name() != wf.name || ts != wf.typ {
						bad = fmt.Sprintf("field %d is %s %s, the wire layout needs %s %s", i, f.Name(), ts, wf.name, wf.typ)
					}
				}
				if sz := w.Sizes.Sizeof(st); sz != 32 && bad == "" {
					bad = fmt.Sprintf("header is %d bytes, the property says 32", sz)
				}
				facts = append(facts, "struct{Version [16]byte; HeaderSize uint64; BodySize uint64} = 32 bytes")
			}
			r.Check(bad == "", "R-LAYOUT", "pbcmpl.header", w.Pos(ht.Pos()), bad, facts...)
		}
		if cst, ok := pk.Members["versionLen"].(*ssa.NamedConst); !ok {
			r.Unknown("R-LAYOUT", "pbcmpl.versionLen", "-", "constant versionLen missing")
		} else {
			v, _ := constant.Int64Val(cst.Value.Value)
			r.Check(v == 16, "R-LAYOUT", "pbcmpl.versionLen", w.Pos(cst.Pos()), fmt.Sprintf("versionLen = %d, the header reserves 16 bytes", v), "versionLen = 16")
		}
		// fixedSize initialiser
		badI := "fixedSize is not initialised in package init"
		if nc, ok := pk.Members["fixedSize"].(*ssa.NamedConst); ok && nc.Value != nil {
			// declared as a constant: its value must be the encoded size of the header struct (32: R-LAYOUT above)
			if k, exact := constant.Int64Val(constant.ToInt(nc.Value.Value)); exact && k == 32 {
				badI = ""
			} else {
				badI = fmt.Sprintf("the constant fixedSize is %d, the encoded header has 32 bytes", k)
			}
		}
		if ini := pk.Func("init"); ini != nil {
			eachInstr(ini, func(ins ssa.Instruction) {
				st, ok := ins.(*ssa.Store)
				if !ok || !isGlobal(st.Addr, "pbcmpl", "fixedSize") {
					return
				}
				call, ok := st.Val.(*ssa.Call)
				if !ok || calleeName(call.Common()) != "encoding/binary.Size" {
					if k, ok := constInt64(st.Val); ok && k == 32 {
						badI = ""
						return
					}
					badI = "fixedSize is not binary.Size(&header{}) (nor the constant 32)"
					return
				}
				arg := call.Common().Args[0]
				if mi, ok := arg.(*ssa.MakeInterface); ok && strings.HasSuffix(types.TypeString(mi.X.Type(), nil), "pbcmpl.header") {
					badI = ""
				} else {
					badI = "fixedSize is the binary.Size of something other than the header struct"
				}
			})
		}
		r.Check(badI == "", "R-LAYOUT", "pbcmpl.fixedSize", "-", badI, "fixedSize = binary.Size(&header{})")
	}
	// ---- R-SAMECONST: endian
	{
		var orders []ssa.Value
		var where []string
		for _, n := range []string{"pbcmpl.(*header).Marshal", "pbcmpl.(*header).Unmarshal"} {
			eachInstr(fns[n], func(ins ssa.Instruction) {
				call, ok := ins.(*ssa.Call)
				if !ok {
					return
				}
				nm := calleeName(call.Common())
				if nm != "encoding/binary.Write" && nm != "encoding/binary.Read" {
					return
				}
				o := call.Common().Args[1]
				if mi, ok := o.(*ssa.MakeInterface); ok {
					o = mi.X
				}
				orders = append(orders, o)
				where = append(where, nm+" in "+n)
				// the struct encoded/decoded is the receiver
				tgt := call.Common().Args[2]
				if mi, ok := tgt.(*ssa.MakeInterface); ok {
					tgt = mi.X
				}
				if tgt != ssa.Value(fns[n].Params[0]) {
					r.Bad("R-SAMECONST", n+"|target", w.InstrPos(call), "the value encoded/decoded is not the header receiver itself")
				}
			})
		}
		bad := ""
		// a side that encodes/decodes the fixed layout by hand (endian.Uint64(buf[16:]) ...) instead of through
		// encoding/binary's reflection: every field is moved at its own offset and width with the package's endian
		manual := map[string]string{}
		for _, n := range []string{"pbcmpl.(*header).Marshal", "pbcmpl.(*header).Unmarshal"} {
			if why, isManual := manualHeaderCodec(w, fns[n]); isManual {
				manual[n] = why
				if why != "" {
					bad = n + ": " + why
				} else {
					where = append(where, "field-by-field codec with pbcmpl.endian in "+n)
				}
			}
		}
		if bad != "" {
		} else if len(orders)+len(manual) != 2 {
			bad = fmt.Sprintf("expected one binary.Write and one binary.Read, found %d", len(orders))
		} else {
			// one byte-order object on both sides: the package's own `endian` variable, or the same variable of
			// encoding/binary named at both sites (binary.LittleEndian twice is as much one object as endian twice)
			var first *ssa.Global
			for i, o := range orders {
				u, ok := o.(*ssa.UnOp)
				var g *ssa.Global
				if ok && u.Op == token.MUL {
					g, _ = u.X.(*ssa.Global)
				}
				if g == nil || !(isGlobal(g, "pbcmpl", "endian") || g.Pkg != nil && g.Pkg.Pkg.Path() == "encoding/binary") {
					bad = where[i] + " does not use the package's `endian` variable (writer and reader may disagree on byte order)"
					continue
				}
				if first == nil {
					first = g
				} else if g != first {
					bad = where[i] + " uses " + g.Name() + " where the other side uses " + first.Name() + ": writer and reader disagree on the byte order"
				}
			}
		}
		r.Check(bad == "", "R-SAMECONST", "pbcmpl.endian", "-", bad, strings.Join(where, "; ")+": both load pbcmpl.endian")
		// endian is stored once, in init
		sites := 0
		for fn := range w.AllFns {
			if fn.Blocks == nil || !w.InModule(fn) {
				continue
			}
			eachInstr(fn, func(ins ssa.Instruction) {
				if st, ok := ins.(*ssa.Store); ok && (isGlobal(st.Addr, "pbcmpl", "endian") || isGlobal(st.Addr, "pbcmpl", "fixedSize")) && fn.Name() != "init" {
					sites++
				}
			})
		}
		r.Check(sites == 0, "R-SAMECONST", "pbcmpl.endian+fixedSize|init-only", "-", "endian/fixedSize are re-assigned outside package initialisation", "written in init only")
	}
	// ---- R-SAMECONST: fixedSize uses
	{
		// newHeader: HeaderSize field = fixedSize, BodySize field = param 1
		fn := fns["pbcmpl.newHeader"]
		badH, badB := "HeaderSize field is never set", "BodySize field is never set"
		eachInstr(fn, func(ins ssa.Instruction) {
			st, ok := ins.(*ssa.Store)
			if !ok {
				return
			}
			fad, ok := st.Addr.(*ssa.FieldAddr)
			if !ok {
				return
			}
			switch fieldName(fad) {
			case "HeaderSize":
				if derivesFromGlobal(w, st.Val, "pbcmpl", "fixedSize") {
					badH = ""
				} else {
					badH = "HeaderSize field is set to something other than fixedSize"
				}
			case "BodySize":
				if stripConv(st.Val) == ssa.Value(fn.Params[1]) {
					badB = ""
				} else {
					badB = "BodySize field is not the bodysize argument"
				}
			}
		})
		r.Check(badH == "", "R-SAMECONST", "pbcmpl.newHeader|HeaderSize", w.Pos(fn.Pos()), badH, "h.HeaderSize = uint64(fixedSize)")
		r.Check(badB == "", "R-DECL", "pbcmpl.newHeader|BodySize", w.Pos(fn.Pos()), badB, "h.BodySize = bodysize")
		// HeaderSize()
		hs := fns["pbcmpl.HeaderSize"]
		okHS := true
		for _, ret := range returnsOf(hs) {
			if !derivesFromGlobal(w, ret.Results[0], "pbcmpl", "fixedSize") {
				okHS = false
			}
		}
		r.Check(okHS, "R-SIZE", "pbcmpl.HeaderSize", w.Pos(hs.Pos()), "HeaderSize() does not return fixedSize", "returns fixedSize")
		// Size
		sz := fns["pbcmpl.Size"]
		fa := w.FA(sz)
		badS := ""
		for _, ret := range returnsOf(sz) {
			L := fa.Lin(ret.Results[0])
			nh, np := 0, 0
			for atom, coef := range L.T {
				v := fa.AtomValue(atom)
				if call, ok := v.(*ssa.Call); ok && coef == 1 {
					switch {
					case call.Common().StaticCallee() == hs && call.Common().Args[0] == ssa.Value(sz.Params[0]):
						nh++
						continue
					case strings.HasSuffix(calleeName(call.Common()), "proto.Size") && call.Common().Args[0] == ssa.Value(sz.Params[0]):
						np++
						continue
					}
				}
				if derivesFromGlobal(w, v, "pbcmpl", "fixedSize") && coef == 1 {
					nh++
					continue
				}
				badS = "Size has an extra term " + atom
			}
			if kf, isK := w.NamedConstInt("pbcmpl", "fixedSize"); isK && L.K == kf && nh == 0 {
				nh, L.K = 1, 0 // fixedSize declared as a constant: it is the constant part of the sum
			}
			if L.K != 0 || nh != 1 || np != 1 {
				badS = "Size is " + L.String() + ", expected HeaderSize(msg) + proto.Size(msg)"
			}
		}
		r.Check(badS == "", "R-SIZE", "pbcmpl.Size", w.Pos(sz.Pos()), badS, "Size = HeaderSize(msg) + proto.Size(msg)")
	}
	// ---- R-DECL: marshal wiring
	if fns["pbcmpl.marshal"] == nil {
		// the helper is dissolved into Marshal: the same wiring, read off Marshal itself
		reportDeclInMarshal(w, r, fns, pk)
	} else {
		fn := fns["pbcmpl.marshal"]
		bad := ""
		var dataCall, hdrCall, nh *ssa.Call
		eachInstr(fn, func(ins ssa.Instruction) {
			call, ok := ins.(*ssa.Call)
			if !ok {
				return
			}
			if call.Common().StaticCallee() == fns["pbcmpl.newHeader"] {
				nh = call
			}
			if isHeaderOwnMarshal(call, fns["pbcmpl.newHeader"]) {
				hdrCall = call
			}
			if strings.HasSuffix(calleeName(call.Common()), "proto.Marshal") {
				a := call.Common().Args[0]
				if a == ssa.Value(fn.Params[0]) {
					dataCall = call
				} else if mi, ok := a.(*ssa.MakeInterface); ok {
					if nhc, ok := mi.X.(*ssa.Call); ok && nhc.Common().StaticCallee() == fns["pbcmpl.newHeader"] {
						hdrCall = call
					}
				}
			}
		})
		if dataCall == nil || hdrCall == nil || nh == nil {
			bad = "marshal does not encode msg, build a header with newHeader and encode that header"
		} else {
			isData := func(v ssa.Value) bool {
				ex, ok := v.(*ssa.Extract)
				return ok && ex.Tuple == ssa.Value(dataCall) && ex.Index == 0
			}
			// newHeader(ver, uint64(len(data)))
			if nh.Common().Args[0] != ssa.Value(fn.Params[1]) {
				bad = "the header is not built with the version argument"
			}
			lc, ok := asCall(nh.Common().Args[1], "builtin len")
			if !ok || !isData(lc.Common().Args[0]) {
				bad = "the declared body size is not len(data) of the encoded message: " + w.FA(fn).Lin(nh.Common().Args[1]).String()
			}
			// success return = (header bytes, data, nil)
			nsucc := 0
			for _, ret := range returnsOf(fn) {
				if cst, ok := ret.Results[2].(*ssa.Const); !ok || !cst.IsNil() {
					continue
				}
				nsucc++
				ex, ok := ret.Results[0].(*ssa.Extract)
				if !ok || ex.Tuple != ssa.Value(hdrCall) || ex.Index != 0 {
					bad = "first result is not the encoded header"
				}
				if !isData(ret.Results[1]) {
					bad = "second result is not the encoded message whose length was declared"
				}
			}
			if nsucc == 0 {
				bad = "no success return"
			}
		}
		r.Check(bad == "", "R-DECL", "pbcmpl.marshal", w.Pos(fn.Pos()), bad, "data = proto.Marshal(msg); h = newHeader(ver, len(data)); return proto.Marshal(h), data")
		// Marshal passes msg and the chosen version
		mf := fns["pbcmpl.Marshal"]
		badM := "Marshal does not call marshal(msg, ver)"
		eachInstr(mf, func(ins ssa.Instruction) {
			call, ok := ins.(*ssa.Call)
			if !ok || call.Common().StaticCallee() != fn {
				return
			}
			badM = ""
			if call.Common().Args[0] != ssa.Value(mf.Params[1]) {
				badM = "marshal() is not given the message argument"
			}
			// version: phi(DefaultVer, vmsg.GetVersion())
			var hasDef, hasGet bool
			for _, s := range resolvePhi(call.Common().Args[1]) {
				if cst, ok := s.(*ssa.Const); ok && cst.Value != nil && cst.Value.Kind() == constant.String {
					dv, _ := pk.Members["DefaultVer"].(*ssa.NamedConst)
					if dv == nil || constant.StringVal(cst.Value) != constant.StringVal(dv.Value.Value) {
						badM = "default version is not DefaultVer"
					}
					hasDef = true
					continue
				}
				if gc, ok := s.(*ssa.Call); ok && gc.Common().IsInvoke() && gc.Common().Method.Name() == "GetVersion" {
					// receiver comes from a type assertion of msg
					ex, ok := gc.Common().Value.(*ssa.Extract)
					if ok {
						if ta, ok := ex.Tuple.(*ssa.TypeAssert); ok && ta.X == ssa.Value(mf.Params[1]) && ta.CommaOk {
							hasGet = true
							// guarded by ok
							okc := false
							for _, cd := range w.FA(mf).Conds(gc.Block()) {
								if e2, ok := cd.V.(*ssa.Extract); ok && e2.Tuple == ex.Tuple && e2.Index == 1 && cd.Pol {
									okc = true
								}
							}
							if !okc {
								badM = "GetVersion is called without the type assertion having succeeded"
							}
							continue
						}
					}
				}
				badM = "version passed to marshal is neither DefaultVer nor the message's GetVersion()"
			}
			if badM == "" && !(hasDef && hasGet) {
				badM = "version must be DefaultVer or the VersionedMessage's own version"
			}
			if badM == "" {
				badM = defaultOnlyWhenUnversioned(w.FA(mf), mf, call.Common().Args[1], call.Block())
			}
		})
		r.Check(badM == "", "R-VERSION", "pbcmpl.Marshal|version", w.Pos(mf.Pos()), badM, "ver = DefaultVer | msg.(VersionedMessage).GetVersion()")
	}
	// ---- accessors
	for _, acc := range [][2]string{{"pbcmpl.(*headerInfo).GetHeaderSize", "HeaderSize"}, {"pbcmpl.(*headerInfo).GetBodySize", "BodySize"}} {
		fn := fns[acc[0]]
		okA := true
		for _, ret := range returnsOf(fn) {
			_, f, ok := asFieldLoad(ret.Results[0])
			if !ok || f != acc[1] {
				okA = false
			}
		}
		r.Check(okA, "R-DECL", acc[0], w.Pos(fn.Pos()), acc[0]+" does not return the "+acc[1]+" field", "returns int64(h."+acc[1]+")")
	}
	// ---- R-VERSION: newHeader guard+copy, GetVersion, verStr
	{
		fn := fns["pbcmpl.newHeader"]
		fa := w.FA(fn)
		bad := ""
		// copy(h.Version[:], ver)
		var cp *ssa.Call
		eachInstr(fn, func(ins ssa.Instruction) {
			if call, ok := ins.(*ssa.Call); ok && calleeName(call.Common()) == "builtin copy" {
				cp = call
			}
		})
		// the same thing said with an element loop: h.Version[i] = ver[i] for i = 0 .. len(ver)-1
		loopCopy := false
		if cp == nil {
			eachInstr(fn, func(ins ssa.Instruction) {
				st, ok := ins.(*ssa.Store)
				if !ok {
					return
				}
				ia, ok := st.Addr.(*ssa.IndexAddr)
				if !ok {
					return
				}
				fad, ok := ia.X.(*ssa.FieldAddr)
				if !ok || fieldName(fad) != "Version" {
					return
				}
				srcX, srcI, ok := asElemLoad(st.Val)
				if lk, isLk := stripConv(st.Val).(*ssa.Lookup); isLk {
					srcX, srcI, ok = lk.X, lk.Index, true
				}
				if !ok || srcX != ssa.Value(fn.Params[0]) || !fa.Lin(srcI).Eq(fa.Lin(ia.Index)) {
					bad = "a byte stored into the Version field at " + w.InstrPos(st) + " is not the byte of ver at the same position"
					return
				}
				iv, ok := fa.InductionOf(ia.Index, st.Block())
				if !ok || !iv.FirstConst || iv.First != 0 || iv.Step != 1 || !iv.HasN || !iv.N.Eq(linAtom("call:builtin len(p0)")) {
					bad = "the loop that copies the version does not run over every byte 0 .. len(ver)-1"
					return
				}
				if ee := fa.earlyExit(iv); ee != "" {
					bad = "the loop that copies the version can be left early: " + ee
					return
				}
				bd := fa.BoundsAt(st.Block(), linAtom("call:builtin len(p0)"))
				if !(bd.HasHi && bd.Hi == 16) {
					bad = "the copy is not guarded by len(ver) <= 16 exactly (known: len(ver) in " + bd.String() + ")"
					return
				}
				loopCopy = true
			})
		}
		if loopCopy {
			// decided above
		} else if cp == nil {
			if bad == "" {
				bad = "version is never copied into the header"
			}
		} else {
			dst, ok := cp.Common().Args[0].(*ssa.Slice)
			okDst := false
			if ok && dst.Low == nil && dst.High == nil {
				if fad, ok := dst.X.(*ssa.FieldAddr); ok && fieldName(fad) == "Version" {
					okDst = true
				}
			}
			if !okDst || cp.Common().Args[1] != ssa.Value(fn.Params[0]) {
				bad = "copy is not copy(h.Version[:], ver)"
			}
			bd := fa.BoundsAt(cp.Block(), linAtom("call:builtin len(p0)"))
			if !(bd.HasHi && bd.Hi == 16) {
				bad = "the copy is not guarded by len(ver) <= 16 exactly (known: len(ver) in " + bd.String() + "): a longer version would be silently truncated"
			}
		}
		// the other edge panics
		pan := false
		eachInstr(fn, func(ins ssa.Instruction) {
			if _, ok := ins.(*ssa.Panic); ok {
				pan = true
			}
		})
		if !pan && bad == "" {
			bad = "an over-long version is not rejected"
		}
		r.Check(bad == "", "R-VERSION", "pbcmpl.newHeader", w.Pos(fn.Pos()), bad, "len(ver) <= 16 else panic; copy(h.Version[:], ver)")

		gv := fns["pbcmpl.(*headerInfo).GetVersion"]
		badG := "GetVersion does not return verStr(Version[:])"
		for _, ret := range returnsOf(gv) {
			call, ok := ret.Results[0].(*ssa.Call)
			if !ok || call.Common().StaticCallee() != fns["pbcmpl.verStr"] {
				continue
			}
			sl, ok := call.Common().Args[0].(*ssa.Slice)
			if ok && sl.Low == nil && sl.High == nil {
				if fad, ok := sl.X.(*ssa.FieldAddr); ok && fieldName(fad) == "Version" {
					badG = ""
				}
			}
		}
		r.Check(badG == "", "R-VERSION", "pbcmpl.(*headerInfo).GetVersion", w.Pos(gv.Pos()), badG, "verStr(h.Version[:])")

		// verStr: strips trailing NULs only: scans from len-1 down while buf[i]==0, returns buf[:i+1]
		vs := fns["pbcmpl.verStr"]
		fav := w.FA(vs)
		badV := ""
		nret := 0
		// the same thing said with the standard library: string(bytes.TrimRight(buf, "\x00")) (cutset = the NUL byte only)
		stdForm := len(returnsOf(vs)) > 0
		for _, ret := range returnsOf(vs) {
			okStd := false
			if cv, ok := ret.Results[0].(*ssa.Convert); ok {
				if call, ok := cv.X.(*ssa.Call); ok && calleeName(call.Common()) == "bytes.TrimRight" && len(call.Common().Args) == 2 && call.Common().Args[0] == ssa.Value(vs.Params[0]) {
					if c, ok := call.Common().Args[1].(*ssa.Const); ok && c.Value != nil && c.Value.Kind() == constant.String && constant.StringVal(c.Value) == "\x00" {
						okStd = true
					}
				}
			}
			if !okStd {
				stdForm = false
			}
		}
		if stdForm {
			r.OK("R-VERSION", "pbcmpl.verStr", w.Pos(vs.Pos()), "string(bytes.TrimRight(buf, NUL)): strips trailing NUL bytes only")
		}
		for _, ret := range returnsOf(vs) {
			if stdForm {
				break
			}
			nret++
			cv, ok := ret.Results[0].(*ssa.Convert)
			if !ok {
				badV = "result is not string(buf[:k])"
				continue
			}
			sl, ok := cv.X.(*ssa.Slice)
			if !ok || sl.X != ssa.Value(vs.Params[0]) || sl.Low != nil || sl.High == nil {
				badV = "result is not string(buf[:k])"
				continue
			}
			// the cut position follows a scan counter P that steps by -1: cut = P + c1 where the byte examined is
			// buf[P + c2] with c1 = c2 + 1 (cut right after the last byte kept), and the first byte examined is the
			// last one, buf[len(buf)-1]. (`for i = len-1; i >= 0 && buf[i] == 0; i--` cut i+1, or
			// `for n > 0 && buf[n-1] == 0 { n-- }` cut n.)
			L := fav.Lin(sl.High)
			okK := false
			for atom, coef := range L.T {
				p, ok := fav.AtomValue(atom).(*ssa.Phi)
				if !ok || coef != 1 || len(L.T) != 1 {
					continue
				}
				c1 := L.K
				var hasInit, hasStep bool
				var d int64
				for _, e := range p.Edges {
					el := fav.Lin(e)
					if dd := el.Sub(linAtom("call:builtin len(p0)")); dd.IsConst() {
						hasInit, d = true, dd.K
					} else if el.Eq(linAtom(atom).Add(linConst(-1))) {
						hasStep = true
					}
				}
				// the examined byte
				okByte := false
				eachInstr(vs, func(ins ssa.Instruction) {
					ia, ok := ins.(*ssa.IndexAddr)
					if !ok || ia.X != ssa.Value(vs.Params[0]) {
						return
					}
					if dd := fav.Lin(ia.Index).Sub(linAtom(atom)); dd.IsConst() {
						c2 := dd.K
						if c1 == c2+1 && d+c2 == -1 {
							okByte = true
						}
					}
				})
				okK = hasInit && hasStep && okByte
			}
			if !okK {
				badV = "cut position is " + L.String() + ", expected (index of last non-NUL byte)+1 scanning down from len(buf)-1"
			}
		}
		// the scan continues only on buf[i] == 0
		okCond := false
		eachInstr(vs, func(ins ssa.Instruction) {
			if bo, ok := ins.(*ssa.BinOp); ok && (bo.Op == token.EQL || bo.Op == token.NEQ) {
				if cont, _, ok := asElemLoad(bo.X); ok && cont == ssa.Value(vs.Params[0]) {
					if k, ok := constInt64(stripConv(bo.Y)); ok && k == 0 {
						okCond = true
					}
				}
			}
		})
		if !okCond && badV == "" {
			badV = "the scan does not test buf[i] against 0"
		}
		// the scan examines every byte down to index 0: at the load of buf[i] the index is known to be >= 0 exactly
		// (i > 0 leaves byte 0 unexamined: an all-NUL field, i.e. the empty version, comes back as "\x00")
		eachInstr(vs, func(ins ssa.Instruction) {
			ia, ok := ins.(*ssa.IndexAddr)
			if !ok || ia.X != ssa.Value(vs.Params[0]) {
				return
			}
			isScan := false
			for atom := range fav.Lin(ia.Index).T {
				if _, ok := fav.AtomValue(atom).(*ssa.Phi); ok {
					isScan = true
				}
			}
			if !isScan {
				return
			}
			bd := fav.BoundsAt(ia.Block(), fav.Lin(ia.Index))
			if badV == "" && (!bd.HasLo || bd.Lo != 0) {
				badV = fmt.Sprintf("the scan examines buf[i] only for i in %s: it must reach index 0 (and not go below)", bd)
			}
		})
		if !stdForm {
			r.Check(badV == "" && nret > 0, "R-VERSION", "pbcmpl.verStr", w.Pos(vs.Pos()), badV, "string(buf[:i+1]), i scanning down from len(buf)-1 while buf[i]==0")
		}
	}
	// ---- R-EXACT
	{
		fn := fns["pbcmpl.Unmarshal"]
		fa := w.FA(fn)
		bad := ""
		ios := streamCalls(fn, isParamStream(fn, 0))
		nbody := 0
		for _, ic := range ios {
			if strings.HasSuffix(ic.Name, "pbcmpl.ReadHeader") {
				continue
			}
			nbody++
			var n ssa.Value
			switch ic.Name {
			case "io.CopyN":
				n = ic.Call.Common().Args[2]
			case "io.ReadFull":
				if mk, ok := ic.Call.Common().Args[1].(*ssa.MakeSlice); ok {
					n = mk.Len
				}
			}
			if n == nil {
				bad = "body read length cannot be identified for " + ic.Name
				continue
			}
			src, ok := pbSizeSource(stripConv(n))
			if !ok || src != "GetBodySize" && src != "BodySize" {
				bad = "body read length is " + fa.Lin(n).String() + ", not exactly the header's body size"
			}
		}
		if nbody != 1 && bad == "" {
			bad = fmt.Sprintf("expected exactly one body read, found %d", nbody)
		}
		r.Check(bad == "", "R-EXACT", "pbcmpl.Unmarshal|body-length", w.Pos(fn.Pos()), bad, "body read length = GetBodySize()")
	}
	reportSuccessViaDecode(w, r, fns["pbcmpl.Unmarshal"])
	reportMsgFinal(w, r, fns["pbcmpl.Unmarshal"])
	reportWriteOrder(w, r, fns["pbcmpl.Marshal"])
	// shared with C07 (agreement of the size figures needs the counts)
	ReportCount(w, r, "pbcmpl.Marshal", 0, isParamStream(fns["pbcmpl.Marshal"], 0))
	ReportCount(w, r, "pbcmpl.Unmarshal", 0, isParamStream(fns["pbcmpl.Unmarshal"], 0))
	ReportCount(w, r, "pbcmpl.ReadHeader", 0, isParamStream(fns["pbcmpl.ReadHeader"], 0))
}

// isHeaderOwnMarshal: newHeader(..).Marshal(), the header's own encoder (the method proto.Marshal dispatches to for a
// Header) called directly on the freshly built header.
func isHeaderOwnMarshal(call *ssa.Call, newHeader *ssa.Function) bool {
	callee := call.Common().StaticCallee()
	if callee == nil || newHeader == nil || callee.Name() != "Marshal" || callee.Signature.Recv() == nil || callee.Pkg != newHeader.Pkg {
		return false
	}
	if len(call.Common().Args) != 1 {
		return false
	}
	nhc, ok := call.Common().Args[0].(*ssa.Call)
	return ok && nhc.Common().StaticCallee() == newHeader
}

// dropMissingHelpers: unexported helpers are anchors of convenience, not API: when one is gone (inlined into its
// caller by a maintainer) the rules read the caller instead, and its absence is not an undecided anchor.
func dropMissingHelpers(w *World, names []string, helpers ...string) []string {
	var out []string
	for _, n := range names {
		skip := false
		for _, h := range helpers {
			if n == h {
				if f := findFunc(w, n); f == nil || f.Blocks == nil {
					skip = true
				}
			}
		}
		if !skip {
			out = append(out, n)
		}
	}
	return out
}

// reportDeclInMarshal: R-DECL and the version clause of R-VERSION when Marshal does the work of the former helper
// marshal itself: data = proto.Marshal(msg); hdr = proto.Marshal(newHeader(ver, len(data))); Write(hdr); Write(data).
func reportDeclInMarshal(w *World, r *Report, fns map[string]*ssa.Function, pk *ssa.Package) {
	mf := fns["pbcmpl.Marshal"]
	bad := ""
	var dataCall, hdrCall, nh *ssa.Call
	eachInstr(mf, func(ins ssa.Instruction) {
		call, ok := ins.(*ssa.Call)
		if !ok {
			return
		}
		if call.Common().StaticCallee() == fns["pbcmpl.newHeader"] {
			nh = call
		}
		if isHeaderOwnMarshal(call, fns["pbcmpl.newHeader"]) {
			hdrCall = call
		}
		if strings.HasSuffix(calleeName(call.Common()), "proto.Marshal") {
			a := call.Common().Args[0]
			if a == ssa.Value(mf.Params[1]) {
				dataCall = call
			} else if mi, ok := a.(*ssa.MakeInterface); ok {
				if nhc, ok := mi.X.(*ssa.Call); ok && nhc.Common().StaticCallee() == fns["pbcmpl.newHeader"] {
					hdrCall = call
				}
			}
		}
	})
	var verArg ssa.Value
	if dataCall == nil || hdrCall == nil || nh == nil {
		bad = "Marshal does not encode msg, build a header with newHeader and encode that header"
	} else {
		isData := func(v ssa.Value) bool {
			ex, ok := v.(*ssa.Extract)
			return ok && ex.Tuple == ssa.Value(dataCall) && ex.Index == 0
		}
		isHdr := func(v ssa.Value) bool {
			ex, ok := v.(*ssa.Extract)
			return ok && ex.Tuple == ssa.Value(hdrCall) && ex.Index == 0
		}
		verArg = nh.Common().Args[0]
		lc, ok := asCall(nh.Common().Args[1], "builtin len")
		if !ok || !isData(lc.Common().Args[0]) {
			bad = "the declared body size is not len(data) of the encoded message: " + w.FA(mf).Lin(nh.Common().Args[1]).String()
		}
		// what is written: the encoded header, then the encoded message whose length was declared
		var writes []ssa.Value
		eachInstr(mf, func(ins ssa.Instruction) {
			if call, ok := ins.(*ssa.Call); ok && call.Common().IsInvoke() && call.Common().Method.Name() == "Write" && call.Common().Value == ssa.Value(mf.Params[0]) {
				writes = append(writes, call.Common().Args[0])
			}
		})
		if len(writes) != 2 || !isHdr(writes[0]) || !isData(writes[1]) {
			bad = "Marshal does not write the encoded header followed by the encoded message whose length it declared"
		}
	}
	r.Check(bad == "", "R-DECL", "pbcmpl.Marshal|wiring", w.Pos(mf.Pos()), bad, "data = proto.Marshal(msg); hdr = proto.Marshal(newHeader(ver, len(data))); Write(hdr); Write(data)")
	badM := ""
	if verArg == nil {
		badM = "no header is built"
	} else {
		var hasDef, hasGet bool
		for _, s := range resolvePhi(verArg) {
			if cst, ok := s.(*ssa.Const); ok && cst.Value != nil && cst.Value.Kind() == constant.String {
				dv, _ := pk.Members["DefaultVer"].(*ssa.NamedConst)
				if dv == nil || constant.StringVal(cst.Value) != constant.StringVal(dv.Value.Value) {
					badM = "default version is not DefaultVer"
				}
				hasDef = true
				continue
			}
			if gc, ok := s.(*ssa.Call); ok && gc.Common().IsInvoke() && gc.Common().Method.Name() == "GetVersion" {
				if ex, ok := gc.Common().Value.(*ssa.Extract); ok {
					if ta, ok := ex.Tuple.(*ssa.TypeAssert); ok && ta.X == ssa.Value(mf.Params[1]) && ta.CommaOk {
						hasGet = true
						okc := false
						for _, cd := range w.FA(mf).Conds(gc.Block()) {
							if e2, ok := cd.V.(*ssa.Extract); ok && e2.Tuple == ex.Tuple && e2.Index == 1 && cd.Pol {
								okc = true
							}
						}
						if !okc {
							badM = "GetVersion is called without the type assertion having succeeded"
						}
						continue
					}
				}
			}
			badM = "version given to newHeader is neither DefaultVer nor the message's GetVersion()"
		}
		if badM == "" && !(hasDef && hasGet) {
			badM = "version must be DefaultVer or the VersionedMessage's own version"
		}
		if badM == "" {
			badM = defaultOnlyWhenUnversioned(w.FA(mf), mf, verArg, nh.Block())
		}
	}
	r.Check(badM == "", "R-VERSION", "pbcmpl.Marshal|version", w.Pos(mf.Pos()), badM, "ver = DefaultVer | msg.(VersionedMessage).GetVersion()")
}

// defaultOnlyWhenUnversioned: the default version (a string constant) reaches the header only on paths where the
// type assertion msg.(VersionedMessage) failed: a message that carries a version - the empty one included, length 0
// is inside the property's range - keeps its own.
func defaultOnlyWhenUnversioned(fa *FA, mf *ssa.Function, ver ssa.Value, blk *ssa.BasicBlock) string {
	for _, lf := range fa.leavesOf(ver, blk, 0) {
		cst, ok := lf.V.(*ssa.Const)
		if !ok || cst.Value == nil || cst.Value.Kind() != constant.String {
			continue
		}
		failed := false
		for _, cd := range lf.Conds {
			if ex, ok := cd.V.(*ssa.Extract); ok && ex.Index == 1 && !cd.Pol {
				if ta, ok := ex.Tuple.(*ssa.TypeAssert); ok && ta.CommaOk && ta.X == ssa.Value(mf.Params[1]) {
					failed = true
				}
			}
		}
		if !failed {
			return "the default version is used on a path where the message IS a VersionedMessage (the type assertion did not fail there): a versioned message - one whose version is the empty string included - must be framed with its own version"
		}
	}
	return ""
}

// reportAccept (R-ACCEPT): every size Marshal can record is accepted by Unmarshal.
func reportAccept(w *World, r *Report, fname string) {
	r.Rule("R-ACCEPT", "Unmarshal rejects a body size on its own account (a return of a library error value on an edge decided by a comparison of the recorded body size with a constant) only for sizes no Marshal call can record: the rejected interval must not meet [0, 2^31-1] (protobuf bodies are < 2 GiB); a tighter cap refuses frames the library itself wrote")
	fn := findFunc(w, fname)
	if fn == nil {
		r.Unknown("R-ACCEPT", fname, "-", "function missing")
		return
	}
	fa := w.FA(fn)
	const maxBody = int64(1)<<31 - 1
	bad := ""
	nrej := 0
	errIdx := fn.Signature.Results().Len() - 1
	for _, ret := range returnsOf(fn) {
		if errIdx < 0 || errIdx >= len(ret.Results) {
			continue
		}
		if _, ok := isGlobalErrVarLoad(unwrapErr(ret.Results[errIdx])); !ok {
			continue // nil, or an error handed up from an I/O or decode call
		}
		for _, cs := range fa.CondsDNF(ret.Block(), 0) {
			lo, hi, hasLo, hasHi, any := int64(0), int64(0), false, false, false
			for _, cd := range cs {
				bo, ok := cd.V.(*ssa.BinOp)
				if !ok {
					continue
				}
				op, ok := tokOp(bo.Op)
				if !ok {
					continue
				}
				x, y := stripConv(bo.X), stripConv(bo.Y)
				var k int64
				if src, isS := pbSizeSource(x); isS && (src == "GetBodySize" || src == "BodySize") {
					kk, isK := constInt64(y)
					if !isK {
						continue
					}
					k = kk
				} else if src, isS := pbSizeSource(y); isS && (src == "GetBodySize" || src == "BodySize") {
					kk, isK := constInt64(x)
					if !isK {
						continue
					}
					k, op = kk, flipOp(op)
				} else {
					continue
				}
				if !cd.Pol {
					op = negOp(op)
				}
				any = true
				switch op { // size op k
				case opLT:
					if !hasHi || k-1 < hi {
						hi, hasHi = k-1, true
					}
				case opLE:
					if !hasHi || k < hi {
						hi, hasHi = k, true
					}
				case opGT:
					if !hasLo || k+1 > lo {
						lo, hasLo = k+1, true
					}
				case opGE:
					if !hasLo || k > lo {
						lo, hasLo = k, true
					}
				case opEQ:
					if !hasLo || k > lo {
						lo, hasLo = k, true
					}
					if !hasHi || k < hi {
						hi, hasHi = k, true
					}
				}
			}
			if !any {
				continue
			}
			nrej++
			// rejected interval [lo, hi] meets [0, maxBody]?
			if (!hasLo || lo <= maxBody) && (!hasHi || hi >= 0) && !(hasLo && hasHi && lo > hi) {
				l, h := "-inf", "+inf"
				if hasLo {
					l = fmt.Sprint(lo)
				}
				if hasHi {
					h = fmt.Sprint(hi)
				}
				bad = fmt.Sprintf("the return at %s rejects every frame whose recorded body size is in [%s, %s]: Marshal writes such frames (any body up to 2^31-1 bytes), they no longer round-trip", w.InstrPos(ret), l, h)
			}
		}
	}
	r.Check(bad == "", "R-ACCEPT", fname, w.Pos(fn.Pos()), bad, fmt.Sprintf("%d size-decided rejection edge(s), none meets [0, 2^31-1]", nrej))
}

func init() {
	register(&Prop{
		ID: "C06", Level: "other",
		Explain: "Writer/reader agreement of the pbcmpl frame format (DESIGN.md 5/C06), decided from types, constants and SSA: header layout and size, one endian and one fixedSize object on both sides, declared body size = len of the data written second, header written from that header, exact read lengths (one frame per call), byte accounting, Size = HeaderSize + proto.Size, version defaulting/guard/copy/strip. A disagreement in any of these breaks the round trip for some message; protobuf's own encode/decode equality is trusted.",
		NotDec:  []string{"protobuf encode/decode equality (library)", "independence from reader chunking is delegated to io.ReadFull/io.CopyN contracts"},
		Trusted: []string{"go/ssa + go/types sizes", "encoding/binary.Read/Write/Size are mutually inverse for fixed-size structs", "io.ReadFull/io.CopyN read exactly n bytes or fail"},
		Quick:   []Config{cfgDefault, cfg386}, Thorough: []Config{cfgDefault, cfg386, cfgArm64},
		Run: runC06,
	})
}

// manualHeaderCodec recognises a hand-written codec of the header struct in fn (receiver *header, parameter or
// result []byte): stores h.F = endian.UintN(buf[off:]) / calls endian.PutUintN(buf[off:], h.F) for the integer
// fields and copy between h.Version[:] and buf[:16]. isManual is false when fn uses no method of the endian variable.
// why is empty when every field is moved at types.Sizes' offset with its own width.
func manualHeaderCodec(w *World, fn *ssa.Function) (why string, isManual bool) {
	if fn == nil || len(fn.Params) == 0 {
		return "", false
	}
	pt, ok := fn.Params[0].Type().Underlying().(*types.Pointer)
	if !ok {
		return "", false
	}
	st, ok := pt.Elem().Underlying().(*types.Struct)
	if !ok {
		return "", false
	}
	var fields []*types.Var
	for i := 0; i < st.NumFields(); i++ {
		fields = append(fields, st.Field(i))
	}
	offs := w.Sizes.Offsetsof(fields)
	done := map[string]bool{}
	fa := w.FA(fn)
	sliceLow := func(v ssa.Value) (int64, bool) {
		sl, ok := v.(*ssa.Slice)
		if !ok {
			return 0, false
		}
		if sl.Low == nil {
			return 0, true
		}
		L := fa.Lin(sl.Low)
		return L.K, L.IsConst()
	}
	fieldOf := func(addr ssa.Value) (int, bool) {
		fad, ok := addr.(*ssa.FieldAddr)
		if !ok || fad.X != ssa.Value(fn.Params[0]) {
			return 0, false
		}
		return fad.Field, true
	}
	eachInstr(fn, func(ins ssa.Instruction) {
		call, ok := ins.(*ssa.Call)
		if !ok {
			return
		}
		nm := calleeName(call.Common())
		if nm == "builtin copy" {
			// Version: copy(h.Version[:], buf[:16]) or the reverse
			for k := 0; k < 2; k++ {
				sl, ok := call.Common().Args[k].(*ssa.Slice)
				if !ok {
					continue
				}
				fi, ok := fieldOf(sl.X)
				if !ok {
					continue
				}
				at, isArr := fields[fi].Type().Underlying().(*types.Array)
				if !isArr {
					continue
				}
				isManual = true
				lo, okLo := sliceLow(call.Common().Args[1-k])
				if !okLo || lo != offs[fi] {
					why = fmt.Sprintf("field %s is copied from/to byte offset %d, its offset in the header is %d", fields[fi].Name(), lo, offs[fi])
				}
				if o, ok := call.Common().Args[1-k].(*ssa.Slice); ok && o.High != nil {
					if hi, isK := constInt64(o.High); !isK || hi != offs[fi]+at.Len() {
						why = fmt.Sprintf("field %s is copied with upper bound %s, expected %d", fields[fi].Name(), fa.Lin(o.High), offs[fi]+at.Len())
					}
				} else if k == 1 {
					why = "the copy of " + fields[fi].Name() + " is not bounded to the field's width"
				}
				done[fields[fi].Name()] = true
			}
			return
		}
		f := call.Common().StaticCallee()
		if f == nil || f.Pkg == nil || f.Pkg.Pkg.Path() != "encoding/binary" || f.Signature.Recv() == nil {
			return
		}
		// the receiver must be the package's endian variable
		recv := call.Common().Args[0]
		if u, ok := recv.(*ssa.UnOp); !ok || u.Op != token.MUL || !isGlobal(u.X, "pbcmpl", "endian") {
			isManual = true
			why = "a byte-order method is called on something other than the package's `endian` variable at " + w.InstrPos(call)
			return
		}
		isManual = true
		name := f.Name()
		width := map[string]int64{"Uint16": 2, "Uint32": 4, "Uint64": 8, "PutUint16": 2, "PutUint32": 4, "PutUint64": 8}[name]
		if width == 0 {
			why = "unexpected byte-order method " + name
			return
		}
		lo, okLo := sliceLow(call.Common().Args[1])
		if !okLo {
			why = "the byte offset of " + name + " at " + w.InstrPos(call) + " is not a constant"
			return
		}
		fi := -1
		if strings.HasPrefix(name, "Put") {
			if _, fn2, ok := asFieldLoad(call.Common().Args[2]); ok {
				for i, fv := range fields {
					if canonField(fn.Params[0].Type(), i) == fn2 || fv.Name() == fn2 {
						fi = i
					}
				}
			}
		} else if call.Referrers() != nil {
			for _, ref := range *call.Referrers() {
				if stt, ok := ref.(*ssa.Store); ok {
					if i, ok := fieldOf(stt.Addr); ok {
						fi = i
					}
				}
			}
		}
		if fi < 0 {
			why = "the value moved by " + name + " at " + w.InstrPos(call) + " is not a field of the header"
			return
		}
		if lo != offs[fi] {
			why = fmt.Sprintf("field %s is moved at byte offset %d, its offset in the header is %d", fields[fi].Name(), lo, offs[fi])
		}
		if w.Sizes.Sizeof(fields[fi].Type()) != width {
			why = fmt.Sprintf("field %s is moved with %s (%d bytes), the field has %d", fields[fi].Name(), name, width, w.Sizes.Sizeof(fields[fi].Type()))
		}
		done[fields[fi].Name()] = true
	})
	if isManual && why == "" {
		for _, fv := range fields {
			if !done[fv.Name()] {
				why = "field " + fv.Name() + " of the header is not encoded/decoded"
			}
		}
	}
	return
}
