package main

import (
	"fmt"
	"go/token"
	"go/types"
	"strings"

	"golang.org/x/tools/go/ssa"
)

// unsafeCasts finds  *(*T2)(unsafe.Pointer(p))  with p of type *T1 and reports (T1, T2, the cast instruction, the source pointer).
type unsafeCast struct {
	Ins    ssa.Instruction
	From   types.Type // T1
	To     types.Type // T2
	SrcPtr ssa.Value
}

func unsafeCasts(fn *ssa.Function) []unsafeCast {
	var out []unsafeCast
	eachInstr(fn, func(ins ssa.Instruction) {
		cv, ok := ins.(*ssa.Convert)
		if !ok {
			return
		}
		toPtr, ok := cv.Type().Underlying().(*types.Pointer)
		if !ok {
			return
		}
		b, ok := cv.X.Type().Underlying().(*types.Basic)
		if !ok || b.Kind() != types.UnsafePointer {
			return
		}
		inner, ok := cv.X.(*ssa.Convert)
		if !ok {
			return
		}
		fromPtr, ok := inner.X.Type().Underlying().(*types.Pointer)
		if !ok {
			return // uintptr -> pointer etc.: not an object reinterpretation
		}
		out = append(out, unsafeCast{Ins: cv, From: fromPtr.Elem(), To: toPtr.Elem(), SrcPtr: inner.X})
	})
	return out
}

func runC09(c *Ctx, w *World, r *Report) {
	names := []string{"bitstr.New", "bitstr.Len", "bitstr.Cmp", "bitstr.CmpUpto", "bitstr.StrCmpUpto", "bitstr.cmpBytes"}
	fns, ok := requireFuncs(w, r, names...)
	ReportScale(w, r, names...)
	ReportPair(w, r, names...)
	ReportRound(w, r, names...)
	reportFresh(w, r, "bitstr.New")
	if !ok {
		return
	}
	r.Rule("R-UNSAFE-SIZE", "E0: *(*T2)(unsafe.Pointer(&x)) with x of type T1 requires Sizeof(T2) <= Sizeof(T1) under the configuration's sizes (rule 1 of package unsafe); reading a larger T2 reads memory that does not belong to x (here: a slice header's cap word after a string header)")
	r.Rule("R-DELEGATE", "StrCmpUpto returns exactly CmpUpto(view of its string argument, b): same b, a slice aliasing the string's bytes with len = len(a) and, when a full header is built, cap = len(a)")
	r.Rule("R-NEW", "New's encoding: empty aligned range -> {0xff}; otherwise l = ((toBit+7)>>3) - (fromBit>>3) payload bytes copied from s[fromBit>>3:(toBit+7)>>3] into a buffer of l+1 bytes, byte l-1 masked and byte l set to the same mask byte taken from RMask[(-toBit) mod 8]")
	r.Rule("R-LEN", "Len = 8*len(bs) - 16 + popcount8(bs[len(bs)-1])")
	r.Rule("R-CMP", "Cmp compares all bytes (mask byte included) when the byte lengths are equal, the payloads bs[:len-1] otherwise")
	r.Rule("R-LASTBYTE", "CmpUpto: an empty encoding (len(b) == 1) compares equal; otherwise the last payload position k = len(b)-2 is compared as a[k] & b[k+1] (b's mask byte) against b[k]")

	// ---- E0 over the whole package
	ncast := 0
	for _, fn := range w.SourceFuncs("bitstr") {
		for _, uc := range unsafeCasts(fn) {
			ncast++
			s1, s2 := w.Sizes.Sizeof(uc.From), w.Sizes.Sizeof(uc.To)
			key := w.FuncName(fn) + "|" + types.TypeString(uc.From, nil) + "->" + types.TypeString(uc.To, nil)
			if s2 > s1 {
				r.Bad("R-UNSAFE-SIZE", key, w.InstrPos(uc.Ins), fmt.Sprintf("a %s (%d bytes) is reinterpreted as %s (%d bytes): the extra %d bytes (the slice's cap) are whatever lies after the object; CmpUpto then slices with a garbage capacity and can panic where the []byte variant does not", types.TypeString(uc.From, nil), s1, types.TypeString(uc.To, nil), s2, s2-s1))
			} else {
				r.OK("R-UNSAFE-SIZE", key, w.InstrPos(uc.Ins), fmt.Sprintf("Sizeof(%s)=%d <= Sizeof(%s)=%d", types.TypeString(uc.To, nil), s2, types.TypeString(uc.From, nil), s1))
			}
		}
	}
	r.Units["unsafe_casts_bitstr"] = ncast

	// ---- R-SIGNSUB (generic): ordering by the sign of a wrapped difference
	r.Rule("R-SIGNSUB", "no ordering decision is taken from the sign of a difference of two full-width unsigned values (int64(x-y) < 0, >>63 ...): the subtraction wraps when the operands differ by 2^63 or more, which inverts the order for bytes >= 0x80 in the leading position")
	for _, fn := range w.SourceFuncs("bitstr") {
		bad := ""
		eachInstr(fn, func(ins ssa.Instruction) {
			cv, ok := ins.(*ssa.Convert)
			if !ok || !isIntType(cv.Type()) || isUnsigned(cv.Type()) || w.Sizes.Sizeof(cv.Type()) < 8 {
				return
			}
			sub, ok := cv.X.(*ssa.BinOp)
			if !ok || sub.Op != token.SUB || !isUnsigned(sub.Type()) || w.Sizes.Sizeof(sub.Type()) < 8 {
				return
			}
			// sign consulted?
			if cv.Referrers() == nil {
				return
			}
			for _, ref := range *cv.Referrers() {
				bo, ok := ref.(*ssa.BinOp)
				if !ok {
					continue
				}
				switch bo.Op {
				case token.LSS, token.GTR, token.LEQ, token.GEQ:
					bad = fmt.Sprintf("the sign of the wrapped difference at %s decides an ordering at %s", w.InstrPos(cv), w.InstrPos(bo))
				case token.SHR:
					if k, ok := constInt64(bo.Y); ok && k >= 63 {
						bad = fmt.Sprintf("the sign bit of the wrapped difference at %s is extracted at %s", w.InstrPos(cv), w.InstrPos(bo))
					}
				}
			}
		})
		r.Check(bad == "", "R-SIGNSUB", w.FuncName(fn), w.Pos(fn.Pos()), bad)
	}
	// ---- R-CMPBYTES: every +-1 verdict of cmpBytes comes from a direct unsigned comparison
	{
		n := "bitstr.cmpBytes"
		fn := fns[n]
		fa := w.FA(fn)
		r.Rule("R-CMPBYTES", "cmpBytes returns -1 / +1 only on an edge where a[i] < b[i] / a[i] > b[i] was tested for one index i (bytes compared as unsigned values, first difference wins because the scan starts at 0 and stops at the first inequality), -1 also when a is exhausted first (i < len(b)); otherwise 0 or bytes.Compare(a, b)")
		bad := ""
		elemCmp := func(cd Cond) (less, greater bool) {
			bo, ok := cd.V.(*ssa.BinOp)
			if !ok {
				return
			}
			op, isCmp := tokOp(bo.Op)
			if !isCmp {
				return
			}
			if !cd.Pol {
				op = negOp(op)
			}
			ca, ia, ok1 := asElemLoad(bo.X)
			cb, ib, ok2 := asElemLoad(bo.Y)
			if !ok1 || !ok2 || fa.VN(ia) != fa.VN(ib) {
				return
			}
			if !isUnsigned(bo.X.Type()) {
				return
			}
			if paramIndex(ca) == 1 && paramIndex(cb) == 0 {
				op = flipOp(op)
			} else if !(paramIndex(ca) == 0 && paramIndex(cb) == 1) {
				return
			}
			return op == opLT, op == opGT
		}
		// the same comparison reached through its complement: a[i] != b[i] together with not a[i] < b[i] is a[i] > b[i]
		elemRel := func(cd Cond) (op int, idxVN string, ok bool) {
			bo, isBo := cd.V.(*ssa.BinOp)
			if !isBo {
				return 0, "", false
			}
			o, isCmp := tokOp(bo.Op)
			if !isCmp {
				return 0, "", false
			}
			if !cd.Pol {
				o = negOp(o)
			}
			ca, ia, ok1 := asElemLoad(bo.X)
			cb, ib, ok2 := asElemLoad(bo.Y)
			if !ok1 || !ok2 || fa.VN(ia) != fa.VN(ib) || !isUnsigned(bo.X.Type()) {
				return 0, "", false
			}
			if paramIndex(ca) == 1 && paramIndex(cb) == 0 {
				o = flipOp(o)
			} else if !(paramIndex(ca) == 0 && paramIndex(cb) == 1) {
				return 0, "", false
			}
			return int(o), fa.VN(ia), true
		}
		impliedCmp := func(conds []Cond) (less, greater bool) {
			ne, ge, le := map[string]bool{}, map[string]bool{}, map[string]bool{}
			for _, cd := range conds {
				if o, iv, ok := elemRel(cd); ok {
					switch o {
					case int(opNE):
						ne[iv] = true
					case int(opGE):
						ge[iv] = true
					case int(opLE):
						le[iv] = true
					}
				}
			}
			for iv := range ne {
				if ge[iv] {
					greater = true
				}
				if le[iv] {
					less = true
				}
			}
			return
		}
		// the scan counter: the loop-header phi the elements of a are indexed with
		var scanIdx ssa.Value // the index expression itself: the counter, or counter+1 in a `range` loop (go/ssa rotates those)
		scanIV := func() *ssa.Phi {
			var out *ssa.Phi
			eachInstr(fn, func(ins ssa.Instruction) {
				v, ok := ins.(ssa.Value)
				if !ok || out != nil {
					return
				}
				if c, idx, ok := asElemLoad(v); ok && paramIndex(c) == 0 {
					if iv, ok := fa.InductionOf(idx, ins.Block()); ok && iv.Phi != nil {
						out = iv.Phi
						scanIdx = idx
					}
				}
			})
			return out
		}
		for _, ret := range returnsOf(fn) {
			for _, leaf := range fa.leavesOf(ret.Results[0], ret.Block(), 0) {
				k, isC := constInt64(stripConv(leaf.V))
				if isC && leafContradictsOwnTest(ret.Results[0], k, leaf.Conds) {
					continue // `if r := cmp(..); r != 0 { return r }`: the alternative r = 0 does not return here
				}
				if !isC {
					if call, ok := asCall(leaf.V, "bytes.Compare"); ok && paramIndex(call.Common().Args[0]) == 0 && paramIndex(call.Common().Args[1]) == 1 {
						continue
					}
					bad = "result " + fmtVal(w, leaf.V) + " is neither a constant verdict nor bytes.Compare(a, b)"
					continue
				}
				// "equal" (and "a is a prefix of b") may only be said once every byte of a was compared: the scan index has
				// reached len(a), or stands on the last byte and that byte compared equal
				if k == 0 || k == -1 {
					if ivp := scanIV(); ivp != nil {
						exhausted := k == 0
						if k == -1 {
							for _, cd := range leaf.Conds {
								if D, op, ok := fa.CondRel(cd); ok && (op == opLT && D.T["call:builtin len(p1)"] == -1 || op == opGT && D.T["call:builtin len(p1)"] == 1) {
									exhausted = true
								}
							}
							if l, _ := impliedCmp(leaf.Conds); l {
								exhausted = false
							}
							for _, cd := range leaf.Conds {
								if l, _ := elemCmp(cd); l {
									exhausted = false
								}
							}
						}
						if exhausted {
							d := fa.Lin(scanIdx).Sub(linAtom("call:builtin len(p0)")) // the next index the scan would examine
							bd := fa.boundsFrom(leaf.Conds, d)
							okCov := bd.HasLo && bd.Lo >= 0
							if !okCov && bd.HasLo && bd.Lo >= -1 {
								// the last byte, compared equal on this path
								for _, cd := range leaf.Conds {
									if o, iv, ok := elemRel(cd); ok && o == int(opEQ) && (iv == fa.VN(ivp) || iv == fa.VN(scanIdx)) {
										okCov = true
									}
								}
							}
							if !okCov {
								bad = fmt.Sprintf("the verdict %d (nothing differs) is returned at %s where the scan index is only known to satisfy (i - len(a)) in %s: bytes of a behind it were never compared", k, w.InstrPos(ret), bd)
							}
						}
					}
				}
				if k == 0 {
					continue
				}
				okV := false
				if l, g := impliedCmp(leaf.Conds); k == -1 && l || k == 1 && g {
					okV = true
				}
				for _, cd := range leaf.Conds {
					l, g := elemCmp(cd)
					if k == -1 && l || k == 1 && g {
						okV = true
					}
					// a exhausted first: i - len(b) <= -1
					if k == -1 {
						if D, op, ok := fa.CondRel(cd); ok {
							// i < len(b), written either way round
							if op == opLT && D.T["call:builtin len(p1)"] == -1 || op == opGT && D.T["call:builtin len(p1)"] == 1 {
								okV = true
							}
						}
					}
				}
				if !okV {
					bad = fmt.Sprintf("verdict %d is returned at %s on an edge without a direct unsigned byte comparison a[i] %s b[i]", k, w.InstrPos(ret), map[int64]string{-1: "<", 1: ">"}[k])
				}
			}
		}
		r.Check(bad == "", "R-CMPBYTES", n, w.Pos(fn.Pos()), bad, "verdicts come from a[i] < b[i] / a[i] > b[i] / exhaustion / bytes.Compare")
	}
	// ---- R-DELEGATE
	{
		n := "bitstr.StrCmpUpto"
		fn := fns[n]
		fa := w.FA(fn)
		bad := ""
		for _, ret := range returnsOf(fn) {
			call, ok := ret.Results[0].(*ssa.Call)
			if !ok || call.Common().StaticCallee() != fns["bitstr.CmpUpto"] {
				bad = "result is not the result of CmpUpto"
				continue
			}
			if call.Common().Args[1] != ssa.Value(fn.Params[1]) {
				bad = "CmpUpto is not given the same b"
			}
			a0 := call.Common().Args[0]
			e := RunEffects(w)
			ctx := &effCtx{e: e, fn: fn, memo: map[ssa.Value]rootset{}, active: map[ssa.Value]bool{}, stores: map[ssa.Value][]ssa.Value{}}
			eachInstr(fn, func(ins ssa.Instruction) {
				if st, ok := ins.(*ssa.Store); ok {
					if al, ok := cellBase(st.Addr).(*ssa.Alloc); ok {
						ctx.stores[al] = append(ctx.stores[al], st.Val)
					}
				}
			})
			rs := ctx.roots(a0)
			if !rs[root{kind: rkParam, idx: 0}] {
				// []byte(a) copy is fine too
				if cv, ok := a0.(*ssa.Convert); !ok || cv.X != ssa.Value(fn.Params[0]) {
					bad = "the bytes compared are not the string argument's bytes (roots: " + strings.Join(rs.strs(), ",") + ")"
				}
			}
			// when built through a struct header: cap field = len(a)
			for _, uc := range unsafeCasts(fn) {
				if st, ok := uc.From.Underlying().(*types.Struct); ok {
					okCap := false
					if st.NumFields() == 2 && isStringType(st.Field(0).Type()) {
						eachInstr(fn, func(ins ssa.Instruction) {
							if s2, ok := ins.(*ssa.Store); ok {
								if fad, ok := s2.Addr.(*ssa.FieldAddr); ok && fad.Field == 1 && fad.X == uc.SrcPtr {
									if fa.Lin(s2.Val).Eq(linAtom("call:builtin len(p0)")) {
										okCap = true
									}
								}
								if fad, ok := s2.Addr.(*ssa.FieldAddr); ok && fad.Field == 0 && fad.X == uc.SrcPtr && s2.Val != ssa.Value(fn.Params[0]) {
									bad = "the header's string field is not the argument"
								}
							}
						})
					}
					if !okCap {
						bad = "the slice header built for the cast does not set cap = len(a)"
					}
				}
			}
		}
		r.Check(bad == "", "R-DELEGATE", n, w.Pos(fn.Pos()), bad, "return CmpUpto(view(a), b)")
	}
	// ---- R-NEW
	{
		n := "bitstr.New"
		fn := fns[n]
		fa := w.FA(fn)
		bad := ""
		from, to := fn.Params[1], fn.Params[2]
		// atoms
		isFromByte := func(v ssa.Value) bool {
			x, c, ok := asShiftRight(v)
			return ok && c == 3 && stripConv(x) == ssa.Value(from)
		}
		isToByte := func(v ssa.Value) bool {
			x, c, ok := asShiftRight(v)
			if !ok || c != 3 {
				return false
			}
			return fa.Lin(x).Eq(fa.Lin(to).Add(linConst(7)))
		}
		var mk *ssa.MakeSlice
		eachInstr(fn, func(ins ssa.Instruction) {
			if m, ok := ins.(*ssa.MakeSlice); ok {
				mk = m
			}
		})
		var lLin Lin
		if mk == nil {
			bad = "no buffer allocation"
		} else {
			L := fa.Lin(mk.Len)
			// expect toByte - fromByte + 1
			npos, nneg := 0, 0
			for atom, coef := range L.T {
				v := fa.AtomValue(atom)
				switch {
				case coef == 1 && isToByte(v):
					npos++
				case coef == -1 && isFromByte(v):
					nneg++
				default:
					bad = "buffer length has an unexpected term " + atom
				}
			}
			if npos != 1 || nneg != 1 || L.K != 1 {
				bad = "buffer length is " + L.String() + ", expected ((toBit+7)>>3) - (fromBit>>3) + 1"
			}
			lLin = L.Add(linConst(-1))
		}
		// copy source
		okCopy := false
		eachInstr(fn, func(ins ssa.Instruction) {
			call, ok := ins.(*ssa.Call)
			if !ok || calleeName(call.Common()) != "builtin copy" {
				return
			}
			sl, ok := call.Common().Args[1].(*ssa.Slice)
			if !ok || sl.X != ssa.Value(fn.Params[0]) || sl.Low == nil || sl.High == nil {
				return
			}
			if isFromByte(sl.Low) && isToByte(sl.High) && call.Common().Args[0] == ssa.Value(mk) {
				okCopy = true
			}
		})
		if !okCopy && bad == "" {
			bad = "payload is not copy(buf, s[fromBit>>3:(toBit+7)>>3])"
		}
		// stores
		var maskVal ssa.Value
		nMasked, nTrail := 0, 0
		eachInstr(fn, func(ins ssa.Instruction) {
			st, ok := ins.(*ssa.Store)
			if !ok {
				return
			}
			ia, ok := st.Addr.(*ssa.IndexAddr)
			if !ok || mk == nil || ia.X != ssa.Value(mk) {
				return
			}
			il := fa.Lin(ia.Index)
			switch {
			case il.Eq(lLin):
				nTrail++
				if maskVal == nil {
					maskVal = st.Val
				} else if fa.VN(maskVal) != fa.VN(st.Val) {
					bad = "the trailing byte is not the mask applied to the last payload byte"
				}
			case il.Eq(lLin.Add(linConst(-1))):
				nMasked++
				a, b, ok := asBin(st.Val, token.AND)
				if !ok {
					bad = "last payload byte is not masked"
					return
				}
				var m ssa.Value
				if cont, i2, ok := asElemLoad(a); ok && cont == ssa.Value(mk) && fa.Lin(i2).Eq(il) {
					m = b
				} else {
					m = a
				}
				if maskVal == nil {
					maskVal = m
				} else if fa.VN(maskVal) != fa.VN(m) {
					bad = "the trailing byte is not the mask applied to the last payload byte"
				}
			default:
				bad = "store into the buffer at index " + il.String() + " (expected l-1 and l)"
			}
		})
		if (nMasked != 1 || nTrail != 1) && bad == "" {
			bad = fmt.Sprintf("expected one masking store at l-1 and one trailing store at l, found %d and %d", nMasked, nTrail)
		}
		if maskVal != nil && bad == "" {
			ms, ok := fa.MaskOf(maskVal)
			idx := ssa.Value(nil)
			if ok && ms.Kind == "high" {
				idx = fa.AtomValueOfLin(ms.N)
			}
			if idx == nil {
				bad = "mask byte does not clear the low (-toBit) mod 8 bits (bitmap.RMask[(8-toBit)&7] or 0xff<<((8-toBit)&7))"
			} else {
				x, j, ok := asLowMask(idx)
				d := fa.Lin(x).Add(fa.Lin(to))
				if !ok || j != 3 || !d.IsConst() || d.K%8 != 0 {
					bad = "mask index is not (-toBit) mod 8"
				}
			}
		}
		// empty aligned case
		okEmpty := false
		for _, ret := range returnsOf(fn) {
			if ret.Results[0] == ssa.Value(mk) {
				continue
			}
			// {0xff} under fromBit == toBit && fromBit&7 == 0
			conds := fa.Conds(ret.Block())
			eq, al := false, false
			for _, cd := range conds {
				if D, op, ok := fa.CondRel(cd); ok && op == opEQ {
					if D.Eq(fa.Lin(from).Sub(fa.Lin(to))) || D.Eq(fa.Lin(to).Sub(fa.Lin(from))) {
						eq = true
					}
					if bo, ok := cd.V.(*ssa.BinOp); ok {
						if x, j, ok := asLowMask(bo.X); ok && j == 3 && (stripConv(x) == ssa.Value(from) || stripConv(x) == ssa.Value(to)) {
							al = true
						}
					}
				}
			}
			okEmpty = eq && al
			if !okEmpty {
				bad = "the single-byte result is returned on an edge other than (fromBit == toBit && aligned)"
			}
		}
		r.Check(bad == "", "R-NEW", n, w.Pos(fn.Pos()), bad, "buf = make(l+1); copy(buf, s[from>>3:(to+7)>>3]); buf[l-1] &= m; buf[l] = m; m = byte(RMask[(8-to)&7])")
		_ = okEmpty
	}
	// ---- R-LEN
	{
		n := "bitstr.Len"
		fn := fns[n]
		fa := w.FA(fn)
		bad := ""
		for _, ret := range returnsOf(fn) {
			L := fa.Lin(ret.Results[0])
			lenAtom := "call:builtin len(p0)"
			if L.T[lenAtom] != 8 || L.K != -16 || len(L.T) != 2 {
				bad = "Len is " + L.String() + ", expected 8*len(bs) - 16 + popcount8(bs[len(bs)-1])"
				continue
			}
			for atom, coef := range L.T {
				if atom == lenAtom {
					continue
				}
				call, ok := fa.AtomValue(atom).(*ssa.Call)
				if !ok || coef != 1 || calleeName(call.Common()) != "math/bits.OnesCount8" {
					bad = "Len does not add the popcount of the trailing mask byte"
					continue
				}
				cont, idx, ok := asElemLoad(call.Common().Args[0])
				if !ok || cont != ssa.Value(fn.Params[0]) || !fa.Lin(idx).Eq(linAtom(lenAtom).Add(linConst(-1))) {
					bad = "the byte whose bits are counted is not bs[len(bs)-1]"
				}
			}
		}
		r.Check(bad == "", "R-LEN", n, w.Pos(fn.Pos()), bad, "8*len(bs) - 16 + OnesCount8(bs[len(bs)-1])")
	}
	// ---- R-CMP
	{
		n := "bitstr.Cmp"
		fn := fns[n]
		fa := w.FA(fn)
		bad := ""
		nfull, npay := 0, 0
		lenEq := linAtom("call:builtin len(p0)").Sub(linAtom("call:builtin len(p1)"))
		for _, ret := range returnsOf(fn) {
			call, ok := asCall(ret.Results[0], "bytes.Compare")
			if !ok {
				bad = "result is not bytes.Compare(...)"
				continue
			}
			// the operands may be chosen first and compared once (x, y := a, b; if la != lb { x, y = a[:la-1], b[:lb-1] }):
			// the alternatives of the two merges pair up edge by edge
			type alt struct {
				a0, a1 ssa.Value
				conds  []Cond
			}
			var alts []alt
			p0, isP0 := call.Common().Args[0].(*ssa.Phi)
			p1, isP1 := call.Common().Args[1].(*ssa.Phi)
			if isP0 && isP1 && p0.Block() == p1.Block() && len(p0.Edges) == len(p1.Edges) {
				for k := range p0.Edges {
					pred := p0.Block().Preds[k]
					cs := append(append([]Cond{}, fa.Conds(pred)...), selfCond(pred, p0.Block())...)
					alts = append(alts, alt{p0.Edges[k], p1.Edges[k], cs})
				}
			} else {
				alts = append(alts, alt{call.Common().Args[0], call.Common().Args[1], fa.Conds(ret.Block())})
			}
			for _, al := range alts {
				a0, a1 := al.a0, al.a1
				bd := fa.boundsFrom(al.conds, lenEq)
				if a0 == ssa.Value(fn.Params[0]) && a1 == ssa.Value(fn.Params[1]) {
					nfull++
					if !(bd.HasLo && bd.HasHi && bd.Lo == 0 && bd.Hi == 0) {
						bad = "whole encodings (mask byte included) are compared on an edge where the byte lengths may differ"
					}
					continue
				}
				s0, ok0 := a0.(*ssa.Slice)
				s1, ok1 := a1.(*ssa.Slice)
				if !ok0 || !ok1 || s0.X != ssa.Value(fn.Params[0]) || s1.X != ssa.Value(fn.Params[1]) || s0.Low != nil || s1.Low != nil || s0.High == nil || s1.High == nil {
					bad = "operands are not (a, b) or (a[:la-1], b[:lb-1])"
					continue
				}
				npay++
				if !fa.Lin(s0.High).Eq(linAtom("call:builtin len(p0)").Add(linConst(-1))) || !fa.Lin(s1.High).Eq(linAtom("call:builtin len(p1)").Add(linConst(-1))) {
					bad = "payload comparison does not drop exactly the trailing mask byte of each operand"
				}
			}
		}
		if (nfull != 1 || npay != 1) && bad == "" {
			bad = "expected one whole-encoding and one payload-only comparison"
		}
		r.Check(bad == "", "R-CMP", n, w.Pos(fn.Pos()), bad, "len equal: Compare(a,b); else Compare(a[:la-1], b[:lb-1])")
	}
	// ---- R-LASTBYTE
	{
		n := "bitstr.CmpUpto"
		fn := fns[n]
		fa := w.FA(fn)
		bad := ""
		lb := linAtom("call:builtin len(p1)")
		// empty: a return of 0 under len(b) == 1
		okEmpty := false
		for _, ret := range returnsOf(fn) {
			if k, ok := constInt64(stripConv(ret.Results[0])); ok && k == 0 {
				bd := fa.BoundsAt(ret.Block(), lb)
				if bd.HasLo && bd.HasHi && bd.Lo == 1 && bd.Hi == 1 {
					okEmpty = true
				}
			}
		}
		if !okEmpty {
			bad = "no `return 0` on the edge len(b) == 1 (empty bit string)"
		}
		// masked last byte
		found := false
		eachInstr(fn, func(ins ssa.Instruction) {
			bo, ok := ins.(*ssa.BinOp)
			if !ok || bo.Op != token.AND {
				return
			}
			ca, ia, ok1 := asElemLoad(bo.X)
			cb, ib, ok2 := asElemLoad(bo.Y)
			if !ok1 || !ok2 {
				return
			}
			if ca == ssa.Value(fn.Params[1]) && cb == ssa.Value(fn.Params[0]) {
				ca, ia, cb, ib = cb, ib, ca, ia
			}
			if ca != ssa.Value(fn.Params[0]) || cb != ssa.Value(fn.Params[1]) {
				return
			}
			found = true
			if !fa.Lin(ib).Eq(lb.Add(linConst(-1))) {
				bad = "a's last byte is masked with b[" + fa.Lin(ib).String() + "], not b's trailing mask byte b[len(b)-1]"
			}
			if !fa.Lin(ia).Eq(lb.Add(linConst(-2))) {
				bad = "the byte of a that is masked is a[" + fa.Lin(ia).String() + "], not the last payload position len(b)-2"
			}
			// compared against b[len(b)-2]
			okCmp := false
			if bo.Referrers() != nil {
				for _, ref := range *bo.Referrers() {
					if cmp, ok := ref.(*ssa.BinOp); ok {
						other := cmp.Y
						if cmp.Y == ssa.Value(bo) {
							other = cmp.X
						}
						if cc, ic, ok := asElemLoad(other); ok && cc == ssa.Value(fn.Params[1]) && fa.Lin(ic).Eq(lb.Add(linConst(-2))) {
							okCmp = true
						}
					}
				}
			}
			if !okCmp {
				bad = "the masked byte is not compared with b[len(b)-2]"
			}
			// lexicographic order: the last byte decides only when the leading bytes compared equal
			okOrder := false
			for _, cd := range fa.Conds(bo.Block()) {
				cmp, ok := cd.V.(*ssa.BinOp)
				if !ok || !(cmp.Op == token.EQL && cd.Pol || cmp.Op == token.NEQ && !cd.Pol) {
					continue
				}
				for _, side := range [2][2]ssa.Value{{cmp.X, cmp.Y}, {cmp.Y, cmp.X}} {
					call, isCall := stripConv(side[0]).(*ssa.Call)
					if k, isK := constInt64(stripConv(side[1])); !isCall || !isK || k != 0 {
						continue
					}
					if f := call.Common().StaticCallee(); f != nil && (f == fns["bitstr.cmpBytes"] || calleeName(call.Common()) == "bytes.Compare") {
						okOrder = true
					}
				}
			}
			if !okOrder && bad == "" {
				bad = "the masked last byte is examined at " + w.InstrPos(bo) + " without the comparison of the leading bytes having returned 0 first: an earlier byte must decide before a later one (lexicographic order)"
			}
		})
		if !found && bad == "" {
			bad = "no a[k] & b[k+1] masking found"
		}
		r.Check(bad == "", "R-LASTBYTE", n, w.Pos(fn.Pos()), bad, "len(b)==1 -> 0; (a[len(b)-2] & b[len(b)-1]) vs b[len(b)-2]")
		// ---- R-WHOLEBYTE: whole-byte comparisons stay in front of b's last payload byte
		r.Rule("R-WHOLEBYTE", "CmpUpto: every whole-byte comparison of a slice of a with a slice of b (cmpBytes, bytes.Compare, bytes.Equal) compares byte positions j < min(len x, len y) only, and that minimum is at most len(b)-2: b's last payload byte b[len(b)-2] may be partial (its unused low bits are 0) and must only ever meet a's byte through the mask b[len(b)-1]; compared unmasked, a key that continues with 1-bits behind the bit string compares greater instead of equal")
		badW := ""
		ncmp := 0
		root := func(v ssa.Value) ssa.Value {
			for depth := 0; depth < 8; depth++ {
				switch x := v.(type) {
				case *ssa.Slice:
					v = x.X
					continue
				case *ssa.ChangeType:
					v = x.X
					continue
				}
				break
			}
			return v
		}
		eachInstr(fn, func(ins ssa.Instruction) {
			call, ok := ins.(*ssa.Call)
			if !ok || len(call.Common().Args) != 2 {
				return
			}
			nm := calleeName(call.Common())
			if f := call.Common().StaticCallee(); !(f != nil && f == fns["bitstr.cmpBytes"]) && nm != "bytes.Compare" && nm != "bytes.Equal" {
				return
			}
			x, y := call.Common().Args[0], call.Common().Args[1]
			rx, ry := root(x), root(y)
			if !(rx == ssa.Value(fn.Params[0]) && ry == ssa.Value(fn.Params[1]) || rx == ssa.Value(fn.Params[1]) && ry == ssa.Value(fn.Params[0])) {
				return
			}
			ncmp++
			okW := false
			var seen []string
			for _, side := range []ssa.Value{x, y} {
				d := fa.lenOf(side, 0).Sub(lb).Add(linConst(2))
				if d.IsConst() {
					seen = append(seen, fmt.Sprint(d.K))
					if d.K <= 0 {
						okW = true
					}
					continue
				}
				bd := fa.BoundsAt(call.Block(), d)
				seen = append(seen, bd.String())
				if bd.HasHi && bd.Hi <= 0 {
					okW = true
				}
			}
			if !okW {
				badW = fmt.Sprintf("the comparison at %s may reach b's last payload byte unmasked: neither operand is known to be at most len(b)-2 bytes long there (length - (len(b)-2) in %s)", w.InstrPos(call), strings.Join(seen, " / "))
			}
		})
		r.Check(badW == "", "R-WHOLEBYTE", n, w.Pos(fn.Pos()), badW, fmt.Sprintf("%d whole-byte comparisons between a and b, each limited to positions < len(b)-2", ncmp))
	}
}

func init() {
	register(&Prop{
		ID: "C09", Level: "other",
		Explain: "Structural necessary conditions of the bitstr order (DESIGN.md 5/C09): E0 unsafe-cast size rule (found defect D4 in StrCmpUpto), exact delegation StrCmpUpto -> CmpUpto on the string's own bytes, unit consistency (bits vs bytes) and rounding, New's encoding layout (lengths, copy range, one mask byte used twice, mask index), Len's formula, Cmp's equal/unequal-length split, CmpUpto's empty case and last-byte masking indexes.",
		NotDec:  []string{"that byte-wise comparison of the masked encoding equals bit-wise lexicographic order (arithmetic/semantic argument)", "cmpBytes' short-slice loop vs bytes.Compare equivalence"},
		Trusted: []string{"go/ssa + types.Sizes (gc)", "bytes.Compare"},
		Quick:   []Config{cfgDefault, cfg386}, Thorough: []Config{cfgDefault, cfg386, cfgArm64},
		Run: runC09,
	})
}

// leafContradictsOwnTest: the returned value is a merge, this alternative of it is the constant k, and the path to the
// return tests that very merge against a constant in a way k fails.
func leafContradictsOwnTest(res ssa.Value, k int64, conds []Cond) bool {
	for _, cd := range conds {
		bo, ok := cd.V.(*ssa.BinOp)
		if !ok {
			continue
		}
		op, ok := tokOp(bo.Op)
		if !ok {
			continue
		}
		if !cd.Pol {
			op = negOp(op)
		}
		var other ssa.Value
		switch {
		case stripConv(bo.X) == stripConv(res):
			other = bo.Y
		case stripConv(bo.Y) == stripConv(res):
			other, op = bo.X, mirrorOp(op)
		default:
			continue
		}
		if _, isPhi := stripConv(res).(*ssa.Phi); !isPhi {
			continue
		}
		if c, ok := constInt64(stripConv(other)); ok && !relHolds(k, op, c) {
			return true
		}
	}
	return false
}
