package main

import (
	"os"
	"runtime/pprof"
)

func startProf() func() {
	if p := os.Getenv("LOWCHECK_PROF"); p != "" {
		f, _ := os.Create(p)
		pprof.StartCPUProfile(f)
		return func() { pprof.StopCPUProfile(); f.Close() }
	}
	return func() {}
}
