package main

import (
	"fmt"
	"go/token"
	"go/types"
	"sort"
	"strings"

	"golang.org/x/tools/go/ssa"
)

func isMustCall(call *ssa.Call) (string, bool) {
	f := call.Common().StaticCallee()
	if f == nil {
		return "", false
	}
	p := fnPkg(f)
	if p == nil || !strings.HasPrefix(p.Path(), "github.com/openacid/must") {
		return "", false
	}
	return f.Name(), true
}

// guardedSummary: the set of (condition chain, result value number) pairs of result idx of fn.
func guardedSummary(w *World, fn *ssa.Function, idx int) []string {
	fa := w.FA(fn)
	var out []string
	for _, ret := range returnsOf(fn) {
		// a result merged from several places (one exit with a phi) is the same summary as several exits
		for _, lf := range fa.leavesOf(ret.Results[idx], ret.Block(), 0) {
			seen := map[string]bool{}
			var cs []string
			for _, cd := range lf.Conds {
				c := fmt.Sprintf("%v:%s", cd.Pol, fa.VN(cd.V))
				if !seen[c] {
					seen[c] = true
					cs = append(cs, c)
				}
			}
			sort.Strings(cs)
			out = append(out, "["+strings.Join(cs, " && ")+"] => "+fa.VN(stripConv(lf.V)))
		}
	}
	sort.Strings(out)
	return out
}

func runC03(c *Ctx, w *World, r *Report) {
	names := []string{"bmtree.PathToIndex", "bmtree.PathToIndexLoose", "bmtree.shiftMulti", "bmtree.Height", "bmtree.PathLen",
		"bmtree.pathCheck", "bmtree.bitmapSizeCheck", "bmtree.bitmapMustHaveLevel", "bmtree.bitmapPathMustHaveEqualHeight"}
	fns, ok := requireFuncs(w, r, names...)
	ReportScale(w, r, names[:5]...)
	ReportMul32(w, r, names[:5]...)
	// R-ARGWIDTH: both callers hand shiftMulti the level mask (31 significant bits: heights up to 30) - PathToIndex as
	// its first, PathToIndexLoose as its second argument
	r.Rule("R-ARGWIDTH", "shiftMulti does not mask or truncate either of its first two parameters to fewer than 31 bits: depending on the caller each of them is the level mask bitmapSize, whose top bit (bit 30 for a tree of height 30) selects the leaves")
	if sm := findFunc(w, "bmtree.shiftMulti"); sm != nil && len(sm.Params) >= 2 {
		badW := ""
		isArg := func(v ssa.Value) bool {
			v = stripConv(v)
			return v == ssa.Value(sm.Params[0]) || v == ssa.Value(sm.Params[1])
		}
		eachInstr(sm, func(ins ssa.Instruction) {
			switch x := ins.(type) {
			case *ssa.BinOp:
				if x.Op != token.AND {
					return
				}
				for _, pr := range [2][2]ssa.Value{{x.X, x.Y}, {x.Y, x.X}} {
					if k, ok := constUint64(stripConv(pr[1])); ok && isArg(pr[0]) && k&0x7fffffff != 0x7fffffff {
						badW = fmt.Sprintf("a parameter is masked with %#x at %s: bits of a level mask of height up to 30 are dropped", k, w.InstrPos(ins))
					}
				}
			case *ssa.Convert:
				if isArg(x.X) && intWidth(x.Type()) < 32 && isIntType(x.Type()) {
					badW = "a parameter is truncated to " + x.Type().String() + " at " + w.InstrPos(ins)
				}
			}
		})
		r.Check(badW == "", "R-ARGWIDTH", "bmtree.shiftMulti", w.Pos(sm.Pos()), badW, "neither of the first two parameters is narrowed below 31 bits")
	}
	if !ok {
		return
	}
	debug := w.Cfg.Tags == "debug"
	r.Rule("R-CONTRACT-TYPES", "(debug build) every must.Be.Equal/NotEqual(a, b) compares operands of identical static type: testify's ObjectsAreEqual is false for int32(1) vs int(1) on every input, i.e. such a contract panics on all valid inputs")
	r.Rule("R-CONTRACT-PURE", "the contract closures passed to must.Be.OK and every helper they call are effect-free (E1): a build with contracts enabled cannot return different values")
	r.Rule("R-CONTRACT-RANGE", "contract constants admit every valid input of the property: the height bound accepts height 30, the path-width mask rejects only bits 30/31 of either half")
	r.Rule("R-SIB", "E9 sibling congruence: PathToIndexLoose's index result equals PathToIndex's result, case by case (same guards, same value numbers; shiftMulti is symmetric in its first two arguments), and its flag is (bitmapSize >> PathLen(path)) & 1")
	r.Rule("R-LAYOUT32", "every constant shift of a path word in the index functions is by 32 and every constant xor-ed with a path word is the upper-half mask 0xffffffff00000000 (the path layout of C10)")

	// ---- contract discovery: closures passed to must.Be.OK, helpers reachable from them
	var closures []*ssa.Function
	for _, n := range []string{"bmtree.PathToIndex", "bmtree.PathToIndexLoose"} {
		fn := fns[n]
		eachInstr(fn, func(ins ssa.Instruction) {
			call, ok := ins.(*ssa.Call)
			if !ok {
				return
			}
			if name, ok := isMustCall(call); ok && name == "OK" {
				for _, a := range call.Common().Args {
					if mc, ok := a.(*ssa.MakeClosure); ok {
						closures = append(closures, mc.Fn.(*ssa.Function))
					}
				}
			}
		})
	}
	if len(closures) < 2 {
		r.Bad("R-CONTRACT-PURE", "bmtree|closures", "-", fmt.Sprintf("expected a must.Be.OK contract closure in PathToIndex and PathToIndexLoose, found %d", len(closures)))
	}
	e := RunEffects(w)
	helpers := map[*ssa.Function]bool{}
	var visit func(f *ssa.Function)
	visit = func(f *ssa.Function) {
		if helpers[f] || f.Blocks == nil || !w.InModule(f) {
			return
		}
		helpers[f] = true
		eachInstr(f, func(ins ssa.Instruction) {
			if call, ok := ins.(*ssa.Call); ok {
				if cal := call.Common().StaticCallee(); cal != nil {
					visit(cal)
				}
			}
		})
	}
	for _, cl := range closures {
		visit(cl)
	}
	var hl []*ssa.Function
	for f := range helpers {
		hl = append(hl, f)
	}
	sort.Slice(hl, func(i, j int) bool { return w.FuncName(hl[i]) < w.FuncName(hl[j]) })
	for _, f := range hl {
		s := e.Sum[f]
		var bad []string
		for _, ws := range s.wsites {
			if ws.r.kind != rkFresh {
				bad = append(bad, fmt.Sprintf("may write %s at %s", ws.r, ws.pos))
			}
		}
		for _, nt := range s.notes {
			bad = append(bad, nt.msg)
		}
		// a contract closure must not assign to a variable it captures (the enclosing function would see it)
		eachInstr(f, func(ins ssa.Instruction) {
			if st, ok := ins.(*ssa.Store); ok {
				if fv, ok := st.Addr.(*ssa.FreeVar); ok {
					bad = append(bad, fmt.Sprintf("assigns to captured variable %s at %s", fv.Name(), w.InstrPos(ins)))
				}
			}
		})
		r.Check(len(bad) == 0, "R-CONTRACT-PURE", w.FuncName(f), w.Pos(f.Pos()), "contract code has effects: "+strings.Join(bad, "; "), "no writes to non-fresh memory; runs only inside must.Be.OK")
	}
	r.Units["contract_functions"] = len(hl)

	// ---- R-CONTRACT-LEVEL: the level PathToIndex's contract demands is the path's own level, the one the Loose sibling reports in `has`
	{
		r.Rule("R-CONTRACT-LEVEL", "where PathToIndex's contract demands that the bitmap stores a level (bitmapMustHaveLevel(bitmapSize, l)), l is PathLen(path) itself: the same bit PathToIndexLoose reports as `has` = (bitmapSize >> PathLen(path)) & 1. Any other level makes the debug build reject stored nodes")
		bad := ""
		ncall := 0
		target := fns["bmtree.bitmapMustHaveLevel"]
		plen := fns["bmtree.PathLen"]
		for _, f := range hl {
			eachInstr(f, func(ins ssa.Instruction) {
				call, ok := ins.(*ssa.Call)
				if !ok || call.Common().StaticCallee() != target || len(call.Common().Args) < 2 {
					return
				}
				ncall++
				lv, ok := stripConv(call.Common().Args[1]).(*ssa.Call)
				if !ok || lv.Common().StaticCallee() != plen {
					bad = fmt.Sprintf("bitmapMustHaveLevel is asked about level %s at %s, not about PathLen(path)", fmtVal(w, call.Common().Args[1]), w.InstrPos(ins))
				}
			})
		}
		r.Check(bad == "", "R-CONTRACT-LEVEL", "bmtree.PathToIndex", w.Pos(fns["bmtree.PathToIndex"].Pos()), bad, fmt.Sprintf("%d level contracts, each about PathLen(path)", ncall))
		// PathToIndexLoose exists for nodes on levels the bitmap does NOT store (it reports them through `has`): no
		// contract reachable from it may demand the level (directly or through a shared helper)
		loose := fns["bmtree.PathToIndexLoose"]
		badL := ""
		var reach func(f *ssa.Function, seen map[*ssa.Function]bool, via string)
		reach = func(f *ssa.Function, seen map[*ssa.Function]bool, via string) {
			if f == nil || seen[f] || f.Blocks == nil || !w.InModule(f) {
				return
			}
			seen[f] = true
			if f == target {
				badL = "the level contract bitmapMustHaveLevel is reachable from PathToIndexLoose (" + via + "): in a debug build the Loose variant rejects exactly the nodes it exists for (levels absent from the bitmap)"
				return
			}
			for _, af := range f.AnonFuncs {
				reach(af, seen, via+" -> closure")
			}
			eachInstr(f, func(ins ssa.Instruction) {
				if call, ok := ins.(*ssa.Call); ok {
					if cal := call.Common().StaticCallee(); cal != nil && cal != fns["bmtree.PathToIndex"] {
						reach(cal, seen, via+" -> "+cal.Name())
					}
				}
			})
		}
		reach(loose, map[*ssa.Function]bool{}, "PathToIndexLoose")
		r.Check(badL == "", "R-CONTRACT-LEVEL", "bmtree.PathToIndexLoose", w.Pos(loose.Pos()), badL, "no level contract reachable from PathToIndexLoose")
	}

	// ---- R-CONTRACT-TYPES (meaningful where the calls exist with their arguments: both builds type-check them)
	ncmp := 0
	for _, f := range hl {
		seen := map[string]int{}
		eachInstr(f, func(ins ssa.Instruction) {
			call, ok := ins.(*ssa.Call)
			if !ok {
				return
			}
			name, ok := isMustCall(call)
			if !ok || (name != "Equal" && name != "NotEqual") {
				return
			}
			args := call.Common().Args
			// receiver first
			if len(args) < 3 {
				return
			}
			ncmp++
			seen[name]++
			key := fmt.Sprintf("%s|%s#%d", w.FuncName(f), name, seen[name])
			ta, tb := boxedType(args[1]), boxedType(args[2])
			if ta == nil || tb == nil {
				r.Unknown("R-CONTRACT-TYPES", key, w.InstrPos(call), "operand is not a boxed value")
				return
			}
			r.Check(types.Identical(ta, tb), "R-CONTRACT-TYPES", key, w.InstrPos(call),
				fmt.Sprintf("must.Be.%s compares a %s with a %s: ObjectsAreEqual is type-sensitive, so this contract %s on every input", name, ta, tb, map[string]string{"Equal": "panics", "NotEqual": "is vacuous"}[name]),
				fmt.Sprintf("both operands are %s", ta))
		})
	}
	r.Units["contract_comparisons"] = ncmp
	if ncmp < 5 {
		r.Bad("R-CONTRACT-TYPES", "bmtree|floor", "-", fmt.Sprintf("only %d must.Be.Equal/NotEqual sites found in the contract helpers (confirmed by hand: 6)", ncmp))
	}
	_ = debug

	// ---- R-CONTRACT-RANGE
	{
		fn := fns["bmtree.bitmapSizeCheck"]
		bad := ""
		nsite := 0
		eachInstr(fn, func(ins ssa.Instruction) {
			call, ok := ins.(*ssa.Call)
			if !ok {
				return
			}
			if name, ok := isMustCall(call); !ok || name != "True" {
				return
			}
			bo, ok := call.Common().Args[1].(*ssa.BinOp)
			if !ok {
				return
			}
			k, okc := constInt64(stripConv(bo.Y))
			if !okc {
				return
			}
			nsite++
			// x <= k  /  x < k : must admit x = 30
			switch bo.Op {
			case token.LEQ:
				if k < 30 {
					bad = fmt.Sprintf("height contract `<= %d` rejects trees of height 30, which the property allows", k)
				}
			case token.LSS:
				if k < 31 {
					bad = fmt.Sprintf("height contract `< %d` rejects trees of height 30, which the property allows", k)
				}
			}
		})
		r.Check(bad == "", "R-CONTRACT-RANGE", "bmtree.bitmapSizeCheck|height", w.Pos(fn.Pos()), bad, fmt.Sprintf("%d constant height bound(s) admit height 30", nsite))
		pc := fns["bmtree.pathCheck"]
		badP := ""
		eachInstr(pc, func(ins ssa.Instruction) {
			bo, ok := ins.(*ssa.BinOp)
			if !ok || bo.Op != token.AND {
				return
			}
			if stripConv(bo.X) != ssa.Value(pc.Params[0]) {
				return
			}
			k, ok := constUint64(bo.Y)
			if !ok || k <= 0xffffffff {
				return // low-half extraction etc.
			}
			if k&0x3fffffff3fffffff != 0 {
				badP = fmt.Sprintf("the path-width contract mask %#x flags bits that a valid 30-level path may use", k)
			}
		})
		r.Check(badP == "", "R-CONTRACT-RANGE", "bmtree.pathCheck|width", w.Pos(pc.Pos()), badP, "width mask covers only bits 30,31 of each half")
		// the two halves of one path word may be EQUAL (the right-most node of a level: every searching bit under the
		// mask is 1): a contract that orders them strictly rejects that node
		badH := ""
		isHigh := func(v ssa.Value) bool {
			x, c, ok := asShiftRight(stripConv(v))
			return ok && c == 32 && stripConv(x) == ssa.Value(pc.Params[0])
		}
		eachInstr(pc, func(ins ssa.Instruction) {
			call, ok := ins.(*ssa.Call)
			if !ok {
				return
			}
			if name, isMust := isMustCall(call); !isMust || name != "True" {
				return
			}
			for _, a := range call.Common().Args {
				if mi, isMI := a.(*ssa.MakeInterface); isMI {
					a = mi.X
				}
				bo, ok := stripConv(a).(*ssa.BinOp)
				if !ok || (bo.Op != token.LSS && bo.Op != token.GTR) {
					continue
				}
				hi, lo := bo.X, bo.Y
				if bo.Op == token.GTR {
					hi, lo = bo.Y, bo.X
				}
				// hi < lo with hi the searching bits and lo the mask
				if isHigh(hi) && isLow32(lo, pc.Params[0]) {
					badH = "the contract at " + w.InstrPos(call) + " requires searching bits < mask: for the right-most node of a level the two halves are equal, a valid path is rejected"
				}
			}
		})
		r.Check(badH == "", "R-CONTRACT-RANGE", "bmtree.pathCheck|halves", w.Pos(pc.Pos()), badH, "no contract orders the searching bits strictly below the mask")
	}
	reportContractRangeGeneral(w, r, hl)
	// ---- R-NARROWSHL: a value explicitly narrowed to <= 32 bits must not be shifted left by a variable amount
	r.Rule("R-NARROWSHL", "in the index arithmetic (PathToIndex, PathToIndexLoose, shiftMulti, IndexToPath) a value that was explicitly narrowed to a type of at most 32 bits is never the left operand of a left shift by a non-constant amount: bitmap sizes have up to 31 bits and shifts reach 30, so such a shift drops high bits for tall trees (heights the suite never reaches)")
	for _, n := range []string{"bmtree.PathToIndex", "bmtree.PathToIndexLoose", "bmtree.shiftMulti", "bmtree.IndexToPath"} {
		fn := findFunc(w, n)
		if fn == nil {
			continue
		}
		narrowed := map[ssa.Value]bool{}
		changed := true
		for changed {
			changed = false
			eachInstr(fn, func(ins ssa.Instruction) {
				v, ok := ins.(ssa.Value)
				if !ok || narrowed[v] {
					return
				}
				t := false
				switch x := v.(type) {
				case *ssa.Convert:
					if isIntType(x.Type()) && isIntType(x.X.Type()) && w.Sizes.Sizeof(x.Type()) <= 4 && w.Sizes.Sizeof(x.X.Type()) > w.Sizes.Sizeof(x.Type()) {
						t = true
					} else if narrowed[x.X] && w.Sizes.Sizeof(x.Type()) <= 4 {
						t = true
					}
				case *ssa.Phi:
					for _, e := range x.Edges {
						if narrowed[e] {
							t = true
						}
					}
				case *ssa.BinOp:
					if w.Sizes.Sizeof(x.Type()) <= 4 && (narrowed[x.X] || narrowed[x.Y]) && (x.Op == token.AND || x.Op == token.OR || x.Op == token.XOR || x.Op == token.ADD || x.Op == token.SUB) {
						t = true
					}
				}
				if t {
					narrowed[v] = true
					changed = true
				}
			})
		}
		bad := ""
		eachInstr(fn, func(ins ssa.Instruction) {
			bo, ok := ins.(*ssa.BinOp)
			if !ok || bo.Op != token.SHL || !narrowed[bo.X] {
				return
			}
			if _, isC := constInt64(stripConv(bo.Y)); isC {
				return
			}
			bad = fmt.Sprintf("a value narrowed to %s is shifted left by a variable amount at %s", bo.X.Type(), w.InstrPos(ins))
		})
		r.Check(bad == "", "R-NARROWSHL", n, w.Pos(fn.Pos()), bad)
	}
	reportContractShl32(w, r, hl)
	// ---- R-SIB
	{
		a := guardedSummary(w, fns["bmtree.PathToIndex"], 0)
		b := guardedSummary(w, fns["bmtree.PathToIndexLoose"], 0)
		same := len(a) == len(b)
		diff := ""
		for i := 0; same && i < len(a); i++ {
			if a[i] != b[i] {
				same = false
				diff = "PathToIndex: " + a[i] + " | PathToIndexLoose: " + b[i]
			}
		}
		if len(a) != len(b) {
			diff = fmt.Sprintf("%d cases vs %d cases", len(a), len(b))
		}
		r.Check(same, "R-SIB", "bmtree.PathToIndex~bmtree.PathToIndexLoose", w.Pos(fns["bmtree.PathToIndexLoose"].Pos()), "the two functions no longer compute the same index: "+diff, fmt.Sprintf("%d guarded cases, pairwise equal value numbers", len(a)))
		// flag
		fl := fns["bmtree.PathToIndexLoose"]
		badF := ""
		for _, ret := range returnsOf(fl) {
			x, j, ok := asLowMask(ret.Results[1])
			if !ok || j != 1 {
				badF = "flag is not a single bit"
				continue
			}
			v, sh, ok := asBin(x, token.SHR)
			if !ok || w.FA(fl).VN(stripConv(v)) != "p0" {
				badF = "flag is not a bit of bitmapSize"
				continue
			}
			call, ok := stripConv(sh).(*ssa.Call)
			if !ok || call.Common().StaticCallee() != fns["bmtree.PathLen"] || w.FA(fl).VN(call.Common().Args[0]) != "p1" {
				badF = "flag is not bit PathLen(path) of bitmapSize"
			}
		}
		r.Check(badF == "", "R-SIB", "bmtree.PathToIndexLoose|has", w.Pos(fl.Pos()), badF, "has = (bitmapSize >> PathLen(path)) & 1")
	}
	// ---- R-LAYOUT32
	for _, n := range []string{"bmtree.PathToIndex", "bmtree.PathToIndexLoose"} {
		fn := fns[n]
		fa := w.FA(fn)
		bad := ""
		nsite := 0
		eachInstr(fn, func(ins ssa.Instruction) {
			bo, ok := ins.(*ssa.BinOp)
			if !ok {
				return
			}
			if fa.VN(stripConv(bo.X)) != "p1" {
				return
			}
			switch bo.Op {
			case token.SHR:
				if k, ok := constInt64(bo.Y); ok {
					nsite++
					if k != 32 {
						bad = fmt.Sprintf("path shifted by %d at %s; the searching bits start at bit 32", k, w.InstrPos(ins))
					}
				}
			case token.XOR:
				if k, ok := constUint64(bo.Y); ok {
					nsite++
					if k != 0xffffffff00000000 {
						bad = fmt.Sprintf("path xor-ed with %#x at %s; the upper-half mask is 0xffffffff00000000", k, w.InstrPos(ins))
					}
				}
			}
		})
		r.Check(bad == "", "R-LAYOUT32", n, w.Pos(fn.Pos()), bad, fmt.Sprintf("%d constant shift/xor sites on the path word agree with the layout", nsite))
	}
}

func boxedType(v ssa.Value) types.Type {
	switch x := v.(type) {
	case *ssa.MakeInterface:
		return x.X.Type()
	case *ssa.ChangeInterface:
		return x.X.Type()
	case *ssa.Const:
		if x.IsNil() {
			return types.Typ[types.UntypedNil]
		}
	}
	return nil
}

func init() {
	register(&Prop{
		ID: "C03", Level: "other",
		Explain: "C03 clauses visible in the shape of the code (DESIGN.md 5/C03), checked in the release AND the -tags debug configuration (the only build in which openacid/must is active): contract comparisons are well-typed (an ill-typed must.Be.Equal panics on every valid input), contract code is effect-free so a debug build returns identical values, contract constants admit height 30 and 30-bit paths, PathToIndexLoose's index is congruent with PathToIndex's (E9) and its flag is bit PathLen of the size, path-word constants follow the layout.",
		NotDec:  []string{"the closed forms themselves (2p + popcount trick, shiftMulti + popcount) against the recursive pre-order definition", "that every contract condition is implied by validity (only typing, purity and the two constant ranges are decided)"},
		Trusted: []string{"go/ssa construction in both configurations", "openacid/must + testify ObjectsAreEqual semantics (type-sensitive equality)"},
		Quick:   []Config{cfgDefault, cfgDebug}, Thorough: []Config{cfgDefault, cfgDebug, cfg386, cfgDbg386},
		Run: runC03,
	})
}

// reportContractShl32: contract code must not compute 2^k in a 32-bit type with a variable k (k reaches 31 at height 30).
func reportContractShl32(w *World, r *Report, fns []*ssa.Function) {
	r.Rule("R-SHL32", "contract code never shifts a value of a type of at most 32 bits left by a non-constant amount: `1 << uint(h+1)` in int32 is negative at height 30, so the contract panics on valid input in a -tags debug build only")
	for _, f := range fns {
		bad := ""
		eachInstr(f, func(ins ssa.Instruction) {
			bo, ok := ins.(*ssa.BinOp)
			if !ok || bo.Op != token.SHL || !isIntType(bo.Type()) || w.Sizes.Sizeof(bo.Type()) > 4 {
				return
			}
			if _, isC := constInt64(stripConv(bo.Y)); isC {
				return
			}
			bad = fmt.Sprintf("a %s is shifted left by a variable amount at %s", bo.Type(), w.InstrPos(ins))
		})
		r.Check(bad == "", "R-SHL32", w.FuncName(f), w.Pos(f.Pos()), bad)
	}
}

// contractFuncsOf: closures passed to must.Be.OK in the given functions plus everything they call inside the module.
func contractFuncsOf(w *World, roots ...*ssa.Function) []*ssa.Function {
	helpers := map[*ssa.Function]bool{}
	var visit func(f *ssa.Function)
	visit = func(f *ssa.Function) {
		if helpers[f] || f.Blocks == nil || !w.InModule(f) {
			return
		}
		helpers[f] = true
		eachInstr(f, func(ins ssa.Instruction) {
			if call, ok := ins.(*ssa.Call); ok {
				if cal := call.Common().StaticCallee(); cal != nil {
					visit(cal)
				}
			}
		})
	}
	for _, fn := range roots {
		if fn == nil {
			continue
		}
		eachInstr(fn, func(ins ssa.Instruction) {
			call, ok := ins.(*ssa.Call)
			if !ok {
				return
			}
			if name, ok := isMustCall(call); ok && name == "OK" {
				for _, a := range call.Common().Args {
					if mc, ok := a.(*ssa.MakeClosure); ok {
						visit(mc.Fn.(*ssa.Function))
					}
				}
			}
		})
	}
	var out []*ssa.Function
	for f := range helpers {
		out = append(out, f)
	}
	sort.Slice(out, func(i, j int) bool { return w.FuncName(out[i]) < w.FuncName(out[j]) })
	return out
}

// reportContractRangeGeneral: must.Be.True(x < K) / (x <= K) with x a quantity whose valid maximum the properties fix
// (heights and lengths up to 30, 30-bit paths) and K a constant or a bitmap table entry with a constant index.
func reportContractRangeGeneral(w *World, r *Report, hl []*ssa.Function) {
	r.Rule("R-CONTRACT-RANGE", "contract constants admit every valid input of the property: the height bound accepts height 30, the path-width mask rejects only bits 30/31 of either half")
	validMax := map[string]int64{"PathBits": 1<<30 - 1, "PathHeight": 30, "Height": 30, "PathLen": 30, "PathMask": 1<<30 - 1}
	foldK := func(v ssa.Value) (int64, bool) {
		if k, ok := constInt64(stripConv(v)); ok {
			return k, true
		}
		if tab, idx, ok := asElemLoad(v); ok {
			if g, ok := tab.(*ssa.Global); ok && g.Pkg.Pkg.Name() == "bitmap" {
				if c, ok := constInt64(stripConv(idx)); ok && c >= 0 && c < 63 {
					switch g.Name() {
					case "Bit":
						return int64(1) << uint(c), true
					case "Mask":
						return int64(1)<<uint(c) - 1, true
					case "MaskUpto":
						return int64(1)<<uint(c+1) - 1, true
					}
				}
			}
		}
		return 0, false
	}
	for _, f := range hl {
		seen := map[string]int{}
		eachInstr(f, func(ins ssa.Instruction) {
			call, ok := ins.(*ssa.Call)
			if !ok {
				return
			}
			if name, ok := isMustCall(call); !ok || name != "True" || len(call.Common().Args) < 2 {
				return
			}
			bo, ok := call.Common().Args[1].(*ssa.BinOp)
			if !ok {
				return
			}
			op, isCmp := tokOp(bo.Op)
			if !isCmp {
				return
			}
			x, kv := bo.X, bo.Y
			if _, ok := foldK(kv); !ok {
				x, kv, op = bo.Y, bo.X, flipOp(op)
			}
			K, ok := foldK(kv)
			if !ok {
				return
			}
			xc, ok := stripConv(x).(*ssa.Call)
			if !ok || xc.Common().StaticCallee() == nil {
				return
			}
			vm, ok := validMax[xc.Common().StaticCallee().Name()]
			if !ok {
				return
			}
			seen[xc.Common().StaticCallee().Name()]++
			key := fmt.Sprintf("%s|True(%s)#%d", w.FuncName(f), xc.Common().StaticCallee().Name(), seen[xc.Common().StaticCallee().Name()])
			bad := ""
			switch op {
			case opLT:
				if K <= vm {
					bad = fmt.Sprintf("contract `%s(...) < %d` rejects the valid value %d", xc.Common().StaticCallee().Name(), K, vm)
				}
			case opLE:
				if K < vm {
					bad = fmt.Sprintf("contract `%s(...) <= %d` rejects the valid value %d", xc.Common().StaticCallee().Name(), K, vm)
				}
			}
			r.Check(bad == "", "R-CONTRACT-RANGE", key, w.InstrPos(call), bad+": a -tags debug build panics on valid input (trees of height 30 / 30-bit paths) while the release build returns normally", fmt.Sprintf("bound %d admits the valid maximum %d", K, vm))
		})
	}
}
