package main

// Small matchers over SSA values (all look through integer conversions).

import (
	"fmt"
	"go/token"
	"go/types"
	"strings"

	"golang.org/x/tools/go/ssa"
)

func asBin(v ssa.Value, op token.Token) (ssa.Value, ssa.Value, bool) {
	b, ok := stripConv(v).(*ssa.BinOp)
	if !ok || b.Op != op {
		return nil, nil, false
	}
	return b.X, b.Y, true
}

// asBinConst matches "x op const" (const on the right; for commutative ops either side).
func asBinConst(v ssa.Value, op token.Token) (ssa.Value, int64, bool) {
	x, y, ok := asBin(v, op)
	if !ok {
		// x * 2^c is x << c in every integer type (both wrap the same way)
		if op == token.SHL {
			if mx, k, okM := asBinConst(v, token.MUL); okM && k > 0 {
				if c, isP := log2(uint64(k)); isP {
					return mx, int64(c), true
				}
			}
		}
		return nil, 0, false
	}
	if k, ok := constInt64(stripConv(y)); ok {
		return x, k, true
	}
	if commutative[op] {
		if k, ok := constInt64(stripConv(x)); ok {
			return y, k, true
		}
	}
	return nil, 0, false
}

// asShiftRight matches x>>c or x/2^c, returning c.
func asShiftRight(v ssa.Value) (ssa.Value, int, bool) {
	if x, k, ok := asBinConst(v, token.SHR); ok {
		return x, int(k), true
	}
	if b, ok := stripConv(v).(*ssa.BinOp); ok && b.Op == token.QUO {
		if u, ok := constUint64(stripConv(b.Y)); ok {
			if c, ok := log2(u); ok {
				return b.X, c, true
			}
		}
	}
	return nil, 0, false
}

// asShiftLeft matches x<<c or x*2^c.
func asShiftLeft(v ssa.Value) (ssa.Value, int, bool) {
	if x, k, ok := asBinConst(v, token.SHL); ok {
		return x, int(k), true
	}
	if x, k, ok := asBinConst(v, token.MUL); ok {
		if c, ok := log2(uint64(k)); ok && k > 0 {
			return x, c, true
		}
	}
	return nil, 0, false
}

// asLowMask matches x&(2^j-1) or x%2^j, returning j.
func asLowMask(v ssa.Value) (ssa.Value, int, bool) {
	if x, k, ok := asBinConst(v, token.AND); ok && k > 0 {
		if j, ok := log2(uint64(k) + 1); ok {
			return x, j, true
		}
	}
	if b, ok := stripConv(v).(*ssa.BinOp); ok && b.Op == token.REM {
		if u, ok := constUint64(stripConv(b.Y)); ok {
			if j, ok := log2(u); ok {
				return b.X, j, true
			}
		}
	}
	return nil, 0, false
}

// asAlignDown matches x &^ (2^c-1) or x & ^(2^c-1) (i.e. x & -2^c), returning c.
func asAlignDown(v ssa.Value) (ssa.Value, int, bool) {
	if x, k, ok := asBinConst(v, token.AND_NOT); ok && k > 0 {
		if c, ok := log2(uint64(k) + 1); ok {
			return x, c, true
		}
	}
	if x, k, ok := asBinConst(v, token.AND); ok && k < 0 {
		if c, ok := log2(uint64(-k)); ok {
			return x, c, true
		}
	}
	return nil, 0, false
}

func asCall(v ssa.Value, names ...string) (*ssa.Call, bool) {
	c, ok := stripConv(v).(*ssa.Call)
	if !ok {
		return nil, false
	}
	n := calleeName(c.Common())
	for _, want := range names {
		if n == want || (strings.HasSuffix(want, "*") && strings.HasPrefix(n, strings.TrimSuffix(want, "*"))) {
			return c, true
		}
	}
	return nil, false
}

// asElemLoad matches container[index] (load through IndexAddr, or Index on a value).
func asElemLoad(v ssa.Value) (ssa.Value, ssa.Value, bool) {
	switch x := stripConv(v).(type) {
	case *ssa.UnOp:
		if x.Op == token.MUL {
			if ia, ok := x.X.(*ssa.IndexAddr); ok {
				return ia.X, ia.Index, true
			}
		}
	case *ssa.Index:
		return x.X, x.Index, true
	}
	return nil, nil, false
}

// asFieldLoad matches a load of struct field name through a pointer.
func asFieldLoad(v ssa.Value) (ssa.Value, string, bool) {
	if u, ok := stripConv(v).(*ssa.UnOp); ok && u.Op == token.MUL {
		if fa, ok := u.X.(*ssa.FieldAddr); ok {
			return fa.X, fieldName(fa), true
		}
	}
	return nil, "", false
}

func fieldName(fa *ssa.FieldAddr) string { return canonField(fa.X.Type(), fa.Field) }

func isGlobal(v ssa.Value, pkgName, name string) bool {
	g, ok := v.(*ssa.Global)
	return ok && g.Name() == name && g.Pkg.Pkg.Name() == pkgName
}

// containerRoot follows slicing / field loads to the parameter, global or field
// that a container value comes from; returns a stable description.
func containerRootName(v ssa.Value) string { return containerRole(v) }

// paramIndex returns the index of a parameter value in its function, or -1.
func paramIndex(v ssa.Value) int {
	p, ok := v.(*ssa.Parameter)
	if !ok {
		return -1
	}
	for i, q := range p.Parent().Params {
		if q == p {
			return i
		}
	}
	return -1
}

// elemSites lists every element access (IndexAddr / Index) in fn whose container root name is name.
type elemSite struct {
	Ins   ssa.Instruction
	X     ssa.Value
	Index ssa.Value
}

func elemSites(fn *ssa.Function, name string) []elemSite {
	var out []elemSite
	eachInstr(fn, func(ins ssa.Instruction) {
		switch x := ins.(type) {
		case *ssa.IndexAddr:
			if containerRole(x.X) == name {
				out = append(out, elemSite{ins, x.X, x.Index})
			}
		case *ssa.Index:
			if containerRole(x.X) == name {
				out = append(out, elemSite{ins, x.X, x.Index})
			}
		}
	})
	return out
}

// appendedValues returns the element values passed to append(dst, v...) calls.
func appendedValues(call *ssa.Call) []ssa.Value {
	com := call.Common()
	if b, ok := com.Value.(*ssa.Builtin); !ok || b.Name() != "append" || len(com.Args) < 2 {
		return nil
	}
	sl, ok := com.Args[1].(*ssa.Slice)
	if !ok {
		return nil
	}
	al, ok := sl.X.(*ssa.Alloc)
	if !ok {
		return nil
	}
	var out []ssa.Value
	for _, ref := range *al.Referrers() {
		if ia, ok := ref.(*ssa.IndexAddr); ok {
			for _, r2 := range *ia.Referrers() {
				if st, ok := r2.(*ssa.Store); ok {
					out = append(out, st.Val)
				}
			}
		}
	}
	return out
}

func fmtVal(w *World, v ssa.Value) string {
	if v == nil {
		return "<nil>"
	}
	return fmt.Sprintf("`%s` (%s)", v.String(), w.Pos(v.Pos()))
}

// ---------- generic side rules on shift/mask constants ----------

// ReportPair: the same x used as x>>c and x&(2^j-1) must have j == c  (3 <= c,j <= 7).
func ReportPair(w *World, r *Report, fnNames ...string) {
	r.Rule("R-PAIR", "a position split into container index x>>c (or x/2^c) and in-element offset x&(2^j-1) (or x%2^j) must use j = c: otherwise some bit is addressed twice or never")
	for _, n := range fnNames {
		fn := findFunc(w, n)
		if fn == nil {
			r.Unknown("R-PAIR", n, "-", "function named by the property is missing")
			continue
		}
		fa := w.FA(fn)
		shifts := map[string][]int{}
		masks := map[string][]int{}
		ragged := map[string]int64{}
		pos := map[string]string{}
		for _, f := range append([]*ssa.Function{fn}, fn.AnonFuncs...) {
			fa2 := w.FA(f)
			eachInstr(f, func(ins ssa.Instruction) {
				v, ok := ins.(ssa.Value)
				if !ok {
					return
				}
				if _, isBin := v.(*ssa.BinOp); !isBin {
					return
				}
				if x, c, ok := asShiftRight(v); ok && c >= 3 && c <= 7 && isPositionType(x.Type()) {
					k := fa2.VN(stripConv(x))
					shifts[k] = append(shifts[k], c)
					pos[k] = w.InstrPos(ins)
				}
				// an offset mask that is not of the form 2^j-1 at all (x&62): some offsets inside the element collapse
				if x, kc, ok := asBinConst(v, token.AND); ok && kc > 0 && kc < 128 && isPositionType(x.Type()) {
					if _, isLow := log2(uint64(kc) + 1); !isLow {
						k := fa2.VN(stripConv(x))
						ragged[k] = kc
						if _, ok := pos[k]; !ok {
							pos[k] = w.InstrPos(ins)
						}
					}
				}
				if x, j, ok := asLowMask(v); ok && j >= 3 && j <= 7 && isPositionType(x.Type()) {
					k := fa2.VN(stripConv(x))
					masks[k] = append(masks[k], j)
					if _, ok := pos[k]; !ok {
						pos[k] = w.InstrPos(ins)
					}
				}
			})
		}
		_ = fa
		bad := ""
		npairs := 0
		var facts []string
		for k, cs := range shifts {
			for _, c := range cs {
				if kc, isR := ragged[k]; isR && kc < 1<<uint(c) {
					npairs++
					bad = fmt.Sprintf("the same position is split with >>%d and the offset mask &%d, which is not 2^%d-1 (nor any 2^j-1): two different offsets inside the element select the same bit near %s", c, kc, c, pos[k])
				}
				for _, j := range masks[k] {
					npairs++
					if j != c {
						bad = fmt.Sprintf("the same position is split with >>%d (unit 2^%d) and &%d (offset inside 2^%d) near %s", c, c, (1<<uint(j))-1, j, pos[k])
					}
				}
			}
		}
		if npairs > 0 {
			facts = append(facts, fmt.Sprintf("%d (shift, mask) pairs on one position value, all with equal width", npairs))
		}
		if bad != "" {
			r.Bad("R-PAIR", n, w.Pos(fn.Pos()), bad)
		} else {
			r.OK("R-PAIR", n, w.Pos(fn.Pos()), facts...)
		}
	}
}

func isPositionType(t types.Type) bool {
	b, ok := t.Underlying().(*types.Basic)
	if !ok || b.Info()&types.IsInteger == 0 {
		return false
	}
	return b.Kind() != types.Uint64 && b.Kind() != types.Uint8
}

// ReportRound: (x+a)>>c and (x+a)&^(2^c-1), c in {3,6,7}: a rounding constant must be 2^(c-1) or 2^c-1.
func ReportRound(w *World, r *Report, fnNames ...string) {
	r.Rule("R-ROUND", "in (x+a)>>c, (x+a)/2^c and (x+a)&^(2^c-1) with c in {3,6,7} a constant a larger than 2^(c-2) is a rounding constant and must be 2^c-1 (ceil) or 2^(c-1) (nearest): any other value mis-sizes or mis-addresses for some x")
	for _, n := range fnNames {
		fn := findFunc(w, n)
		if fn == nil {
			r.Unknown("R-ROUND", n, "-", "function named by the property is missing")
			continue
		}
		bad := ""
		nsites := 0
		var facts []string
		for _, f := range append([]*ssa.Function{fn}, fn.AnonFuncs...) {
			eachInstr(f, func(ins ssa.Instruction) {
				v, ok := ins.(ssa.Value)
				if !ok {
					return
				}
				if _, isBin := v.(*ssa.BinOp); !isBin {
					return
				}
				var x ssa.Value
				var c int
				if x0, c0, ok := asShiftRight(v); ok {
					x, c = x0, c0
				} else if x0, c0, ok := asAlignDown(v); ok {
					x, c = x0, c0
				} else {
					return
				}
				if c != 3 && c != 6 && c != 7 {
					return
				}
				if !isPositionType(x.Type()) {
					return
				}
				_, a, ok := asBinConst(x, token.ADD)
				if !ok || a <= 0 {
					return
				}
				if a <= int64(1)<<uint(c-2) {
					return
				}
				nsites++
				// a size (make length/capacity, slice bound) must round up exactly;
				// elsewhere nearest (2^(c-1)) and strictly-next (2^c) are meaningful too
				isSize := flowsTo(v, func(u ssa.Instruction) bool {
					switch y := u.(type) {
					case *ssa.MakeSlice:
						return true
					case *ssa.Slice:
						return y.X != v
					}
					return false
				})
				okA := a == int64(1)<<uint(c)-1
				if !isSize {
					okA = okA || a == int64(1)<<uint(c-1) || a == int64(1)<<uint(c)
				}
				if !okA {
					what := "expected %d (round up), %d (nearest) or %d (next unit)"
					if isSize {
						what = "it sizes a container, expected %d (round up; %d / %d would over- or under-allocate)"
					}
					bad = fmt.Sprintf("rounding constant %d with unit 2^%d at %s: "+what, a, c, w.InstrPos(ins), int64(1)<<uint(c)-1, int64(1)<<uint(c-1), int64(1)<<uint(c))
				} else {
					facts = append(facts, fmt.Sprintf("(x+%d) rounded to 2^%d at %s", a, c, w.InstrPos(ins)))
				}
			})
		}
		if bad != "" {
			r.Bad("R-ROUND", n, w.Pos(fn.Pos()), bad)
		} else {
			r.OK("R-ROUND", n, w.Pos(fn.Pos()), facts...)
		}
	}
}

// findFunc resolves "bitmap.Rank64" / "bitmap.(*TailBitmap).Set".
func findFunc(w *World, full string) *ssa.Function {
	i := strings.Index(full, ".")
	if i < 0 {
		return nil
	}
	return w.Func(full[:i], full[i+1:])
}

// requireFuncs files R-ANCHOR obligations and returns the resolved functions.
func requireFuncs(w *World, r *Report, names ...string) (map[string]*ssa.Function, bool) {
	r.Rule("R-ANCHOR", "the functions, types and variables the property is anchored in exist in the analysed tree (a missing anchor is undecided = fail)")
	out := map[string]*ssa.Function{}
	all := true
	for _, n := range names {
		f := findFunc(w, n)
		if f == nil || f.Blocks == nil {
			r.Unknown("R-ANCHOR", n, "-", "function named by the property is missing from the analysed tree")
			all = false
			continue
		}
		out[n] = f
		r.OK("R-ANCHOR", n, w.Pos(f.Pos()))
	}
	// every anchored function that exported code can reach must be stateless (stateless.go)
	var live []string
	sc := statelessOf(w)
	for _, n := range names {
		if f := out[n]; f != nil && sc.apiAll[f] {
			live = append(live, n)
		}
	}
	ReportStateless(w, r, live...)
	ReportIdxWidth(w, r, names...)
	ReportWordWidth(w, r, names...)
	ReportPanicSites(w, r, names...)
	ReportDeadLoads(w, r, names...)
	ReportAllocWrap(w, r, names...)
	ReportAllocSign(w, r, names...)
	ReportArrayBound(w, r, names...)
	ReportCountWidth(w, r, names...)
	ReportNegBound(w, r, names...)
	seenPkg := map[string]bool{}
	var shorts []string
	for _, n := range names {
		if i := strings.Index(n, "."); i > 0 && !seenPkg[n[:i]] {
			seenPkg[n[:i]] = true
			if n[:i] == "size" {
				continue // exception: package size measures platform-dependent sizes; its constants are meant to differ between platforms (R-HEADER compares them with types.Sizes per configuration)
			}
			shorts = append(shorts, n[:i])
		}
	}
	ReportConstWidth(w, r, shorts...)
	return out, all
}

// sliceOffset: the element offset of a (re-)sliced container value relative to the container it was cut from:
// for c = x[lo:hi] an element c[k] is x[lo+k]. ok=false when the chain cannot be followed.
func sliceOffset(fa *FA, cont ssa.Value) (Lin, bool) {
	off := linConst(0)
	for depth := 0; depth < 8; depth++ {
		switch x := cont.(type) {
		case *ssa.Slice:
			if x.Low != nil {
				off = off.Add(fa.Lin(x.Low))
			}
			cont = x.X
			continue
		case *ssa.ChangeType:
			cont = x.X
			continue
		case *ssa.Phi:
			// a merged view: every edge must carry the same offset
			var first Lin
			for i, e := range x.Edges {
				o, ok := sliceOffset(fa, e)
				if !ok {
					return Lin{}, false
				}
				if i == 0 {
					first = o
				} else if !first.Eq(o) {
					return Lin{}, false
				}
			}
			if first.T == nil {
				return off, true
			}
			return off.Add(first), true
		}
		return off, true
	}
	return Lin{}, false
}
