package main

// R-IDXWIDTH: index arithmetic keeps the width of the quantity it starts from. An index, slice bound or
// length that is computed from an `int`/`int64` value (a parameter, a len()) must not pass through a
// conversion to a narrower integer type: positions >= 2^31 (bit positions of strings >= 256 MiB, offsets
// of large files) wrap silently, and no test allocates inputs of that size.

import (
	"fmt"
	"go/token"
	"go/types"

	"golang.org/x/tools/go/ssa"
)

// smallBounded: v is provably a small number (|v| < 2^16): a constant, a math/bits count, a value masked to at
// most 15 bits, or a sum/difference of two such values.
func smallBounded(v ssa.Value, depth int) bool {
	if depth > 6 {
		return false
	}
	if k, ok := constInt64(v); ok {
		return k > -(1<<15) && k < 1<<15
	}
	if _, ok := asCall(v, "math/bits.*"); ok {
		if isIntType(v.Type()) {
			return true
		}
	}
	if _, j, ok := asLowMask(v); ok && j <= 15 {
		return true
	}
	switch x := v.(type) {
	case *ssa.Convert:
		return isIntType(x.X.Type()) && smallBounded(x.X, depth+1)
	case *ssa.BinOp:
		if x.Op == token.ADD || x.Op == token.SUB {
			return smallBounded(x.X, depth+1) && smallBounded(x.Y, depth+1)
		}
	}
	return false
}

// ReportAllocWrap (R-ALLOCWRAP): an allocation length or capacity computed as an unsigned difference a - b is
// only sound on edges where a >= b is established: the difference of unsigned values wraps to a huge number
// instead of going negative, and make() panics ("len/cap out of range") for an input the function used to answer.
func ReportAllocWrap(w *World, r *Report, names ...string) {
	r.Rule("R-ALLOCWRAP", "no make() length or capacity is an unsigned difference a - b (directly or through conversions, shifts and additions of constants) unless a >= b holds on every path to the allocation: an unsigned difference wraps instead of going negative and the allocation panics for inputs (empty or inverted ranges) the function otherwise answers")
	for _, n := range names {
		fn := findFunc(w, n)
		if fn == nil || fn.Blocks == nil {
			continue
		}
		fa := w.FA(fn)
		bad := ""
		nmk := 0
		var usub func(v ssa.Value, depth int) *ssa.BinOp
		usub = func(v ssa.Value, depth int) *ssa.BinOp {
			if v == nil || depth > 8 {
				return nil
			}
			switch x := v.(type) {
			case *ssa.Convert:
				return usub(x.X, depth+1)
			case *ssa.BinOp:
				if x.Op == token.SUB && isUnsigned(x.Type()) {
					if _, isC := x.Y.(*ssa.Const); !isC {
						return x
					}
				}
				switch x.Op {
				case token.ADD, token.SUB, token.SHR, token.SHL, token.QUO, token.MUL:
					if s := usub(x.X, depth+1); s != nil {
						return s
					}
					if x.Op == token.ADD || x.Op == token.MUL {
						return usub(x.Y, depth+1)
					}
				}
			case *ssa.Phi:
				for _, e := range x.Edges {
					if s := usub(e, depth+1); s != nil {
						return s
					}
				}
			}
			return nil
		}
		eachInstr(fn, func(ins ssa.Instruction) {
			mk, ok := ins.(*ssa.MakeSlice)
			if !ok {
				return
			}
			nmk++
			for _, op := range []ssa.Value{mk.Len, mk.Cap} {
				sub := usub(op, 0)
				if sub == nil {
					continue
				}
				bd := fa.BoundsAt(mk.Block(), fa.Lin(sub.X).Sub(fa.Lin(sub.Y)))
				if !(bd.HasLo && bd.Lo >= 0) {
					bad = fmt.Sprintf("the size of the allocation at %s derives from the unsigned difference at %s, whose operands are not ordered on every path to it (a - b in %s): it wraps when a < b", w.InstrPos(mk), w.InstrPos(sub), bd)
				}
			}
		})
		r.Check(bad == "", "R-ALLOCWRAP", n, w.Pos(fn.Pos()), bad, fmt.Sprintf("%d allocations, none sized by an unguarded unsigned difference", nmk))
	}
}

// nonNegByConstruction: v cannot be negative whatever the inputs: constants >= 0, len/cap, bit counts, masked or
// unsigned-shifted values, and sums, products, quotients by positive constants and right shifts of such values
// (wrap-around of a sum of two lengths is not considered: it needs more than 2^62 elements).
func nonNegByConstruction(v ssa.Value, depth int) bool {
	return nonNeg1(v, depth, map[*ssa.Phi]bool{})
}

func nonNeg1(v ssa.Value, depth int, inProgress map[*ssa.Phi]bool) bool {
	nonNegByConstruction := func(v ssa.Value, depth int) bool { return nonNeg1(v, depth, inProgress) }
	if v == nil || depth > 10 {
		return false
	}
	if k, ok := constInt64(v); ok {
		return k >= 0
	}
	switch x := v.(type) {
	case *ssa.UnOp:
		// exception (one symbol): pbcmpl.fixedSize = binary.Size(&header{}) = 32, written in package initialisation only
		// (R-LAYOUT and R-SAMECONST of C06 decide both facts)
		if x.Op == token.MUL && isGlobal(x.X, "pbcmpl", "fixedSize") {
			return true
		}
	case *ssa.Call:
		if b, ok := x.Common().Value.(*ssa.Builtin); ok {
			switch b.Name() {
			case "len", "cap":
				return true
			case "min":
				for _, a := range x.Common().Args {
					if !nonNegByConstruction(a, depth+1) {
						return false
					}
				}
				return true
			case "max":
				for _, a := range x.Common().Args {
					if nonNegByConstruction(a, depth+1) {
						return true
					}
				}
			}
		}
		if bitsCountWidth(calleeName(x.Common())) > 0 {
			return true
		}
	case *ssa.Convert:
		// widening or same-width conversion of a non-negative value (narrowing is R-IDXWIDTH's business)
		return isIntType(x.X.Type()) && nonNegByConstruction(x.X, depth+1)
	case *ssa.BinOp:
		switch x.Op {
		case token.ADD, token.MUL:
			return nonNegByConstruction(x.X, depth+1) && nonNegByConstruction(x.Y, depth+1)
		case token.QUO, token.SHR:
			if k, ok := constInt64(stripConv(x.Y)); ok && k > 0 || x.Op == token.SHR {
				return nonNegByConstruction(x.X, depth+1)
			}
		case token.AND:
			return nonNegByConstruction(x.X, depth+1) || nonNegByConstruction(x.Y, depth+1)
		case token.REM:
			return nonNegByConstruction(x.X, depth+1)
		case token.SHL:
			if k, ok := constInt64(stripConv(x.Y)); ok && k >= 0 && k <= 8 {
				return nonNegByConstruction(x.X, depth+1)
			}
		}
	case *ssa.Phi:
		// a loop-carried accumulator (0, then acc + len(..)): assumed non-negative while its own edges are checked
		if inProgress[x] {
			return true
		}
		inProgress[x] = true
		defer delete(inProgress, x)
		for _, e := range x.Edges {
			if e != ssa.Value(x) && !nonNegByConstruction(e, depth+1) {
				return false
			}
		}
		return true
	}
	return false
}

// allocSignConfirmed: functions whose allocation sizes derive from position/size PARAMETERS, which are non-negative
// in the domain of their property (confirmed by reading; one line of reason each).
var allocSignConfirmed = map[string]string{
	"bitmap.Join":                "len(subs)*size: size is the element width 1..64 (C14's domain)",
	"bitmap.NewBuilder":          "n>>6: n is a number of bits to reserve",
	"bitmap.NewTailBitmap":       "reclaimThreshold>>6: a positive package-level setting",
	"bitmap.Of":                  "(n+63)>>6 with n = max(size, last+1, 0): the clamp at 0 is decided by R-ALLOC",
	"bitmap.Slice":               "((to-from)+63)>>6 with from <= to (C14's domain)",
	"bitstr.New":                 "bytes spanned by [fromBit, toBit) with fromBit <= toBit inside the string (C09's domain)",
	"bitword.(*bitWord).FromStr": "len(s)*byteCap: byteCap = 8/width is set by newBW (R-TABLE)",
	"bitword.(*bitWord).ToStr":   "(len(bs)+byteCap-1)/byteCap: byteCap = 8/width is set by newBW (R-TABLE)",
	"pbcmpl.ReadHeader":          "fixedSize = binary.Size(header) = 32 (R-LAYOUT, R-SAMECONST)",
	"sigbits.FirstDiffBits":      "len(keys)-1: C16 and C17 quantify over at least one (two) keys",
	"sigbits.countPrefixes":      "maxitem = m+1 >= 1 (C16's domain m >= 0)",
}

// ReportAllocSign (R-ALLOCSIGN): make() panics for a negative length or capacity.
func ReportAllocSign(w *World, r *Report, names ...string) {
	r.Rule("R-ALLOCSIGN", "every make() length and capacity in the property's functions is non-negative by construction (lengths, counts, constants and sums / products / quotients by positive constants / right shifts of those), or proven >= 0 on the allocating edge, or derives from the position/size parameters of a function whose domain makes them non-negative (listed, one reason each): a size estimate that can go negative (a wrapped sum with a caller-supplied limit such as MaxInt32, a difference) panics for inputs the function otherwise answers")
	for _, n := range names {
		fn := findFunc(w, n)
		if fn == nil || fn.Blocks == nil {
			continue
		}
		bad := ""
		nmk := 0
		fns := append([]*ssa.Function{fn}, fn.AnonFuncs...)
		for _, f := range fns {
			fa := w.FA(f)
			eachInstr(f, func(ins ssa.Instruction) {
				mk, ok := ins.(*ssa.MakeSlice)
				if !ok {
					return
				}
				nmk++
				for _, op := range []ssa.Value{mk.Len, mk.Cap} {
					if nonNegByConstruction(op, 0) {
						continue
					}
					if bd := fa.BoundsAt(mk.Block(), fa.Lin(op)); bd.HasLo && bd.Lo >= 0 {
						continue
					}
					// a clamp (`hint := n; if hint > K { hint = K }`): every alternative on its own edge
					okLeaves := true
					nl := 0
					for _, leaf := range fa.leavesOf(stripConv(op), mk.Block(), 0) {
						nl++
						if nonNegByConstruction(leaf.V, 0) {
							continue
						}
						if b := fa.boundsFrom(leaf.Conds, fa.Lin(leaf.V)); b.HasLo && b.Lo >= 0 {
							continue
						}
						okLeaves = false
					}
					if okLeaves && nl > 0 {
						continue
					}
					if _, ok := allocSignConfirmed[n]; ok {
						continue
					}
					bad = fmt.Sprintf("the size %s of the allocation at %s is not non-negative by construction and no guard establishes it: make panics when it is negative", fa.Lin(op), w.InstrPos(mk))
				}
			})
		}
		r.Check(bad == "", "R-ALLOCSIGN", n, w.Pos(fn.Pos()), bad, fmt.Sprintf("%d allocations, every size non-negative by construction, by a guard, or by the confirmed domain of the function", nmk))
	}
}

// domainMax: the largest value in-module functions return on the domain of the properties (confirmed; the contracts
// of bmtree state the same bound: height <= 30).
var domainMax = map[string]int64{
	"github.com/openacid/low/bmtree.Height":     30,
	"github.com/openacid/low/bmtree.PathHeight": 32,
	"github.com/openacid/low/bmtree.PathLen":    32,
}

// upperBound: a value v cannot exceed (ok=false: unknown). Constants, masks, bit counts, the documented range of a
// few in-module functions, sums and differences of bounded values.
func upperBound(v ssa.Value, depth int) (int64, bool) {
	if v == nil || depth > 8 {
		return 0, false
	}
	if k, ok := constInt64(v); ok {
		return k, true
	}
	if x, j, ok := asLowMask(v); ok && j < 62 {
		// a word that only ever holds a constant moved by shifts has its set bits as far apart as the constant has:
		// with gaps of at least j, a window of j bits sees at most one of them (pair<<h>>k & 15 is 0, 1, 2, 4 or 8)
		if c, isChain := shiftChainConst(x, 0, map[ssa.Value]bool{}); isChain && c != 0 && j >= 1 {
			gap, last := 64, -1
			for b := 0; b < 64; b++ {
				if c>>uint(b)&1 == 1 {
					if last >= 0 && b-last < gap {
						gap = b - last
					}
					last = b
				}
			}
			if gap >= j {
				return int64(1) << uint(j-1), true
			}
		}
		return int64(1)<<uint(j) - 1, true
	}
	switch x := v.(type) {
	case *ssa.Convert:
		if isIntType(x.X.Type()) {
			return upperBound(x.X, depth+1)
		}
	case *ssa.Call:
		if wd := bitsCountWidth(calleeName(x.Common())); wd > 0 {
			return wd, true
		}
		if f := x.Common().StaticCallee(); f != nil {
			if m, ok := domainMax[funcFullName(f)]; ok {
				return m, true
			}
		}
	case *ssa.BinOp:
		switch x.Op {
		case token.ADD:
			a, ok1 := upperBound(x.X, depth+1)
			b, ok2 := upperBound(x.Y, depth+1)
			if ok1 && ok2 {
				return a + b, true
			}
		case token.SUB:
			// hi(a - b) = hi(a) - lo(b); lo(b) is known for constants and for non-negative values (0)
			a, ok1 := upperBound(x.X, depth+1)
			if ok1 {
				if k, ok := constInt64(stripConv(x.Y)); ok {
					return a - k, true
				}
				if nonNegByConstruction(x.Y, 0) {
					return a, true
				}
			}
		case token.SHR, token.QUO:
			if a, ok := upperBound(x.X, depth+1); ok && a >= 0 {
				return a, true
			}
		}
	case *ssa.Phi:
		var m int64
		first := true
		for _, e := range x.Edges {
			if e == ssa.Value(x) {
				continue
			}
			b, ok := upperBound(e, depth+1)
			if !ok {
				return 0, false
			}
			if first || b > m {
				m, first = b, false
			}
		}
		if !first {
			return m, true
		}
	}
	return 0, false
}

// ReportArrayBound (R-ARRAYBOUND): a fixed-size table is indexed only below its length.
func ReportArrayBound(w *World, r *Report, names ...string) {
	r.Rule("R-ARRAYBOUND", "where the index of a fixed-size array (a package table) has a known upper bound - a constant, a mask, a bit count, the documented range of Height / PathHeight / PathLen, a guard - that bound is below the array length: a table with one entry too few (heights run 0..30: 31 entries) panics for exactly the largest valid input")
	for _, n := range names {
		fn := findFunc(w, n)
		if fn == nil || fn.Blocks == nil {
			continue
		}
		bad := ""
		nidx, nknown := 0, 0
		fns := append([]*ssa.Function{fn}, fn.AnonFuncs...)
		for _, f := range fns {
			fa := w.FA(f)
			eachInstr(f, func(ins ssa.Instruction) {
				var cont, idx ssa.Value
				switch x := ins.(type) {
				case *ssa.IndexAddr:
					cont, idx = x.X, x.Index
				case *ssa.Index:
					cont, idx = x.X, x.Index
				default:
					return
				}
				t := cont.Type().Underlying()
				if p, ok := t.(*types.Pointer); ok {
					t = p.Elem().Underlying()
				}
				arr, ok := t.(*types.Array)
				if !ok {
					return
				}
				nidx++
				hi, known := upperBound(idx, 0)
				if bd := fa.BoundsAt(ins.Block(), fa.Lin(idx)); bd.HasHi && (!known || bd.Hi < hi) {
					hi, known = bd.Hi, true
				}
				if !known {
					return
				}
				nknown++
				if hi >= arr.Len() {
					bad = fmt.Sprintf("the array indexed at %s has %d entries but its index can be as large as %d", w.InstrPos(ins), arr.Len(), hi)
				}
			})
		}
		r.Check(bad == "", "R-ARRAYBOUND", n, w.Pos(fn.Pos()), bad, fmt.Sprintf("%d fixed-size array accesses, %d with a known index bound, all below the length", nidx, nknown))
	}
}

func ReportIdxWidth(w *World, r *Report, names ...string) {
	r.Rule("R-IDXWIDTH", "no index, slice bound or allocation length is derived from a wider integer (int, int64, len) through a conversion to a narrower integer type: positions beyond 2^31 must not wrap")
	for _, n := range names {
		fn := findFunc(w, n)
		if fn == nil || fn.Blocks == nil {
			continue
		}
		bad := ""
		nidx := 0
		var narrow func(v ssa.Value, depth int, seen map[ssa.Value]bool) *ssa.Convert
		narrow = func(v ssa.Value, depth int, seen map[ssa.Value]bool) *ssa.Convert {
			if v == nil || depth > 14 || seen[v] {
				return nil
			}
			seen[v] = true
			switch x := v.(type) {
			case *ssa.Convert:
				if isIntType(x.Type()) && isIntType(x.X.Type()) {
					if w.Sizes.Sizeof(x.Type()) < w.Sizes.Sizeof(x.X.Type()) && w.Sizes.Sizeof(x.X.Type()) >= 8 {
						if _, isC := x.X.(*ssa.Const); !isC {
							// narrowing of a masked / bounded value is harmless: x & small, x % small
							if _, j, ok := asLowMask(x.X); ok && j <= 31 {
								return nil
							}
							// results of math/bits (<= 64) and the upper half of a 64-bit word fit any integer type
							if smallBounded(x.X, 0) {
								return nil
							}
							if _, k, ok := asBinConst(x.X, token.SHR); ok && k >= 32 {
								return nil
							}
							return x
						}
					}
					return narrow(x.X, depth+1, seen)
				}
			case *ssa.BinOp:
				if !isIntType(x.Type()) {
					return nil
				}
				if _, j, ok := asLowMask(x); ok && j <= 31 {
					return nil
				}
				switch x.Op {
				case token.AND:
					// the result is bounded by either operand: a narrowed mask ANDed with a full-width value is harmless
					cx := narrow(x.X, depth+1, seen)
					if cx == nil {
						return nil
					}
					return narrow(x.Y, depth+1, seen)
				case token.AND_NOT, token.SHR, token.QUO, token.REM:
					return narrow(x.X, depth+1, seen)
				}
				if c := narrow(x.X, depth+1, seen); c != nil {
					return c
				}
				return narrow(x.Y, depth+1, seen)
			case *ssa.Phi:
				for _, e := range x.Edges {
					if c := narrow(e, depth+1, seen); c != nil {
						return c
					}
				}
			case *ssa.UnOp:
				if isIntType(x.Type()) && x.Op.String() == "-" {
					return narrow(x.X, depth+1, seen)
				}
			}
			return nil
		}
		check := func(ins ssa.Instruction, v ssa.Value, what string) {
			if v == nil {
				return
			}
			nidx++
			if c := narrow(v, 0, map[ssa.Value]bool{}); c != nil {
				bad = fmt.Sprintf("%s at %s is derived from a %s narrowed to %s at %s", what, w.InstrPos(ins), c.X.Type(), c.Type(), w.InstrPos(c))
			}
		}
		eachInstr(fn, func(ins ssa.Instruction) {
			switch x := ins.(type) {
			case *ssa.IndexAddr:
				check(ins, x.Index, "index")
			case *ssa.Index:
				check(ins, x.Index, "index")
			case *ssa.Lookup:
				if _, isMap := x.X.Type().Underlying().(*types.Map); !isMap {
					check(ins, x.Index, "string index")
				}
			case *ssa.Slice:
				check(ins, x.Low, "slice bound")
				check(ins, x.High, "slice bound")
			case *ssa.MakeSlice:
				check(ins, x.Len, "allocation length")
			case *ssa.Call:
				// a position handed to another function of the module is an index there
				if f := x.Common().StaticCallee(); f != nil && w.InModule(f) && f.Blocks != nil {
					for i, a := range x.Common().Args {
						if isIntType(a.Type()) {
							check(ins, a, fmt.Sprintf("argument %d of %s", i, f.Name()))
						}
					}
				}
			}
		})
		r.Check(bad == "", "R-IDXWIDTH", n, w.Pos(fn.Pos()), bad, fmt.Sprintf("%d index / bound / length operands, none narrowed", nidx))
	}
}

// narrowIntBits: the width of an integer type narrower than 32 bits, else 0.
func narrowIntBits(t types.Type) int {
	b, ok := t.Underlying().(*types.Basic)
	if !ok {
		return 0
	}
	switch b.Kind() {
	case types.Int8, types.Uint8:
		return 8
	case types.Int16, types.Uint16:
		return 16
	}
	return 0
}

// ReportCountWidth (R-COUNTWIDTH): a counter that is advanced once per loop iteration - a loop-carried variable
// x = x + k or a memory cell c[j] = c[j] + k - counts something whose number the input controls (elements, keys,
// set bits); held in an 8- or 16-bit integer it wraps after 2^8 / 2^16 increments and the result is silently too
// small. Accepted: a loop whose trip count is bounded by a constant that fits the type.
func ReportCountWidth(w *World, r *Report, names ...string) {
	r.Rule("R-COUNTWIDTH", "no counter advanced by a constant step inside a loop (a loop-carried x = x + k, or a memory cell c[j] = c[j] + k) has an integer type narrower than 32 bits unless the loop's trip count is bounded by a constant that fits: the number of increments is input-controlled and a narrow counter wraps silently")
	for _, n := range names {
		fn := findFunc(w, n)
		if fn == nil || fn.Blocks == nil {
			continue
		}
		fa := w.FA(fn)
		bad := ""
		nsite := 0
		inLoopBounded := func(b *ssa.BasicBlock, bitsW int) (inLoop, bounded bool) {
			// the innermost loop-header phis dominating b with b inside their natural loop
			bounded = true
			for _, hb := range fn.Blocks {
				isHead := false
				for _, pr := range hb.Preds {
					if hb.Dominates(pr) && (pr == b || reaches(b, pr, hb)) {
						isHead = true
					}
				}
				if !isHead || !hb.Dominates(b) {
					continue
				}
				inLoop = true
				ok := false
				for _, ins := range hb.Instrs {
					p, isPhi := ins.(*ssa.Phi)
					if !isPhi {
						break
					}
					if iv, okIv := fa.InductionOf(p, b); okIv && iv.HasN && iv.N.IsConst() && iv.FirstConst && iv.Step >= 1 {
						if trips := (iv.N.K - iv.First + iv.Step - 1) / iv.Step; trips >= 0 && trips < (1<<uint(bitsW-1)) {
							ok = true
						}
					}
				}
				if !ok {
					bounded = false
				}
			}
			return
		}
		eachInstr(fn, func(ins ssa.Instruction) {
			bo, ok := ins.(*ssa.BinOp)
			if !ok || bo.Op != token.ADD {
				return
			}
			bw := narrowIntBits(bo.Type())
			if bw == 0 {
				return
			}
			// a counter advances by a constant step; x += <value> in a narrow type is packing or checksum arithmetic
			if _, kx := bo.X.(*ssa.Const); !kx {
				if _, ky := bo.Y.(*ssa.Const); !ky {
					return
				}
			}
			carried := false
			for _, op := range []ssa.Value{bo.X, bo.Y} {
				if p, ok := op.(*ssa.Phi); ok && isLoopHeaderPhi(p) {
					for _, e := range p.Edges {
						for _, s := range resolvePhi(e) {
							if s == ssa.Value(bo) {
								carried = true
							}
						}
					}
				}
				if ld, ok := op.(*ssa.UnOp); ok && ld.Op == token.MUL && bo.Referrers() != nil {
					for _, ref := range *bo.Referrers() {
						st, ok := ref.(*ssa.Store)
						if !ok || st.Val != ssa.Value(bo) {
							continue
						}
						if st.Addr == ld.X {
							carried = true
						} else if a1, ok := st.Addr.(*ssa.IndexAddr); ok {
							if a2, ok := ld.X.(*ssa.IndexAddr); ok && fa.VN(a1.X) == fa.VN(a2.X) && fa.Lin(a1.Index).Eq(fa.Lin(a2.Index)) {
								carried = true
							}
						}
					}
				}
			}
			if !carried {
				return
			}
			inLoop, bounded := inLoopBounded(bo.Block(), bw)
			if !inLoop {
				return
			}
			nsite++
			if !bounded {
				bad = fmt.Sprintf("the %d-bit counter advanced at %s sits in a loop whose trip count is not bounded by a constant that fits %d bits: after 2^%d increments it wraps and the count is silently too small", bw, w.InstrPos(ins), bw, bw)
			}
		})
		r.Check(bad == "", "R-COUNTWIDTH", n, w.Pos(fn.Pos()), bad, fmt.Sprintf("%d narrow counters in loops, each bounded by a constant trip count", nsite))
	}
}

// reaches: to is reachable from from without passing through block stop.
func reaches(from, to, stop *ssa.BasicBlock) bool {
	seen := map[*ssa.BasicBlock]bool{from: true}
	st := []*ssa.BasicBlock{from}
	for len(st) > 0 {
		b := st[len(st)-1]
		st = st[:len(st)-1]
		if b == to {
			return true
		}
		for _, sc := range b.Succs {
			if sc != stop && !seen[sc] {
				seen[sc] = true
				st = append(st, sc)
			}
		}
	}
	return false
}

// ReportNegBound (R-NEGBOUND): the search functions of bytes and strings (Index, IndexByte, IndexAny, IndexFunc,
// IndexRune, LastIndex...) answer -1 when nothing is found. Used as a slice bound or index, their result needs a
// guard (or a +1) on every path: otherwise the input that does not contain what is searched for panics.
func ReportNegBound(w *World, r *Report, names ...string) {
	r.Rule("R-NEGBOUND", "a slice bound or index computed from the result of a bytes./strings. Index* search (-1 when absent) is non-negative on every path: by a dominating guard or by construction (result+1); else the input without the searched byte panics with slice bounds out of range")
	isSearch := func(v ssa.Value) bool {
		call, ok := v.(*ssa.Call)
		if !ok {
			return false
		}
		nm := calleeName(call.Common())
		for _, p := range []string{"bytes.Index", "bytes.LastIndex", "strings.Index", "strings.LastIndex"} {
			if len(nm) >= len(p) && nm[:len(p)] == p {
				return true
			}
		}
		return false
	}
	for _, n := range names {
		fn := findFunc(w, n)
		if fn == nil || fn.Blocks == nil {
			continue
		}
		fa := w.FA(fn)
		bad := ""
		nsite := 0
		check := func(v ssa.Value, at ssa.Instruction, what string) {
			if v == nil {
				return
			}
			L := fa.Lin(v)
			var src ssa.Value
			for atom, cf := range L.T {
				if av := fa.AtomValue(atom); av != nil && isSearch(stripConv(av)) {
					if cf != 1 || len(L.T) != 1 {
						return // not a plain offset of the search result: undecided here, other rules speak
					}
					src = av
				}
			}
			if src == nil {
				return
			}
			nsite++
			if L.K >= 1 {
				return
			}
			if bd := fa.BoundsAt(at.Block(), L); bd.HasLo && bd.Lo >= 0 {
				return
			}
			bad = fmt.Sprintf("the %s at %s is the result of %s%+d with no guard: -1 (nothing found) makes it negative and the access panics", what, w.InstrPos(at), calleeName(stripConv(src).(*ssa.Call).Common()), L.K)
		}
		eachInstr(fn, func(ins ssa.Instruction) {
			switch x := ins.(type) {
			case *ssa.Slice:
				check(x.Low, ins, "slice bound")
				check(x.High, ins, "slice bound")
				check(x.Max, ins, "slice bound")
			case *ssa.IndexAddr:
				check(x.Index, ins, "index")
			case *ssa.Index:
				check(x.Index, ins, "index")
			}
		})
		r.Check(bad == "", "R-NEGBOUND", n, w.Pos(fn.Pos()), bad, fmt.Sprintf("%d bounds taken from a search result, each guarded or offset by +1", nsite))
	}
}

// ReportMul32 (R-MUL32): tree indexes and sizes of bmtree run up to 2^31-1. The product of two run-time
// quantities computed in a 32-bit (or platform-width) integer type overflows long before that; the
// library's own closed forms multiply in uint64 (shiftMulti). Accepted: a factor that is a single bit
// (x&1, a 0/1 flag) or a constant.
func ReportMul32(w *World, r *Report, names ...string) {
	r.Rule("R-MUL32", "no product of two non-constant values is computed in an integer type of 32 bits or of platform width in the index arithmetic of bmtree (sizes and indexes reach 2^31-1; shiftMulti multiplies in uint64): such a product wraps for tall trees and the index comes out negative or wrong; a factor that is a single bit or a constant is accepted")
	oneBit := func(v ssa.Value) bool {
		v = stripConv(v)
		if _, j, ok := asLowMask(v); ok && j <= 1 {
			return true
		}
		return false
	}
	for _, n := range names {
		fn := findFunc(w, n)
		if fn == nil || fn.Blocks == nil {
			continue
		}
		bad := ""
		nmul := 0
		eachInstr(fn, func(ins ssa.Instruction) {
			bo, ok := ins.(*ssa.BinOp)
			if !ok || bo.Op != token.MUL {
				return
			}
			b, ok := bo.Type().Underlying().(*types.Basic)
			if !ok || b.Info()&types.IsInteger == 0 {
				return
			}
			switch b.Kind() {
			case types.Int64, types.Uint64:
				return
			}
			if _, isC := bo.X.(*ssa.Const); isC {
				return
			}
			if _, isC := bo.Y.(*ssa.Const); isC {
				return
			}
			nmul++
			if oneBit(bo.X) || oneBit(bo.Y) {
				return
			}
			bad = fmt.Sprintf("the product at %s of two run-time values is computed in %s: with sizes and indexes up to 2^31-1 it wraps", w.InstrPos(ins), b.Name())
		})
		r.Check(bad == "", "R-MUL32", n, w.Pos(fn.Pos()), bad, fmt.Sprintf("%d products of two run-time values in a type of at most 32 bits (or platform width)", nmul))
	}
}

// shiftChainConst: v is one constant moved around by shifts only (through merges and loops): returns that constant.
func shiftChainConst(v ssa.Value, depth int, seen map[ssa.Value]bool) (uint64, bool) {
	v = stripConv(v)
	if depth > 12 {
		return 0, false
	}
	if c, ok := constUint64(v); ok {
		return c, true
	}
	if seen[v] {
		return 0, true // a cycle adds nothing new
	}
	seen[v] = true
	switch x := v.(type) {
	case *ssa.BinOp:
		if x.Op == token.SHL || x.Op == token.SHR {
			return shiftChainConst(x.X, depth+1, seen)
		}
	case *ssa.Phi:
		var c uint64
		for _, e := range x.Edges {
			k, ok := shiftChainConst(e, depth+1, seen)
			if !ok {
				return 0, false
			}
			if k != 0 {
				if c != 0 && c != k {
					return 0, false
				}
				c = k
			}
		}
		return c, true
	}
	return 0, false
}
