package main

// R-IDXWIDTH: index arithmetic keeps the width of the quantity it starts from. An index, slice bound or
// length that is computed from an `int`/`int64` value (a parameter, a len()) must not pass through a
// conversion to a narrower integer type: positions >= 2^31 (bit positions of strings >= 256 MiB, offsets
// of large files) wrap silently, and no test allocates inputs of that size.

import (
	"fmt"
	"go/token"
	"go/types"

	"golang.org/x/tools/go/ssa"
)

// smallBounded: v is provably a small number (|v| < 2^16): a constant, a math/bits count, a value masked to at
// most 15 bits, or a sum/difference of two such values.
func smallBounded(v ssa.Value, depth int) bool {
	if depth > 6 {
		return false
	}
	if k, ok := constInt64(v); ok {
		return k > -(1<<15) && k < 1<<15
	}
	if _, ok := asCall(v, "math/bits.*"); ok {
		if isIntType(v.Type()) {
			return true
		}
	}
	if _, j, ok := asLowMask(v); ok && j <= 15 {
		return true
	}
	switch x := v.(type) {
	case *ssa.Convert:
		return isIntType(x.X.Type()) && smallBounded(x.X, depth+1)
	case *ssa.BinOp:
		if x.Op == token.ADD || x.Op == token.SUB {
			return smallBounded(x.X, depth+1) && smallBounded(x.Y, depth+1)
		}
	}
	return false
}

// ReportAllocWrap (R-ALLOCWRAP): an allocation length or capacity computed as an unsigned difference a - b is
// only sound on edges where a >= b is established: the difference of unsigned values wraps to a huge number
// instead of going negative, and make() panics ("len/cap out of range") for an input the function used to answer.
func ReportAllocWrap(w *World, r *Report, names ...string) {
	r.Rule("R-ALLOCWRAP", "no make() length or capacity is an unsigned difference a - b (directly or through conversions, shifts and additions of constants) unless a >= b holds on every path to the allocation: an unsigned difference wraps instead of going negative and the allocation panics for inputs (empty or inverted ranges) the function otherwise answers")
	for _, n := range names {
		fn := findFunc(w, n)
		if fn == nil || fn.Blocks == nil {
			continue
		}
		fa := w.FA(fn)
		bad := ""
		nmk := 0
		var usub func(v ssa.Value, depth int) *ssa.BinOp
		usub = func(v ssa.Value, depth int) *ssa.BinOp {
			if v == nil || depth > 8 {
				return nil
			}
			switch x := v.(type) {
			case *ssa.Convert:
				return usub(x.X, depth+1)
			case *ssa.BinOp:
				if x.Op == token.SUB && isUnsigned(x.Type()) {
					if _, isC := x.Y.(*ssa.Const); !isC {
						return x
					}
				}
				switch x.Op {
				case token.ADD, token.SUB, token.SHR, token.SHL, token.QUO, token.MUL:
					if s := usub(x.X, depth+1); s != nil {
						return s
					}
					if x.Op == token.ADD || x.Op == token.MUL {
						return usub(x.Y, depth+1)
					}
				}
			case *ssa.Phi:
				for _, e := range x.Edges {
					if s := usub(e, depth+1); s != nil {
						return s
					}
				}
			}
			return nil
		}
		eachInstr(fn, func(ins ssa.Instruction) {
			mk, ok := ins.(*ssa.MakeSlice)
			if !ok {
				return
			}
			nmk++
			for _, op := range []ssa.Value{mk.Len, mk.Cap} {
				sub := usub(op, 0)
				if sub == nil {
					continue
				}
				bd := fa.BoundsAt(mk.Block(), fa.Lin(sub.X).Sub(fa.Lin(sub.Y)))
				if !(bd.HasLo && bd.Lo >= 0) {
					bad = fmt.Sprintf("the size of the allocation at %s derives from the unsigned difference at %s, whose operands are not ordered on every path to it (a - b in %s): it wraps when a < b", w.InstrPos(mk), w.InstrPos(sub), bd)
				}
			}
		})
		r.Check(bad == "", "R-ALLOCWRAP", n, w.Pos(fn.Pos()), bad, fmt.Sprintf("%d allocations, none sized by an unguarded unsigned difference", nmk))
	}
}

func ReportIdxWidth(w *World, r *Report, names ...string) {
	r.Rule("R-IDXWIDTH", "no index, slice bound or allocation length is derived from a wider integer (int, int64, len) through a conversion to a narrower integer type: positions beyond 2^31 must not wrap")
	for _, n := range names {
		fn := findFunc(w, n)
		if fn == nil || fn.Blocks == nil {
			continue
		}
		bad := ""
		nidx := 0
		var narrow func(v ssa.Value, depth int, seen map[ssa.Value]bool) *ssa.Convert
		narrow = func(v ssa.Value, depth int, seen map[ssa.Value]bool) *ssa.Convert {
			if v == nil || depth > 14 || seen[v] {
				return nil
			}
			seen[v] = true
			switch x := v.(type) {
			case *ssa.Convert:
				if isIntType(x.Type()) && isIntType(x.X.Type()) {
					if w.Sizes.Sizeof(x.Type()) < w.Sizes.Sizeof(x.X.Type()) && w.Sizes.Sizeof(x.X.Type()) >= 8 {
						if _, isC := x.X.(*ssa.Const); !isC {
							// narrowing of a masked / bounded value is harmless: x & small, x % small
							if _, j, ok := asLowMask(x.X); ok && j <= 31 {
								return nil
							}
							// results of math/bits (<= 64) and the upper half of a 64-bit word fit any integer type
							if smallBounded(x.X, 0) {
								return nil
							}
							if _, k, ok := asBinConst(x.X, token.SHR); ok && k >= 32 {
								return nil
							}
							return x
						}
					}
					return narrow(x.X, depth+1, seen)
				}
			case *ssa.BinOp:
				if !isIntType(x.Type()) {
					return nil
				}
				if _, j, ok := asLowMask(x); ok && j <= 31 {
					return nil
				}
				switch x.Op {
				case token.AND:
					// the result is bounded by either operand: a narrowed mask ANDed with a full-width value is harmless
					cx := narrow(x.X, depth+1, seen)
					if cx == nil {
						return nil
					}
					return narrow(x.Y, depth+1, seen)
				case token.AND_NOT, token.SHR, token.QUO, token.REM:
					return narrow(x.X, depth+1, seen)
				}
				if c := narrow(x.X, depth+1, seen); c != nil {
					return c
				}
				return narrow(x.Y, depth+1, seen)
			case *ssa.Phi:
				for _, e := range x.Edges {
					if c := narrow(e, depth+1, seen); c != nil {
						return c
					}
				}
			case *ssa.UnOp:
				if isIntType(x.Type()) && x.Op.String() == "-" {
					return narrow(x.X, depth+1, seen)
				}
			}
			return nil
		}
		check := func(ins ssa.Instruction, v ssa.Value, what string) {
			if v == nil {
				return
			}
			nidx++
			if c := narrow(v, 0, map[ssa.Value]bool{}); c != nil {
				bad = fmt.Sprintf("%s at %s is derived from a %s narrowed to %s at %s", what, w.InstrPos(ins), c.X.Type(), c.Type(), w.InstrPos(c))
			}
		}
		eachInstr(fn, func(ins ssa.Instruction) {
			switch x := ins.(type) {
			case *ssa.IndexAddr:
				check(ins, x.Index, "index")
			case *ssa.Index:
				check(ins, x.Index, "index")
			case *ssa.Lookup:
				if _, isMap := x.X.Type().Underlying().(*types.Map); !isMap {
					check(ins, x.Index, "string index")
				}
			case *ssa.Slice:
				check(ins, x.Low, "slice bound")
				check(ins, x.High, "slice bound")
			case *ssa.MakeSlice:
				check(ins, x.Len, "allocation length")
			case *ssa.Call:
				// a position handed to another function of the module is an index there
				if f := x.Common().StaticCallee(); f != nil && w.InModule(f) && f.Blocks != nil {
					for i, a := range x.Common().Args {
						if isIntType(a.Type()) {
							check(ins, a, fmt.Sprintf("argument %d of %s", i, f.Name()))
						}
					}
				}
			}
		})
		r.Check(bad == "", "R-IDXWIDTH", n, w.Pos(fn.Pos()), bad, fmt.Sprintf("%d index / bound / length operands, none narrowed", nidx))
	}
}
