package main

// R-PANICSITES (shared, attached through requireFuncs): the functions a property is about are total on the
// property's domain. The explicit ways out of them other than a return - a call of the builtin panic, a
// must.Be contract - are few, were each confirmed by reading to lie outside the domain (or are decided by a
// rule of their own), and are frozen here by the function that contains them (never by line). Any other panic
// or contract reachable from an anchored function is reported: "defensive" checks and debug contracts are
// where a fencepost error turns a valid input into a crash that no test of the suite provokes.

import (
	"fmt"
	"go/types"
	"sort"
	"strings"

	"golang.org/x/tools/go/ssa"
)

// confirmedPanicSites: function -> reason (one line each, confirmed by reading).
var confirmedPanicSites = map[string]string{
	"bitmap.Select32":                      "panics for i < 0 or i>>5 >= len(selectIndex): i is not the rank of a 1-bit (outside C02's domain 0 <= i < n)",
	"size.sizeof":                          "default case of the kind switch: R-KINDS decides which kinds reach it (Chan, Func, UnsafePointer, Invalid only)",
	"pbcmpl.newHeader":                     "version longer than versionLen bytes: outside C06's domain; the bound itself is decided by R-VERSION",
	"bitmap.intFmt":                        "formatting helper for non-integer kinds, not reachable with the integer types the API instantiates",
	"bmtree.bitmapSizeCheck":               "debug contract of PathToIndex: decided by R-CONTRACT-TYPES / -RANGE",
	"bmtree.bitmapMustHaveLevel":           "debug contract of PathToIndex: decided by R-CONTRACT-LEVEL",
	"bmtree.pathCheck":                     "debug contract of PathToIndex(Loose): decided by R-CONTRACT-TYPES / -RANGE",
	"bmtree.bitmapPathMustHaveEqualHeight": "debug contract of PathToIndex(Loose): decided by R-CONTRACT-TYPES",
	"bmtree.PathToIndex$1":                 "the must.Be.OK closure that runs the contracts above",
	"bmtree.PathToIndexLoose$1":            "the must.Be.OK closure that runs the contracts above",
	"bmtree.PathToIndex":                   "must.Be.OK(closure) call itself",
	"bmtree.PathToIndexLoose":              "must.Be.OK(closure) call itself",
}

// confirmedPanicCount: how many sites were confirmed in each of those functions (an upper bound: removing one is fine).
var confirmedPanicCount = map[string]int{
	"bitmap.Select32": 1, "size.sizeof": 1, "pbcmpl.newHeader": 1, "bitmap.intFmt": 1,
	"bmtree.bitmapSizeCheck": 2, "bmtree.bitmapMustHaveLevel": 1, "bmtree.pathCheck": 3, "bmtree.bitmapPathMustHaveEqualHeight": 1,
	"bmtree.PathToIndex$1": 0, "bmtree.PathToIndexLoose$1": 0, "bmtree.PathToIndex": 1, "bmtree.PathToIndexLoose": 1,
}

// ReportDeadLoads (R-DEADLOAD): an element access whose value is never used (`_ = x[k]`, a bounds-check hint) has
// exactly one effect: it panics when k is out of range. The library has none; a hint added "to hoist the bounds
// check" runs unconditionally, also for the empty range / empty container for which the guarded accesses it
// stands for are never executed.
func ReportDeadLoads(w *World, r *Report, names ...string) {
	r.Rule("R-DEADLOAD", "no element of a slice, array or string is loaded in the property's functions without its value being used: such a bounds-check hint can only panic, and it does so for the empty range or empty container whose guarded accesses never run")
	for _, n := range names {
		fn := findFunc(w, n)
		if fn == nil || fn.Blocks == nil {
			continue
		}
		bad := ""
		nld := 0
		fns := append([]*ssa.Function{fn}, fn.AnonFuncs...)
		for _, f := range fns {
			eachInstr(f, func(ins ssa.Instruction) {
				var v ssa.Value
				switch x := ins.(type) {
				case *ssa.UnOp:
					if x.Op.String() != "*" {
						return
					}
					if _, ok := x.X.(*ssa.IndexAddr); !ok {
						return
					}
					v = x
				case *ssa.Index:
					v = x
				case *ssa.Lookup:
					if x.CommaOk {
						return
					}
					if _, isMap := x.X.Type().Underlying().(*types.Map); isMap {
						return
					}
					v = x
				default:
					return
				}
				nld++
				if refs := v.Referrers(); refs == nil || len(*refs) == 0 {
					// redundant hint: the same block goes on to access the same container at the same index, or slices it
					// up to that index + 1: the hint panics exactly when that access would
					if redundantHint(w.FA(f), ins) {
						return
					}
					bad = "the element loaded at " + w.InstrPos(ins) + " is never used: the access can only panic (a bounds-check hint runs even when the accesses it stands for do not)"
				}
			})
		}
		r.Check(bad == "", "R-DEADLOAD", n, w.Pos(fn.Pos()), bad, fmt.Sprintf("%d element loads, all used", nld))
	}
}

func redundantHint(fa *FA, ins ssa.Instruction) bool {
	var cont, idx ssa.Value
	switch x := ins.(type) {
	case *ssa.UnOp:
		ia, ok := x.X.(*ssa.IndexAddr)
		if !ok {
			return false
		}
		cont, idx = ia.X, ia.Index
	case *ssa.Index:
		cont, idx = x.X, x.Index
	case *ssa.Lookup:
		cont, idx = x.X, x.Index
	default:
		return false
	}
	il := fa.Lin(idx)
	after := false
	for _, i2 := range ins.Block().Instrs {
		if i2 == ins {
			after = true
			continue
		}
		if !after {
			continue
		}
		switch y := i2.(type) {
		case *ssa.Slice:
			if fa.VN(y.X) == fa.VN(cont) && y.High != nil && fa.Lin(y.High).Eq(il.Add(linConst(1))) {
				return true
			}
		case *ssa.IndexAddr:
			if fa.VN(y.X) == fa.VN(cont) && fa.Lin(y.Index).Eq(il) && y.Referrers() != nil && len(*y.Referrers()) > 0 && ssa.Instruction(y) != ins {
				if u, ok := ins.(*ssa.UnOp); !ok || u.X != ssa.Value(y) {
					return true
				}
			}
		case *ssa.Index:
			if fa.VN(y.X) == fa.VN(cont) && fa.Lin(y.Index).Eq(il) {
				return true
			}
		}
	}
	return false
}

func ReportPanicSites(w *World, r *Report, names ...string) {
	r.Rule("R-PANICSITES", "the only explicit panics and must.Be contracts reachable from the property's functions are the confirmed ones (frozen by containing function: Select32's range check, sizeof's default kind, newHeader's version length, bmtree's debug contracts - each outside the property's domain or decided by its own rule); a new panic or contract makes the function partial on inputs the property quantifies over")
	e := RunEffects(w)
	for _, n := range names {
		fn := findFunc(w, n)
		if fn == nil {
			continue
		}
		reach := e.reachableFrom([]*ssa.Function{fn})
		var fns []*ssa.Function
		for f := range reach {
			if f.Blocks != nil && w.InModule(f) {
				fns = append(fns, f)
			}
		}
		sort.Slice(fns, func(i, j int) bool { return w.FuncName(fns[i]) < w.FuncName(fns[j]) })
		var bad []string
		nsites := 0
		for _, f := range fns {
			fname := w.FuncName(f)
			inFn := 0
			eachInstr(f, func(ins ssa.Instruction) {
				what := ""
				switch x := ins.(type) {
				case *ssa.Panic:
					what = "explicit panic"
				case *ssa.Call:
					if b, ok := x.Common().Value.(*ssa.Builtin); ok && b.Name() == "panic" {
						what = "explicit panic"
					} else if name, ok := isMustCall(x); ok {
						what = "contract must.Be." + name
					}
				}
				if what == "" {
					return
				}
				nsites++
				inFn++
				if _, ok := confirmedPanicSites[fname]; !ok {
					bad = append(bad, fmt.Sprintf("%s in %s at %s", what, fname, w.InstrPos(ins)))
				} else if inFn > confirmedPanicCount[fname] {
					bad = append(bad, fmt.Sprintf("%s in %s at %s (site %d, %d confirmed there)", what, fname, w.InstrPos(ins), inFn, confirmedPanicCount[fname]))
				}
			})
		}
		if len(bad) > 4 {
			bad = append(bad[:4], fmt.Sprintf("... %d more", len(bad)-4))
		}
		r.Check(len(bad) == 0, "R-PANICSITES", n, w.Pos(fn.Pos()), "not among the confirmed sites: "+strings.Join(bad, "; "), fmt.Sprintf("%d functions reached, %d panic/contract sites, all confirmed", len(fns), nsites))
	}
}
