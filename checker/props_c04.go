package main

import (
	"fmt"
	"go/token"
	"go/types"
	"strings"

	"golang.org/x/tools/go/ssa"
)

func runC04(c *Ctx, w *World, r *Report) {
	names := []string{"bmtree.AllPaths", "bmtree.Decode", "bmtree.PathToIndex", "bmtree.Height"}
	fns, ok := requireFuncs(w, r, names...)
	ReportScale(w, r, "bmtree.AllPaths", "bmtree.Decode")
	ReportPair(w, r, "bmtree.AllPaths", "bmtree.Decode")
	refs := ReportBitRefs(w, r, "bmtree.Decode")
	reportFresh(w, r, "bmtree.AllPaths", "bmtree.Decode")
	if !ok {
		return
	}
	r.Rule("R-EMIT", "AllPaths appends a path p only on the edge p - from >= 0 and p - to <= -1 (exactly: from <= p < to) and only when its level is stored (bitmapSize & Bit[height-tz] != 0); the early return happens only on p >= to")
	r.Rule("R-PATHFORM", "the path emitted for search value i and tz trailing zeros is i<<32 | (Mask[height] ^ Mask[tz]) (bits in the upper half, a mask of height-tz ones left aligned in height bits)")
	r.Rule("R-RANGE", "the search values run i = from>>32, +1, ... while i < min((to>>32)+1, Bit[height]); for each i the level walk runs tz = min(TrailingZeros64(i), height) down to 0 inclusive")
	r.Rule("R-DECODE", "Decode enumerates AllPaths(bitmapSize, 0, C) with C >= 2^62 (every 30-level path word), tests bit PathToIndex(bitmapSize, p) of bm for every such p (same bitmapSize), reads bm[k] only on the edge k < len(bm) exactly (shorter bitmaps read as 0) and appends exactly that p under bit != 0")

	{
		n := "bmtree.AllPaths"
		fn := fns[n]
		fa := w.FA(fn)
		from, to := fa.Lin(fn.Params[1]), fa.Lin(fn.Params[2])
		var app *ssa.Call
		napp := 0
		eachInstr(fn, func(ins ssa.Instruction) {
			if call, ok := ins.(*ssa.Call); ok && len(appendedValues(call)) == 1 {
				app = call
				napp++
			}
		})
		if app == nil || napp != 1 {
			r.Bad("R-EMIT", n, w.Pos(fn.Pos()), fmt.Sprintf("expected one append site, found %d", napp))
			return
		}
		p := appendedValues(app)[0]
		pl := fa.Lin(p)
		bad := ""
		b1 := fa.BoundsAt(app.Block(), pl.Sub(from))
		b2 := fa.BoundsAt(app.Block(), pl.Sub(to))
		if !(b1.HasLo && b1.Lo == 0) {
			bad = "a path is emitted with p - from in " + b1.String() + "; the range starts exactly at from (inclusive)"
		}
		if !(b2.HasHi && b2.Hi == -1) {
			bad = "a path is emitted with p - to in " + b2.String() + "; the range ends exactly before to (exclusive)"
		}
		// the range tests compare whole path words: a comparison of truncated halves (uint32(p) < uint32(from)) orders
		// the masks only, and the searching bits decide first
		for _, cd := range fa.Conds(app.Block()) {
			bo, ok := cd.V.(*ssa.BinOp)
			if !ok {
				continue
			}
			if _, isCmp := tokOp(bo.Op); !isCmp {
				continue
			}
			for _, side := range []ssa.Value{bo.X, bo.Y} {
				cv, isCv := side.(*ssa.Convert)
				if !isCv || intWidth(cv.X.Type()) != 64 || intWidth(cv.Type()) >= 64 {
					continue
				}
				root := stripConv(cv.X)
				if root == stripConv(p) || root == ssa.Value(fn.Params[1]) || root == ssa.Value(fn.Params[2]) {
					bad = "the range test at " + w.InstrPos(bo) + " compares a path word truncated to " + cv.Type().String() + ": numeric order of paths is the order of the whole 64-bit words (searching bits first, then the mask)"
				}
			}
		}
		// stored-level test. "tz" is kept as a linear form: the loop may count tz down (level = height - tz) or the
		// level up (tz = height - level); the rules below only speak about height - level.
		var tzL Lin
		haveTz := false
		heightIs := func(v ssa.Value) bool {
			call, ok := stripConv(v).(*ssa.Call)
			return ok && call.Common().StaticCallee() == fns["bmtree.Height"] && call.Common().Args[0] == ssa.Value(fn.Params[0])
		}
		var heightL Lin
		haveH := false
		eachInstr(fn, func(ins ssa.Instruction) {
			if v, ok := ins.(ssa.Value); ok && heightIs(v) && !haveH {
				heightL, haveH = fa.Lin(v), true
			}
		})
		okLevel := false
		for _, cd := range fa.Conds(app.Block()) {
			bo, ok := cd.V.(*ssa.BinOp)
			if !ok || !(bo.Op == token.EQL && !cd.Pol || bo.Op == token.NEQ && cd.Pol) {
				continue
			}
			if k, ok := constInt64(stripConv(bo.Y)); !ok || k != 0 {
				continue
			}
			a, b, ok := asBin(bo.X, token.AND)
			if !ok {
				continue
			}
			var L Lin
			haveL := false
			for _, side := range [2][2]ssa.Value{{a, b}, {b, a}} {
				// bitmapSize & Bit[l]
				if stripConv(side[0]) == ssa.Value(fn.Params[0]) {
					ms, ok := fa.MaskOf(side[1])
					if !ok || ms.Kind != "bit" {
						bad = "the stored-level test does not select one bit (bitmap.Bit[l] or 1<<l)"
						continue
					}
					L, haveL = ms.N, true
				}
				// (bitmapSize >> l) & 1
				if k, ok := constInt64(stripConv(side[1])); ok && k == 1 {
					if x, amt, ok := asBin(side[0], token.SHR); ok && stripConv(x) == ssa.Value(fn.Params[0]) {
						L, haveL = fa.Lin(amt), true
					}
				}
			}
			if !haveL {
				continue
			}
			if !haveH {
				bad = "Height(bitmapSize) is not computed"
				continue
			}
			// level = height - tz  =>  tz = height - level; tz must involve exactly one variable besides height
			cand := heightL.Sub(L)
			nvar := 0
			okI := cand.K == 0
			for atom, coef := range cand.T {
				if heightIs(fa.AtomValue(atom)) {
					if coef != 1 {
						okI = false
					}
					continue
				}
				nvar++
				if coef != 1 && coef != -1 {
					okI = false
				}
			}
			if nvar != 1 {
				okI = false
			}
			if !okI {
				bad = "level bit tested is Bit[" + L.String() + "], expected Bit[height - tz]"
				continue
			}
			tzL, haveTz = cand, true
			okLevel = true
		}
		if !okLevel && bad == "" {
			bad = "a path is emitted without its level being stored (bitmapSize & Bit[height-tz] != 0)"
		}
		// early return
		for _, ret := range returnsOf(fn) {
			bd := fa.BoundsAt(ret.Block(), pl.Sub(to))
			if len(fa.Conds(ret.Block())) == 0 {
				continue
			}
			inLoop := false
			if pi, ok := p.(ssa.Instruction); ok && pi.Block().Dominates(ret.Block()) {
				inLoop = true
			}
			if inLoop && !(bd.HasLo && bd.Lo == 0) {
				bad = "the enumeration stops early at " + w.InstrPos(ret) + " on an edge other than p >= to"
			}
		}
		r.Check(bad == "", "R-EMIT", n, w.InstrPos(app), bad, "append(paths, p) dominated by p-from >= 0, p-to <= -1, level stored")

		// R-PATHFORM
		badF := ""
		var iv ssa.Value
		if call, isCall := stripConv(p).(*ssa.Call); isCall && call.Common().StaticCallee() != nil && call.Common().StaticCallee() == findFunc(w, "bmtree.NewPath") && len(call.Common().Args) == 3 {
			// the path is built by the package's own constructor (its layout is C10's R-LAYOUT): NewPath(i, height-tz, height)
			args := call.Common().Args
			iv = stripConv(args[0])
			if !haveH || !haveTz {
				badF = "height or the level walk was not identified"
			} else if !fa.Lin(args[2]).Eq(heightL) {
				badF = "NewPath is not called with the tree height"
			} else if !fa.Lin(args[1]).Eq(heightL.Sub(tzL)) {
				badF = "NewPath is called with length " + fa.Lin(args[1]).String() + ", expected height - tz for the tz whose level was tested"
			}
		} else {
			a, b, ok := asBin(p, token.OR)
			if !ok {
				badF = "path is not bits<<32 | mask"
			} else {
				var maskT ssa.Value
				for _, s := range []ssa.Value{a, b} {
					if x, cc, ok := asBinConst(s, token.SHL); ok {
						if cc != 32 {
							badF = fmt.Sprintf("search bits shifted by %d, the layout needs 32", cc)
						}
						iv = x
					} else {
						maskT = s
					}
				}
				if iv == nil || maskT == nil {
					badF = "path is not i<<32 | mask"
				} else {
					// Mask[height] ^ Mask[tz]; with tz <= height (the level loop's range) the low mask is a sub-mask of the
					// high one, so `&^` and `-` with Mask[height] on the left say the same
					m1, m2, ok := asBin(maskT, token.XOR)
					ordered := false
					if !ok {
						if m1, m2, ok = asBin(maskT, token.AND_NOT); !ok {
							m1, m2, ok = asBin(maskT, token.SUB)
						}
						ordered = ok
					}
					if ok && ordered {
						if ms, isM := fa.MaskOf(m1); !isM || ms.Kind != "low" || !haveH || !ms.N.Eq(heightL) {
							ok = false
						}
					}
					if !ok {
						badF = "mask is not Mask[height] ^ Mask[tz]"
					} else {
						var gotH, gotT bool
						for _, m := range []ssa.Value{m1, m2} {
							ms, ok := fa.MaskOf(m)
							if !ok || ms.Kind != "low" {
								badF = "mask halves are not low-bits masks (bitmap.Mask[n] or (1<<n)-1)"
								continue
							}
							if haveH && ms.N.Eq(heightL) {
								gotH = true
							} else if haveTz && ms.N.Eq(tzL) {
								gotT = true
							}
						}
						if !(gotH && gotT) && badF == "" {
							badF = "mask is not Mask[height] ^ Mask[tz] with the tz whose level was tested"
						}
					}
				}
			}
		}
		r.Check(badF == "", "R-PATHFORM", n, w.Pos(fn.Pos()), badF, "p = i<<32 | (Mask[height] ^ Mask[tz])")

		// R-RANGE
		badR := ""
		if iv != nil {
			ind, ok := fa.InductionOf(iv, app.Block())
			if !ok || ind.Step != 1 {
				badR = "search value is not a counting loop variable"
			} else {
				x, cc, ok := asShiftRightAcc(fa.AtomValueOfLin(ind.FirstLin))
				if !ok || cc != 32 || x != ssa.Value(fn.Params[1]) {
					badR = "search values start at " + ind.FirstLin.String() + ", expected from>>32"
				}
				if !ind.HasN || len(ind.N.T) != 1 || ind.N.K != 0 {
					badR = "no upper bound on the search value"
				} else {
					for atom := range ind.N.T {
						tphi := fa.AtomValue(atom)
						var hasTo, hasFull bool
						for _, s := range resolvePhi(tphi) {
							L := fa.Lin(s)
							if ms, ok := fa.MaskOf(s); ok && ms.Kind == "bit" {
								if idx := fa.AtomValueOfLin(ms.N); idx != nil && heightIs(idx) {
									hasFull = true
									continue
								}
							}
							okTo := L.K == 1 && len(L.T) == 1
							for a2, coef := range L.T {
								x, cc, ok := asShiftRightAcc(fa.AtomValue(a2))
								if !ok || cc != 32 || coef != 1 || x != ssa.Value(fn.Params[2]) {
									okTo = false
								}
							}
							if okTo {
								hasTo = true
							} else {
								badR = "upper bound candidate " + L.String() + " is neither (to>>32)+1 nor Bit[height]"
							}
						}
						if !(hasTo && hasFull) && badR == "" {
							badR = "upper bound must be min((to>>32)+1, Bit[height])"
						}
					}
				}
			}
		}
		if haveTz && badR == "" {
			var tp *ssa.Phi
			var tpAtom string
			var c int64
			for atom, coef := range tzL.T {
				if p, ok := fa.AtomValue(atom).(*ssa.Phi); ok && isLoopHeaderPhi(p) {
					tp, tpAtom, c = p, atom, coef
				}
			}
			if tp == nil {
				badR = "tz is not a loop variable"
			} else {
				pl := linAtom(tpAtom)
				rest := tzL.Sub(linConst(0).addScaled(pl, c))
				var hasTZ, hasH, hasStep bool
				var cands []ssa.Value
				for _, e0 := range tp.Edges {
					// a clamp written before other statements leaves its own merge in front of the loop: look through it
					cands = append(cands, resolvePhiExcept(stripConv(e0), tp)...)
				}
				for _, e := range cands {
					el := fa.Lin(e)
					if d := el.Sub(pl); d.IsConst() && d.K != 0 {
						if d.K*c == -1 {
							hasStep = true
						} else {
							badR = fmt.Sprintf("the level walk moves tz by %+d per step, expected -1", d.K*c)
						}
						continue
					}
					// the value of tz this start value stands for
					I := rest.Add(linConst(0).addScaled(el, c))
					var leaves []ssa.Value
					if v := fa.AtomValueOfLin(I); v != nil {
						leaves = resolvePhi(stripConv(v))
					}
					if len(leaves) == 0 {
						badR = "tz starts at " + I.String() + ", expected min(TrailingZeros64(i), height)"
						continue
					}
					for _, lf := range leaves {
						if heightIs(lf) {
							hasH = true
							continue
						}
						if call, ok := asCall(lf, "math/bits.TrailingZeros64"); ok && iv != nil && fa.VN(call.Common().Args[0]) == fa.VN(iv) {
							hasTZ = true
							continue
						}
						badR = "tz candidate " + fa.Lin(lf).String() + " is neither TrailingZeros64(i), height nor tz-1"
					}
				}
				if !(hasTZ && hasH && hasStep) && badR == "" {
					badR = "tz must start at min(TrailingZeros64(i), height) and step by -1"
				}
				bd := fa.BoundsAt(app.Block(), tzL)
				if !(bd.HasLo && bd.Lo == 0) {
					badR = "the level walk covers tz in " + bd.String() + "; it must include tz = 0 (the full-length path) and nothing below"
				}
			}
		}
		r.Check(badR == "", "R-RANGE", n, w.Pos(fn.Pos()), badR, "i from from>>32 while i < min((to>>32)+1, Bit[height]); tz from min(TZ(i),height) down to 0")

		// R-EARLYRET: a return taken before the walk starts gives up the whole range; that is right only when the range is empty
		r.Rule("R-EARLYRET", "a return of AllPaths that is not reached through the walk over the search values (an early exit) lies on an edge where from >= to is established exactly: any other shortcut drops paths of a non-empty range")
		badE := ""
		nearly := 0
		if iv != nil {
			if phi, ok := stripConv(iv).(*ssa.Phi); ok {
				hdr := phi.Block()
				for _, ret := range returnsOf(fn) {
					if hdr.Dominates(ret.Block()) {
						continue
					}
					nearly++
					bd := fa.BoundsAt(ret.Block(), fa.Lin(fn.Params[1]).Sub(fa.Lin(fn.Params[2])))
					if !bd.HasLo || bd.Lo < 0 {
						badE = fmt.Sprintf("the return at %s leaves before the walk on an edge where from - to is only known to be in %s: a non-empty range can take it", w.InstrPos(ret), bd)
					}
				}
			}
		}
		r.Check(badE == "", "R-EARLYRET", n, w.Pos(fn.Pos()), badE, fmt.Sprintf("%d early returns, each under from >= to", nearly))
	}
	{
		n := "bmtree.Decode"
		fn := fns[n]
		fa := w.FA(fn)
		bad := ""
		var ap, pi *ssa.Call
		eachInstr(fn, func(ins ssa.Instruction) {
			call, ok := ins.(*ssa.Call)
			if !ok {
				return
			}
			switch call.Common().StaticCallee() {
			case fns["bmtree.AllPaths"]:
				ap = call
			case fns["bmtree.PathToIndex"]:
				pi = call
			}
		})
		if ap == nil || pi == nil {
			bad = "Decode does not combine AllPaths with PathToIndex"
		} else {
			a := ap.Common().Args
			if a[0] != ssa.Value(fn.Params[0]) {
				bad = "AllPaths is not given bitmapSize"
			}
			if k, ok := constUint64(a[1]); !ok || k != 0 {
				bad = "enumeration does not start at path 0"
			}
			if k, ok := constUint64(a[2]); !ok || k < 1<<62 {
				bad = "enumeration range does not cover every 30-level path word (to < 2^62)"
			}
			pa := pi.Common().Args
			if pa[0] != ssa.Value(fn.Params[0]) {
				bad = "PathToIndex is given a different bitmap size than AllPaths"
			}
			cont, _, ok := asElemLoad(pa[1])
			if !ok || cont != ssa.Value(ap) {
				bad = "PathToIndex is not applied to the enumerated paths"
			} else if _, ok, why := fullRangeElem(fa, pa[1]); !ok {
				bad = "not every enumerated path is tested: " + why
			}
			// bit test on bm at pos = index
			var rd *BitRef
			for i := range refs[n] {
				if refs[n][i].Role == "bm" && refs[n][i].Use != nil {
					rd = &refs[n][i]
				}
			}
			if rd == nil {
				bad = "no bit test on bm"
			} else {
				if !rd.PosLin.Eq(fa.Lin(pi)) {
					bad = "bit tested is " + rd.PosLin.String() + ", not PathToIndex(bitmapSize, p)"
				}
				if ia, isIA := rd.Ins.(*ssa.IndexAddr); isIA {
					bd := fa.BoundsAt(ia.Block(), fa.Lin(ia.Index).Sub(linAtom("call:builtin len(p1)")))
					if !(bd.HasHi && bd.Hi == -1) {
						bad = "bm[k] is read with k - len(bm) in " + bd.String() + "; words beyond len(bm) must read as 0, never panic (guard k < len(bm) exactly)"
					}
				} else {
					// read through Get/Get1: the position must be established to lie inside bm
					bd := fa.BoundsAt(rd.Ins.Block(), rd.PosLin.Sub(linConst(0).addScaled(linAtom("call:builtin len(p1)"), 64)))
					if !(bd.HasHi && bd.Hi <= -1) {
						bad = "the bit is read through " + fmtVal(w, rd.Use) + " with position - 64*len(bm) in " + bd.String() + "; words beyond len(bm) must read as 0, never panic"
					}
				}
				napp := 0
				eachInstr(fn, func(ins ssa.Instruction) {
					call, ok := ins.(*ssa.Call)
					if !ok {
						return
					}
					vals := appendedValues(call)
					if len(vals) != 1 {
						return
					}
					napp++
					if vals[0] != pa[1] {
						bad = "the path appended is not the path whose bit was tested"
					}
					guarded := false
					if bitKnownSet(fa.Conds(call.Block()), rd) {
						guarded = true
					}
					if !guarded {
						bad = "a path is appended without its bit being set"
					}
				})
				if napp != 1 && bad == "" {
					bad = "expected one append site"
				}
			}
		}
		r.Check(bad == "", "R-DECODE", n, w.Pos(fn.Pos()), bad, "for p in AllPaths(size,0,2^63): idx=PathToIndex(size,p); if idx>>6 < len(bm) && bit set: append p")
	}
	_ = strings.Join
}

func init() {
	register(&Prop{
		ID: "C04", Level: "other",
		Explain: "Structural necessary conditions of AllPaths/Decode (DESIGN.md 5/C04): exact [from,to) clip and stored-level test dominating the only emit, early exit only on p >= to, the emitted path's layout, the search-value range and the level walk including tz = 0; Decode's wiring (same bitmapSize, full path range, every path tested at its PathToIndex bit, exact len(bm) guard, appended path = tested path).",
		NotDec:  []string{"that the trailing-zero walk enumerates each stored node exactly once and in ascending order (arithmetic/combinatorial)", "PathToIndex itself (C03)"},
		Trusted: []string{"go/ssa construction", "math/bits.TrailingZeros64"},
		Quick:   []Config{cfgDefault, cfg386}, Thorough: []Config{cfgDefault, cfg386},
		Run: runC04,
	})
}

// asShiftRightAcc: x >> c, written out or through a one-line accessor of the library whose whole body is
// `return p >> c` (PathBits(p) for p>>32).
func asShiftRightAcc(v ssa.Value) (ssa.Value, int, bool) {
	if x, c, ok := asShiftRight(v); ok {
		return x, c, true
	}
	call, ok := stripConv(v).(*ssa.Call)
	if !ok {
		return nil, 0, false
	}
	f := call.Common().StaticCallee()
	if f == nil || len(f.Blocks) != 1 || len(f.Params) != 1 || len(call.Common().Args) != 1 {
		return nil, 0, false
	}
	ret, ok := f.Blocks[0].Instrs[len(f.Blocks[0].Instrs)-1].(*ssa.Return)
	if !ok || len(ret.Results) != 1 || len(f.Blocks[0].Instrs) != 2 {
		return nil, 0, false
	}
	x, c, ok := asShiftRight(ret.Results[0])
	if !ok || x != ssa.Value(f.Params[0]) || !types.Identical(ret.Results[0].Type(), f.Params[0].Type()) {
		return nil, 0, false
	}
	return call.Common().Args[0], c, true
}
