package main

// R-STATELESS (shared by the per-function properties): the functions a property is about, and every
// in-module function they reach, keep no state between calls: they write no package-level variable,
// read no package-level variable that any exported function can write, and call nothing in
// sync/time/rand/os/runtime, start no goroutine and use no channel. A property of the form
// "for every input, f(x) = spec(x)" cannot hold for a function whose result depends on what earlier
// calls (or other goroutines) left behind; C19 decides the same for the whole API of the five pure
// packages, this rule attaches the finding to the property whose function is affected.

import (
	"fmt"
	"sort"
	"strings"

	"golang.org/x/tools/go/ssa"
)

type statelessCtx struct {
	e       *Effects
	writers map[*ssa.Global][]*ssa.Function
	apiAll  map[*ssa.Function]bool
}

var statelessCache = map[*World]*statelessCtx{}

func statelessOf(w *World) *statelessCtx {
	if c, ok := statelessCache[w]; ok {
		return c
	}
	e := RunEffects(w)
	c := &statelessCtx{e: e, writers: map[*ssa.Global][]*ssa.Function{}}
	for fn, s := range e.Sum {
		for _, ws := range s.wsites {
			if ws.r.kind == rkGlobal && !strings.HasPrefix(ws.what, "call ") && !strings.HasPrefix(ws.what, "closure ") {
				c.writers[ws.r.g] = append(c.writers[ws.r.g], fn)
			}
		}
	}
	var shorts []string
	for _, p := range w.Prog.AllPackages() {
		if p.Pkg != nil && w.InModulePkg(p.Pkg.Path()) {
			shorts = append(shorts, w.Short(p.Pkg))
		}
	}
	sort.Strings(shorts)
	c.apiAll = e.reachableFrom(apiFuncs(w, shorts))
	statelessCache[w] = c
	return c
}

// ReportStateless adds one R-STATELESS obligation per named function.
func ReportStateless(w *World, r *Report, names ...string) {
	r.Rule("R-STATELESS", "the property's functions and everything they reach inside the module keep no state between calls: no store to a package-level variable, no read of a package-level variable that code reachable from an exported function writes, no sync/time/rand/os/runtime call, goroutine or channel (caches, pools and scratch buffers make the result depend on earlier calls or on other goroutines)")
	c := statelessOf(w)
	for _, n := range names {
		fn := findFunc(w, n)
		if fn == nil {
			continue // anchors are reported by the property's own requireFuncs
		}
		reach := c.e.reachableFrom([]*ssa.Function{fn})
		var fns []*ssa.Function
		for f := range reach {
			if f.Blocks != nil && w.InModule(f) {
				fns = append(fns, f)
			}
		}
		sort.Slice(fns, func(i, j int) bool { return w.FuncName(fns[i]) < w.FuncName(fns[j]) })
		var bad []string
		for _, f := range fns {
			s := c.e.Sum[f]
			if s == nil {
				continue
			}
			for _, ws := range s.wsites {
				if ws.r.kind == rkGlobal && !strings.HasPrefix(ws.what, "call ") && !strings.HasPrefix(ws.what, "closure ") {
					bad = append(bad, fmt.Sprintf("%s writes package-level variable %s at %s", w.FuncName(f), ws.r, ws.pos))
				}
			}
			seenG := map[*ssa.Global]bool{}
			eachInstr(f, func(ins ssa.Instruction) {
				u, ok := ins.(*ssa.UnOp)
				if !ok || u.Op.String() != "*" {
					return
				}
				g, ok := addrBase(u.X).(*ssa.Global)
				if !ok || seenG[g] {
					return
				}
				seenG[g] = true
				for _, wr := range c.writers[g] {
					if c.apiAll[wr] {
						bad = append(bad, fmt.Sprintf("%s reads %s.%s at %s, which %s writes after initialisation", w.FuncName(f), g.Pkg.Pkg.Name(), g.Name(), w.InstrPos(ins), w.FuncName(wr)))
						break
					}
				}
			})
			for _, nt := range s.notes {
				if strings.HasPrefix(nt.role, "via ") {
					continue
				}
				if strings.HasPrefix(nt.msg, "call into package ") || strings.HasPrefix(nt.role, "chan-") || nt.role == "select" || nt.role == "go" {
					bad = append(bad, fmt.Sprintf("%s: %s at %s", w.FuncName(f), nt.msg, nt.pos))
				}
			}
		}
		if len(bad) > 6 {
			bad = append(bad[:6], fmt.Sprintf("... %d more", len(bad)-6))
		}
		r.Check(len(bad) == 0, "R-STATELESS", n, w.Pos(fn.Pos()), strings.Join(bad, "; "), fmt.Sprintf("%d functions reached, none keeps state", len(fns)))
	}
}
