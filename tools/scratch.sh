#!/bin/bash
# usage: scratch.sh <patch-dir> -> prints the path of a scratch copy of /repo's working tree with the patch applied (caller removes it)
set -e
D="$(mktemp -d /tmp/lowscratch_XXXX)"
rsync -a --exclude .git /repo/ "$D/repo/"
(cd "$D/repo" && git apply --whitespace=nowarn "$(realpath "$1")/patch.diff")
echo "$D/repo"
