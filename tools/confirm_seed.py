#!/usr/bin/env python3
"""Confirms a red-team seed in a scratch worktree of /repo (outside /repo and /verif, removed afterwards):
  1. demo passes on the untouched tree,
  2. with patch.diff applied the tree builds, the WHOLE pinned suite passes (the two always-failing
     zipf tests aside) and the demo fails.
usage: confirm_seed.py <seed-dir>   -> prints a JSON record (also written to <seed-dir>/confirm.json)"""
import json, os, re, shutil, subprocess, sys, tempfile
sd = os.path.abspath(sys.argv[1])
ENV = dict(os.environ, GOFLAGS="-mod=mod", GOPROXY="off", GOSUMDB="off", GOTOOLCHAIN="local", CGO_ENABLED="0")
ENV.pop("GOWORK", None)
def run(cmd, cwd, timeout=600, env=None):
    p = subprocess.run(cmd, cwd=cwd, env=env or ENV, capture_output=True, text=True, errors="replace", shell=isinstance(cmd, str), timeout=timeout)
    return p.returncode, (p.stdout + p.stderr)
meta = json.load(open(os.path.join(sd, "meta.json")))
wt = tempfile.mkdtemp(prefix="confirm_")
os.rmdir(wt)
rec = dict(seed=sd)
try:
    rc, out = run(["git", "-C", "/repo", "worktree", "add", "-q", "--detach", wt, "HEAD"], "/")
    assert rc == 0, out
    demo = None
    for cand in ("demo_test.go",):
        if os.path.exists(os.path.join(sd, cand)): demo = os.path.join(sd, cand)
    rec["demo_kind"] = "test" if demo else "program"
    if demo:
        src = open(demo).read()
        pkgname = re.search(r"^package\s+(\w+)", src, re.M).group(1)
        base = pkgname[:-5] if pkgname.endswith("_test") else pkgname
        # package directory: from files_touched / demo_cmd
        m = re.search(r"\./([\w/]+)\s*(;|$|&|\n)", meta.get("demo_cmd", ""))
        pkgdir = None
        for d, _, files in os.walk(wt):
            if "/.git" in d: continue
            if os.path.basename(d) == base and any(f.endswith(".go") for f in files): pkgdir = d
        if m and os.path.isdir(os.path.join(wt, m.group(1))): pkgdir = os.path.join(wt, m.group(1))
        rec["pkg"] = os.path.relpath(pkgdir, wt)
        dst = os.path.join(pkgdir, "zz_demo_test.go")
        names = re.findall(r"func (Test\w+|Example\w*)\(", src)
        runpat = "^(" + "|".join(names or ["Test"]) + ")$"
        def rundemo():
            shutil.copy(demo, dst)
            tags = ["-tags", "debug"] if "-tags debug" in meta.get("demo_cmd", "") or "-tags=debug" in meta.get("demo_cmd", "") else []
            rec["demo_tags"] = tags
            denv = dict(ENV, GOARCH="386") if "GOARCH=386" in meta.get("demo_cmd", "") else None
            rec["demo_goarch"] = "386" if denv else ""
            r = run(["go", "test", "-vet=off", "-count=1"] + tags + ["-run", runpat, "./" + rec["pkg"]], wt, env=denv)
            os.remove(dst)
            return r
    else:
        ddir = os.path.join(sd, "demo")
        def rundemo():
            tmpd = tempfile.mkdtemp(prefix="demo_")
            try:
                for f in os.listdir(ddir): shutil.copy(os.path.join(ddir, f), tmpd)
                gm = open(os.path.join(tmpd, "go.mod")).read()
                gm = re.sub(r"=>\s*\S+", "=> " + wt, gm)
                open(os.path.join(tmpd, "go.mod"), "w").write(gm)
                shutil.copy(os.path.join(wt, "go.sum"), tmpd)
                runtxt = ""
                for f in os.listdir(ddir):
                    if f.lower().startswith("run"): runtxt += open(os.path.join(ddir, f)).read()
                tags = ["-tags", "debug"] if "-tags debug" in (meta.get("demo_cmd", "") + runtxt) else []
                rec["demo_tags"] = tags
                return run(["go", "run"] + tags + ["."], tmpd)
            finally:
                shutil.rmtree(tmpd, ignore_errors=True)
    rc0, out0 = rundemo()
    rec["demo_without_change"] = dict(exit=rc0, tail=out0[-400:])
    rc, out = run(["git", "-C", wt, "apply", os.path.join(sd, "patch.diff")], "/")
    rec["patch_applies"] = rc == 0
    assert rc == 0, out
    rc, out = run(["go", "build", "./..."], wt)
    rec["builds"] = rc == 0
    rc, out = run(["go", "test", "-vet=off", "-count=1", "./..."], wt, timeout=900)
    fails = [l.split()[2] for l in out.splitlines() if l.startswith("--- FAIL")]
    rec["suite_failures_with_change"] = [f for f in fails if f not in ("TestAccess", "ExampleAccesses")]
    rc1, out1 = rundemo()
    rec["demo_with_change"] = dict(exit=rc1, tail=out1[-600:])
    rec["confirmed"] = bool(rec["builds"] and not rec["suite_failures_with_change"] and rc0 == 0 and rc1 != 0)
except Exception as e:
    rec["error"] = repr(e)
    rec["confirmed"] = False
finally:
    subprocess.run(["git", "-C", "/repo", "worktree", "remove", "--force", wt], capture_output=True)
    shutil.rmtree(wt, ignore_errors=True)
json.dump(rec, open(os.path.join(sd, "confirm.json"), "w"), indent=1)
print(json.dumps(dict(seed=os.path.basename(os.path.dirname(sd)) + "/" + os.path.basename(sd), confirmed=rec["confirmed"], suite_failures=rec.get("suite_failures_with_change"), without=rec.get("demo_without_change", {}).get("exit"), with_=rec.get("demo_with_change", {}).get("exit"), error=rec.get("error"))))
