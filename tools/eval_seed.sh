#!/bin/bash
# usage: eval_seed.sh <seed-dir> [props]   — applies <seed-dir>/patch.diff to /repo, runs the checks, undoes it.
# Prints which checks fire. /repo must be clean before; it is restored afterwards.
set -u
SD="$1"; PROPS="${2:-all}"
cd /repo || exit 2
if [ -n "$(git status --porcelain)" ]; then echo "/repo not clean"; exit 2; fi
git apply "$SD/patch.diff" || { echo "patch does not apply"; exit 2; }
export VERIF_DIR="$(mktemp -d)"; cp /verif/known_findings.txt "$VERIF_DIR/" 2>/dev/null
export GOFLAGS=-mod=mod GOPROXY=off GOSUMDB=off GOTOOLCHAIN=local
OUT="$(/verif/bin/lowcheck -prop "$PROPS" -noselftest 2>&1)"
echo "$OUT" | grep -E "^(VIOLATED|UNDECIDED)" | cut -c1-260
echo "exit-summary: $(echo "$OUT" | grep -E 'quick:' | grep -v ' 0 violated, 0 undecided' | awk '{print $1}' | tr '\n' ' ')"
rm -rf "$VERIF_DIR"
git checkout -- . ; git clean -fdq
