#!/usr/bin/env python3
"""confirm_benign.py <dir>: confirms a behaviour-preserving refactor {patch.diff, diff_test.go, meta.json}:
in a scratch worktree of /repo (removed afterwards) the patch applies, the tree builds (also -tags debug), the pinned
suite passes (except the two always-failing zipf tests) and the differential test (refactored vs. verbatim copies of
the original functions) passes. Writes <dir>/confirm.json."""
import json, os, re, shutil, subprocess, sys, tempfile
sd = os.path.abspath(sys.argv[1])
env = dict(os.environ, GOFLAGS="-mod=mod", GOPROXY="off", GOSUMDB="off", GOTOOLCHAIN="local"); env.pop("GOWORK", None)
wt = tempfile.mkdtemp(prefix="benign-")
os.rmdir(wt)
def run(cmd, cwd=wt, **kw): return subprocess.run(cmd, cwd=cwd, env=env, capture_output=True, text=True, **kw)
out = dict(confirmed=False)
try:
    r = subprocess.run(["git", "-C", "/repo", "worktree", "add", "-q", "--detach", wt, "HEAD"], capture_output=True, text=True)
    if r.returncode: raise SystemExit("worktree: " + r.stderr)
    r = run(["git", "apply", sd + "/patch.diff"])
    out["applies"] = r.returncode == 0
    if not out["applies"]: raise SystemExit("patch does not apply")
    out["builds"] = run(["go", "build", "./..."]).returncode == 0 and run(["go", "build", "-tags", "debug", "./..."]).returncode == 0
    t = run(["go", "test", "-vet=off", "-count=1", "./..."], timeout=1200)
    fails = [l for l in t.stdout.splitlines() if l.startswith("--- FAIL")]
    out["suite_failures"] = [f for f in fails if "TestAccess" not in f and "ExampleAccesses" not in f]
    src = open(sd + "/diff_test.go").read()
    pkg = re.search(r"^package (\w+)", src, re.M).group(1)
    m = re.search(r"\./(\w+(?:/\w+)*)/?\s*$", json.load(open(sd + "/meta.json")).get("diff_test_cmd", ""), re.M)
    pdir = None
    for cand in ([m.group(1)] if m else []) + [pkg.replace("_test", "")]:
        if os.path.isdir(os.path.join(wt, cand)): pdir = cand; break
    if pdir is None:
        for root, _, fs in os.walk(wt):
            if any(f.endswith(".go") for f in fs) and os.path.basename(root) == pkg.replace("_test", ""): pdir = os.path.relpath(root, wt)
    shutil.copy(sd + "/diff_test.go", os.path.join(wt, pdir, "zz_benign_diff_test.go"))
    names = re.findall(r"^func (Test\w+)\(", src, re.M)
    d = run(["go", "test", "-vet=off", "-count=1", "-run", "^(" + "|".join(names) + ")$", "./" + pdir + "/"], timeout=1800)
    d2 = run(["go", "test", "-tags", "debug", "-vet=off", "-count=1", "-run", "^(" + "|".join(names) + ")$", "./" + pdir + "/"], timeout=1800)
    out["diff_test"] = dict(pkg=pdir, tests=names, exit=d.returncode, exit_debug=d2.returncode, tail=(d.stdout + d.stderr)[-300:])
    out["confirmed"] = bool(out["builds"] and not out["suite_failures"] and d.returncode == 0 and d2.returncode == 0)
except SystemExit as e:
    out["error"] = str(e)
finally:
    subprocess.run(["git", "-C", "/repo", "worktree", "remove", "--force", wt], capture_output=True)
    subprocess.run(["git", "-C", "/repo", "worktree", "prune"], capture_output=True)
    shutil.rmtree(wt, ignore_errors=True)
json.dump(out, open(sd + "/confirm.json", "w"), indent=1)
print(os.path.basename(os.path.dirname(sd)) + "/" + os.path.basename(sd), "CONFIRMED" if out["confirmed"] else "NOT CONFIRMED " + json.dumps(out)[:300])
