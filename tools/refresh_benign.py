#!/usr/bin/env python3
"""refresh_benign.py [--import /tmp/bt]: (optionally imports confirmed behaviour-preserving refactors from <dir>/*.out/rN into
/verif/benign/<id>/) and re-evaluates every stored refactor against the current checks (tools/eval_seed.sh); any report is a
FALSE ALARM. Rewrites benign/<id>/meta.json and benign/SUMMARY.json, and the table of DESIGN.md section 7.1."""
import json, glob, os, re, shutil, subprocess, sys
V = os.path.dirname(os.path.dirname(os.path.abspath(__file__)))
sys.path.insert(0, V + "/tools")
import eval_par
if len(sys.argv) > 2 and sys.argv[1] == "--import":
    cnt = {}
    for d in sorted(glob.glob(sys.argv[2] + "/*.out/r[0-9]*")):
        if not os.path.exists(d + "/confirm.json") or not json.load(open(d + "/confirm.json")).get("confirmed"):
            print("skip (not confirmed)", d); continue
        m = json.load(open(d + "/meta.json"))
        prop = m.get("property", "C??")
        if prop not in cnt:
            cnt[prop] = len(glob.glob("%s/benign/%s-r*" % (V, prop)))
        cnt[prop] += 1
        dst = "%s/benign/%s-r%d" % (V, prop, cnt[prop])
        shutil.rmtree(dst, ignore_errors=True); os.makedirs(dst)
        shutil.copy(d + "/patch.diff", dst)
        shutil.copy(d + "/diff_test.go", dst + "/diff_test.go.txt")
        c = json.load(open(d + "/confirm.json"))
        json.dump(dict(property=prop, kind=m.get("kind"), summary=m.get("summary"), equivalence_argument=m.get("equivalence_argument"),
                       files_touched=m.get("files_touched"),
                       round=int(os.environ.get("BENIGN_ROUND", "1")),
                       origin=os.environ.get("BENIGN_ORIGIN", "produced by a fresh sub-agent asked for aggressive behaviour-preserving refactors of the functions of two properties (it saw the property texts and a scratch worktree, nothing from /verif)"),
                       confirmed_by_us=dict(how="tools/confirm_benign.py in a scratch worktree (removed afterwards): patch applies, go build ./... with and without -tags debug, the pinned suite passes, the differential test (refactored functions against verbatim copies of the originals; exhaustive on small inputs + random) passes in both builds",
                                            diff_test=c.get("diff_test"), suite_failures=c.get("suite_failures")),
                       note="diff_test.go.txt is the differential test (renamed so it is not compiled as part of /verif)"),
                  open(dst + "/meta.json", "w"), indent=1)
rows, silent = [], 0
DIRS = sorted(glob.glob(V + "/benign/C*-r*/"))
EV = {r["id"]: r for r in eval_par.evaluate(DIRS, int(os.environ.get("JOBS", "8")))}
for d in DIRS:
    bid = os.path.basename(d.rstrip("/"))
    m = json.load(open(d + "meta.json"))
    fired, props = EV[bid]["fired"], (["?"] if EV[bid].get("error") else EV[bid]["props"])
    m["false_alarm_checks"] = props
    m["false_alarm_rules"] = sorted(set(l.split()[1].split("|")[0] for l in fired))
    m["first_reports"] = [l[:200] for l in fired[:3]]
    json.dump(m, open(d + "meta.json", "w"), indent=1)
    silent += not props
    rows.append("| %s | %s | %s | %s |" % (bid, "moderate" if m.get("round", 1) >= 2 else "aggressive", (m.get("summary") or "")[:150].replace("|", "/").replace("\n", " "),
                "silent" if not props else "**alarm**: " + ", ".join(m["false_alarm_rules"][:4]) + " (" + "+".join(props) + ")"))
    print(bid, props, m["false_alarm_rules"][:4])
json.dump(dict(refactors=len(rows), silent=silent, false_alarms=len(rows) - silent), open(V + "/benign/SUMMARY.json", "w"), indent=1)
txt = "%d refactors, %d silent, %d raise a false alarm.\n\n| refactor | set | what was rewritten (behaviour unchanged) | checks |\n|---|---|---|---|\n" % (len(rows), silent, len(rows) - silent) + "\n".join(rows) + "\n"
s = open(V + "/DESIGN.md").read()
if "<!-- benign:begin -->" in s:
    s = re.sub(r"<!-- benign:begin -->.*<!-- benign:end -->", lambda _: "<!-- benign:begin -->\n" + txt + "<!-- benign:end -->", s, flags=re.S)
    open(V + "/DESIGN.md", "w").write(s)
print(len(rows), "refactors;", silent, "silent")
