#!/bin/bash
# usage: rebase_patch.sh <patch.diff> <old-commit> : re-bases a stored patch made against <old-commit> onto /repo HEAD
# (scratch worktree, removed afterwards); on success overwrites the patch file and prints REBASED, else prints CONFLICT.
P="$(readlink -f "$1")"; OLD="$2"
W=$(mktemp -d -u /tmp/rebase.XXXX)
git -C /repo worktree add -q --detach "$W" "$OLD" || exit 2
cd "$W"
if git apply "$P" 2>/dev/null; then
  git -c user.name=t -c user.email=t@t commit -qam seed
  if git -c user.name=t -c user.email=t@t cherry-pick $(git -C /repo rev-list --reverse "$OLD"..HEAD) >/dev/null 2>&1; then
    git diff "$(git -C /repo rev-parse HEAD)" HEAD > "$P.new" && mv "$P.new" "$P" && echo "REBASED $1"
  else
    echo "CONFLICT $1"; git diff --name-only --diff-filter=U
  fi
else
  echo "DOES-NOT-APPLY-TO-OLD $1"
fi
cd /; git -C /repo worktree remove --force "$W"; git -C /repo worktree prune
