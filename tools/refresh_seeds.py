#!/usr/bin/env python3
"""Re-evaluates every stored seed against the current checks (tools/eval_seed.sh) and rewrites the
'checks_that_report_it', 'rules_that_report_it', 'own_property_check_reports_it', 'first_reports' fields of meta.json.
'history' (what happened at the first evaluation) is kept; for round-2 seeds it is filled from HISTORY.json."""
import json, glob, os, subprocess, sys
V = os.path.dirname(os.path.dirname(os.path.abspath(__file__)))
sys.path.insert(0, V + "/tools")
import eval_par
hist = json.load(open(V + "/seeded/HISTORY.json"))
missed2 = set(hist["round2"]["own_check_missed_at_first_evaluation"])
still = hist["round2"]["still_missed_by_own_check"]
n = own = 0
DIRS = sorted(glob.glob(V + "/seeded/C*-seed*/"))
EV = {r["id"]: r for r in eval_par.evaluate(DIRS, int(os.environ.get("JOBS", "8")))}
for d in DIRS:
    sid = os.path.basename(d.rstrip("/"))
    m = json.load(open(d + "meta.json"))
    if EV[sid].get("error"): print(sid, "ERROR", EV[sid]["error"]); continue
    fired, props = EV[sid]["fired"], EV[sid]["props"]
    m["checks_that_report_it"] = props
    m["rules_that_report_it"] = sorted(set(l.split()[1].split("|")[0] for l in fired))
    m["own_property_check_reports_it"] = m.get("property") in props
    m["first_reports"] = [l[:240] for l in fired[:4]]
    k = int(sid.split("seed")[1])
    rnd = (k + 2) // 3
    m["round"] = rnd
    if rnd >= 2:
        missed = set(hist["round%d" % rnd]["own_check_missed_at_first_evaluation"])
        stillr = hist["round%d" % rnd].get("still_missed_by_own_check", {})
        if sid in stillr:
            m["history"] = "round %d; NOT reported by its own property's check: %s" % (rnd, stillr[sid])
        elif sid in missed:
            m["history"] = "round %d; missed by its own check at first evaluation, reported after a necessary-condition rule was added" % rnd
        else:
            m["history"] = "round %d; reported at first evaluation" % rnd
    json.dump(m, open(d + "meta.json", "w"), indent=1)
    n += 1; own += m["own_property_check_reports_it"]
    print(sid, "own" if m["own_property_check_reports_it"] else "MISS", props, m["rules_that_report_it"][:5])
print("seeds", n, "own-check reports", own)
