#!/bin/bash
# evaluates every blue-team (behaviour-preserving) refactor under /tmp/bt/*.out/r*; one line per refactor
for d in /tmp/bt/*.out/r[0-9]*; do
  [ -f "$d/patch.diff" ] || continue
  r=$(/verif/tools/eval_seed.sh "$d" 2>&1)
  s=$(echo "$r" | grep exit-summary | sed 's/exit-summary: //')
  rules=$(echo "$r" | grep -E "^(VIOLATED|UNDECIDED)" | awk '{print $2}' | cut -d'|' -f1 | sort -u | tr '\n' ' ')
  echo "$(basename $(dirname $d))/$(basename $d): [${s}] ${rules}"
done
