#!/usr/bin/env python3
"""Regenerates the per-property rule table of DESIGN.md section 5 from evidence/*.json (measured counts)."""
import json, glob, os, re
V = os.path.dirname(os.path.dirname(os.path.abspath(__file__)))
defect = {"C07": "D3", "C09": "D4", "C11": "D5", "C14": "D2", "C20": "D1"}
rows = []
for f in sorted(glob.glob(V + "/evidence/C*.json")):
    e = json.load(open(f)); pid = e["property_id"]; c = e["coverage"]
    rules = ", ".join("%s (%d)" % (k, v) for k, v in sorted(c["obligations_by_rule"].items()) if k != "R-ANCHOR")
    rows.append("| %s | %s | %d | %s |" % (pid, rules, c["obligations"], defect.get(pid, "-")))
txt = "| id | rules (obligations on the current tree, quick tier) | total | defect found |\n|----|----|----|----|\n" + "\n".join(rows) + "\n"
s = open(V + "/DESIGN.md").read()
s = re.sub(r"<!-- rules:begin -->.*<!-- rules:end -->", lambda _: "<!-- rules:begin -->\n" + txt + "<!-- rules:end -->", s, flags=re.S)
open(V + "/DESIGN.md", "w").write(s)
print(len(rows), "rows")
