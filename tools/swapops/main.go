// swapops <dir>: in a scratch copy of the module, swaps the operands of every commutative integer operation
// (+ * & | ^ == !=) and mirrors every integer comparison (a < b -> b > a) whose operands contain no call,
// receive or index-with-side-effect: a behaviour-preserving change that exercises the operand-order
// independence of the matchers (DESIGN 1.1 rule 1).
package main

import (
	"fmt"
	"go/ast"
	"go/format"
	"go/token"
	"go/types"
	"os"

	"golang.org/x/tools/go/packages"
)

func pure(e ast.Expr) bool {
	ok := true
	ast.Inspect(e, func(n ast.Node) bool {
		switch x := n.(type) {
		case *ast.CallExpr:
			ok = false
			_ = x
		case *ast.UnaryExpr:
			if x.Op == token.ARROW {
				ok = false
			}
		case *ast.FuncLit:
			ok = false
		}
		return ok
	})
	return ok
}

func main() {
	dir := os.Args[1]
	negif := len(os.Args) > 2 && os.Args[2] == "negif" // second mode: if c {A} else {B} -> if !(c) {B} else {A}
	torange := len(os.Args) > 2 && os.Args[2] == "torange" // fourth mode: for i := 0; i < len(xs); i++ {..} -> for i := range xs {..}
	unrange := len(os.Args) > 2 && os.Args[2] == "unrange" // third mode: for i, v := range xs {..} -> for i := 0; i < len(xs); i++ { v := xs[i]; .. }
	cfg := &packages.Config{Mode: packages.LoadSyntax, Dir: dir, Env: append(os.Environ(), "GOFLAGS=-mod=mod", "GOPROXY=off", "GOSUMDB=off", "GOTOOLCHAIN=local", "GOWORK=off")}
	pkgs, err := packages.Load(cfg, "./...")
	if err != nil {
		panic(err)
	}
	n := 0
	mirror := map[token.Token]token.Token{token.LSS: token.GTR, token.GTR: token.LSS, token.LEQ: token.GEQ, token.GEQ: token.LEQ}
	for _, p := range pkgs {
		if len(p.Errors) > 0 {
			fmt.Fprintln(os.Stderr, p.Errors)
			os.Exit(2)
		}
		isInt := func(e ast.Expr) bool {
			tv, ok := p.TypesInfo.Types[e]
			if !ok || tv.Type == nil {
				return false
			}
			b, ok := tv.Type.Underlying().(*types.Basic)
			return ok && b.Info()&types.IsInteger != 0
		}
		if torange {
			for _, f := range p.Syntax {
				ast.Inspect(f, func(nd ast.Node) bool {
					blk, ok := nd.(*ast.BlockStmt)
					if !ok {
						return true
					}
					for si, st := range blk.List {
						fs, ok := st.(*ast.ForStmt)
						if !ok || fs.Init == nil || fs.Cond == nil || fs.Post == nil {
							continue
						}
						in, ok := fs.Init.(*ast.AssignStmt)
						if !ok || in.Tok != token.DEFINE || len(in.Lhs) != 1 || len(in.Rhs) != 1 {
							continue
						}
						iv, ok := in.Lhs[0].(*ast.Ident)
						lit, ok2 := in.Rhs[0].(*ast.BasicLit)
						if !ok || !ok2 || lit.Value != "0" {
							continue
						}
						if tv, ok := p.TypesInfo.Types[in.Rhs[0]]; !ok || tv.Type == nil || tv.Type.String() != "int" && tv.Type.String() != "untyped int" {
							continue
						}
						if o := p.TypesInfo.Defs[iv]; o == nil || o.Type().String() != "int" {
							continue
						}
						cd, ok := fs.Cond.(*ast.BinaryExpr)
						if !ok || cd.Op != token.LSS {
							continue
						}
						ci, ok := cd.X.(*ast.Ident)
						call, ok2 := cd.Y.(*ast.CallExpr)
						if !ok || !ok2 || ci.Name != iv.Name || len(call.Args) != 1 {
							continue
						}
						if fn, ok := call.Fun.(*ast.Ident); !ok || fn.Name != "len" {
							continue
						}
						xid, ok := call.Args[0].(*ast.Ident)
						if !ok {
							continue
						}
						if tv, ok := p.TypesInfo.Types[call.Args[0]]; !ok {
							continue
						} else if _, isSlice := tv.Type.Underlying().(*types.Slice); !isSlice {
							continue
						}
						ps, ok := fs.Post.(*ast.IncDecStmt)
						if !ok || ps.Tok != token.INC {
							continue
						}
						if pi, ok := ps.X.(*ast.Ident); !ok || pi.Name != iv.Name {
							continue
						}
						okBody := true
						ast.Inspect(fs.Body, func(m ast.Node) bool {
							switch y := m.(type) {
							case *ast.AssignStmt:
								for _, l := range y.Lhs {
									if id, ok := l.(*ast.Ident); ok && (id.Name == iv.Name || id.Name == xid.Name) {
										okBody = false
									}
								}
							case *ast.IncDecStmt:
								if id, ok := y.X.(*ast.Ident); ok && id.Name == iv.Name {
									okBody = false
								}
							case *ast.FuncLit:
								okBody = false
							}
							return okBody
						})
						if !okBody {
							continue
						}
						blk.List[si] = &ast.RangeStmt{Key: ast.NewIdent(iv.Name), Tok: token.DEFINE, X: ast.NewIdent(xid.Name), Body: fs.Body}
						n++
					}
					return true
				})
			}
		}
		if unrange {
			for _, f := range p.Syntax {
				ast.Inspect(f, func(nd ast.Node) bool {
					blk, ok := nd.(*ast.BlockStmt)
					if !ok {
						return true
					}
					for si, st := range blk.List {
						rs, ok := st.(*ast.RangeStmt)
						if !ok || rs.Tok != token.DEFINE {
							continue
						}
						xid, ok := rs.X.(*ast.Ident)
						if !ok {
							continue
						}
						tv, ok := p.TypesInfo.Types[rs.X]
						if !ok {
							continue
						}
						if _, isSlice := tv.Type.Underlying().(*types.Slice); !isSlice {
							continue
						}
						// the body must not assign the ranged variable, nor use continue (the post statement differs) or labels
						okBody := true
						ast.Inspect(rs.Body, func(m ast.Node) bool {
							switch y := m.(type) {
							case *ast.AssignStmt:
								for _, l := range y.Lhs {
									if id, ok := l.(*ast.Ident); ok && p.TypesInfo.Uses[id] == p.TypesInfo.Uses[xid] {
										okBody = false
									}
								}
							case *ast.FuncLit:
								okBody = false
							}
							return okBody
						})
						if !okBody {
							continue
						}
						key := "iZr"
						if k, ok := rs.Key.(*ast.Ident); ok && k.Name != "_" {
							key = k.Name
						}
						var pre []ast.Stmt
						if v, ok := rs.Value.(*ast.Ident); ok && v.Name != "_" {
							pre = append(pre, &ast.AssignStmt{Lhs: []ast.Expr{ast.NewIdent(v.Name)}, Tok: token.DEFINE, Rhs: []ast.Expr{&ast.IndexExpr{X: ast.NewIdent(xid.Name), Index: ast.NewIdent(key)}}})
						}
						body := &ast.BlockStmt{List: append(pre, rs.Body.List...)}
						blk.List[si] = &ast.ForStmt{
							Init: &ast.AssignStmt{Lhs: []ast.Expr{ast.NewIdent(key)}, Tok: token.DEFINE, Rhs: []ast.Expr{&ast.BasicLit{Kind: token.INT, Value: "0"}}},
							Cond: &ast.BinaryExpr{X: ast.NewIdent(key), Op: token.LSS, Y: &ast.CallExpr{Fun: ast.NewIdent("len"), Args: []ast.Expr{ast.NewIdent(xid.Name)}}},
							Post: &ast.IncDecStmt{X: ast.NewIdent(key), Tok: token.INC},
							Body: body,
						}
						n++
					}
					return true
				})
			}
		}
		if negif {
			for _, f := range p.Syntax {
				ast.Inspect(f, func(nd ast.Node) bool {
					is, ok := nd.(*ast.IfStmt)
					if !ok || is.Else == nil {
						return true
					}
					eb, ok := is.Else.(*ast.BlockStmt)
					if !ok {
						return true // else-if chains stay
					}
					is.Cond = &ast.UnaryExpr{Op: token.NOT, X: &ast.ParenExpr{X: is.Cond}}
					is.Body, is.Else = eb, is.Body
					n++
					return true
				})
			}
		}
		for _, f := range p.Syntax {
			if negif || unrange || torange {
				break
			}
			ast.Inspect(f, func(nd ast.Node) bool {
				be, ok := nd.(*ast.BinaryExpr)
				if !ok || !isInt(be.X) || !isInt(be.Y) || !pure(be.X) || !pure(be.Y) {
					return true
				}
				// constant expressions keep their spelling (untyped constant arithmetic, iota)
				if tv, ok := p.TypesInfo.Types[be]; ok && tv.Value != nil {
					return true
				}
				switch be.Op {
				case token.ADD, token.MUL, token.AND, token.OR, token.XOR, token.EQL, token.NEQ:
					be.X, be.Y = &ast.ParenExpr{X: be.Y}, &ast.ParenExpr{X: be.X}
					n++
				case token.LSS, token.GTR, token.LEQ, token.GEQ:
					be.X, be.Y = &ast.ParenExpr{X: be.Y}, &ast.ParenExpr{X: be.X}
					be.Op = mirror[be.Op]
					n++
				}
				return true
			})
		}
		for i, f := range p.Syntax {
			out, err := os.Create(p.CompiledGoFiles[i])
			if err != nil {
				panic(err)
			}
			if err := format.Node(out, p.Fset, f); err != nil {
				panic(err)
			}
			out.Close()
		}
	}
	fmt.Println("swapped", n, "operations")
}
