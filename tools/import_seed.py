#!/usr/bin/env python3
"""import_seed.py <agent-seed-dir> <seeded-id>: confirms the seed (tools/confirm_seed.py), runs every check against it
(tools/eval_seed.sh) and, if confirmed, stores it as /verif/seeded/<seeded-id>/ {patch.diff, demo, meta.json}."""
import json, os, shutil, subprocess, sys
sd, sid = os.path.abspath(sys.argv[1]), sys.argv[2]
V = "/verif"
subprocess.run([sys.executable, V + "/tools/confirm_seed.py", sd], capture_output=True)
conf = json.load(open(sd + "/confirm.json"))
sys.path.insert(0, V + "/tools")
import eval_par
_r = eval_par.one(sd)  # scratch copy of /repo's working tree: /repo itself is not touched
fired, props = _r["fired"], _r["props"]
meta = json.load(open(sd + "/meta.json"))
if not conf.get("confirmed"):
    print(sid, "NOT CONFIRMED", conf.get("error"), conf.get("suite_failures_with_change")); sys.exit(1)
dst = os.path.join(V, "seeded", sid)
old_hist = None
if os.path.exists(dst + "/meta.json"):
    old_hist = json.load(open(dst + "/meta.json")).get("history")
shutil.rmtree(dst, ignore_errors=True); os.makedirs(dst)
shutil.copy(sd + "/patch.diff", dst)
if os.path.exists(sd + "/demo_test.go"): shutil.copy(sd + "/demo_test.go", dst + "/demo_test.go.txt")
if os.path.isdir(sd + "/demo"): shutil.copytree(sd + "/demo", dst + "/demo")
rules = sorted(set(l.split()[1].split("|")[0] for l in fired))
out = dict(
    property=meta.get("property"), summary=meta.get("summary"), what_it_breaks=meta.get("what_it_breaks"),
    needs_to_manifest=meta.get("needs_to_manifest"), files_touched=meta.get("files_touched"),
    origin="produced by a fresh sub-agent that was given only the property text and a scratch worktree (nothing from /verif)",
    confirmed_by_us=dict(
        how="tools/confirm_seed.py in a scratch worktree of /repo (removed afterwards): demo on the untouched tree, then patch applied: go build ./..., go test -vet=off -count=1 ./... (whole pinned suite), demo again",
        demo_package=conf.get("pkg"), demo_tags=conf.get("demo_tags"),
        demo_without_change_exit=conf["demo_without_change"]["exit"], demo_with_change_exit=conf["demo_with_change"]["exit"],
        demo_with_change_tail=conf["demo_with_change"]["tail"][-300:],
        suite_failures_with_change=conf["suite_failures_with_change"], builds=conf["builds"]),
    demo_note="demo_test.go.txt is the demonstration (renamed so that it is not compiled as part of /verif): copy it to <package dir>/zz_demo_test.go in a tree with the patch applied and run go test -run on its Test functions",
    checks_that_report_it=props, rules_that_report_it=rules,
    own_property_check_reports_it=meta.get("property") in props,
    first_reports=[l[:240] for l in fired[:4]],
    evaluated_with="tools/eval_par.py: scratch copy of /repo + patch.diff; lowcheck -prop all (equivalent to tools/eval_seed.sh, which applies the patch to /repo itself and undoes it)")
if old_hist: out["history"] = old_hist
json.dump(out, open(dst + "/meta.json", "w"), indent=1)
print(sid, "stored; own check fires:", out["own_property_check_reports_it"], "checks:", props, "rules:", rules)
