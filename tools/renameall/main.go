// renameall <dir>: renames every parameter, result, local variable and unexported struct field of the module in <dir>
// (a scratch copy) by appending "Zq" - a behaviour-preserving change that must not alter any verdict (DESIGN 1.1 rule 1).
package main

import (
	"fmt"
	"go/ast"
	"go/format"
	"go/token"
	"go/types"
	"os"

	"golang.org/x/tools/go/packages"
)

func main() {
	dir := os.Args[1]
	cfg := &packages.Config{Mode: packages.LoadSyntax, Dir: dir, Env: append(os.Environ(), "GOFLAGS=-mod=mod", "GOPROXY=off", "GOSUMDB=off", "GOTOOLCHAIN=local", "GOWORK=off")}
	pkgs, err := packages.Load(cfg, "./...")
	if err != nil {
		panic(err)
	}
	n := 0
	for _, p := range pkgs {
		if len(p.Errors) > 0 {
			fmt.Fprintln(os.Stderr, p.Errors)
			os.Exit(2)
		}
		implicit := map[types.Object]bool{}
		for _, o := range p.TypesInfo.Implicits {
			implicit[o] = true // the per-clause variables of `switch x := y.(type)`: their declaring identifier has no object
		}
		ren := func(id *ast.Ident, o types.Object) {
			if implicit[o] {
				return
			}
			v, ok := o.(*types.Var)
			if !ok || v.Pkg() == nil || v.Pkg() != p.Types || id.Name == "_" {
				return
			}
			if v.IsField() {
				if v.Exported() || v.Embedded() {
					return
				}
			} else if v.Parent() == v.Pkg().Scope() {
				return // package-level variable
			}
			id.Name += "Zq"
			n++
		}
		for _, f := range p.Syntax {
			ast.Inspect(f, func(nd ast.Node) bool {
				if id, ok := nd.(*ast.Ident); ok {
					if o := p.TypesInfo.Defs[id]; o != nil {
						ren(id, o)
					} else if o := p.TypesInfo.Uses[id]; o != nil {
						ren(id, o)
					}
				}
				// keyed composite literals of unexported fields: the key idents are in Uses
				return true
			})
		}
		for i, f := range p.Syntax {
			name := p.CompiledGoFiles[i]
			out, err := os.Create(name)
			if err != nil {
				panic(err)
			}
			if err := format.Node(out, p.Fset, f); err != nil {
				panic(err)
			}
			out.Close()
		}
	}
	_ = token.NoPos
	fmt.Println("renamed", n, "identifiers")
}
