#!/usr/bin/env python3
"""update_claim_rules.py: rewrite, in tools/claims.json, the closing sentence of each claim that lists the further
necessary-condition rules decided on the current tree, from the rule names in evidence/<id>.json (run ./check <id> quick
for all properties first)."""
import json, os, re
V = os.path.dirname(os.path.dirname(os.path.abspath(__file__)))
cl = json.load(open(V + "/tools/claims.json"))
LEAD = " Further necessary-condition rules decided on the current tree (rule texts in the evidence file and DESIGN.md sections 5 and 8): "
for pid, c in cl["claims"].items():
    if not isinstance(c, dict) or "text" not in c: continue
    ev = V + "/evidence/%s.json" % pid
    if not os.path.exists(ev): continue
    s = open(ev).read()
    rules = sorted(set(re.findall(r'"(R-[A-Z0-9-]+)[|"]', s)))
    text = c["text"]
    i = text.find(LEAD.strip())
    if i >= 0: text = text[:i].rstrip()
    rest = [r for r in rules if r not in text and r != "R-ANCHOR"]
    if rest: text = text + LEAD + ", ".join(rest) + "."
    c["text"] = text
json.dump(cl, open(V + "/tools/claims.json", "w"), indent=1)
print("claims updated")
