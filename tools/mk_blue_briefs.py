#!/usr/bin/env python3
"""mk_blue_briefs.py <round> <outdir>: writes one blue-team brief per pair of properties to <outdir>/<Cxx_Cyy>.brief.txt: ordinary
behaviour-preserving maintenance edits with a differential test each (layout expected by tools/confirm_benign.py and
tools/refresh_benign.py --import). Contains the two property texts and the summaries of refactors already delivered."""
import json, glob, os, sys
rnd, out = int(sys.argv[1]), sys.argv[2]
V = os.path.dirname(os.path.dirname(os.path.abspath(__file__)))
props = {json.loads(l)["id"]: json.loads(l) for l in open(V + "/properties.jsonl")}
ids = sorted(props)
os.makedirs(out, exist_ok=True)
for g in range(10):
    a, b = ids[2 * g], ids[2 * g + 1]
    name = f"{a}_{b}"
    os.makedirs(f"{out}/{name}.out", exist_ok=True)
    ptxt = "\n\n".join(json.dumps({k: props[p][k] for k in ("id", "title", "statement", "anchors")}, indent=1) for p in (a, b))
    taken = []
    for p in (a, b):
        for d in sorted(glob.glob(V + "/benign/%s-r*/meta.json" % p)):
            m = json.load(open(d)); taken.append("- (%s) %s" % (p, (m.get("summary") or "")[:200].replace("\n", " ")))
    brief = f"""You are a maintenance engineer on the Go library openacid/low (succinct bit-level primitives). Your job: produce SIX behaviour-preserving source changes - three for each of the two properties below - of the kind a maintainer makes in an ordinary clean-up commit. Each change must leave every observable behaviour of the library exactly as it is (for all inputs, in the default build, with `-tags debug`, and on GOARCH=386), and you must prove that with a differential test.

THE TWO PROPERTIES (they tell you which functions matter; your edits must touch the functions these properties are anchored in, or the helpers/tables/constants those functions use):
{ptxt}

WORKTREE: first thing, create your own: `mkdir -p {out}/{name} && git -C /repo worktree add --detach {out}/{name}/wt HEAD`. Work ONLY under {out}/{name}/ and write deliverables under {out}/{name}.out/ . Never edit or commit in /repo itself, never look at /verif (off limits). Do not commit in the worktree; use `git diff` for patches and `git checkout -- . && git clean -fdq` to reset between refactors.

ENVIRONMENT: no network. In every shell call first: `export GOFLAGS=-mod=mod GOPROXY=off GOSUMDB=off GOTOOLCHAIN=local CGO_ENABLED=0; unset GOWORK`. Build `go build ./...` and `go build -tags debug ./...`; suite `go test -vet=off -count=1 ./...` from the worktree root (TestAccess and ExampleAccesses fail on the untouched tree already; ignore those two).

WHAT KIND OF CHANGE (important): ORDINARY, MODERATE maintenance edits, each ONE coherent idea that fits a single small commit - NOT a rewrite of the algorithm. Vary them. Examples of the intended size and kind:
 * rename locals / parameters, reorder independent statements, introduce or remove a temporary variable, split or merge a declaration, `var x T` vs `x := T(0)`;
 * extract a small unexported helper (or inline one), turn a nested if/else into guard clauses with early returns (or back), `if` chain <-> `switch`, merge two adjacent ifs with `||`/`&&` or split them, invert a condition and swap the branches, `continue`/`break` restructuring, a boolean flag variable;
 * `for i := 0; i < len(x); i++` <-> `for i := range x` / `for i, v := range x`, hoist a loop-invariant expression, cache `len(x)` in a local, `i++`/`i += 1`, count up instead of down where it is obviously equivalent, a while-style `for cond` vs three-clause for;
 * equivalent arithmetic spellings: `x>>6` <-> `x/64` (non-negative x), `x&63` <-> `x%64`, `x<<3` <-> `x*8`, `a < b` <-> `b > a`, `!(a<b)` <-> `a>=b`, De Morgan, `x &^ m` <-> `x & ^m`, `(1<<n)-1` instead of a mask table lookup (or the reverse), named constants for magic numbers, hex <-> decimal literals, `math.MaxInt64` for 0x7fff..., `a - b + c` regrouped, `2*k` vs `k<<1`;
 * a standard-library call for a tiny hand-written loop when exactly equivalent (bits.Len vs 64-LeadingZeros, bits.TrailingZeros, bytes.Equal/bytes.Compare, strings.Repeat, io.ReadFull vs io.ReadAtLeast(len), binary.BigEndian.Uint64 for a byte gather, copy() for an element loop, min()/max() helpers), or the reverse;
 * widening an integer type safely (int32 arithmetic done in int or int64 and converted back where the value provably fits), adding an explicit conversion, making an untyped constant typed;
 * pre-sizing a slice with make(..., 0, n) when n is provably right and non-negative, replacing `append` growth by an index store into a correctly pre-sized slice or the reverse, named vs unnamed results, `return x, nil` vs assigning named results;
 * comments, doc fixes and dead-code removal that accompany such an edit.
Each of your six refactors should combine AT MOST TWO of such aspects. Do not change exported signatures, do not add state, caches, goroutines, new exported API, new panics or contracts, and do not change what happens on invalid input either (same panics, same errors).
The following refactors were ALREADY DELIVERED for these properties - do not repeat them or close variants; pick other functions, other statements or other aspects:
{chr(10).join(taken)}

DELIVERABLE, for n = 1..6, in {out}/{name}.out/r<n>/ :
  patch.diff   - `git diff` against HEAD, library (non-test) files only
  diff_test.go - a Go test file for the touched package (package clause = that package; Test function names start with TestDiffB{rnd}) that contains VERBATIM COPIES of the ORIGINAL functions you changed (renamed with an `orig` prefix, together with any original helpers they need) and compares refactored vs original: exhaustively on small inputs and on many random inputs, including edge cases (empty, boundaries, extreme values, error injection for I/O code). It must pass with the patch applied, in the default build AND with `-tags debug`; keep it under a minute.
  meta.json    - {{"property": "<the ONE property id (of your two) this refactor belongs to>", "kind": "<the aspect(s)>", "summary": "<what was rewritten, 1-3 sentences>", "equivalence_argument": "<why behaviour is unchanged for all inputs, both builds, 32- and 64-bit>", "files_touched": [...], "diff_test_cmd": "go test -vet=off -count=1 -run TestDiffB{rnd} ./<pkgdir>"}}
Three refactors per property.

BEFORE YOU FINISH verify each refactor from a clean worktree: patch applies; `go build ./...` and `go build -tags debug ./...` ok; `GOARCH=386 go build ./...` ok; whole suite passes (two known failures aside); the differential test passes (default and -tags debug). Drop anything you are not sure is exactly behaviour preserving. Finally reset and remove the worktree: `git -C /repo worktree remove --force {out}/{name}/wt`. Final message: one line per refactor (what, verification result)."""
    open(f"{out}/{name}.brief.txt", "w").write(brief)
print("briefs written to", out)
