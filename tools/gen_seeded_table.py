#!/usr/bin/env python3
"""Regenerates the red-team table of DESIGN.md section 7 from seeded/*/meta.json."""
import json, glob, os, re
V = os.path.dirname(os.path.dirname(os.path.abspath(__file__)))
rows = []
for d in sorted(glob.glob(V + "/seeded/*/")):
    m = json.load(open(d + "meta.json"))
    sid = os.path.basename(d.rstrip("/"))
    first = m.get("first_caught", "")
    rows.append("| %s | %s | %s | %s | %s |" % (sid, (m.get("summary") or "")[:110].replace("|", "/").replace("\n", " "),
        (m.get("needs_to_manifest") or "")[:90].replace("|", "/").replace("\n", " "),
        ", ".join(m.get("rules_that_report_it", [])[:4]) + (" (" + "+".join(m.get("checks_that_report_it", [])) + ")"),
        m.get("history", "")))
hist = json.load(open(V + "/seeded/HISTORY.json")) if os.path.exists(V + "/seeded/HISTORY.json") else {}
metas = [json.load(open(d + "meta.json")) for d in sorted(glob.glob(V + "/seeded/C*-seed*/"))]
own_now = sum(1 for m in metas if m.get("own_property_check_reports_it"))
r1 = hist.get("round1", {})
rounds = sorted(k for k in hist if k.startswith("round") and k != "round1")
still = {}
bul = []
for k in rounds:
    r = hist[k]; still.update(r.get("still_missed_by_own_check", {}))
    missed = r.get("own_check_missed_at_first_evaluation", [])
    bul.append("* **Round %s** (%s): **%d of %d were missed by their own property's check at first evaluation** (%s)%s. Rules added in response: %s." % (
        k[5:], r.get("note", ""), len(missed), r.get("seeds", 60), ", ".join(missed),
        ("; reported only by another property's check: " + ", ".join(r["reported_only_by_another_property_at_first_evaluation"])) if r.get("reported_only_by_another_property_at_first_evaluation") else "",
        ", ".join(r.get("rules_added_in_response", [])) or "-"))
txt = """Fresh sub-agents (one per property and round) were given only the property text and a
scratch git worktree of /repo - nothing from /verif - and asked for changes
that break the property, compile, pass the whole pinned suite and need
something specific to manifest, each with a demonstration. Every seed below
was confirmed by us in a scratch worktree (`tools/confirm_seed.py`: demo passes
without the change; with it the tree builds, the pinned suite passes, the demo
fails) and evaluated with `tools/eval_seed.sh` (apply to /repo, run every
check, `git checkout -- .`) or its parallel equivalent `tools/eval_par.py`
(scratch copy per seed). Each is stored as `seeded/<id>/{patch.diff,
demo_test.go.txt | demo/, meta.json}`; `tools/refresh_seeds.py` re-evaluates
all of them against the current checks and rewrites the "rules" column.

%d seeds in %d rounds of up to 60 (3 per property and round; the ninth, time-boxed, delivered 52). Every round is an
out-of-sample measurement of the checks as strengthened after the previous one.

* **Round 1, first evaluation (before any strengthening): the property's own
  check reported %d of 60; %d were reported by no check at all.** A
  *necessary-condition* rule was added for each miss (never a special case of
  the seed); afterwards all 60 were reported by their own check.
%s
* **Today the property's own check reports %d of %d.** Not reported: %s.
  These lie in clauses their property declares undecided (for C03: numeric
  closed forms; whether a debug contract is implied by validity); no sound
  structural rule was found and none was faked.

Honest reading: a good third of the detections are by *restructuring* -
the seed replaced a loop or an expression by a different construct and a
pattern rule no longer recognised the idiom (e.g. C07-seed1/2, C06-seed1,
C01-seed2/3, C08-seed1..3, C14-seed1/2, C02-seed4, C14-seed6). Such a report
names the construct correctly but would also be raised for a *correct* rewrite
of the same shape; section 7.1 measures exactly that.

| seed | change | needs | rules (checks) | history |
|---|---|---|---|---|
""" % (len(rows), 1 + len(rounds), r1.get("own_check_reported_at_first_evaluation", 0), r1.get("no_check_reported_at_first_evaluation", 0),
       "\n".join(bul), own_now, len(rows), "; ".join("%s" % k for k in still)) + "\n".join(rows) + "\n"
s = open(V + "/DESIGN.md").read()
if "SEEDED_TABLE_PLACEHOLDER" in s:
    s = s.replace("SEEDED_TABLE_PLACEHOLDER", "<!-- seeded:begin -->\n" + txt + "<!-- seeded:end -->")
else:
    s = re.sub(r"<!-- seeded:begin -->.*<!-- seeded:end -->", lambda _: "<!-- seeded:begin -->\n" + txt + "<!-- seeded:end -->", s, flags=re.S)
open(V + "/DESIGN.md", "w").write(s)
print(len(rows), "rows")
