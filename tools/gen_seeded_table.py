#!/usr/bin/env python3
"""Regenerates the red-team table of DESIGN.md section 7 from seeded/*/meta.json."""
import json, glob, os, re
V = os.path.dirname(os.path.dirname(os.path.abspath(__file__)))
rows = []
for d in sorted(glob.glob(V + "/seeded/*/")):
    m = json.load(open(d + "meta.json"))
    sid = os.path.basename(d.rstrip("/"))
    first = m.get("first_caught", "")
    rows.append("| %s | %s | %s | %s | %s |" % (sid, (m.get("summary") or "")[:110].replace("|", "/").replace("\n", " "),
        (m.get("needs_to_manifest") or "")[:90].replace("|", "/").replace("\n", " "),
        ", ".join(m.get("rules_that_report_it", [])[:4]) + (" (" + "+".join(m.get("checks_that_report_it", [])) + ")"),
        m.get("history", "")))
hist = json.load(open(V + "/seeded/HISTORY.json")) if os.path.exists(V + "/seeded/HISTORY.json") else {}
txt = """Fresh sub-agents (one per property) were given only the property text and a
scratch git worktree of /repo - nothing from /verif - and asked for changes
that break the property, compile, pass the whole pinned suite and need
something specific to manifest, each with a demonstration. Every seed below
was confirmed by us in a scratch worktree (`tools/confirm_seed.py`: demo passes
without the change; with it the tree builds, the pinned suite passes, the demo
fails) and evaluated with `tools/eval_seed.sh` (apply to /repo, run every
check, `git checkout -- .`). Each is stored as `seeded/<id>/{patch.diff,
demo_test.go.txt | demo/, meta.json}`.

%d seeds, 3 per property. **First evaluation (before any strengthening): the
property's own check reported %d of %d; %d were reported by no check at all.**
The misses were analysed, a *necessary-condition* rule was added for each
(never a special case of the seed) and all %d are now reported by their own
property's check. Column "rules" lists what reports the seed today; "history"
says whether a rule had to be added.

Honest reading: roughly a third of the detections are by *restructuring* -
the seed replaced a loop or an expression by a different construct and a
pattern rule no longer recognised the idiom (e.g. C07-seed1/2, C06-seed1,
C01-seed2/3, C08-seed1..3, C14-seed1/2). Such a report names the construct
correctly but would also be raised for a *correct* rewrite of the same shape;
see the blue-team measurements at the end of this section.

| seed | change | needs | rules (checks) | history |
|---|---|---|---|---|
""" % (len(rows), hist.get("own_first", 0), len(rows), hist.get("none_first", 0), len(rows)) + "\n".join(rows) + "\n"
s = open(V + "/DESIGN.md").read()
if "SEEDED_TABLE_PLACEHOLDER" in s:
    s = s.replace("SEEDED_TABLE_PLACEHOLDER", "<!-- seeded:begin -->\n" + txt + "<!-- seeded:end -->")
else:
    s = re.sub(r"<!-- seeded:begin -->.*<!-- seeded:end -->", lambda _: "<!-- seeded:begin -->\n" + txt + "<!-- seeded:end -->", s, flags=re.S)
open(V + "/DESIGN.md", "w").write(s)
print(len(rows), "rows")
