#!/usr/bin/env python3
"""Regenerates /verif/MANIFEST.json from tools/claims.json (per-property texts)
and properties.jsonl (ids). A property without a claim entry is listed under
not_applicable with its reason from claims.json["not_applicable"]."""
import json, os
V = os.path.dirname(os.path.dirname(os.path.abspath(__file__)))
props = [json.loads(l) for l in open(os.path.join(V, "properties.jsonl"))]
claims = json.load(open(os.path.join(V, "tools", "claims.json")))
checks, na = [], []
for p in props:
    pid = p["id"]
    c = claims["claims"].get(pid)
    if c is None:
        na.append(dict(property_id=pid, reason=claims["not_applicable"].get(pid, "check under construction (DESIGN.md section 5); not claimed until built")))
        continue
    checks.append(dict(
        property_id=pid,
        quick_cmd="./check %s quick" % pid,
        thorough_cmd="./check %s thorough" % pid,
        evidence_file="evidence/%s.json" % pid,
        replay_cmd_template="./replay {path}",
        engine="lowcheck",
        level_claimed=dict(category=c["category"], text=c["text"], design_ref=c.get("design_ref", "DESIGN.md section 5, " + pid)),
        level_note=c["note"],
        technique=c["technique"]))
m = dict(version=1,
    setup_cmd="./setup.sh",
    hooks=dict(guard="verif", enable="none needed: static analysis reads /repo's source; no instrumentation exists", baseline_off_cmd="cd /repo && go build ./... && go test -vet=off -count=1 ./...", source_commits=[], add_only=True),
    engines=[dict(name="lowcheck", path="checker/", serves_properties=[c["property_id"] for c in checks],
                  kind_free_text="purpose-built static analyser over go/packages + go/types + go/ssa (x/tools v0.29.0): effects/purity, kind-partition, I/O discipline (taint, error propagation, gates, byte accounting), unit (scale) inference, guard dominance with exact bounds, constant tables/layout, contract typing, sibling congruence. Nothing of /repo is executed.")],
    checks=checks,
    notes=claims.get("notes", ""),
    not_applicable=na)
json.dump(m, open(os.path.join(V, "MANIFEST.json"), "w"), indent=1)
print("claimed:", [c["property_id"] for c in checks], "not_applicable:", [n["property_id"] for n in na])
