#!/usr/bin/env python3
"""eval_par.py [-j N] <dir> [<dir> ...] : evaluates patch directories (seeded/<id> or benign/<id>, each with patch.diff) in
parallel. For each: scratch copy of /repo's working tree under mktemp (removed afterwards), git apply, lowcheck -prop all
-repo <copy>. Prints one JSON object per line: {"id", "props": [...checks that report...], "fired": [...lines...]}.
Equivalent to tools/eval_seed.sh (which patches /repo itself) but does not touch /repo, so runs can overlap."""
import json, os, shutil, subprocess, sys, tempfile, concurrent.futures as cf
V = os.path.dirname(os.path.dirname(os.path.abspath(__file__)))
REPO = os.environ.get("LOW_REPO", "/repo")
ENV = dict(os.environ, GOFLAGS="-mod=mod", GOPROXY="off", GOSUMDB="off", GOTOOLCHAIN="local", CGO_ENABLED="0")
ENV.pop("GOWORK", None)

def one(d):
    d = os.path.abspath(d.rstrip("/"))
    res = dict(id=os.path.basename(d), props=[], fired=[])
    tmp = tempfile.mkdtemp(prefix="loweval_")
    try:
        dst = os.path.join(tmp, "repo")
        shutil.copytree(REPO, dst, ignore=shutil.ignore_patterns(".git"))
        ap = subprocess.run(["git", "apply", "--whitespace=nowarn", os.path.join(d, "patch.diff")], cwd=dst, env=ENV, capture_output=True, text=True)
        if ap.returncode != 0:
            res["error"] = "patch does not apply: " + ap.stderr[-200:]; return res
        evd = os.path.join(tmp, "ev"); os.makedirs(evd)
        if os.path.exists(V + "/known_findings.txt"): shutil.copy(V + "/known_findings.txt", evd)
        c = subprocess.run([V + "/bin/lowcheck", "-repo", dst, "-prop", os.environ.get("EVAL_PROPS", "all"), "-noselftest"], env=dict(ENV, VERIF_DIR=evd), capture_output=True, text=True, errors="replace")
        out = c.stdout + c.stderr
        res["fired"] = [l[:260] for l in out.splitlines() if l.startswith(("VIOLATED", "UNDECIDED"))]
        res["props"] = [l.split()[0] for l in out.splitlines() if "quick:" in l and " 0 violated, 0 undecided" not in l]
        res["exit"] = c.returncode
        return res
    finally:
        shutil.rmtree(tmp, ignore_errors=True)

def evaluate(dirs, jobs=8):
    with cf.ThreadPoolExecutor(jobs) as ex:
        return list(ex.map(one, dirs))

if __name__ == "__main__":
    a = sys.argv[1:]; jobs = 8
    if a and a[0] == "-j": jobs = int(a[1]); a = a[2:]
    for r in evaluate(a, jobs):
        print(json.dumps(r))
