#!/usr/bin/env python3
"""mutsweep.py [--jobs N] [--files f1,f2] [--out results.json]: systematic single-token mutation sweep used to MEASURE the
checker (it is not a check and nothing here is registered in MANIFEST.json).

 1. bin/mutgen enumerates the single-token mutants of the library's non-test files.
 2. each mutant is applied to a per-worker scratch copy of /repo (under mktemp, removed at the end): `go build ./...`,
    then the pinned suite (all packages except the two known zipf failures). Mutants the suite kills are of no interest:
    the property checks exist for what the tests cannot see.
 3. a surviving mutant is run against independent oracles - the differential tests that came with the stored
    behaviour-preserving refactors (benign/*/diff_test.go.txt: verbatim copies of the original functions compared on
    exhaustive small + random inputs) and the demonstrations of the stored seeds (seeded/*/demo_test.go.txt), restricted
    to those that mention the mutated function (or, failing that, a function of the same file). An oracle that fails
    shows the mutant changes behaviour on a valid input ("breaking"); if none fails the mutant is "unknown" (equivalent,
    or different only outside what the oracles exercise).
 4. all 20 checks are run on every surviving mutant.
Output: per mutant the classification and the checks / rules that reported it; summary: breaking survivors reported /
not reported (the systematic miss list), unknown survivors reported (to be triaged by hand: true catch or false alarm)."""
import argparse, glob, json, os, re, shutil, subprocess, sys, tempfile, threading, queue, time
V = os.path.dirname(os.path.dirname(os.path.abspath(__file__)))
REPO = "/repo"
ENV = dict(os.environ, GOFLAGS="-mod=mod", GOPROXY="off", GOSUMDB="off", GOTOOLCHAIN="local", CGO_ENABLED="0")
ENV.pop("GOWORK", None)
PKGS = ["bitmap", "bmtree", "bitstr", "bitword", "sigbits", "pbcmpl", "iohelper", "size"]
SUITE = ["./bitmap/...", "./bmtree/...", "./bitstr/...", "./bitword/...", "./sigbits/...", "./pbcmpl/...", "./iohelper/...", "./size/...",
         "./tree/...", "./typehelper/...", "./vers/...", "./mathext/util/..."]

# oracle tests that probe behaviour OUTSIDE the properties' domains (panic texts for invalid arguments, damaged indexes,
# capacities) are skipped by name; what remains still has to be triaged by hand
SKIP = "(?i)invalid|panic|extreme|garbage|malformed|damaged|foreign|outof|out_of|capacity|overflow|negative|wild|arbitrary"

def sh(cmd, cwd, timeout, env=ENV):
    try:
        p = subprocess.run(cmd, cwd=cwd, env=env, capture_output=True, text=True, errors="replace", timeout=timeout)
        return p.returncode, p.stdout + p.stderr
    except subprocess.TimeoutExpired:
        return 124, "TIMEOUT"

def load_oracles():
    orc = {p: [] for p in PKGS}
    for f in sorted(glob.glob(V + "/benign/*/diff_test.go.txt")) + sorted(glob.glob(V + "/seeded/*/demo_test.go.txt")):
        txt = open(f, errors="replace").read()
        m = re.search(r"^package\s+(\w+)", txt, re.M)
        if not m: continue
        pkg = m.group(1).replace("_test", "")
        if pkg not in orc: continue
        meta = {}
        try: meta = json.load(open(os.path.dirname(f) + "/meta.json"))
        except Exception: pass
        cmd = meta.get("demo_cmd") or meta.get("diff_test_cmd") or ""
        if "GOARCH=386" in cmd or "-tags debug" in cmd or "-race" in cmd: continue  # default-build oracles only
        orc[pkg].append(dict(path=f, text=txt, id=os.path.basename(os.path.dirname(f))))
    return orc

def funcs_of_file(path):
    return re.findall(r"^func\s+(?:\([^)]*\)\s*)?(\w+)\s*\(", open(path).read(), re.M)

def worker(wid, q, results, orc, lock):
    tmp = tempfile.mkdtemp(prefix="mutsweep_w%d_" % wid)
    dst = tmp + "/repo"
    shutil.copytree(REPO, dst, ignore=shutil.ignore_patterns(".git"))
    evd = tmp + "/ev"; os.makedirs(evd)
    if os.path.exists(V + "/known_findings.txt"): shutil.copy(V + "/known_findings.txt", evd)
    try:
        while True:
            try: m = q.get_nowait()
            except queue.Empty: return
            path = dst + "/" + m["file"]
            orig = open(path, "rb").read()
            res = dict(m)
            try:
                assert orig[m["start"]:m["end"]].decode() == m["old"]
                open(path, "wb").write(orig[:m["start"]] + m["new"].encode() + orig[m["end"]:])
                rc, out = sh(["go", "build", "./..."], dst, 300)
                if rc != 0:
                    res["class"] = "nobuild"; continue
                rc, out = sh(["go", "test", "-vet=off", "-count=1", "-timeout", "90s"] + SUITE, dst, 600)
                if rc != 0:
                    res["class"] = "killed"; continue
                pkg = m["file"].split("/")[0]
                name = m["func"].split(".")[-1]
                dm = re.match(r"<decl (\w+)>", m["func"])
                if dm: name = dm.group(1)
                cands = [o for o in orc.get(pkg, []) if re.search(r"\b%s\b" % re.escape(name), o["text"])] if name and name != "<decl>" else []
                if len(cands) < 3:
                    fs = funcs_of_file(path)
                    seen = set(o["path"] for o in cands)
                    for o in orc.get(pkg, []):
                        if o["path"] not in seen and any(re.search(r"\b%s\(" % re.escape(f), o["text"]) for f in fs):
                            cands.append(o)
                failing, ran = [], 0
                zz = dst + "/" + pkg + "/zz_oracle_test.go"
                for o in cands:
                    open(zz, "w").write(o["text"])
                    rc, out = sh(["go", "test", "-vet=off", "-count=1", "-timeout", "120s", "-run", "TestDiff|TestSeedDemo|TestDemo", "-skip", SKIP, "./" + pkg], dst, 200)
                    if "[build failed]" in out or "[setup failed]" in out: continue
                    ran += 1
                    if rc != 0:
                        failing.append(o["id"])
                        res.setdefault("oracle_output", []).append("\n".join(l for l in out.splitlines() if "FAIL" in l or "panic" in l or "_test.go" in l)[:600])
                        if len(failing) >= 2: break
                if os.path.exists(zz): os.remove(zz)
                res["oracles_run"] = ran; res["oracles_failing"] = failing
                res["class"] = "breaking" if failing else "unknown"
                rc, out = sh([V + "/bin/lowcheck", "-repo", dst, "-prop", "all", "-noselftest"], dst, 600, env=dict(ENV, VERIF_DIR=evd))
                res["fired"] = [l[:200] for l in out.splitlines() if l.startswith(("VIOLATED", "UNDECIDED"))][:6]
                res["props"] = [l.split()[0] for l in out.splitlines() if "quick:" in l and " 0 violated, 0 undecided" not in l]
                if "panic:" in out or "CHECKER-BROKEN" in out: res["checker_error"] = out[-300:]
            except Exception as e:
                res["class"] = "error"; res["error"] = repr(e)[:300]
            finally:
                open(path, "wb").write(orig)
                with lock:
                    results.append(res)
                    if len(results) % 50 == 0:
                        print("  %d done" % len(results), file=sys.stderr, flush=True)
    finally:
        shutil.rmtree(tmp, ignore_errors=True)

def main():
    ap = argparse.ArgumentParser()
    ap.add_argument("--jobs", type=int, default=8)
    ap.add_argument("--files", default="")
    ap.add_argument("--limit", type=int, default=0)
    ap.add_argument("--ids", default="", help="comma separated mutant ids (as numbered by bin/mutgen on the current tree)")
    ap.add_argument("--out", default="/tmp/mutsweep.json")
    a = ap.parse_args()
    b = subprocess.run(["go", "build", "-o", V + "/bin/mutgen", "."], cwd=V + "/tools/mutgen", env=ENV, capture_output=True, text=True)
    if b.returncode != 0: print(b.stderr); sys.exit(2)
    g = subprocess.run([V + "/bin/mutgen", REPO] + PKGS, env=ENV, capture_output=True, text=True)
    muts = [json.loads(l) for l in g.stdout.splitlines()]
    if a.files:
        fl = a.files.split(","); muts = [m for m in muts if m["file"] in fl]
    if a.ids:
        want = set(int(x) for x in a.ids.split(",")); muts = [m for m in muts if m["id"] in want]
    if a.limit: muts = muts[::max(1, len(muts) // a.limit)]
    print(len(muts), "mutants", file=sys.stderr)
    orc = load_oracles()
    print("oracles per package:", {k: len(v) for k, v in orc.items()}, file=sys.stderr)
    q = queue.Queue()
    for m in muts: q.put(m)
    results, lock = [], threading.Lock()
    ths = [threading.Thread(target=worker, args=(i, q, results, orc, lock)) for i in range(a.jobs)]
    t0 = time.time()
    for t in ths: t.start()
    for t in ths: t.join()
    results.sort(key=lambda r: r["id"])
    json.dump(dict(results=results, seconds=int(time.time() - t0)), open(a.out, "w"), indent=0)
    import collections
    c = collections.Counter(r.get("class") for r in results)
    print("classes:", dict(c))
    br = [r for r in results if r.get("class") == "breaking"]
    un = [r for r in results if r.get("class") == "unknown"]
    print("breaking survivors: %d, reported by some check: %d" % (len(br), sum(1 for r in br if r.get("props"))))
    print("unknown survivors: %d, reported by some check: %d" % (len(un), sum(1 for r in un if r.get("props"))))
    for r in br:
        if not r.get("props"):
            print("MISS %s:%d %s %s `%s` -> `%s` (oracle %s)" % (r["file"], r["line"], r["func"], r["kind"], r["old"], r["new"], ",".join(r["oracles_failing"])))

if __name__ == "__main__":
    main()
