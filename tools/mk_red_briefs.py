#!/usr/bin/env python3
"""mk_red_briefs.py <round> <outdir>: writes one red-team brief per property to <outdir>/<Cxx>/brief.txt. A brief contains the
property text, the one-line summaries of the seeds already stored for that property ('already taken') and the delivery
format tools/import_seed.py expects - nothing else from /verif. Each brief is handed to a fresh sub-agent."""
import json, glob, os, sys
rnd, out = int(sys.argv[1]), sys.argv[2]
V = os.path.dirname(os.path.dirname(os.path.abspath(__file__)))
FOCUS = {
 8: "This round, each of your three seeds must come from a DIFFERENT one of these motives, and read like a commit a maintainer would really write for it: (1) performance - a fast path, word-at-a-time or batch processing, pre-sizing, pooling or reuse of buffers, an early exit, a hoisted computation, loop unrolling; (2) hardening - input validation, a new error return or panic for 'impossible' input, a clamp, a debug-mode contract (openacid/must, -tags debug), defensive copies; (3) portability and types - int/int32/int64/uint changes, 32-bit builds (GOARCH=386), endianness, narrower or wider fields, typed constants; (4) observability and state - counters, statistics, logging hooks, a cache or memo, lazily built tables, sync primitives; (5) API and structure - helper extraction shared by two callers with slightly different needs, a new option or default, a constructor change, de-duplication of two near-identical code paths that are not quite identical. The defect must be a by-product of the change (a boundary the new path gets wrong, a case the shared helper serves for one caller only, a state that outlives the call), needing something specific to manifest: a particular input class, call sequence, interleaving, build configuration or I/O fault point.",
 7: "This round, make the edits as SMALL as you can: ideally one or two changed tokens or lines per seed (a comparison operator, a constant, an operand, a swapped argument, an index expression, a loop bound, an initial value, a condition's polarity, a type of one variable), in the functions the property names or in the helpers, tables and constants they use - edits that survive the existing tests yet give a WRONG RESULT or a PANIC for some valid input (inside the property's stated domain; not only for negative positions, garbage indexes or sizes of 2^31 and more). Before you settle on a seed, check with a brute-force reference that it really changes behaviour inside the domain - many one-token edits in this library are equivalent (`|` vs `^` on disjoint bits, a shortcut threshold, a capacity) and those are worthless. At most one of the three may be larger (a few lines), for instance two cooperating one-token edits in two functions.",
 6: "This round, aim at the ARITHMETIC CORE and at COOPERATING SITES. (a) Slips that keep the shape of the code - the same loops, branches, calls and types - but compute a wrong number for one class of inputs: a wrong constant inside a closed-form expression, a shift/popcount/mask trick that is off for one bit pattern, a carry or correction term dropped between two stages, a table entry or a table-building formula that is wrong for one index, an accumulator initialised or advanced slightly wrongly, `<` vs `<=` where only the boundary value differs. (b) Two or three edits in DIFFERENT functions or files (writer and reader, builder and query, helper and caller, constant and its user) that agree with each other in the common case and disagree for one boundary case. (c) State or configuration dependence: a result that depends on an earlier call, on the build tag, on the word size, on the order of two calls.",
 5: "This round, look especially at what the property's functions DEPEND ON rather than at their main loop: helper functions, package tables and the code that initialises them, constants, type definitions, constructor defaults, the less-travelled branches (error paths, empty/one-element inputs, the last iteration, equal keys, maximum height/width), and pairs of edits in two different places that are each harmless alone.",
}
for l in open(V + "/properties.jsonl"):
    p = json.loads(l); pid = p["id"]
    taken = []
    for d in sorted(glob.glob(V + "/seeded/%s-seed*/meta.json" % pid)):
        m = json.load(open(d)); taken.append("- " + (m.get("summary") or "")[:230].replace("\n", " "))
    os.makedirs("%s/%s/out" % (out, pid), exist_ok=True)
    prop_txt = json.dumps({k: p[k] for k in ("id", "title", "statement", "quantifier", "why_tests_cant", "anchors")}, indent=1)
    brief = f"""You are a red-team engineer. Target: the Go library openacid/low (succinct bit-level primitives). You get ONE semantic property of the library and your own scratch git worktree of the repository. Your job: produce THREE independent source changes ("seeds") to the library, each of which BREAKS the property while the tree still compiles and the library's existing test suite still passes, and for each a demonstration that fails with the change and passes without it.

THE PROPERTY ({pid}):
{prop_txt}

YOUR WORKTREE: create it yourself, first thing:
  git -C /repo worktree add --detach {out}/{pid}/wt HEAD
Work ONLY inside {out}/{pid}/ . Never edit or commit anything in /repo itself, never look at or touch /verif (it is off limits; reading anything there invalidates your work). Do not commit in the worktree either (use `git diff` to produce patches, `git checkout -- . && git clean -fdq` to reset between seeds).

ENVIRONMENT: no network. In every shell call first run:
  export GOFLAGS=-mod=mod GOPROXY=off GOSUMDB=off GOTOOLCHAIN=local CGO_ENABLED=0; unset GOWORK
Build: `go build ./...`  Whole suite: `go test -vet=off -count=1 ./...` run in the worktree root (two tests, TestAccess and ExampleAccesses, in the zipf area fail on the untouched tree already - ignore those two; everything else must still pass with your change). The `debug` build tag (`-tags debug`) turns on contract checks (openacid/must) in package bmtree. GOARCH=386 can be used to build/run 32-bit (`GOARCH=386 go test ...` works on this machine).

WHAT MAKES A GOOD SEED (read carefully):
* It is a REALISTIC change a maintainer could plausibly make and a reviewer could plausibly accept: an optimisation, a refactor, a "simplification", a new fast path, a defensive check, a helper extraction, a type change, a caching layer, a changed constant, a tidied loop bound. NOT gratuitous sabotage, and not obviously wrong at a glance.
* It must need SOMETHING SPECIFIC to manifest: an unusual input (boundary size, a particular bit pattern, a large value, an empty/odd/aligned case), a multi-step call sequence, a particular interleaving of goroutines, a build configuration (32-bit GOARCH, -tags debug), an I/O fault at a particular point, or two cooperating edits that each look fine alone. Ordinary use (and the existing tests) must NOT expose it.
* {FOCUS.get(rnd, "")}
* The three seeds must be DIFFERENT in kind from each other and from the ideas below, which earlier engineers already delivered for this property ("already taken" - do not repeat them or close variants; think about parts of the property, its anchors, and input classes they did not touch):
{chr(10).join(taken)}
* (General guidance, superseded by the round focus above where they differ.) Prefer SMALL, LOCAL, SUBTLE edits over rewrites: off-by-one in a bound or guard, a changed comparison, a wrong-but-plausible constant, an operand swap, a mask/shift mix-up, a missing case in a new branch, a condition hoisted or merged incorrectly, an error path that returns the wrong thing, a wrong rounding, an order-of-operations slip, sign/width confusion. At least TWO of your three seeds must be such small edits (a handful of changed lines) that keep the overall code structure intact; at most one may be a larger restructuring. Avoid seeds that only matter for inputs of 2^31 bits / 256 MiB and more.
* Each seed breaks THIS property (a user-visible wrong result / panic / corrupted state as stated in the property), not merely some other behaviour.

DELIVERABLE, for k = 1,2,3, in {out}/{pid}/out/seed<k>/ :
  patch.diff      - `git diff` of the worktree against HEAD (library files only; no test files, no new _test.go in the patch)
  demo_test.go    - a Go test file (package clause = the package under test, e.g. `package bitmap`; self-contained; Test function names unique, e.g. TestSeedDemo{pid}r{rnd}x<k>...) that, copied into the package directory as zz_demo_test.go, PASSES on the untouched tree and FAILS with the patch applied. It must fail deterministically or with very high probability (for races/interleavings make the schedule reliable with loops / sync). If the demo needs the debug tag or GOARCH=386 say so in demo_cmd. Keep the demo's run time under a minute and memory under 2 GB.
  meta.json       - {{"property": "{pid}", "summary": "<what was changed and the plausible motivation, 1-3 sentences>", "what_it_breaks": "<which clause of the property fails and how it shows>", "needs_to_manifest": "<the specific input / sequence / configuration needed>", "files_touched": ["..."], "demo_cmd": "go test -vet=off -count=1 -run TestSeedDemo... ./<pkgdir>" (prefix with GOARCH=386 or add -tags debug if needed)}}

BEFORE YOU FINISH, for every seed verify yourself, from a clean worktree: (1) demo passes without the patch, (2) with the patch: `go build ./...` ok, whole suite passes (except the two known failures), demo fails. Drop and replace any seed that fails this. Finally reset the worktree, then remove it: `git -C /repo worktree remove --force {out}/{pid}/wt`. Your final message: for each seed one line - the idea, what it needs to manifest, and the verification results. Mention separately, if you noticed any, a place where the UNCHANGED library already violates the property for inputs well below 2^31 bits (with a concrete failing input)."""
    open("%s/%s/brief.txt" % (out, pid), "w").write(brief)
print("briefs written to", out)
