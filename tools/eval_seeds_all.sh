#!/bin/bash
# re-evaluates every stored red-team seed: prints whether its own property's check reports it
miss=0; n=0
for d in /verif/seeded/C*-seed*; do
  id=$(basename $d); prop=${id%%-*}
  r=$(/verif/tools/eval_seed.sh "$d" 2>&1)
  s=$(echo "$r" | grep exit-summary | sed 's/exit-summary: //')
  n=$((n+1))
  if echo " $s" | grep -q " $prop "; then st=own; else st=MISS; miss=$((miss+1)); fi
  echo "$id: $st [${s}]"
done
echo "seeds=$n missed-by-own-check=$miss"
