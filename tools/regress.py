#!/usr/bin/env python3
"""regress.py [--fast]: after a checker change - (1) all 20 checks on /repo must be silent, (2) every stored seed that its own
check reported must still be reported, (3) every stored refactor that was silent must still be silent. Prints the differences
against the stored meta.json files (which are NOT rewritten; use refresh_seeds.py / refresh_benign.py for that)."""
import glob, json, os, subprocess, sys
V = os.path.dirname(os.path.dirname(os.path.abspath(__file__)))
sys.path.insert(0, V + "/tools")
import eval_par
ENV = dict(os.environ, GOFLAGS="-mod=mod", GOPROXY="off", GOSUMDB="off", GOTOOLCHAIN="local", CGO_ENABLED="0")
ENV.pop("GOWORK", None)
b = subprocess.run(["go", "build", "-o", V + "/bin/lowcheck", "."], cwd=V + "/checker", env=ENV, capture_output=True, text=True)
if b.returncode != 0:
    print("BUILD FAILED\n" + b.stderr); sys.exit(2)
evd = "/tmp/regress_ev"; os.makedirs(evd, exist_ok=True)
c = subprocess.run([V + "/bin/lowcheck", "-prop", "all"], env=dict(ENV, VERIF_DIR=evd), capture_output=True, text=True)
bad = [l for l in (c.stdout + c.stderr).splitlines() if l.startswith(("VIOLATED", "UNDECIDED", "VIOLATION", "CHECKER-BROKEN", "panic"))]
print("unchanged tree: exit", c.returncode, "-", "SILENT" if c.returncode == 0 and not bad else "ALARM")
for l in bad[:20]: print("   ", l[:300])
# mechanical behaviour-preserving variants of the whole tree, each silent:
#  renameall        every parameter, local, captured variable and unexported field renamed
#  swapops          operands of commutative operators / mirrored comparisons swapped
#  swapops negif    if c {A} else {B} -> if !(c) {B} else {A}
#  swapops unrange  for i, v := range xs -> three-clause index loop
#  swapops torange  for i := 0; i < len(xs); i++ -> for i := range xs
import shutil, tempfile
rn_bad = []
def variant(label, tooldir, binname, extra):
    rb = subprocess.run(["go", "build", "-o", V + "/bin/" + binname, "."], cwd=V + "/tools/" + tooldir, env=ENV, capture_output=True, text=True)
    if rb.returncode != 0:
        rn_bad.append(label + ": tool does not build: " + rb.stderr[-200:]); print(label, "TOOL BUILD FAILED"); return
    tmp = tempfile.mkdtemp(prefix="lowvariant_")
    try:
        shutil.copytree("/repo", tmp + "/repo", ignore=shutil.ignore_patterns(".git"))
        rr = subprocess.run([V + "/bin/" + binname, tmp + "/repo"] + extra, env=ENV, capture_output=True, text=True)
        bb = subprocess.run(["go", "build", "./..."], cwd=tmp + "/repo", env=ENV, capture_output=True, text=True)
        if rr.returncode != 0 or bb.returncode != 0:
            rn_bad.append(label + ": variant tree does not build: " + (rr.stderr + bb.stderr)[-300:]); print(label, "VARIANT BUILD FAILED"); return
        os.makedirs(tmp + "/ev", exist_ok=True)
        cc = subprocess.run([V + "/bin/lowcheck", "-repo", tmp + "/repo", "-prop", "all", "-noselftest"], env=dict(ENV, VERIF_DIR=tmp + "/ev"), capture_output=True, text=True)
        b2 = [l[:260] for l in (cc.stdout + cc.stderr).splitlines() if l.startswith(("VIOLATED", "UNDECIDED", "panic"))]
        print("%s variant (%s):" % (label, rr.stdout.strip()), "SILENT" if not b2 else "ALARM")
        for l in b2[:10]: print("   ", l)
        rn_bad.extend(label + ": " + l for l in b2)
    finally:
        shutil.rmtree(tmp, ignore_errors=True)
variant("rename-all", "renameall", "renameall", [])
variant("operand-swap", "swapops", "swapops", [])
variant("negated-if", "swapops", "swapops", ["negif"])
variant("un-range", "swapops", "swapops", ["unrange"])
variant("to-range", "swapops", "swapops", ["torange"])
jobs = int(os.environ.get("JOBS", "10"))
sd = sorted(glob.glob(V + "/seeded/C*-seed*"))
bd = sorted(glob.glob(V + "/benign/C*-r*"))
res = {r["id"]: r for r in eval_par.evaluate(sd + bd, jobs)}
lost, gained, newfa, fixedfa = [], [], [], []
for d in sd:
    sid = os.path.basename(d); m = json.load(open(d + "/meta.json")); r = res[sid]
    if r.get("error"): print("ERROR", sid, r["error"]); continue
    now = m["property"] in r["props"]
    if m.get("own_property_check_reports_it") and not now: lost.append(sid)
    if not m.get("own_property_check_reports_it") and now: gained.append(sid)
for d in bd:
    bid = os.path.basename(d); m = json.load(open(d + "/meta.json")); r = res[bid]
    if r.get("error"): print("ERROR", bid, r["error"]); continue
    was = bool(m.get("false_alarm_checks"))
    if r["props"] and not was: newfa.append((bid, sorted(set(l.split()[1].split("|")[0] for l in r["fired"]))))
    if not r["props"] and was: fixedfa.append(bid)
# the single-edit corpus (mutants/corpus.py): expectations are fixed there; the one declared miss is excepted
cm = subprocess.run([sys.executable, V + "/mutants/run.py", "--corpus-only", "--jobs", str(jobs), "--json", "/tmp/regress_corpus.json"], env=ENV, capture_output=True, text=True)
try:
    cj = json.load(open("/tmp/regress_corpus.json"))
    DECLARED = {"c01-rank128-atright-inverted"}
    cmis = [(r["id"], r["expect"], r.get("got")) for r in cj["results"] if r.get("status") == "MISMATCH" and r["id"] not in DECLARED]
    print("corpus: must-fire %s/%s, must-stay-silent %s/%s; MISMATCHES %s" % (cj["fire_ok"], cj["fire_total"], cj["silent_ok"], cj["silent_total"], cmis))
except Exception as e:
    cmis = [("corpus run failed", str(e), cm.stderr[-300:])]
    print("corpus:", cmis)
print("seeds: %d, own check reports %d; LOST %s; gained %s" % (len(sd), sum(1 for d in sd if json.load(open(d + "/meta.json"))["property"] in res[os.path.basename(d)]["props"]), lost, gained))
print("benign: %d, silent %d; NEW FALSE ALARMS %s; now silent %s" % (len(bd), sum(1 for d in bd if not res[os.path.basename(d)]["props"] and not res[os.path.basename(d)].get("error")), newfa, fixedfa))
sys.exit(1 if (bad or lost or newfa or cmis or rn_bad or c.returncode != 0) else 0)
