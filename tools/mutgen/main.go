// mutgen <repo> <pkgdir>...: enumerates single-token mutants of the non-test, unconstrained Go files of the given
// package directories (relational / arithmetic / logical / bitwise operator replacement, integer literal +-1, dropped
// negation, ++/--, compound assignment operators) as JSON lines: file, byte range, old text, new text, function.
// The sweep driver (tools/mutsweep.py) applies each one to a scratch copy; nothing here touches /repo.
package main

import (
	"encoding/json"
	"fmt"
	"go/ast"
	"go/parser"
	"go/token"
	"os"
	"path/filepath"
	"sort"
	"strconv"
	"strings"
)

type Mut struct {
	ID    int    `json:"id"`
	File  string `json:"file"`
	Func  string `json:"func"`
	Line  int    `json:"line"`
	Start int    `json:"start"`
	End   int    `json:"end"`
	Old   string `json:"old"`
	New   string `json:"new"`
	Kind  string `json:"kind"`
}

var binRepl = map[token.Token][]token.Token{
	token.LSS: {token.LEQ, token.GTR}, token.LEQ: {token.LSS}, token.GTR: {token.GEQ, token.LSS}, token.GEQ: {token.GTR},
	token.EQL: {token.NEQ}, token.NEQ: {token.EQL},
	token.ADD: {token.SUB}, token.SUB: {token.ADD}, token.MUL: {token.QUO}, token.QUO: {token.MUL}, token.REM: {token.QUO},
	token.AND: {token.OR}, token.OR: {token.AND, token.XOR}, token.XOR: {token.OR}, token.AND_NOT: {token.AND},
	token.SHL: {token.SHR}, token.SHR: {token.SHL},
	token.LAND: {token.LOR}, token.LOR: {token.LAND},
}
var asgRepl = map[token.Token][]token.Token{
	token.ADD_ASSIGN: {token.SUB_ASSIGN, token.ASSIGN}, token.SUB_ASSIGN: {token.ADD_ASSIGN}, token.OR_ASSIGN: {token.AND_ASSIGN, token.ASSIGN, token.XOR_ASSIGN},
	token.AND_ASSIGN: {token.OR_ASSIGN}, token.SHL_ASSIGN: {token.SHR_ASSIGN}, token.SHR_ASSIGN: {token.SHL_ASSIGN}, token.AND_NOT_ASSIGN: {token.AND_ASSIGN},
	token.XOR_ASSIGN: {token.OR_ASSIGN},
}

func main() {
	repo := os.Args[1]
	var out []Mut
	fset := token.NewFileSet()
	for _, pd := range os.Args[2:] {
		files, _ := filepath.Glob(filepath.Join(repo, pd, "*.go"))
		sort.Strings(files)
		for _, fn := range files {
			if strings.HasSuffix(fn, "_test.go") || strings.HasSuffix(fn, ".pb.go") {
				continue
			}
			src, err := os.ReadFile(fn)
			if err != nil {
				panic(err)
			}
			if strings.Contains(string(src[:min(len(src), 400)]), "+build") || strings.Contains(string(src[:min(len(src), 400)]), "go:build") {
				continue
			}
			f, err := parser.ParseFile(fset, fn, src, parser.ParseComments)
			if err != nil {
				panic(err)
			}
			rel, _ := filepath.Rel(repo, fn)
			off := func(p token.Pos) int { return fset.Position(p).Offset }
			cur := ""
			add := func(pos token.Pos, oldLen int, nw, kind string) {
				s := off(pos)
				out = append(out, Mut{File: rel, Func: cur, Line: fset.Position(pos).Line, Start: s, End: s + oldLen, Old: string(src[s : s+oldLen]), New: nw, Kind: kind})
			}
			visit := func(n ast.Node) bool {
				switch x := n.(type) {
				case *ast.BinaryExpr:
					for _, t := range binRepl[x.Op] {
						add(x.OpPos, len(x.Op.String()), t.String(), "binop")
					}
				case *ast.AssignStmt:
					for _, t := range asgRepl[x.Tok] {
						add(x.TokPos, len(x.Tok.String()), t.String(), "assignop")
					}
				case *ast.IncDecStmt:
					if x.Tok == token.INC {
						add(x.TokPos, 2, "--", "incdec")
					} else {
						add(x.TokPos, 2, "++", "incdec")
					}
				case *ast.UnaryExpr:
					if x.Op == token.NOT || x.Op == token.XOR || x.Op == token.SUB {
						add(x.OpPos, 1, "", "dropunary")
					}
				case *ast.BasicLit:
					if x.Kind == token.INT {
						v, err := strconv.ParseUint(strings.ReplaceAll(x.Value, "_", ""), 0, 64)
						if err != nil {
							return true
						}
						add(x.ValuePos, len(x.Value), fmt.Sprint(v+1), "lit+1")
						if v > 0 {
							add(x.ValuePos, len(x.Value), fmt.Sprint(v-1), "lit-1")
						}
					}
				case *ast.BranchStmt:
					if x.Label == nil && x.Tok == token.BREAK {
						add(x.TokPos, 5, "continue", "branch")
					} else if x.Label == nil && x.Tok == token.CONTINUE {
						add(x.TokPos, 8, "break", "branch")
					}
				}
				return true
			}
			for _, d := range f.Decls {
				switch x := d.(type) {
				case *ast.FuncDecl:
					if x.Body == nil {
						continue
					}
					cur = x.Name.Name
					if x.Recv != nil && len(x.Recv.List) > 0 {
						t := x.Recv.List[0].Type
						if s, ok := t.(*ast.StarExpr); ok {
							t = s.X
						}
						if id, ok := t.(*ast.Ident); ok {
							cur = id.Name + "." + cur
						}
					}
					ast.Inspect(x.Body, visit)
				case *ast.GenDecl:
					if x.Tok == token.VAR || x.Tok == token.CONST {
						cur = "<decl>"
						for _, sp := range x.Specs {
							if vs, ok := sp.(*ast.ValueSpec); ok {
								if len(vs.Names) > 0 {
									cur = "<decl " + vs.Names[0].Name + ">"
								}
								for _, v := range vs.Values {
									ast.Inspect(v, visit)
								}
							}
						}
					}
				}
			}
		}
	}
	enc := json.NewEncoder(os.Stdout)
	for i := range out {
		out[i].ID = i
		enc.Encode(out[i])
	}
	fmt.Fprintln(os.Stderr, len(out), "mutants")
}
